package main

import (
	"fmt"
	"go/token"
	"go/types"
	"strings"

	"golang.org/x/tools/go/ssa"
)

// IndexWalk describes a loop that walks a slice by index.
type IndexWalk struct {
	Loop      *GenericLoop
	Dir       string // "desc", "asc", "?"
	SlicePath string // canonical path of the indexed slice
	Field     *types.Var
	IndexAddr []*ssa.IndexAddr
}

// IndexWalks finds the loops of fn that index a slice with their induction variable and classifies the direction.
// Idioms: `for i := len(s)-1; i >= 0; i--` (desc), `for i := 0; i < n; i++` and `for i, x := range s` (asc).
func IndexWalks(fn *ssa.Function) []*IndexWalk {
	var out []*IndexWalk
	for _, l := range GenericLoops(fn) {
		for _, ins := range l.Header.Instrs {
			phi, ok := ins.(*ssa.Phi)
			if !ok {
				break
			}
			if b, ok := phi.Type().Underlying().(*types.Basic); !ok || b.Info()&types.IsInteger == 0 {
				continue
			}
			// index value used in IndexAddr: the phi itself (3-clause for) or phi+1 (rangeindex)
			cands := []ssa.Value{phi}
			dir := "?"
			if phi.Comment == "rangeindex" {
				for _, ref := range *phi.Referrers() {
					if bo, ok := ref.(*ssa.BinOp); ok && bo.Op == token.ADD {
						cands = []ssa.Value{bo}
						dir = "asc"
					}
				}
			} else {
				// init / step
				var init, step ssa.Value
				for i, e := range phi.Edges {
					if l.Header.Dominates(l.Header.Preds[i]) {
						step = e
					} else {
						init = e
					}
				}
				if bo, ok := step.(*ssa.BinOp); ok && bo.X == ssa.Value(phi) {
					if k, isK := constInt(bo.Y); isK {
						if (bo.Op == token.SUB && k > 0) || (bo.Op == token.ADD && k < 0) {
							dir = "desc"
						}
						if (bo.Op == token.ADD && k > 0) || (bo.Op == token.SUB && k < 0) {
							dir = "asc"
						}
					}
				}
				// sanity of init for desc: len(s)-1 ; asc: 0
				if dir == "desc" {
					okInit := false
					if bo, ok := init.(*ssa.BinOp); ok && bo.Op == token.SUB {
						if k, isK := constInt(bo.Y); isK && k == 1 {
							if call, ok := bo.X.(*ssa.Call); ok {
								if b, ok := call.Call.Value.(*ssa.Builtin); ok && b.Name() == "len" {
									okInit = true
								}
							}
						}
					}
					if !okInit {
						// countdown form: n := len(s); n > 0; n-- with s[n-1]
						if call, ok := init.(*ssa.Call); ok {
							if b, ok := call.Call.Value.(*ssa.Builtin); ok && b.Name() == "len" {
								okInit = true
								cands = nil
								for _, ref := range *phi.Referrers() {
									if bo, ok := ref.(*ssa.BinOp); ok && bo.Op == token.SUB && bo.X == ssa.Value(phi) {
										if k, isK := constInt(bo.Y); isK && k == 1 {
											cands = append(cands, bo)
										}
									}
								}
							}
						}
					}
					if !okInit {
						dir = "?"
					}
				}
				if dir == "asc" {
					if k, isK := constInt(init); !isK || k != 0 {
						dir = "?"
					}
				}
			}
			w := &IndexWalk{Loop: l, Dir: dir}
			for _, cv := range cands {
				if cv.Referrers() == nil {
					continue
				}
				for _, ref := range *cv.Referrers() {
					ia, ok := ref.(*ssa.IndexAddr)
					if !ok || ia.Index != cv {
						continue
					}
					w.IndexAddr = append(w.IndexAddr, ia)
					w.SlicePath = Path(ia.X)
					if u, ok := ia.X.(*ssa.UnOp); ok && u.Op == token.MUL {
						w.Field = fieldVarOf(u.X)
					}
				}
			}
			if len(w.IndexAddr) > 0 {
				out = append(out, w)
			}
		}
	}
	return out
}

// walkOver returns the index walks of fn over the given struct field.
func walksOverField(fn *ssa.Function, fv *types.Var) []*IndexWalk {
	var out []*IndexWalk
	for _, w := range IndexWalks(fn) {
		if w.Field == fv && fv != nil {
			out = append(out, w)
		}
	}
	return out
}

// ---------------------------------------------------------------- C01/layer-order

func ruleLayerOrder(c *Ctx, r *Reporter) {
	a := getStAnchors(c, r)
	if !a.ok {
		return
	}
	immF := c.Field("pkg/memtable", "MemTablePool", "immutables")
	activeF := c.Field("pkg/memtable", "MemTablePool", "active")
	mtGet := c.Func("pkg/memtable", "MemTable", "Get")
	if immF == nil || activeF == nil || mtGet == nil {
		r.Unresolved("memtable.MemTablePool.{immutables,active} / MemTable.Get", "not found")
		return
	}
	// (i) newest is last: every store to the precedence slices is append(field, x), a reset, or constructor code
	r.Rule("newest-is-last", 4)
	ctorOnly := c.CtorOnly()
	for _, fv := range []*types.Var{immF, a.sstables} {
		n := 0
		for _, fn := range c.KevoFns {
			AllInstrs(fn, false, func(_ *ssa.Function, ins ssa.Instruction) {
				st, ok := ins.(*ssa.Store)
				if !ok || fieldVarOf(st.Addr) != fv {
					return
				}
				n++
				name := FnName(fn) + ":store(" + fv.Name() + ")"
				if fa, ok := st.Addr.(*ssa.FieldAddr); ok {
					if _, lit := fa.X.(*ssa.Alloc); lit {
						r.OK(name, c.InsPos(ins), "composite-literal initialisation")
						return
					}
				}
				switch v := st.Val.(type) {
				case *ssa.Call:
					if b, ok := v.Call.Value.(*ssa.Builtin); ok && b.Name() == "append" && isLoadOfField(v.Call.Args[0], fv) {
						r.OK(name, c.InsPos(ins), "append(field, x): newest is last")
						return
					}
				case *ssa.Slice:
					if isLoadOfField(v.X, fv) && v.Low == nil {
						if k, ok := constInt(v.High); ok && k == 0 {
							r.OK(name, c.InsPos(ins), "reset to empty")
							return
						}
					}
				case *ssa.MakeSlice:
					r.OK(name, c.InsPos(ins), "reset to a fresh slice")
					return
				}
				if returnsFreshEmptySlice(st.Val) {
					r.OK(name, c.InsPos(ins), "reset to a fresh slice (made by a helper)")
					return
				}
				if ctorOnly[topParent(fn)] {
					r.OK(name, c.InsPos(ins), "constructor-only code")
					return
				}
				r.Bad(name, c.InsPos(ins), "the precedence slice is assigned in a way that is not append-at-the-end or reset: consumers treat the LAST element as the newest layer")
			})
		}
		if n == 0 {
			r.Undecided("store("+fv.Name()+")", "-", "no store to the precedence slice found")
		}
	}

	// (ii) layers leave the read path only towards the flush path: a function that resets MemTablePool.immutables must hand
	// the old slice to its caller, and every caller must pass it on to flushMemTable or to the manager's flush queue
	r.Rule("layers-leave-only-to-be-flushed", 1)
	for _, fn := range c.KevoFns {
		if ctorOnly[topParent(fn)] || fn.Parent() != nil {
			continue
		}
		var resets []*ssa.Store
		AllInstrs(fn, false, func(_ *ssa.Function, ins ssa.Instruction) {
			st, ok := ins.(*ssa.Store)
			if !ok || fieldVarOf(st.Addr) != immF {
				return
			}
			if fa, ok := st.Addr.(*ssa.FieldAddr); ok {
				if _, lit := fa.X.(*ssa.Alloc); lit {
					return
				}
			}
			switch v := st.Val.(type) {
			case *ssa.MakeSlice:
				resets = append(resets, st)
			case *ssa.Slice:
				if isLoadOfField(v.X, immF) {
					resets = append(resets, st)
				}
			case *ssa.Const:
				resets = append(resets, st)
			default:
				if returnsFreshEmptySlice(st.Val) {
					resets = append(resets, st)
				}
			}
		})
		if len(resets) == 0 {
			continue
		}
		name := FnName(fn)
		// hands the old slice over?
		hands := len(Returns(fn)) > 0
		for _, ret := range Returns(fn) {
			if len(ret.Results) != 1 || !isLoadOfField(resolveLoad(ReturnValue(ret, 0)), immF) {
				hands = false
			}
		}
		if !hands {
			live := false
			for _, e := range c.Callers(fn) {
				if c.InKevo(e.Caller.Func) {
					live = true
				}
			}
			r.Check(!live, name+":drops-layers", c.InsPos(resets[0]), "no live caller", "immutable memtables are removed from the read path without being handed to anyone: their data is unreadable until (unless) an SSTable holds it")
			continue
		}
		nCallers := 0
		for _, e := range c.Callers(fn) {
			if !c.InKevo(e.Caller.Func) || e.Site == nil {
				continue
			}
			nCallers++
			v, _ := e.Site.(ssa.Value)
			ok := v != nil && flowsToFlush(c, v, a, 0, map[ssa.Value]bool{})
			r.Check(ok, name+"<-"+FnName(topParent(e.Caller.Func)), c.InsPos(e.Site), "the memtables taken out of the pool are passed on to the flush path",
				"immutable memtables are taken out of the pool (and so out of the read path) and the result is not passed to flushMemTable or the flush queue: data that is in no SSTable yet becomes unreadable")
		}
		if nCallers == 0 {
			r.OK(name+":callers", c.FnPos(fn), "hands the old slice to its caller; no live caller (flushed memtables stay in the pool)")
		}
	}

	r.Rule("layer-order", 6)
	// MemTablePool.Get: active first, immutables descending, first hit returns
	checkLookup := func(fn *ssa.Function, firstSet FnSet, firstWhat string, fv *types.Var, hitIs func(ssa.Instruction) bool) {
		name := FnName(fn)
		walks := walksOverField(fn, fv)
		if len(walks) == 0 {
			r.Undecided(name+":walk("+fv.Name()+")", c.FnPos(fn), "no index walk over the precedence slice found (idiom not known to the rule)")
			return
		}
		for _, w := range walks {
			r.Check(w.Dir == "desc", name+":walk("+fv.Name()+")", c.blockPos(w.Loop.Header), "walks the slice from the last (newest) element down",
				"walks the precedence slice in direction '"+w.Dir+"' and returns on the first hit: an OLDER layer shadows a newer one (stale read / resurrected key)")
			// the newer layer is consulted before the loop
			ok := false
			for _, f := range c.CallsIn(fn, firstSet, false) {
				if !w.Loop.Contains(f.Block()) && f.Block().Dominates(w.Loop.Header) {
					ok = true
				}
			}
			r.Check(ok, name+":"+firstWhat+"-first", c.blockPos(w.Loop.Header), firstWhat+" is consulted before the older layers", firstWhat+" is not consulted before the walk over the older layers")
		}
	}
	pool := c.Func("pkg/memtable", "MemTablePool", "Get")
	checkLookup(pool, NewFnSet(mtGet), "active-table", immF, nil)
	for _, fn := range []*ssa.Function{a.get, a.isDeleted} {
		checkLookup(fn, NewFnSet(a.poolGet), "memtable-pool", a.sstables, nil)
	}
	// hits return: in the lookups, after a successful probe no older layer is consulted
	r.Rule("hit-returns", 3)
	probeFound := func(cond ssa.Value) (bool, bool) {
		// found flags: Extract #1 (bool) of a Get call
		if ex, ok := cond.(*ssa.Extract); ok && ex.Index == 1 {
			if call, ok := ex.Tuple.(*ssa.Call); ok && call.Call.StaticCallee() != nil && call.Call.StaticCallee().Name() == "Get" {
				return true, false
			}
		}
		return false, false
	}
	for _, fn := range []*ssa.Function{pool, a.get, a.isDeleted} {
		name := FnName(fn)
		okAll := true
		nProbe := 0
		for _, b := range fn.Blocks {
			if len(b.Instrs) == 0 {
				continue
			}
			iff, ok := b.Instrs[len(b.Instrs)-1].(*ssa.If)
			if !ok {
				continue
			}
			t, _ := withNot(probeFound)(iff.Cond)
			if !t {
				continue
			}
			nProbe++
			// from the found edge, no further probe (Get / NewIterator / Seek) is reachable
			succ := b.Succs[0]
			bad, _ := ReachBlock(succ, func(i ssa.Instruction) bool {
				call, ok := i.(*ssa.Call)
				if !ok {
					return false
				}
				n := calleeName(call.Common())
				return n == "Get" || n == "NewIterator" || n == "Seek"
			}, nil, nil)
			if bad != nil {
				okAll = false
				r.Bad(name+":fall-through-after-hit", c.InsPos(bad), "after a layer reported the key, an older layer is still consulted")
			}
		}
		if nProbe == 0 {
			r.Undecided(name+":hit", c.FnPos(fn), "no found-flag test of a layer probe")
		} else if okAll {
			r.OK(name+":hit", c.FnPos(fn), fmt.Sprintf("%d probe(s); a hit never falls through to an older layer", nProbe))
		}
	}
}

// ---------------------------------------------------------------- C01/tombstone-short-circuit

func ruleTombstoneShortCircuit(c *Ctx, r *Reporter) {
	a := getStAnchors(c, r)
	if !a.ok {
		return
	}
	r.Rule("tombstone-short-circuit", 3)
	errNF := c.Global("pkg/engine/storage", "ErrKeyNotFound")
	fn := a.get
	// memtable branch: found && val == nil → ErrKeyNotFound (never continues to SSTables)
	var poolCall *ssa.Call
	for _, s := range c.CallsIn(fn, NewFnSet(a.poolGet), false) {
		poolCall, _ = s.(*ssa.Call)
	}
	if poolCall == nil || errNF == nil {
		r.Unresolved("storage.Manager.Get:pool / storage.ErrKeyNotFound", "not found")
		return
	}
	valNil := func(cond ssa.Value) (bool, bool) {
		v, trueIsNonNil, ok := nilTest(cond)
		if !ok {
			return false, false
		}
		if ex, ok := v.(*ssa.Extract); ok && ex.Tuple == ssa.Value(poolCall) && ex.Index == 0 {
			return !trueIsNonNil, trueIsNonNil
		}
		return false, false
	}
	okMem := false
	for _, ret := range Returns(fn) {
		if returnsGlobalErr(ret, errNF) && GuardedBy(ret.Block(), valNil) {
			okMem = true
		}
	}
	r.Check(okMem, "storage.Manager.Get:memtable-deletion", c.InsPos(poolCall), "a deletion marker found in the memtables returns not-found at once", "a deletion marker found in the memtables does not end the lookup with not-found (an older SSTable value could resurface)")
	// SSTable branch: every return of iter.Value() is on the !IsTombstone edge of the same iterator
	for _, f := range []*ssa.Function{a.get} {
		n := 0
		ok := true
		for _, ret := range Returns(f) {
			v := ReturnValue(ret, 0)
			call, isCall := v.(*ssa.Call)
			if !isCall || calleeName(call.Common()) != "Value" {
				continue
			}
			n++
			recv := call.Call.Args
			var iter ssa.Value
			if call.Call.IsInvoke() {
				iter = call.Call.Value
			} else if len(recv) > 0 {
				iter = recv[0]
			}
			notTomb := func(cond ssa.Value) (bool, bool) {
				cl, ok := cond.(*ssa.Call)
				if !ok || calleeName(cl.Common()) != "IsTombstone" {
					return false, false
				}
				var it2 ssa.Value
				if cl.Call.IsInvoke() {
					it2 = cl.Call.Value
				} else if len(cl.Call.Args) > 0 {
					it2 = cl.Call.Args[0]
				}
				if it2 != iter {
					return false, false
				}
				return false, true
			}
			if !GuardedBy(ret.Block(), notTomb) {
				ok = false
				r.Bad(FnName(f)+":sstable-value", c.InsPos(ret), "an SSTable value is returned without the IsTombstone()==false edge of the same iterator dominating the return: a deleted key reads as present")
			}
			// and the key matched exactly
			keyEq := func(cond ssa.Value) (bool, bool) {
				cl, ok := cond.(*ssa.Call)
				if ok && staticName(cl) == "bytes.Equal" {
					return true, false
				}
				return false, false
			}
			if !GuardedBy(ret.Block(), keyEq) {
				ok = false
				r.Bad(FnName(f)+":sstable-exact-key", c.InsPos(ret), "an SSTable value is returned without the exact-key test (Seek lands on the first key >= target)")
			}
		}
		if n == 0 {
			r.Undecided(FnName(f)+":sstable-value", c.FnPos(f), "no return of an SSTable iterator value found")
		} else if ok {
			r.OK(FnName(f)+":sstable-value", c.FnPos(f), "values are returned only on the exact-key, not-a-tombstone edge; a tombstone returns not-found")
		}
	}
	// IsDeleted: the SSTable answer is IsTombstone() of the matching entry
	f := a.isDeleted
	okD := false
	for _, ret := range Returns(f) {
		v := ReturnValue(ret, 0)
		if call, ok := v.(*ssa.Call); ok && calleeName(call.Common()) == "IsTombstone" {
			okD = true
		}
	}
	r.Check(okD, "storage.Manager.IsDeleted:sstable", c.FnPos(f), "answers with IsTombstone() of the matching entry", "IsDeleted no longer answers with the tombstone flag of the matching SSTable entry")
}

// ---------------------------------------------------------------- C05/source-order

func ruleSourceOrder(c *Ctx, r *Reporter) {
	a := getStAnchors(c, r)
	if !a.ok {
		return
	}
	r.Rule("source-order", 4)
	immF := c.Field("pkg/memtable", "MemTablePool", "immutables")
	activeF := c.Field("pkg/memtable", "MemTablePool", "active")
	fn := a.poolGetTables
	// GetMemTables: first appended element is active; immutables appended in a descending walk
	firstActive := false
	var firstAppend ssa.Instruction
	AllInstrs(fn, false, func(_ *ssa.Function, ins ssa.Instruction) {
		call, ok := ins.(*ssa.Call)
		if !ok {
			return
		}
		if b, ok := call.Call.Value.(*ssa.Builtin); !ok || b.Name() != "append" {
			return
		}
		if firstAppend == nil || Dominates(ins, firstAppend) {
			firstAppend = ins
		}
	})
	if firstAppend != nil {
		call := firstAppend.(*ssa.Call)
		for _, e := range sliceLiteralElems(call.Call.Args[1]) {
			if isLoadOfField(e, activeF) {
				firstActive = true
			}
		}
	}
	r.Check(firstActive, "memtable.MemTablePool.GetMemTables:active-first", c.FnPos(fn), "the active table is the first source", "the active (newest) memtable is not the first element of the source list")
	walks := walksOverField(fn, immF)
	if len(walks) == 0 {
		// append(result, p.immutables...) keeps the stored (oldest-first) order
		spread := false
		AllInstrs(fn, false, func(_ *ssa.Function, ins ssa.Instruction) {
			if call, ok := ins.(*ssa.Call); ok {
				if b, ok := call.Call.Value.(*ssa.Builtin); ok && b.Name() == "append" && len(call.Call.Args) == 2 && isLoadOfField(call.Call.Args[1], immF) {
					spread = true
				}
			}
		})
		if spread {
			r.Bad("memtable.MemTablePool.GetMemTables:immutables", c.FnPos(fn), "the immutable tables are appended in stored order (oldest first) while the merge gives earlier sources precedence: an older immutable table shadows a newer one in scans")
		} else {
			r.Undecided("memtable.MemTablePool.GetMemTables:immutables", c.FnPos(fn), "no walk over the immutable tables found")
		}
	}
	for _, w := range walks {
		r.Check(w.Dir == "desc", "memtable.MemTablePool.GetMemTables:immutables", c.blockPos(w.Loop.Header), "immutables are listed newest first", "immutables are listed in direction '"+w.Dir+"': the merge gives earlier sources precedence, so an older table shadows a newer one")
	}
	// factory: memtable sources first (in the order given), then SSTables newest (last) first
	fac := c.Func("pkg/engine/iterator", "Factory", "createBaseIterator")
	if fac == nil {
		r.Unresolved("iterator.Factory.createBaseIterator", "not found")
		return
	}
	var memWalk, sstWalk *IndexWalk
	for _, w := range IndexWalks(fac) {
		if strings.Contains(w.SlicePath, fac.Params[1].Name()) {
			memWalk = w
		}
		if strings.Contains(w.SlicePath, fac.Params[2].Name()) {
			sstWalk = w
		}
	}
	if memWalk == nil || sstWalk == nil {
		r.Undecided("iterator.Factory.createBaseIterator", c.FnPos(fac), "walks over the memtable and SSTable lists not found")
		return
	}
	r.Check(memWalk.Dir == "asc", "iterator.Factory.createBaseIterator:memtables", c.blockPos(memWalk.Loop.Header), "memtable sources keep the newest-first order they are given in", "memtable sources are reversed relative to the newest-first list they are given")
	r.Check(sstWalk.Dir == "desc", "iterator.Factory.createBaseIterator:sstables", c.blockPos(sstWalk.Loop.Header), "SSTables are added from the last (newest) down", "SSTables are added oldest first: an older table's value wins over a newer one in scans")
	r.Check(memWalk.Loop.Header.Dominates(sstWalk.Loop.Header) && !sstWalk.Loop.Contains(memWalk.Loop.Header), "iterator.Factory.createBaseIterator:memtables-before-sstables", c.blockPos(sstWalk.Loop.Header),
		"memtable sources precede SSTable sources", "SSTable sources are added before memtable sources")
	// the list is handed to the hierarchical merge unchanged
	newHier := c.Func("pkg/common/iterator/composite", "", "NewHierarchicalIterator")
	r.Check(newHier != nil && len(c.CallsIn(fac, NewFnSet(newHier), false)) == 1, "iterator.Factory.createBaseIterator:merge", c.FnPos(fac), "sources are merged by the hierarchical (newest-first) iterator", "the source list is no longer merged by composite.NewHierarchicalIterator")
}

// flowsToFlush: the slice value reaches an argument of flushMemTable or a store into Manager.immutableMTs
// (through range/index/slicing/append/phi).
func flowsToFlush(c *Ctx, v ssa.Value, a *stAnchors, d int, seen map[ssa.Value]bool) bool {
	if d > 8 || v == nil || seen[v] || v.Referrers() == nil {
		return false
	}
	seen[v] = true
	for _, ref := range *v.Referrers() {
		switch x := ref.(type) {
		case *ssa.Call:
			if x.Call.StaticCallee() == a.flushMem {
				return true
			}
			if b, ok := x.Call.Value.(*ssa.Builtin); ok && b.Name() == "append" {
				if flowsToFlush(c, x, a, d+1, seen) {
					return true
				}
			}
		case *ssa.Store:
			if x.Val == v && fieldVarOf(x.Addr) == a.immutableMTs {
				return true
			}
			if x.Val == v {
				if al, ok := x.Addr.(*ssa.Alloc); ok {
					for _, r2 := range *al.Referrers() {
						if ld, ok := r2.(*ssa.UnOp); ok && ld.Op == token.MUL && flowsToFlush(c, ld, a, d+1, seen) {
							return true
						}
					}
				}
			}
		case *ssa.IndexAddr:
			if flowsToFlush(c, x, a, d+1, seen) {
				return true
			}
		case *ssa.UnOp:
			if x.Op == token.MUL && flowsToFlush(c, x, a, d+1, seen) {
				return true
			}
		case *ssa.Slice, *ssa.Phi, *ssa.Range, *ssa.Next, *ssa.Extract, *ssa.Index:
			if flowsToFlush(c, x.(ssa.Value), a, d+1, seen) {
				return true
			}
		}
	}
	return false
}

// returnsFreshEmptySlice: v is a call to a function of the analysed module whose every return is make(T, 0, ...).
func returnsFreshEmptySlice(v ssa.Value) bool {
	call, ok := v.(*ssa.Call)
	if !ok {
		return false
	}
	f := call.Call.StaticCallee()
	if f == nil || len(f.Blocks) == 0 {
		return false
	}
	n := 0
	for _, ret := range Returns(f) {
		if len(ret.Results) != 1 {
			return false
		}
		mk, ok := ret.Results[0].(*ssa.MakeSlice)
		if !ok {
			return false
		}
		if k, ok := constInt(mk.Len); !ok || k != 0 {
			return false
		}
		n++
	}
	return n > 0
}
