package main

import (
	"fmt"
	"go/token"
	"go/types"
	"sort"
	"strings"

	"golang.org/x/tools/go/ssa"
)

func init() {
	register(&PropertyDef{
		ID: "C14",
		Explanation: "Convergence within bounded time is a liveness statement about two running engines and is NOT decided. Decided are structural preconditions, each of which makes convergence impossible for a class of histories when it fails: " +
			"(1) observers follow the log — wherever the storage manager replaces its log object outside a constructor, the replacement must receive the observers of the old one before it is published, and no component outside the storage layer may stay bound for life to the log object that existed when it was constructed; " +
			"(2) observers see what was logged — in every live wal.Append* the entry (or entries) handed to the observers carry exactly the type, sequence number, key and value of the record(s) just written, and the notification only happens behind the record write; " +
			"(3) producer/consumer sequence contract — the successor relation the log producer emits inside one batch (derived from AppendBatch: loop-invariant sequence = 'same', start+i = '+1') must be accepted by the replica's apply loop (decision table of WALBatchApplier.ApplyEntries); the replication layer forwards the entry's sequence unchanged; " +
			"(4) session cursor units — positions meaning 'next expected' (WALStreamRequest.StartSequence, expectedNextSeq, MissingFromSequence) and positions meaning 'last applied/acknowledged' (LastAckSequence, AcknowledgedUpTo, maxAppliedSeq) are only assigned to each other with the ±1 adjustment; " +
			"(5) the catch-up reader serves the requested position: getWALEntriesFromSequence passes its argument through to WAL.GetEntriesFrom and returns a prefix of the result; resend/initial/poll senders send what it returned; " +
			"(6) the poll re-sends until acknowledged: in StreamWAL's ticker loop every iteration that finds the log ahead of the session's acknowledged position calls sendUpdatedEntries — no loop-local 'already sent' state may suppress the retransmission (pushed messages can be lost: the replica abandons receivers on timeout); (7) shared with C13: the replica's cursor discipline (a cursor advanced past an entry that was not applied makes the gap permanent). " +
			"(8) the 'nothing to send' exits of the catch-up reader are decided by the requested position and the log's own counter only; the replica does not lower its gRPC receive limit below the library default. " +
			"Added after blind round 5: GetEntriesFrom flushes the buffered writer (directly or through a helper) before it reads a log file; the replication entry codec agreement (shared with C13). " +
			"Added after blind round 6: the replica's receive functions have no failing exit decided by the size of the received payloads (the primary caps batches by entry count; a refused batch is re-sent and refused for ever); handleErrorState never parks: no plain channel receive, every exit besides cancellation passes SetState(StateConnecting). " +
			"Added after blind round 7: the replica's state loop returns only on the ctx.Done() arm; the catch-up poll sends the entries as read (no re-slicing before the emptiness test). " +
			"Added after blind round 8: connecting means dialing: every exit of Replica.connectToPrimary passes connector.Connect (a lifetime budget of failed dials that is never refilled stops the replica for ever); StateTracker.GetStateDuration finds the LATEST transition into the current state (newest-first and stop, or oldest-first without stopping) — the reconnect back-off is computed from it and this replica passes through ERROR after every batch. " +
			"Added after blind round 10: calculateBackoff asks the state tracker for the current state and the time in it and nothing cumulative (a lifetime count of failed dials slows every later catch-up step for good).",
		NotDecided: "convergence itself, time bounds, join/restart timing, the replica state machine's liveness, retention racing with a slow replica.",
		Rules:      []func(*Ctx, *Reporter){ruleC14ObserversFollow, ruleC14ObserversSee, ruleC14SeqContract, ruleC14CursorUnits, ruleC14CatchUp, ruleC14PollRetransmits, ruleReplCursor, ruleCatchUpGuard, ruleNoReceiveLimit, ruleCatchUpFlushesFirst, ruleReplEntryCodec, ruleReplicaAcceptsWhatIsSent, ruleErrorStateRetries, ruleReplicationLoopNeverGivesUp, rulePollSendsWhatItRead, ruleConnectAlwaysDials, ruleStateDurationSinceLatestEntry, ruleSenderSendsWhatIsInTheLog, ruleEveryStateChangeIsRecorded, ruleBackoffFromCurrentEpisodeOnly},
	})
}

// ---------------------------------------------------------------- (1) observers follow the log

func ruleC14ObserversFollow(c *Ctx, r *Reporter) {
	r.Rule("observers-follow-the-log", 2)
	a := getStAnchors(c, r)
	if !a.ok || a.w.observers == nil {
		if a.ok {
			r.Unresolved("wal.WAL.observers", "field not found")
		}
		return
	}
	// functions that write a WAL's observer set
	direct := FnSet{}
	for _, fn := range c.KevoFns {
		AllInstrs(fn, false, func(_ *ssa.Function, ins ssa.Instruction) {
			switch x := ins.(type) {
			case *ssa.MapUpdate:
				if isLoadOfField(x.Map, a.w.observers) {
					direct[topParent(fn)] = true
				}
			case *ssa.Store:
				if fa, ok := x.Addr.(*ssa.FieldAddr); ok && fieldVarOf(fa) == a.w.observers && !strings.HasPrefix(topParent(fn).Name(), "NewWAL") && topParent(fn).Name() != "ReuseWAL" {
					direct[topParent(fn)] = true
				}
			}
		})
	}
	writers := c.ReachSet(direct, true)
	ctor := c.CtorOnly()
	// every non-constructor function that publishes a new log object
	n := 0
	for _, fn := range c.KevoFns {
		if fn.Parent() != nil || pkgOf(fn) != "pkg/engine/storage" || strings.HasPrefix(fn.Name(), "New") || ctor[fn] {
			continue // constructors and functions only reachable from them: nobody can have registered yet
		}
		for _, pub := range walPublications(c, a, fn) {
			newWAL := publishedValue(pub)
			if isNilConst(newWAL) {
				continue
			}
			n++
			carried := false
			AllInstrs(fn, false, func(_ *ssa.Function, ins ssa.Instruction) {
				call, ok := ins.(*ssa.Call)
				if !ok {
					return
				}
				touches := false
				for _, arg := range call.Call.Args {
					if sameValue(arg, newWAL) {
						touches = true
					}
				}
				if !touches {
					return
				}
				for _, cal := range c.Callees(call) {
					if writers[cal] && Dominates(ins, pub) {
						carried = true
					}
				}
			})
			r.Check(carried, FnName(fn)+":observers-carried-over", c.InsPos(pub),
				"the new log receives the old log's observers before it is published",
				"a freshly constructed WAL (no observers) becomes the current log: whoever observed the old log — the replication primary — is never told about any later write (nothing is pushed after the first flush)")
		}
	}
	if n == 0 {
		r.Undecided("storage.Manager:wal-publication", "", "no non-constructor publication of a log object found")
	}
	// holders of a *wal.WAL outside pkg/wal and the storage layer
	holders := 0
	var kpkgs []*ssa.Package
	for path, p := range c.SSAPkg {
		if strings.HasPrefix(path, modPath) {
			kpkgs = append(kpkgs, p)
		}
	}
	sort.Slice(kpkgs, func(i, j int) bool { return kpkgs[i].Pkg.Path() < kpkgs[j].Pkg.Path() })
	for _, p := range kpkgs {
		short := strings.TrimPrefix(strings.TrimPrefix(p.Pkg.Path(), modPath), "/")
		if short == "pkg/wal" || short == "pkg/engine/storage" {
			continue
		}
		scope := p.Pkg.Scope()
		for _, name := range scope.Names() {
			tn, ok := scope.Lookup(name).(*types.TypeName)
			if !ok {
				continue
			}
			st, ok := tn.Type().Underlying().(*types.Struct)
			if !ok {
				continue
			}
			for i := 0; i < st.NumFields(); i++ {
				f := st.Field(i)
				pt, ok := f.Type().(*types.Pointer)
				if !ok {
					continue
				}
				nt, ok := pt.Elem().(*types.Named)
				if !ok || nt != a.w.wal {
					continue
				}
				holders++
				// stores to the field outside constructors?
				rebinds := []string{}
				for _, fn := range c.KevoFns {
					AllInstrs(fn, false, func(_ *ssa.Function, ins ssa.Instruction) {
						st, ok := ins.(*ssa.Store)
						if !ok {
							return
						}
						if fa, ok := st.Addr.(*ssa.FieldAddr); ok && fieldVarOf(fa) == f && !strings.HasPrefix(topParent(fn).Name(), "New") {
							rebinds = append(rebinds, FnName(topParent(fn)))
						}
					})
				}
				cons := p.Pkg.Name() + "." + name + "." + f.Name() + ":bound-at-construction"
				r.Check(len(rebinds) > 0 || n == 0, cons, c.Pos(f.Pos()),
					"the field is re-bound outside the constructor ("+strings.Join(rebinds, ", ")+")",
					"the component keeps the *wal.WAL it was constructed with, while the storage manager replaces (and closes) its log object at every flush: after the first rotation it polls a closed log (GetEntriesFrom fails, GetNextSequence is frozen) and observes nothing")
			}
		}
	}
	if holders == 0 {
		r.Info("holders-of-*wal.WAL", "", "no component outside the storage layer keeps a *wal.WAL")
	}
}

// ---------------------------------------------------------------- (2) observers see what was logged

func ruleC14ObserversSee(c *Ctx, r *Reporter) {
	r.Rule("observers-see-what-was-logged", 4)
	w := getWalAnchors(c, r)
	if !w.ok {
		return
	}
	notifyE := c.Func("pkg/wal", "WAL", "notifyEntryObservers")
	notifyB := c.Func("pkg/wal", "WAL", "notifyBatchObservers")
	entrySeq := c.Field("pkg/wal", "Entry", "SequenceNumber")
	if notifyE == nil || notifyB == nil || entrySeq == nil || w.writeFrag == nil {
		r.Unresolved("wal.WAL.notifyEntryObservers / notifyBatchObservers / writeFragmentedRecord / Entry.SequenceNumber", "not found")
		return
	}
	type recArgs struct{ typ, seq, key, val ssa.Value }
	recordOf := func(call *ssa.Call) (recArgs, bool) {
		switch call.Call.StaticCallee() {
		case w.writeRecord: // (w, recordType, entryType, seq, key, value)
			return recArgs{call.Call.Args[2], call.Call.Args[3], call.Call.Args[4], call.Call.Args[5]}, true
		case w.writeFrag: // (w, entryType, seq, key, value)
			return recArgs{call.Call.Args[1], call.Call.Args[2], call.Call.Args[3], call.Call.Args[4]}, true
		}
		return recArgs{}, false
	}
	for _, fn := range c.KevoFns {
		if fn.Parent() != nil || pkgOf(fn) != "pkg/wal" {
			continue
		}
		var notes []*ssa.Call
		var recs []*ssa.Call
		AllInstrs(fn, false, func(_ *ssa.Function, ins ssa.Instruction) {
			if call, ok := ins.(*ssa.Call); ok {
				switch call.Call.StaticCallee() {
				case notifyE, notifyB:
					notes = append(notes, call)
				case w.writeRecord, w.writeFrag:
					recs = append(recs, call)
				}
			}
		})
		if len(notes) == 0 {
			continue
		}
		name := FnName(fn)
		if len(recs) == 0 {
			live := false
			for _, e := range c.Callers(fn) {
				if c.InKevo(e.Caller.Func) {
					live = true
				}
			}
			if live {
				r.Bad(name+":notifies-without-record", c.InsPos(notes[0]), "observers are notified by a live function in which no writeRecord/writeFragmentedRecord call was found: what they are told cannot be matched with what was logged")
			} else {
				r.Info(name+":notifies-without-record", c.InsPos(notes[0]), "no live caller; the notification carries a synthetic entry")
			}
			continue
		}
		for i, note := range notes {
			cons := fmt.Sprintf("%s:notify#%d", name, i)
			// behind the write: no path from entry to the notification avoiding every record write. For a batch the records
			// are written in a loop that may run zero times (empty batch: nothing written, nothing to tell): there the loop
			// must be complete before the notification and every iteration that continues must have written its record.
			if note.Call.StaticCallee() == notifyB {
				okLoop := false
				for _, rc := range recs {
					for _, l := range GenericLoops(fn) {
						if !l.Contains(rc.Block()) {
							continue
						}
						done := false
						for _, ex := range loopExits(l) {
							if ex == note.Block() || ex.Dominates(note.Block()) {
								done = true
							}
						}
						rc := rc
						var body *ssa.BasicBlock
						for _, sb := range l.Header.Succs {
							if l.Contains(sb) {
								body = sb
							}
						}
						if !done || body == nil {
							continue
						}
						hit, _ := ReachBlock(body, func(x ssa.Instruction) bool { return x.Block() == l.Header }, func(x ssa.Instruction) bool { return x == ssa.Instruction(rc) || !l.Contains(x.Block()) }, nil)
						if hit == nil {
							okLoop = true
						}
					}
				}
				if !okLoop {
					r.Bad(cons, c.InsPos(note), "the batch notification is not placed behind a completed loop in which every iteration writes its record")
					continue
				}
			} else if hit, path := Reach(fn, nil, func(x ssa.Instruction) bool { return x == ssa.Instruction(note) }, func(x ssa.Instruction) bool {
				for _, rc := range recs {
					if x == ssa.Instruction(rc) {
						return true
					}
				}
				return false
			}); hit != nil {
				r.Bad(cons, c.InsPos(note), "observers can be notified on a path that wrote no record", c.PathString(path)...)
				continue
			}
			if note.Call.StaticCallee() == notifyE {
				// entry literal: fields == record arguments (of every record write: the arms write the same entry)
				al, ok := note.Call.Args[1].(*ssa.Alloc)
				if !ok {
					r.Bad(cons, c.InsPos(note), "the entry handed to the observers is not a fresh literal: "+Path(note.Call.Args[1]))
					continue
				}
				fields := map[string]ssa.Value{}
				for _, ref := range *al.Referrers() {
					fa, ok := ref.(*ssa.FieldAddr)
					if !ok || fa.Referrers() == nil {
						continue
					}
					for _, rr := range *fa.Referrers() {
						if st, ok := rr.(*ssa.Store); ok && st.Addr == ssa.Value(fa) {
							fields[fieldName(fa)] = st.Val
						}
					}
				}
				var bad []string
				for _, rc := range recs {
					ra, _ := recordOf(rc)
					for _, p := range []struct {
						n string
						v ssa.Value
					}{{"Type", ra.typ}, {"SequenceNumber", ra.seq}, {"Key", ra.key}, {"Value", ra.val}} {
						if fv, ok := fields[p.n]; !ok || !sameValue(fv, p.v) {
							bad = append(bad, fmt.Sprintf("%s: observers get %s, the record got %s", p.n, Path(fields[p.n]), Path(p.v)))
						}
					}
				}
				sort.Strings(bad)
				r.Check(len(bad) == 0, cons, c.InsPos(note), "the entry literal carries the type, sequence, key and value of the record written",
					"the entry handed to the observers differs from the record written: "+strings.Join(bad, "; "))
				continue
			}
			// batch: notify(w, start, entries)
			start, ents := note.Call.Args[1], note.Call.Args[2]
			var bad []string
			okOne := false
			for _, rc := range recs {
				ra, _ := recordOf(rc)
				var loop *GenericLoop
				for _, l := range GenericLoops(fn) {
					if l.Contains(rc.Block()) {
						loop = l
					}
				}
				if loop == nil {
					bad = append(bad, "record write outside a loop")
					continue
				}
				if !sameValue(ra.seq, start) {
					bad = append(bad, "the batch's start sequence told to the observers is not the sequence of the records ("+Path(start)+" vs "+Path(ra.seq)+")")
				}
				// element of the notified slice
				elemOf := func(v ssa.Value, field string) bool { // v == entries[idx].field
					ld, ok := v.(*ssa.UnOp)
					if !ok || ld.Op != token.MUL {
						return false
					}
					fa, ok := ld.X.(*ssa.FieldAddr)
					if !ok || fieldName(fa) != field {
						return false
					}
					return isElemOf(fa.X, ents, loop)
				}
				for _, p := range []struct {
					n string
					v ssa.Value
				}{{"Type", ra.typ}, {"Key", ra.key}, {"Value", ra.val}} {
					if !elemOf(p.v, p.n) {
						bad = append(bad, p.n+" of the record is not the "+p.n+" of the notified element ("+Path(p.v)+")")
					}
				}
				// the element's SequenceNumber is stamped with the record's sequence inside the same loop, before the loop can end
				stamped := false
				for _, b := range fn.Blocks {
					if !loop.Contains(b) {
						continue
					}
					for _, ins := range b.Instrs {
						st, ok := ins.(*ssa.Store)
						if !ok {
							continue
						}
						fa, ok := st.Addr.(*ssa.FieldAddr)
						if !ok || fieldVarOf(fa) != entrySeq || !isElemOf(fa.X, ents, loop) {
							continue
						}
						if sameValue(st.Val, ra.seq) && (Dominates(st, rc) || Dominates(rc, st)) {
							stamped = true
						}
					}
				}
				if !stamped {
					bad = append(bad, "the notified elements do not receive the record's sequence number (Entry.SequenceNumber stays whatever the caller left there)")
				}
				okOne = true
			}
			sort.Strings(bad)
			r.Check(okOne && len(bad) == 0, cons, c.InsPos(note), "every notified element carries the sequence stamped on its record; type, key and value are the element's own",
				"the batch handed to the observers differs from the records written: "+strings.Join(bad, "; "))
		}
	}
}

// isElemOf: v is entries[idx] (a load of an IndexAddr of the slice) with idx the loop's index.
func isElemOf(v ssa.Value, slice ssa.Value, loop *GenericLoop) bool {
	ld, ok := v.(*ssa.UnOp)
	if !ok || ld.Op != token.MUL {
		return false
	}
	ia, ok := ld.X.(*ssa.IndexAddr)
	if !ok || !sameValue(ia.X, slice) {
		return false
	}
	return isLoopIndex(ia.Index, loop)
}

// ---------------------------------------------------------------- (3) producer / consumer sequence contract

func ruleC14SeqContract(c *Ctx, r *Reporter) {
	r.Rule("producer-consumer-sequence-contract", 2)
	w := getWalAnchors(c, r)
	apply := c.Func("pkg/replication", "WALBatchApplier", "ApplyEntries")
	toProto := c.Func("pkg/replication", "", "WALEntryToProto")
	if !w.ok || apply == nil || toProto == nil {
		if w.ok {
			r.Unresolved("replication.WALBatchApplier.ApplyEntries / WALEntryToProto", "not found")
		}
		return
	}
	// forwarder: proto.SequenceNumber = entry.SequenceNumber
	fwd := false
	AllInstrs(toProto, false, func(_ *ssa.Function, ins ssa.Instruction) {
		st, ok := ins.(*ssa.Store)
		if !ok {
			return
		}
		fa, ok := st.Addr.(*ssa.FieldAddr)
		if !ok || fieldName(fa) != "SequenceNumber" {
			return
		}
		if ld, ok := st.Val.(*ssa.UnOp); ok && ld.Op == token.MUL {
			if fa2, ok := ld.X.(*ssa.FieldAddr); ok && fieldName(fa2) == "SequenceNumber" && fa2.X == ssa.Value(toProto.Params[0]) {
				fwd = true
			}
		}
	})
	r.Check(fwd, "replication.WALEntryToProto:forwards-sequence", c.FnPos(toProto), "the wire entry carries the log entry's sequence number unchanged", "the wire entry's SequenceNumber is not the log entry's")
	// consumer table
	var applies []*ssa.Call
	AllInstrs(apply, false, func(_ *ssa.Function, ins ssa.Instruction) {
		if call, ok := ins.(*ssa.Call); ok && len(apply.Params) >= 3 && call.Call.Value == ssa.Value(apply.Params[2]) {
			applies = append(applies, call)
		}
	})
	var loop *GenericLoop
	if len(applies) > 0 {
		for _, l := range GenericLoops(apply) {
			if l.Contains(applies[0].Block()) && (loop == nil || loop.Contains(l.Header)) {
				loop = l
			}
		}
	}
	if loop == nil {
		r.Undecided("replication.WALBatchApplier.ApplyEntries:table", c.FnPos(apply), "apply loop not found")
		return
	}
	tab := applyLoopTable(apply, loop, apply.Params[1], applies)
	// producers: batch writers whose records are written in a loop
	for _, fn := range w.appendFns {
		var recs []*ssa.Call
		AllInstrs(fn, false, func(_ *ssa.Function, ins ssa.Instruction) {
			if call, ok := ins.(*ssa.Call); ok && call.Call.StaticCallee() == w.writeRecord {
				recs = append(recs, call)
			}
		})
		for _, rc := range recs {
			var l *GenericLoop
			for _, g := range GenericLoops(fn) {
				if g.Contains(rc.Block()) {
					l = g
				}
			}
			if l == nil {
				continue
			}
			live := false
			for _, e := range c.Callers(fn) {
				if c.InKevo(e.Caller.Func) {
					live = true
				}
			}
			seq := rc.Call.Args[3]
			rel := ""
			switch {
			case !definedIn(seq, l):
				rel = "d+0" // loop-invariant: all records of a batch share one number
			default:
				if add, ok := seq.(*ssa.BinOp); ok && add.Op == token.ADD && !definedIn(add.X, l) && isLoopIndex(stripNumConv(add.Y), l) {
					rel = "d+1"
				}
			}
			cons := FnName(fn) + "~replication.WALBatchApplier.ApplyEntries:successor-inside-a-batch"
			if rel == "" {
				r.Undecided(cons, c.InsPos(rc), "cannot classify the sequence of consecutive records of a batch: "+Path(seq))
				continue
			}
			if !live {
				r.Info(cons, c.InsPos(rc), "producer has no live caller")
				continue
			}
			got := tab[rel]
			desc := map[string]string{"d+0": "the same sequence number as its predecessor", "d+1": "its predecessor's sequence number + 1"}[rel]
			r.Check(got == "applied", cons, c.InsPos(rc),
				"inside a batch the log gives a record "+desc+"; the replica's apply loop accepts that",
				"inside a batch the log gives a record "+desc+", and the replica's apply loop answers '"+got+"' to exactly that: a committed transaction of two or more operations can never be applied, and because the retransmission serves the same entries again the replica stops for good at that point")
		}
	}
}

func definedIn(v ssa.Value, l *GenericLoop) bool {
	ins, ok := v.(ssa.Instruction)
	if !ok {
		return false
	}
	return ins.Block() != nil && l.Contains(ins.Block())
}

// ---------------------------------------------------------------- (4) cursor units

// Units of the sequence positions exchanged between replica and primary: "next" = the next sequence expected,
// "last" = the last sequence applied/acknowledged. Confirmed by reading each producer and consumer:
//
//	next: WALBatchApplier.expectedNextSeq; WALStreamRequest.StartSequence (replica fills it from GetExpectedNext());
//	      ReplicaSession.StartSequence (sendInitialEntries reads from it inclusively); Nack.MissingFromSequence
//	last: WALBatchApplier.maxAppliedSeq / lastAckSeq; Ack.AcknowledgedUpTo; ReplicaSession.LastAckSequence
//	      (sendUpdatedEntries reads from LastAckSequence+1); Replica.lastAppliedSeq
var seqUnits = map[string]string{
	"WALBatchApplier.expectedNextSeq": "next",
	"WALStreamRequest.StartSequence":  "next",
	"ReplicaSession.StartSequence":    "next",
	"Nack.MissingFromSequence":        "next",
	"WALBatchApplier.maxAppliedSeq":   "last",
	"WALBatchApplier.lastAckSeq":      "last",
	"Ack.AcknowledgedUpTo":            "last",
	"ReplicaSession.LastAckSequence":  "last",
	"Replica.lastAppliedSeq":          "last",
}

func unitKey(fa *ssa.FieldAddr) string {
	t := fa.X.Type()
	if p, ok := t.Underlying().(*types.Pointer); ok {
		t = p.Elem()
	}
	n, ok := t.(*types.Named)
	if !ok {
		return ""
	}
	return n.Obj().Name() + "." + fieldName(fa)
}

// unitOf: the unit of a value, following loads of unit-carrying fields, getters that return them, and ±1.
func unitOf(c *Ctx, v ssa.Value, d int) string {
	if d > 6 {
		return ""
	}
	flip := map[string]string{"next": "last", "last": "next"}
	switch x := v.(type) {
	case *ssa.UnOp:
		if x.Op == token.MUL {
			if fa, ok := x.X.(*ssa.FieldAddr); ok {
				return seqUnits[unitKey(fa)]
			}
			if al, ok := x.X.(*ssa.Alloc); ok {
				if sv := singleStore(al); sv != nil {
					return unitOf(c, sv, d+1)
				}
			}
		}
	case *ssa.BinOp:
		if k, ok := constInt(x.Y); ok && k == 1 {
			u := unitOf(c, x.X, d+1)
			if u == "" {
				return ""
			}
			switch {
			case x.Op == token.ADD && u == "last":
				return "next"
			case x.Op == token.SUB && u == "next":
				return "last"
			case x.Op == token.ADD || x.Op == token.SUB:
				return "off-by-one(" + flip[flip[u]] + ")"
			}
		}
	case *ssa.Call:
		// getters of the cursor API / generated proto getters
		if f := x.Call.StaticCallee(); f != nil && len(f.Blocks) > 0 && len(f.Blocks) <= 4 {
			u := ""
			for _, ret := range Returns(f) {
				if len(ret.Results) != 1 {
					return ""
				}
				ru := unitOf(c, ReturnValue(ret, 0), d+1)
				if k, isK := constInt(ReturnValue(ret, 0)); isK && k == 0 {
					continue // nil-receiver arm of generated getters
				}
				if u != "" && ru != u {
					return ""
				}
				u = ru
			}
			return u
		}
	case *ssa.Phi:
		u := ""
		for _, e := range x.Edges {
			eu := unitOf(c, e, d+1)
			if eu == "" {
				continue
			}
			if u != "" && eu != u {
				return "mixed"
			}
			u = eu
		}
		return u
	}
	return ""
}

func ruleC14CursorUnits(c *Ctx, r *Reporter) {
	r.Rule("session-cursor-units", 6)
	for _, fn := range c.KevoFns {
		if pkgOf(fn) != "pkg/replication" {
			continue
		}
		idx := map[string]int{}
		AllInstrs(fn, false, func(_ *ssa.Function, ins ssa.Instruction) {
			st, ok := ins.(*ssa.Store)
			if !ok {
				return
			}
			fa, ok := st.Addr.(*ssa.FieldAddr)
			if !ok {
				return
			}
			key := unitKey(fa)
			want := seqUnits[key]
			if want == "" {
				return
			}
			got := unitOf(c, st.Val, 0)
			cons := fmt.Sprintf("%s:%s#%d", FnName(topParent(fn)), key, idx[key])
			idx[key]++
			switch {
			case got == "":
				r.Info(cons, c.InsPos(st), "assigned from a value without a known unit ("+Path(st.Val)+")")
			case got == want:
				r.OK(cons, c.InsPos(st), "'"+want+"' position assigned from a '"+got+"' position")
			default:
				r.Bad(cons, c.InsPos(st), fmt.Sprintf("a '%s' position (%s) is assigned from a '%s' position (%s) without the ±1 adjustment: the sender's cursor is off by one — the entry at exactly that position is neither part of the catch-up read nor of the polled tail", want, key, got, Path(st.Val)))
			}
		})
	}
}

// ---------------------------------------------------------------- (5) catch-up reader

func ruleC14CatchUp(c *Ctx, r *Reporter) {
	r.Rule("catch-up-serves-the-requested-position", 4)
	get := c.Func("pkg/replication", "Primary", "getWALEntriesFromSequence")
	from := c.Func("pkg/wal", "WAL", "GetEntriesFrom")
	if get == nil || from == nil {
		r.Unresolved("replication.Primary.getWALEntriesFromSequence / wal.WAL.GetEntriesFrom", "not found")
		return
	}
	// the argument is passed through
	var call *ssa.Call
	AllInstrs(get, false, func(_ *ssa.Function, ins ssa.Instruction) {
		if cl, ok := ins.(*ssa.Call); ok && cl.Call.StaticCallee() == from {
			call = cl
		}
	})
	if call == nil {
		r.Bad(FnName(get)+":reads-the-log", c.FnPos(get), "the catch-up reader no longer reads the log with GetEntriesFrom")
		return
	}
	r.Check(sameValue(call.Call.Args[1], get.Params[1]), FnName(get)+":passes-position", c.InsPos(call), "GetEntriesFrom receives the requested position unchanged",
		"GetEntriesFrom is asked for another position than the one requested ("+Path(call.Call.Args[1])+")")
	// what is returned on the non-error path is the result or a prefix (slice with Low == nil/0) of it
	res := ssa.Value(nil)
	if call.Referrers() != nil {
		for _, ref := range *call.Referrers() {
			if ex, ok := ref.(*ssa.Extract); ok && ex.Index == 0 {
				res = ex
			}
		}
	}
	okRet, nRet := true, 0
	for _, ret := range Returns(get) {
		if ClassifyReturn(ret) == ExitFailure {
			continue
		}
		v := ReturnValue(ret, 0)
		if !Dominates(call, ret) {
			continue // early "nothing to send yet" exits
		}
		nRet++
		if !prefixOf(v, res, 0) {
			okRet = false
		}
	}
	r.Check(okRet && nRet > 0, FnName(get)+":returns-a-prefix", c.FnPos(get), "the entries returned are the log's answer or a prefix of it (the 100-entry cap)", "the entries returned are not a prefix of what the log answered: a capped batch must start at the requested position")
	// senders: what they read is what they send, from the position they were asked for
	for _, t := range []struct {
		fn   string
		want func(v ssa.Value, fn *ssa.Function) bool
		desc string
	}{
		{"resendEntries", func(v ssa.Value, fn *ssa.Function) bool { return len(fn.Params) >= 3 && sameValue(v, fn.Params[2]) }, "the position the replica reported missing"},
		{"sendInitialEntries", func(v ssa.Value, fn *ssa.Function) bool { return unitOfField(v) == "ReplicaSession.StartSequence" }, "session.StartSequence"},
		{"sendUpdatedEntries", func(v ssa.Value, fn *ssa.Function) bool {
			add, ok := v.(*ssa.BinOp)
			if !ok || add.Op != token.ADD {
				return false
			}
			k, isK := constInt(add.Y)
			return isK && k == 1 && unitOfField(add.X) == "ReplicaSession.LastAckSequence"
		}, "session.LastAckSequence + 1"},
	} {
		fn := c.Func("pkg/replication", "Primary", t.fn)
		if fn == nil {
			r.Unresolved("replication.Primary."+t.fn, "not found")
			continue
		}
		var rd *ssa.Call
		AllInstrs(fn, false, func(_ *ssa.Function, ins ssa.Instruction) {
			if cl, ok := ins.(*ssa.Call); ok && cl.Call.StaticCallee() == get {
				rd = cl
			}
		})
		if rd == nil {
			r.Bad(FnName(fn)+":reads-from", c.FnPos(fn), "the sender no longer reads the log through getWALEntriesFromSequence")
			continue
		}
		r.Check(t.want(rd.Call.Args[1], fn), FnName(fn)+":reads-from", c.InsPos(rd), "reads the log from "+t.desc, "reads the log from "+Path(rd.Call.Args[1])+" instead of "+t.desc)
	}
}

func unitOfField(v ssa.Value) string {
	if ld, ok := v.(*ssa.UnOp); ok && ld.Op == token.MUL {
		if fa, ok := ld.X.(*ssa.FieldAddr); ok {
			return unitKey(fa)
		}
	}
	return ""
}

// prefixOf: v is base, or base[:k] / base[0:k], possibly through a phi of such values.
func prefixOf(v, base ssa.Value, d int) bool {
	if d > 4 || v == nil || base == nil {
		return false
	}
	if sameValue(v, base) {
		return true
	}
	switch x := v.(type) {
	case *ssa.Slice:
		if x.Low != nil {
			if k, ok := constInt(x.Low); !ok || k != 0 {
				return false
			}
		}
		return prefixOf(x.X, base, d+1)
	case *ssa.Phi:
		for _, e := range x.Edges {
			if !prefixOf(e, base, d+1) {
				return false
			}
		}
		return true
	}
	return false
}

// ---------------------------------------------------------------- (6) the poll re-sends until acknowledged

func ruleC14PollRetransmits(c *Ctx, r *Reporter) {
	r.Rule("poll-retransmits-until-acknowledged", 1)
	fn := c.Func("pkg/replication", "Primary", "StreamWAL")
	send := c.Func("pkg/replication", "Primary", "sendUpdatedEntries")
	if fn == nil || send == nil {
		r.Unresolved("replication.Primary.StreamWAL / sendUpdatedEntries", "not found")
		return
	}
	var call *ssa.Call
	AllInstrs(fn, false, func(_ *ssa.Function, ins ssa.Instruction) {
		if cl, ok := ins.(*ssa.Call); ok && cl.Call.StaticCallee() == send {
			call = cl
		}
	})
	cons := "replication.Primary.StreamWAL:ticker"
	if call == nil {
		r.Bad(cons, c.FnPos(fn), "the stream loop no longer polls the log (no call of sendUpdatedEntries): a lost push is never repaired")
		return
	}
	var loop *GenericLoop
	for _, l := range GenericLoops(fn) {
		if l.Contains(call.Block()) && (loop == nil || loop.Contains(l.Header)) {
			loop = l
		}
	}
	if loop == nil {
		r.Bad(cons, c.InsPos(call), "sendUpdatedEntries is not called from a loop: the catch-up runs once")
		return
	}
	// the test "log ahead of the acknowledged position"
	var test *ssa.If
	trueSucc := 0
	for _, b := range fn.Blocks {
		if !loop.Contains(b) || len(b.Instrs) == 0 {
			continue
		}
		iff, ok := b.Instrs[len(b.Instrs)-1].(*ssa.If)
		if !ok {
			continue
		}
		bo, ok := iff.Cond.(*ssa.BinOp)
		if !ok {
			continue
		}
		isAck := func(v ssa.Value) bool { return unitOfField(v) == "ReplicaSession.LastAckSequence" }
		switch {
		case bo.Op == token.GTR && isAck(bo.Y), bo.Op == token.LSS && isAck(bo.X):
			test, trueSucc = iff, 0
		case bo.Op == token.LEQ && isAck(bo.Y), bo.Op == token.GEQ && isAck(bo.X):
			test, trueSucc = iff, 1
		}
	}
	if test == nil {
		r.Bad(cons, c.InsPos(call), "the poll is not governed by a comparison of the log position with session.LastAckSequence")
		return
	}
	start := test.Block().Succs[trueSucc]
	hit, path := ReachBlock(start, func(x ssa.Instruction) bool { return x.Block() == loop.Header && x == loop.Header.Instrs[0] },
		func(x ssa.Instruction) bool { return x == ssa.Instruction(call) || !loop.Contains(x.Block()) }, nil)
	r.Check(hit == nil, cons, c.InsPos(test), "whenever the log is ahead of the acknowledged position the iteration calls sendUpdatedEntries",
		"an iteration that finds the log ahead of the session's acknowledged position can skip sendUpdatedEntries: retransmission no longer continues until the replica acknowledges, so a pushed batch the replica lost (abandoned receiver) is never sent again", c.PathString(path)...)
}
