package main

import (
	"fmt"
	"go/token"
	"go/types"
	"sort"
	"strings"

	"golang.org/x/tools/go/ssa"
)

func init() {
	register(&PropertyDef{
		ID: "C19",
		Explanation: "Response equivalence for all request sequences is NOT decided. Decided is the wiring that equivalence rests on: " +
			"(1) delegation table — the RPC set is enumerated from the generated KevoServiceServer interface; every handler reaches the engine/transaction/registry operations its row requires, reaches no mutating operation outside its row, and passes the request's own key/value fields in the right positions; a new RPC without a row is reported; " +
			"(2) limits before effects — the constructor installs the documented limits (4096, 10 MiB, 1000) and in every handler that takes a key/value/batch no data operation is reachable unless len(key) != 0, len(key) <= maxKeySize and len(value) <= maxValueSize (resp. len(ops) <= maxBatchSize before the transaction is begun) were established on the path; " +
			"(3) rejection has no side effects — between a failed limit test and its return no mutating operation runs other than rolling back a transaction the handler itself began; BatchWrite's failing exits after BeginTransaction all return the very error variable its deferred rollback tests; " +
			"(4) handle lifecycle — every Tx* handler touches the transaction only on the found edge of Registry.Get; CommitTransaction/RollbackTransaction remove the handle on every exit after it was found; " +
			"(5) scan option table (P-ORD over the five option combinations): prefix+suffix → suffix(prefix(full)), prefix → prefix(full), suffix → suffix(full), start/end → range(start,end), none → full, with the request's own fields as arguments; entries are sent only on the not-a-tombstone edge and the limit counts sent entries; " +
			"(6) an empty value is not turned into a deletion on the request path. " +
			"Added after blind round 4: the prefix/suffix predicates (bytes.HasPrefix/HasSuffix or a hand-written test that agrees with them on the length/equality table). " +
			"Added after blind round 5: a handle is removed only on exits that finished the transaction (shared with C17). " +
			"Added after blind round 7: the sweeper's idle criterion cross-listed from C17 (the service runs the sweep at every BeginTransaction RPC). " +
			"Added after blind round 8: a handler that fills a repeated field in a loop allocates each element inside the loop; handlers write no fields of the server object. " +
			"Added after blind round 9: a mutating handler reports success only behind the embedded call of its row; the limit facts are seen through a predicate helper. " +
			"Added after blind round 10: FilteredIterator.Next is steered only by the wrapped iterator and the filter (no budget of skipped keys); the reviewed users of the raw transaction lock are listed here too. " +
			"Added after blind round 11: the default registry limits are also judged for a unit slip (a bare number where a time.Duration is expected).",
		NotDecided: "equality of responses with the embedded API for all request sequences and data sets; gRPC transport behaviour; connection-bound transaction cleanup; GetStats contents.",
		Rules:      []func(*Ctx, *Reporter){ruleC19Delegation, ruleC19Limits, ruleC19Rejection, ruleC19Handles, ruleC19ScanOptions, ruleScanConsumers, ruleEmptyNotDeleted, ruleFilter, ruleTxOrphanRemoval, subRules(ruleTxStale, "cleanup-criteria"), ruleHandlersAppendFreshElements, ruleHandlersKeepNoState, ruleServiceSuccessOnlyAfterEngine, ruleFilteredNextScansToMatch, subRules(ruleTxLockWriters, "txlock-who"), ruleDefaultRegistryLimits},
	})
}

// opName: canonical name of a data-API operation reached by a call instruction ("" if not one).
func opName(call ssa.CallInstruction) string {
	cc := call.Common()
	if cc.IsInvoke() {
		t := cc.Value.Type()
		if n, ok := t.(*types.Named); ok {
			return n.Obj().Name() + "." + cc.Method.Name()
		}
		return "?." + cc.Method.Name()
	}
	if f := cc.StaticCallee(); f != nil {
		if rt := recvTypeName(f); rt != "" {
			return rt[strings.Index(rt, ".")+1:] + "." + f.Name()
		}
		if f.Pkg != nil {
			return f.Pkg.Pkg.Name() + "." + f.Name()
		}
	}
	return ""
}

var c19Mutators = map[string]bool{
	"Engine.Put": true, "Engine.Delete": true, "Engine.ApplyBatch": true, "Engine.BeginTransaction": true,
	"Transaction.Put": true, "Transaction.Delete": true, "Transaction.Commit": true, "Transaction.Rollback": true,
	"Registry.Begin": true, "Registry.Remove": true, "RegistryImpl.CleanupStaleTransactions": true,
}

var c19DataOps = map[string]bool{
	"Engine.Get": true, "Engine.Put": true, "Engine.Delete": true,
	"Transaction.Get": true, "Transaction.Put": true, "Transaction.Delete": true,
}

type c19Row struct {
	required []string            // operations the handler must reach
	mutators []string            // mutating operations it may reach (required ones included automatically)
	args     map[string][]string // operation -> request field per argument ("" = unchecked)
}

// The correspondence between RPCs and embedded operations (confirmed by reading service.go and the embedded API).
var c19Table = map[string]c19Row{
	"Get":    {required: []string{"Engine.Get"}, args: map[string][]string{"Engine.Get": {"Key"}}},
	"Put":    {required: []string{"Engine.Put"}, args: map[string][]string{"Engine.Put": {"Key", "Value"}}},
	"Delete": {required: []string{"Engine.Delete"}, args: map[string][]string{"Engine.Delete": {"Key"}}},
	"BatchWrite": {required: []string{"Engine.BeginTransaction", "Transaction.Put", "Transaction.Delete", "Transaction.Commit", "Transaction.Rollback"},
		args: map[string][]string{"Transaction.Put": {"Key", "Value"}, "Transaction.Delete": {"Key"}}},
	"Scan":                {required: []string{"Engine.BeginTransaction", "Transaction.NewIterator", "Transaction.NewRangeIterator", "Transaction.Rollback"}},
	"BeginTransaction":    {required: []string{"Registry.Begin"}, mutators: []string{"RegistryImpl.CleanupStaleTransactions"}},
	"CommitTransaction":   {required: []string{"Registry.Get", "Transaction.Commit", "Registry.Remove"}},
	"RollbackTransaction": {required: []string{"Registry.Get", "Transaction.Rollback", "Registry.Remove"}},
	"TxGet":               {required: []string{"Registry.Get", "Transaction.Get"}, mutators: []string{"Transaction.Rollback", "Registry.Remove"}, args: map[string][]string{"Transaction.Get": {"Key"}}},
	"TxPut":               {required: []string{"Registry.Get", "Transaction.Put"}, args: map[string][]string{"Transaction.Put": {"Key", "Value"}}},
	"TxDelete":            {required: []string{"Registry.Get", "Transaction.Delete"}, args: map[string][]string{"Transaction.Delete": {"Key"}}},
	"TxScan":              {required: []string{"Registry.Get", "Transaction.NewIterator", "Transaction.NewRangeIterator"}},
	"GetStats":            {required: []string{"Engine.BeginTransaction", "Transaction.NewIterator", "Transaction.Rollback"}},
	"Compact":             {required: []string{"Engine.BeginTransaction", "Transaction.Commit"}, mutators: []string{"Transaction.Put", "Transaction.Rollback"}},
	"GetNodeInfo":         {required: []string{"ReplicationInfoProvider.GetNodeInfo"}},
}

// c19Handlers enumerates the RPC methods from the generated server interface.
func c19Handlers(c *Ctx, r *Reporter) map[string]*ssa.Function {
	iface := c.Named("proto/kevo", "KevoServiceServer")
	if iface == nil {
		r.Unresolved("pb.KevoServiceServer", "generated service interface not found")
		return nil
	}
	it, ok := iface.Underlying().(*types.Interface)
	if !ok {
		r.Unresolved("pb.KevoServiceServer", "not an interface")
		return nil
	}
	out := map[string]*ssa.Function{}
	for i := 0; i < it.NumMethods(); i++ {
		m := it.Method(i)
		if !m.Exported() {
			continue
		}
		fn := c.Func("pkg/grpc/service", "KevoServiceServer", m.Name())
		if fn == nil {
			r.Bad("service.KevoServiceServer."+m.Name(), "", "the RPC is declared by the generated interface but the service does not implement it (the embedded Unimplemented stub answers)")
			continue
		}
		out[m.Name()] = fn
	}
	return out
}

// reqField: v is a load of request.<field> (request = second/first non-receiver pointer parameter) or of the range element's field (batch operations).
func reqFieldName(v ssa.Value) string {
	ld, ok := v.(*ssa.UnOp)
	if !ok || ld.Op != token.MUL {
		return ""
	}
	fa, ok := ld.X.(*ssa.FieldAddr)
	if !ok {
		return ""
	}
	switch x := fa.X.(type) {
	case *ssa.Parameter:
		return fieldName(fa)
	case *ssa.UnOp: // element of req.Operations
		if ia, ok := x.X.(*ssa.IndexAddr); ok {
			if reqFieldName(ia.X) == "Operations" {
				return fieldName(fa)
			}
		}
	}
	return ""
}

func ruleC19Delegation(c *Ctx, r *Reporter) {
	r.Rule("delegation-table", 15)
	hs := c19Handlers(c, r)
	if hs == nil {
		return
	}
	var names []string
	for n := range hs {
		names = append(names, n)
	}
	sort.Strings(names)
	for _, n := range names {
		fn := hs[n]
		cons := "service.KevoServiceServer." + n
		row, ok := c19Table[n]
		if !ok {
			r.Bad(cons, c.FnPos(fn), "an RPC without a row in the delegation table: its correspondence with an embedded operation has not been confirmed")
			continue
		}
		ops := map[string][]ssa.CallInstruction{}
		bind := map[ssa.Value]ssa.Value{} // parameter of a same-package helper -> the handler's argument
		var collect func(f *ssa.Function, d int)
		collect = func(f *ssa.Function, d int) {
			AllInstrs(f, true, func(_ *ssa.Function, ins ssa.Instruction) {
				call, ok := ins.(ssa.CallInstruction)
				if !ok {
					return
				}
				if o := opName(call); o != "" {
					ops[o] = append(ops[o], call)
				}
				// an unexported helper of the service package (extracted from the handler): its operations are the handler's
				h := call.Common().StaticCallee()
				if h == nil || d >= 2 || h.Pkg != fn.Pkg || h.Object() == nil || h.Object().Exported() || len(h.Blocks) == 0 {
					return
				}
				for i, p := range h.Params {
					if i < len(call.Common().Args) {
						a := call.Common().Args[i]
						if b, ok := bind[a]; ok {
							a = b
						}
						bind[p] = a
					}
				}
				collect(h, d+1)
			})
		}
		collect(fn, 0)
		var bad []string
		allowed := map[string]bool{}
		for _, q := range row.required {
			allowed[q] = true
			if len(ops[q]) == 0 {
				bad = append(bad, "does not reach "+q)
			}
		}
		for _, q := range row.mutators {
			allowed[q] = true
		}
		for o := range ops {
			if c19Mutators[o] && !allowed[o] {
				bad = append(bad, "reaches the mutating operation "+o+" which is not part of its row")
			}
		}
		for o, fields := range row.args {
			for _, call := range ops[o] {
				args := call.Common().Args
				if !call.Common().IsInvoke() {
					args = args[1:]
				}
				for i, f := range fields {
					if f == "" || i >= len(args) {
						continue
					}
					a := args[i]
					if b, ok := bind[a]; ok {
						a = b
					}
					if got := reqFieldName(a); got != f {
						bad = append(bad, fmt.Sprintf("%s receives %s as argument %d instead of the request's %s", o, Path(args[i]), i, f))
					}
				}
			}
		}
		sort.Strings(bad)
		var reached []string
		for o := range ops {
			if allowed[o] || c19Mutators[o] {
				reached = append(reached, o)
			}
		}
		sort.Strings(reached)
		r.Check(len(bad) == 0, cons, c.FnPos(fn), "reaches "+strings.Join(reached, ", "), "the handler is not wired to the embedded operation(s) of its row: "+strings.Join(bad, "; "))
	}
	for n := range c19Table {
		if _, ok := hs[n]; !ok {
			r.Bad("service.KevoServiceServer."+n, "", "the delegation table has a row for an RPC the generated interface no longer declares")
		}
	}
	// no handler writes a constant key into the user key space
	r.Rule("no-hidden-writes", 1)
	for _, n := range names {
		fn := hs[n]
		AllInstrs(fn, true, func(_ *ssa.Function, ins ssa.Instruction) {
			call, ok := ins.(ssa.CallInstruction)
			if !ok {
				return
			}
			o := opName(call)
			if o != "Engine.Put" && o != "Transaction.Put" && o != "Engine.Delete" && o != "Transaction.Delete" {
				return
			}
			args := call.Common().Args
			if len(args) == 0 {
				return
			}
			if cv, ok := args[0].(*ssa.Convert); ok {
				if s, isS := constString(cv.X); isS {
					if n == "Compact" {
						r.Info("service.KevoServiceServer."+n+":constant-key", c.InsPos(ins), "Compact(force) commits the key "+fmt.Sprintf("%q", s)+" into the user key space (Compact is not among the operations the property lists; a later scan returns this key)")
					} else {
						r.Bad("service.KevoServiceServer."+n+":constant-key", c.InsPos(ins), "the handler writes the constant key "+fmt.Sprintf("%q", s)+" into the user key space")
					}
				}
			}
		})
	}
	r.OK("service.KevoServiceServer:constant-keys", "", "no data handler writes a constant key")
}

// lenFact builds the fact "len(<field>) <op-holds>" for a request field compared with a limit field or zero.
// kind: "nonempty" (len != 0), "key<=max" / "value<=max" / "batch<=max".
func c19LenFact(field string, limitField string) Fact {
	return c19LenFactBound(field, limitField, func(v ssa.Value) ssa.Value { return v }, 0)
}

// c19LenFactBound: the same fact seen through a predicate helper (`if s.badKeySize(req.Key)`): a call of a module function
// with one boolean result and one return is judged on its return expression, the helper's parameters bound to the
// arguments of the call.
func c19LenFactBound(field string, limitField string, bind func(ssa.Value) ssa.Value, depth int) Fact {
	return func(cond ssa.Value) (bool, bool) {
		if call, isCall := cond.(*ssa.Call); isCall && depth < 2 {
			if h := call.Call.StaticCallee(); h != nil && len(h.Blocks) > 0 && strings.HasPrefix(pkgOf(h), "pkg/") && h.Signature.Results().Len() == 1 && h.Signature.Results().At(0).Type().String() == "bool" {
				if rets := Returns(h); len(rets) == 1 {
					inner := func(v ssa.Value) ssa.Value {
						for i, prm := range h.Params {
							if v == ssa.Value(prm) && i < len(call.Call.Args) {
								return bind(call.Call.Args[i])
							}
						}
						return v
					}
					return withNot(c19LenFactBound(field, limitField, inner, depth+1))(ReturnValue(rets[0], 0))
				}
			}
		}
		bo, ok := cond.(*ssa.BinOp)
		if !ok {
			return false, false
		}
		isLen := func(v ssa.Value) bool {
			call, ok := v.(*ssa.Call)
			if !ok {
				return false
			}
			b, isB := call.Call.Value.(*ssa.Builtin)
			return isB && b.Name() == "len" && reqFieldName(bind(call.Call.Args[0])) == field
		}
		if limitField == "" { // non-empty: len ⋈ k in every spelling (len == 0, len < 1, 0 == len, 1 > len, len != 0, len >= 1, ...)
			x, y, op := bo.X, bo.Y, bo.Op
			if _, isK := constInt(x); isK {
				x, y, op = y, x, flipOp(op)
			}
			if !isLen(x) {
				return false, false
			}
			k, isK := constInt(y)
			if !isK {
				return false, false
			}
			switch {
			case (op == token.EQL || op == token.LEQ) && k == 0, op == token.LSS && k == 1:
				return false, true
			case (op == token.NEQ || op == token.GTR) && k == 0, op == token.GEQ && k == 1:
				return true, false
			}
			return false, false
		}
		isLimit := func(v ssa.Value) bool {
			ld, ok := v.(*ssa.UnOp)
			if !ok || ld.Op != token.MUL {
				return false
			}
			fa, ok := ld.X.(*ssa.FieldAddr)
			return ok && fieldName(fa) == limitField
		}
		switch {
		case isLen(bo.X) && isLimit(bo.Y):
			switch bo.Op {
			case token.GTR:
				return false, true
			case token.LEQ:
				return true, false
			}
		case isLimit(bo.X) && isLen(bo.Y):
			switch bo.Op {
			case token.LSS:
				return false, true
			case token.GEQ:
				return true, false
			}
		}
		return false, false
	}
}

// unguardedReach: is target reachable from the function entry along a path that never takes an edge establishing fact?
func unguardedReach(fn *ssa.Function, target ssa.Instruction, fact Fact) (bool, []*ssa.BasicBlock) {
	fact = withNot(fact)
	hit, path := ReachE(fn, nil, func(x ssa.Instruction) bool { return x == target }, nil, func(b *ssa.BasicBlock, succ int) bool {
		iff, ok := b.Instrs[len(b.Instrs)-1].(*ssa.If)
		if !ok {
			return true
		}
		t, f := fact(iff.Cond)
		return !((succ == 0 && t) || (succ == 1 && f))
	})
	return hit != nil, path
}

func ruleC19Limits(c *Ctx, r *Reporter) {
	r.Rule("limits-before-effects", 12)
	hs := c19Handlers(c, r)
	if hs == nil {
		return
	}
	// the documented limits
	ctor := c.Func("pkg/grpc/service", "", "NewKevoServiceServer")
	if ctor == nil {
		r.Unresolved("service.NewKevoServiceServer", "not found")
	} else {
		want := map[string]int64{"maxKeySize": 4096, "maxValueSize": 10 * 1024 * 1024, "maxBatchSize": 1000}
		got := map[string]int64{}
		AllInstrs(ctor, false, func(_ *ssa.Function, ins ssa.Instruction) {
			if st, ok := ins.(*ssa.Store); ok {
				if fa, ok := st.Addr.(*ssa.FieldAddr); ok {
					if k, isK := constInt(st.Val); isK {
						got[fieldName(fa)] = k
					}
				}
			}
		})
		for _, f := range []string{"maxKeySize", "maxValueSize", "maxBatchSize"} {
			r.Check(got[f] == want[f], "service.NewKevoServiceServer:"+f, c.FnPos(ctor), fmt.Sprintf("%s = %d", f, want[f]), fmt.Sprintf("the documented limit %s = %d is installed as %d", f, want[f], got[f]))
		}
		// nobody else writes the limits
		for _, fn := range c.KevoFns {
			if topParent(fn) == ctor {
				continue
			}
			AllInstrs(fn, false, func(_ *ssa.Function, ins ssa.Instruction) {
				if st, ok := ins.(*ssa.Store); ok {
					if fa, ok := st.Addr.(*ssa.FieldAddr); ok {
						if n := fieldName(fa); (n == "maxKeySize" || n == "maxValueSize" || n == "maxBatchSize") && strings.HasSuffix(fa.X.Type().String(), "KevoServiceServer") {
							r.Bad(FnName(topParent(fn))+":writes-"+n, c.InsPos(st), "a request limit is changed outside the constructor")
						}
					}
				}
			})
		}
	}
	var names []string
	for n := range hs {
		names = append(names, n)
	}
	sort.Strings(names)
	for _, n := range names {
		fn := hs[n]
		AllInstrs(fn, false, func(_ *ssa.Function, ins ssa.Instruction) {
			call, ok := ins.(ssa.CallInstruction)
			if !ok {
				return
			}
			o := opName(call)
			if n == "BatchWrite" && o == "Engine.BeginTransaction" {
				bad, path := unguardedReach(fn, ins, c19LenFact("Operations", "maxBatchSize"))
				r.Check(!bad, "service.KevoServiceServer.BatchWrite:batch-size", c.InsPos(ins), "the transaction is begun only behind len(ops) <= maxBatchSize",
					"the batch transaction can be begun without the len(operations) <= maxBatchSize test", c.PathString(path)...)
				return
			}
			if !c19DataOps[o] || n == "Compact" {
				return
			}
			args := call.Common().Args
			if !call.Common().IsInvoke() {
				args = args[1:]
			}
			cons := fmt.Sprintf("service.KevoServiceServer.%s:%s", n, o)
			var bad []string
			var worst []*ssa.BasicBlock
			if len(args) >= 1 && reqFieldName(args[0]) == "Key" {
				if b, p := unguardedReach(fn, ins, c19LenFact("Key", "")); b {
					bad, worst = append(bad, "without len(key) != 0"), p
				}
				if b, p := unguardedReach(fn, ins, c19LenFact("Key", "maxKeySize")); b {
					bad, worst = append(bad, "without len(key) <= maxKeySize"), p
				}
			} else {
				bad = append(bad, "its key argument is not the request's Key")
			}
			if strings.HasSuffix(o, ".Put") {
				if len(args) >= 2 && reqFieldName(args[1]) == "Value" {
					if b, p := unguardedReach(fn, ins, c19LenFact("Value", "maxValueSize")); b {
						bad, worst = append(bad, "without len(value) <= maxValueSize"), p
					}
				} else {
					bad = append(bad, "its value argument is not the request's Value")
				}
			}
			r.Check(len(bad) == 0, cons, c.InsPos(ins), "reachable only behind the key/value limit tests", "the data operation is reachable "+strings.Join(bad, ", ")+": a request outside the documented limits takes effect", c.PathString(worst)...)
		})
	}
}

// ruleC19Rejection: (a) no mutating operation between a failed limit test and the return; (b) BatchWrite's deferred rollback sees every failure.
func ruleC19Rejection(c *Ctx, r *Reporter) {
	r.Rule("rejection-has-no-side-effects", 8)
	hs := c19Handlers(c, r)
	if hs == nil {
		return
	}
	var names []string
	for n := range hs {
		names = append(names, n)
	}
	sort.Strings(names)
	facts := []struct {
		field, limit, what string
	}{{"Key", "", "empty key"}, {"Key", "maxKeySize", "oversized key"}, {"Value", "maxValueSize", "oversized value"}, {"Operations", "maxBatchSize", "oversized batch"}}
	for _, n := range names {
		fn := hs[n]
		// transactions begun by the handler itself
		own := map[ssa.Value]bool{}
		AllInstrs(fn, false, func(_ *ssa.Function, ins ssa.Instruction) {
			if call, ok := ins.(*ssa.Call); ok && opName(call) == "Engine.BeginTransaction" {
				own[call] = true
			}
		})
		seenRej := map[string]int{}
		for _, b := range fn.Blocks {
			if len(b.Instrs) == 0 {
				continue
			}
			iff, ok := b.Instrs[len(b.Instrs)-1].(*ssa.If)
			if !ok {
				continue
			}
			for _, ft := range facts {
				t, f := withNot(c19LenFact(ft.field, ft.limit))(iff.Cond)
				if !t && !f {
					continue
				}
				// the rejecting edge is the one on which the fact does NOT hold
				rej := 0
				if t {
					rej = 1
				}
				start := b.Succs[rej]
				// a short-circuit `a || b` reaches the rejection block from both tests; only follow if the successor ends the request
				// (walk until return; collect mutators). Successors that continue to the next test are handled when that test is visited.
				var muts []string
				seen := map[*ssa.BasicBlock]bool{}
				var walk func(x *ssa.BasicBlock) bool // returns true if every path returns an error (a rejection path)
				var calls []ssa.Instruction
				walk = func(x *ssa.BasicBlock) bool {
					if seen[x] {
						return true
					}
					seen[x] = true
					for _, ins := range x.Instrs {
						if call, ok := ins.(ssa.CallInstruction); ok {
							if _, isDefer := ins.(*ssa.Defer); !isDefer {
								calls = append(calls, ins)
								_ = call
							}
						}
						if ret, ok := ins.(*ssa.Return); ok {
							return ClassifyReturn(ret) != ExitSuccess
						}
						if _, ok := ins.(*ssa.If); ok {
							return false // another decision: not a straight rejection path
						}
					}
					for _, s := range x.Succs {
						if !walk(s) {
							return false
						}
					}
					return true
				}
				if !walk(start) {
					continue
				}
				for _, ins := range calls {
					call := ins.(ssa.CallInstruction)
					o := opName(call)
					if !c19Mutators[o] {
						continue
					}
					if o == "Transaction.Rollback" && ownTx(call.Common().Value, own) {
						continue
					}
					muts = append(muts, o+" at "+c.InsPos(ins))
				}
				cons := fmt.Sprintf("service.KevoServiceServer.%s:reject[%s]", n, ft.what)
				if seenRej[cons] > 0 {
					cons = fmt.Sprintf("%s#%d", cons, seenRej[cons]+1)
				}
				seenRej[fmt.Sprintf("service.KevoServiceServer.%s:reject[%s]", n, ft.what)]++
				r.Check(len(muts) == 0, cons, c.blockPos(start), "the rejection path performs no mutating operation",
					"a request rejected for an "+ft.what+" still performs "+strings.Join(muts, ", ")+" before returning: the rejection has a side effect on the caller's state")
			}
		}
	}
	// BatchWrite: the deferred rollback tests a captured error variable; every failing exit after the defer returns that variable
	fn := hs["BatchWrite"]
	if fn == nil {
		return
	}
	r.Rule("batch-rollback-sees-every-failure", 1)
	var def *ssa.Defer
	var cell *ssa.Alloc
	AllInstrs(fn, false, func(_ *ssa.Function, ins ssa.Instruction) {
		d, ok := ins.(*ssa.Defer)
		if !ok {
			return
		}
		mc, ok := d.Call.Value.(*ssa.MakeClosure)
		if !ok {
			// defer helper(tx, &err): a same-package function that rolls back, handed the address of the error variable
			if h := d.Call.StaticCallee(); h != nil && h.Pkg == fn.Pkg && len(h.Blocks) > 0 {
				rolls := false
				AllInstrs(h, true, func(_ *ssa.Function, x ssa.Instruction) {
					if call, ok := x.(ssa.CallInstruction); ok && opName(call) == "Transaction.Rollback" {
						rolls = true
					}
				})
				if rolls {
					for _, a := range d.Call.Args {
						if al, ok := a.(*ssa.Alloc); ok && isErrorType(deref(al.Type())) {
							def, cell = d, al
						}
					}
				}
			}
			return
		}
		clo := mc.Fn.(*ssa.Function)
		rolls := false
		AllInstrs(clo, false, func(_ *ssa.Function, x ssa.Instruction) {
			if call, ok := x.(ssa.CallInstruction); ok && opName(call) == "Transaction.Rollback" {
				rolls = true
			}
		})
		if !rolls {
			return
		}
		// the free variable whose nil-ness guards the rollback
		for i, fv := range clo.FreeVars {
			if !isErrorType(deref(fv.Type())) {
				continue
			}
			if al, ok := mc.Bindings[i].(*ssa.Alloc); ok {
				def, cell = d, al
			}
		}
	})
	if def == nil || cell == nil {
		r.Bad("service.KevoServiceServer.BatchWrite:deferred-rollback", c.FnPos(fn), "no deferred rollback conditioned on a captured error variable found: a batch rejected half-way would stay open and keep the database write lock")
		return
	}
	nFail := 0
	for _, ret := range Returns(fn) {
		if !Dominates(def, ret) {
			continue
		}
		if ClassifyReturn(ret) == ExitSuccess {
			continue
		}
		v := ReturnValue(ret, 1)
		ld, ok := v.(*ssa.UnOp)
		isCell := ok && ld.Op == token.MUL && ld.X == ssa.Value(cell)
		nFail++
		if !isCell {
			r.Bad(fmt.Sprintf("service.KevoServiceServer.BatchWrite:failing-exit@%s", sanitize(Path(v))), c.InsPos(ret),
				"a failing exit returns an error that is not the variable the deferred rollback tests ("+Path(v)+"): the transaction is neither committed nor rolled back and keeps the database write lock")
		}
	}
	r.Check(nFail > 0, "service.KevoServiceServer.BatchWrite:deferred-rollback", c.InsPos(def), fmt.Sprintf("%d failing exits after the defer, all through the captured error variable (violations listed separately)", nFail), "no failing exit found after the deferred rollback")
}

func deref(t types.Type) types.Type {
	if p, ok := t.Underlying().(*types.Pointer); ok {
		return p.Elem()
	}
	return t
}

// ownTx: the receiver value of a transaction call stems from a BeginTransaction call of the same handler.
func ownTx(v ssa.Value, own map[ssa.Value]bool) bool {
	for i := 0; i < 6 && v != nil; i++ {
		switch x := v.(type) {
		case *ssa.Extract:
			return own[x.Tuple]
		case *ssa.UnOp:
			if al, ok := x.X.(*ssa.Alloc); ok {
				v = singleStore(al)
				continue
			}
			return false
		default:
			return false
		}
	}
	return false
}

func ruleC19Handles(c *Ctx, r *Reporter) {
	r.Rule("handle-lifecycle", 8)
	hs := c19Handlers(c, r)
	if hs == nil {
		return
	}
	for _, n := range []string{"CommitTransaction", "RollbackTransaction", "TxGet", "TxPut", "TxDelete", "TxScan"} {
		fn := hs[n]
		if fn == nil {
			r.Unresolved("service.KevoServiceServer."+n, "not found")
			continue
		}
		var get *ssa.Call
		AllInstrs(fn, false, func(_ *ssa.Function, ins ssa.Instruction) {
			if call, ok := ins.(*ssa.Call); ok && opName(call) == "Registry.Get" && get == nil {
				get = call
			}
		})
		cons := "service.KevoServiceServer." + n
		if get == nil {
			r.Bad(cons+":lookup", c.FnPos(fn), "the handler does not look the handle up in the registry")
			continue
		}
		found := func(cond ssa.Value) (bool, bool) {
			if ex, ok := cond.(*ssa.Extract); ok && ex.Tuple == ssa.Value(get) && ex.Index == 1 {
				return true, false
			}
			return false, false
		}
		// every use of the transaction is on the found edge
		okUse := true
		AllInstrs(fn, true, func(f *ssa.Function, ins ssa.Instruction) {
			call, ok := ins.(ssa.CallInstruction)
			if !ok || !strings.HasPrefix(opName(call), "Transaction.") {
				return
			}
			b := ins.Block()
			if f != fn {
				return
			}
			if !GuardedBy(b, found) {
				okUse = false
				r.Bad(cons+":use-before-found", c.InsPos(ins), "the transaction is used without the 'found' edge of Registry.Get dominating the use: an unknown or finished handle reaches "+opName(call))
			}
		})
		if okUse {
			r.OK(cons+":use-only-if-found", c.InsPos(get), "every transaction operation is on the found edge of Registry.Get")
		}
		if n != "CommitTransaction" && n != "RollbackTransaction" {
			continue
		}
		// removal on every exit after the found edge
		// a removal: Registry.Remove, or a same-receiver helper of the handler that calls it unconditionally
		removes := func(call ssa.CallInstruction) bool {
			if opName(call) == "Registry.Remove" {
				return true
			}
			h := call.Common().StaticCallee()
			if h == nil || len(h.Blocks) == 0 || recvTypeName(h) != recvTypeName(fn) {
				return false
			}
			var rets []ssa.Instruction
			for _, ret := range Returns(h) {
				rets = append(rets, ret)
			}
			miss, _ := MustPass(h, rets, func(i ssa.Instruction) bool {
				c2, ok := i.(ssa.CallInstruction)
				return ok && opName(c2) == "Registry.Remove"
			})
			return miss == nil
		}
		isRemove := func(ins ssa.Instruction) bool {
			switch x := ins.(type) {
			case *ssa.Defer:
				if mc, ok := x.Call.Value.(*ssa.MakeClosure); ok {
					rm := false
					AllInstrs(mc.Fn.(*ssa.Function), false, func(_ *ssa.Function, y ssa.Instruction) {
						if call, ok := y.(ssa.CallInstruction); ok && removes(call) {
							rm = true
						}
					})
					return rm
				}
				return removes(x)
			case *ssa.Call:
				return removes(x)
			}
			return false
		}
		var exits []ssa.Instruction
		for _, ret := range Returns(fn) {
			if GuardedBy(ret.Block(), found) {
				exits = append(exits, ret)
			}
		}
		// also: removal must precede the finish call (a panic in Commit would otherwise leak) — deferred before
		miss, path := MustPass(fn, exits, isRemove)
		r.Check(miss == nil && len(exits) > 0, cons+":handle-removed", c.FnPos(fn), fmt.Sprintf("every one of the %d exits after the handle was found passes its removal", len(exits)),
			"an exit after the handle was found does not remove it from the registry: the handle stays usable after commit/rollback", c.PathString(path)...)
	}
}

// ruleC19ScanOptions: which iterator the scan handlers build for each combination of options.
func ruleC19ScanOptions(c *Ctx, r *Reporter) {
	r.Rule("scan-option-table", 10)
	hs := c19Handlers(c, r)
	if hs == nil {
		return
	}
	type combo struct {
		name                       string
		prefix, suffix, start, end int64
		want                       []string
	}
	combos := []combo{
		{"prefix+suffix", 3, 2, 0, 0, []string{"Transaction.NewIterator", "filtered.NewPrefixIterator(Prefix)", "filtered.NewSuffixIterator(Suffix)"}},
		{"prefix+suffix+range", 3, 2, 1, 1, []string{"Transaction.NewIterator", "filtered.NewPrefixIterator(Prefix)", "filtered.NewSuffixIterator(Suffix)"}},
		{"prefix", 3, 0, 0, 0, []string{"Transaction.NewIterator", "filtered.NewPrefixIterator(Prefix)"}},
		{"suffix", 0, 2, 0, 0, []string{"Transaction.NewIterator", "filtered.NewSuffixIterator(Suffix)"}},
		{"start+end", 0, 0, 1, 1, []string{"Transaction.NewRangeIterator(StartKey,EndKey)"}},
		{"start", 0, 0, 1, 0, []string{"Transaction.NewRangeIterator(StartKey,EndKey)"}},
		{"end", 0, 0, 0, 1, []string{"Transaction.NewRangeIterator(StartKey,EndKey)"}},
		{"none", 0, 0, 0, 0, []string{"Transaction.NewIterator"}},
	}
	for _, n := range []string{"Scan", "TxScan"} {
		fn := hs[n]
		if fn == nil {
			r.Unresolved("service.KevoServiceServer."+n, "not found")
			continue
		}
		for _, cb := range combos {
			zero := int64(0)
			sc := &Scenario{Terms: map[string]int64{}, Bools: map[string]bool{}, Vals: map[ssa.Value]int64{}, BoolVals: map[ssa.Value]bool{}, DefaultInt: &zero}
			AllInstrs(fn, false, func(_ *ssa.Function, ins ssa.Instruction) {
				v, ok := ins.(ssa.Value)
				if !ok {
					return
				}
				if call, ok := ins.(*ssa.Call); ok {
					if b, isB := call.Call.Value.(*ssa.Builtin); isB && b.Name() == "len" {
						switch reqFieldName(call.Call.Args[0]) {
						case "Prefix":
							sc.Vals[v] = cb.prefix
						case "Suffix":
							sc.Vals[v] = cb.suffix
						case "StartKey":
							sc.Vals[v] = cb.start
						case "EndKey":
							sc.Vals[v] = cb.end
						}
					}
				}
				if isErrorType(v.Type()) {
					sc.Vals[v] = NilRank
				}
				if ex, ok := ins.(*ssa.Extract); ok && ex.Type().String() == "bool" {
					sc.BoolVals[v] = true // handle found
				}
			})
			res := EvalPath(fn.Blocks[0], nil, sc, nil)
			var got []string
			for _, e := range res.Effects {
				if e.Kind != "call" {
					continue
				}
				call, ok := e.Ins.(ssa.CallInstruction)
				if !ok {
					continue
				}
				o := opName(call)
				switch o {
				case "Transaction.NewIterator":
					got = append(got, o)
				case "Transaction.NewRangeIterator":
					a := call.Common().Args
					got = append(got, fmt.Sprintf("%s(%s,%s)", o, reqFieldName(a[0]), reqFieldName(a[1])))
				case "filtered.NewPrefixIterator", "filtered.NewSuffixIterator":
					a := call.Common().Args
					got = append(got, fmt.Sprintf("%s(%s)", o, reqFieldName(a[1])))
				case "bounded.NewBoundedIterator", "Engine.GetIterator", "Engine.GetRangeIterator", "Transaction.Get":
					got = append(got, o)
				}
			}
			// the walk must have reached the scan loop (it stops at iter.Valid(), which the scenario leaves open)
			reachedLoop := false
			for _, e := range res.Effects {
				if e.Kind == "call" && strings.HasSuffix(e.What, "SeekToFirst") {
					reachedLoop = true
				}
			}
			cons := fmt.Sprintf("service.KevoServiceServer.%s:options[%s]", n, cb.name)
			if !reachedLoop {
				r.Undecided(cons, c.FnPos(fn), "the walk did not reach SeekToFirst: "+res.Err)
				continue
			}
			r.Check(strings.Join(got, " ") == strings.Join(cb.want, " "), cons, c.FnPos(fn), strings.Join(got, " → "),
				"with these options the handler builds ["+strings.Join(got, " → ")+"] where the embedded equivalent is ["+strings.Join(cb.want, " → ")+"]")
		}
	}
}
