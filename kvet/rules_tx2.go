package main

import (
	"fmt"
	"go/token"
	"go/types"
	"strings"

	"golang.org/x/tools/go/ssa"
)

// isFinishCall: an interface or static call to Commit/Rollback of a transaction.
func isFinishCall(ins ssa.Instruction) bool {
	ci, ok := ins.(ssa.CallInstruction)
	if !ok {
		return false
	}
	cc := ci.Common()
	name := calleeName(cc)
	if name != "Commit" && name != "Rollback" {
		return false
	}
	if cc.IsInvoke() {
		return strings.Contains(cc.Value.Type().String(), "Transaction")
	}
	f := cc.StaticCallee()
	return f != nil && strings.Contains(recvTypeName(f), "Transaction")
}

// containsFinish: fn (a closure) contains a finish call.
func containsFinish(fn *ssa.Function) bool {
	found := false
	AllInstrs(fn, true, func(_ *ssa.Function, ins ssa.Instruction) {
		if isFinishCall(ins) {
			found = true
		}
	})
	return found
}

// finishesHere: ins finishes a transaction: a direct (or deferred) Commit/Rollback, or a go/defer/call of a closure that contains one.
func finishesHere(ins ssa.Instruction) bool {
	if isFinishCall(ins) {
		return true
	}
	ci, ok := ins.(ssa.CallInstruction)
	if !ok {
		return false
	}
	switch v := ci.Common().Value.(type) {
	case *ssa.MakeClosure:
		if fn, ok := v.Fn.(*ssa.Function); ok && containsFinish(fn) {
			return true
		}
	case *ssa.Function:
		if v.Parent() != nil && containsFinish(v) {
			return true
		}
	}
	return false
}

func ruleTxOrphanRemoval(c *Ctx, r *Reporter) {
	r.Rule("no-orphan-removal", 6)
	txField := c.Field("pkg/transaction", "RegistryImpl", "transactions")
	remove := c.Func("pkg/transaction", "RegistryImpl", "Remove")
	if txField == nil || remove == nil {
		r.Unresolved("transaction.RegistryImpl.{transactions,Remove}", "not found")
		return
	}
	// (a) deletes from the registry map inside the registry
	for _, fn := range c.KevoFns {
		if pkgOf(fn) != "pkg/transaction" {
			continue
		}
		AllInstrs(fn, false, func(_ *ssa.Function, ins ssa.Instruction) {
			call, ok := ins.(*ssa.Call)
			if !ok {
				return
			}
			b, ok := call.Call.Value.(*ssa.Builtin)
			if !ok || b.Name() != "delete" || !isLoadOfField(call.Call.Args[0], txField) {
				return
			}
			name := FnName(fn) + ":delete(transactions)"
			if fn == remove {
				r.OK(name, c.InsPos(ins), "Remove is the raw removal primitive; its call sites carry the obligation")
				return
			}
			// some finish must dominate the delete, or every path from function entry to the delete passes one
			bad, path := Reach(fn, nil, func(i ssa.Instruction) bool { return i == ins }, finishesHere)
			if bad != nil {
				r.Bad(name, c.InsPos(ins), "a transaction is dropped from the registry on a path that has not rolled it back or committed it: it keeps the database lock forever", c.PathString(path)...)
			} else {
				r.OK(name, c.InsPos(ins), "every path to the removal finishes the transaction first")
			}
		})
	}
	// (b) call sites of Remove (static or through the Registry interface)
	isRemoveCall := func(cc *ssa.CallCommon) bool {
		if cc.StaticCallee() == remove {
			return true
		}
		return cc.IsInvoke() && cc.Method.Name() == "Remove" && strings.Contains(cc.Value.Type().String(), "Registry")
	}
	// removal wrappers: unexported top-level functions outside the registry that do nothing to a transaction but call
	// Remove (a helper extracted from a handler); their call sites carry the obligation, like Remove's own
	wrappers := map[*ssa.Function]bool{}
	for _, fn := range c.KevoFns {
		if fn == remove || fn.Parent() != nil || fn.Object() == nil || fn.Object().Exported() || pkgOf(fn) == "pkg/transaction" {
			continue
		}
		has, finishes := false, false
		AllInstrs(fn, false, func(_ *ssa.Function, ins ssa.Instruction) {
			if ci, ok := ins.(ssa.CallInstruction); ok {
				if isRemoveCall(ci.Common()) {
					has = true
				}
				if finishesHere(ins) {
					finishes = true
				}
			}
		})
		if has && !finishes {
			wrappers[fn] = true
		}
	}
	for _, fn := range c.KevoFns {
		if fn == remove || wrappers[fn] {
			continue
		}
		AllInstrs(fn, false, func(_ *ssa.Function, ins ssa.Instruction) {
			ci, ok := ins.(ssa.CallInstruction)
			if !ok {
				return
			}
			cc := ci.Common()
			hit := isRemoveCall(cc) || (cc.StaticCallee() != nil && wrappers[cc.StaticCallee()])
			if !hit {
				return
			}
			top := topParent(fn)
			name := FnName(top) + ":Remove"
			if fn.Parent() != nil {
				// inside a closure: is the closure deferred in its parent?
				parent := fn.Parent()
				var deferSite ssa.Instruction
				AllInstrs(parent, false, func(_ *ssa.Function, pi ssa.Instruction) {
					if d, ok := pi.(*ssa.Defer); ok {
						if mc, ok := d.Call.Value.(*ssa.MakeClosure); ok && mc.Fn == fn {
							deferSite = pi
						}
						if f2, ok := d.Call.Value.(*ssa.Function); ok && f2 == fn {
							deferSite = pi
						}
					}
				})
				if deferSite == nil {
					r.Undecided(name, c.InsPos(ins), "Remove inside a closure that is not a deferred call; idiom not known to the rule")
					return
				}
				// every path from the defer registration to an exit finishes the transaction
				var exits []ssa.Instruction
				for _, ret := range Returns(parent) {
					exits = append(exits, ret)
				}
				isExit := func(i ssa.Instruction) bool {
					for _, e := range exits {
						if e == i {
							return true
						}
					}
					return false
				}
				bad, path := Reach(parent, deferSite, isExit, finishesHere)
				if bad != nil {
					r.Bad(name, c.InsPos(ins), "the deferred Remove runs on an exit that has not finished the transaction (handle dropped, lock kept)", c.PathString(path)...)
				} else {
					r.OK(name, c.InsPos(ins), "deferred removal; every path after the registration commits or rolls back")
				}
				return
			}
			bad, path := Reach(fn, nil, func(i ssa.Instruction) bool { return i == ins }, finishesHere)
			if bad != nil {
				r.Bad(name, c.InsPos(ins), "Registry.Remove is reached on a path that has not rolled the transaction back or committed it: the handle disappears while the transaction keeps the database lock", c.PathString(path)...)
			} else {
				r.OK(name, c.InsPos(ins), "every path to Remove finishes the transaction first")
			}
		})
	}
}

func ruleTxBeginHandoff(c *Ctx, r *Reporter) {
	r.Rule("begin-hand-off", 2)
	begin := c.Func("pkg/transaction", "RegistryImpl", "Begin")
	if begin == nil {
		r.Unresolved("transaction.RegistryImpl.Begin", "not found")
		return
	}
	// selects with a send state inside closures of Begin
	n := 0
	for _, cl := range begin.AnonFuncs {
		AllInstrs(cl, false, func(_ *ssa.Function, ins ssa.Instruction) {
			sel, ok := ins.(*ssa.Select)
			if !ok {
				return
			}
			sendIdx := -1
			for i, st := range sel.States {
				if st.Dir == types.SendOnly {
					sendIdx = i
				}
			}
			if sendIdx < 0 {
				return
			}
			n++
			name := FnName(cl) + ":select-send"
			// the channel: a free variable bound to a cell holding a MakeChan in Begin
			mk := chanMake(sel.States[sendIdx].Chan, cl)
			if mk == nil {
				r.Undecided(name, c.InsPos(ins), "cannot resolve the hand-off channel to its make(chan)")
				return
			}
			size, isConst := constInt(mk.Size)
			multi := len(sel.States) > 1 || !sel.Blocking
			if multi {
				if !isConst || size != 0 {
					r.Bad(name, c.InsPos(mk), "the new transaction is handed over through a BUFFERED channel inside a select that also has a timeout arm: the send can succeed after the receiver gave up, parking a lock-holding transaction in the channel forever")
				} else {
					r.OK(name, c.InsPos(mk), "unbuffered rendezvous: the send succeeds only while the receiver waits")
				}
			} else {
				r.OK(name, c.InsPos(mk), "plain blocking send")
			}
			// every non-send arm rolls the transaction back (unless it is nil)
			isSendArm := func(cond ssa.Value) (bool, bool) {
				bo, ok := cond.(*ssa.BinOp)
				if !ok || bo.Op != token.EQL {
					return false, false
				}
				ex, ok := bo.X.(*ssa.Extract)
				if !ok || ex.Tuple != ssa.Value(sel) || ex.Index != 0 {
					return false, false
				}
				if k, ok := constInt(bo.Y); ok && int(k) == sendIdx {
					return true, false
				}
				return false, false
			}
			txNil := func(cond ssa.Value) (bool, bool) {
				v, trueIsNonNil, ok := nilTest(cond)
				if !ok || !strings.Contains(v.Type().String(), "Transaction") {
					return false, false
				}
				return !trueIsNonNil, trueIsNonNil
			}
			pr1, pr2 := PruneFactEdges(isSendArm), PruneFactEdges(txNil)
			var exits []ssa.Instruction
			for _, ret := range Returns(cl) {
				exits = append(exits, ret)
			}
			isExit := func(i ssa.Instruction) bool {
				for _, e := range exits {
					if e == i {
						return true
					}
				}
				return false
			}
			bad, path := ReachE(cl, ins, isExit, finishesHere, func(b *ssa.BasicBlock, s int) bool { return pr1(b, s) && pr2(b, s) })
			if bad != nil && multi {
				r.Bad(FnName(cl)+":timeout-arm-rolls-back", c.InsPos(bad), "the arm of the hand-off select that is not the send leaves without rolling the new transaction back", c.PathString(path)...)
			} else {
				r.OK(FnName(cl)+":timeout-arm-rolls-back", c.InsPos(ins), "every non-send arm rolls a non-nil transaction back")
			}
		})
	}
	if n == 0 {
		r.Undecided("transaction.RegistryImpl.Begin", c.FnPos(begin), "no select-with-send hand-off found in Begin's goroutine; idiom changed")
	}
	// receiver side: the registered transaction is the one received
	txField := c.Field("pkg/transaction", "RegistryImpl", "transactions")
	reg := false
	AllInstrs(begin, false, func(_ *ssa.Function, ins ssa.Instruction) {
		if mu, ok := ins.(*ssa.MapUpdate); ok && isLoadOfField(mu.Map, txField) {
			reg = true
		}
	})
	r.Check(reg, "transaction.RegistryImpl.Begin:registers", c.FnPos(begin), "the received transaction is stored in the registry", "Begin no longer stores the new transaction in the registry (it could never be finished by handle or by the sweeper)")
	r.Rule("begin-goroutine-errors", 0)
	r.Info("transaction.RegistryImpl.Begin", c.FnPos(begin), "the begin goroutine's early error returns never send a result (staticcheck SA4006): the caller sees a timeout instead of the error; no lock is held on those paths")
}

// chanMake resolves a channel value used in closure cl to the MakeChan in the enclosing function.
func chanMake(v ssa.Value, cl *ssa.Function) *ssa.MakeChan {
	for depth := 0; depth < 6; depth++ {
		switch x := v.(type) {
		case *ssa.MakeChan:
			return x
		case *ssa.UnOp:
			if x.Op != token.MUL {
				return nil
			}
			v = x.X
		case *ssa.FreeVar:
			// find binding in the parent's MakeClosure
			parent := cl.Parent()
			idx := -1
			for i, fv := range cl.FreeVars {
				if fv == x {
					idx = i
				}
			}
			if parent == nil || idx < 0 {
				return nil
			}
			var bound ssa.Value
			AllInstrs(parent, false, func(_ *ssa.Function, ins ssa.Instruction) {
				if mc, ok := ins.(*ssa.MakeClosure); ok && mc.Fn == cl {
					bound = mc.Bindings[idx]
				}
			})
			if bound == nil {
				return nil
			}
			cl = parent
			v = bound
		case *ssa.Alloc:
			// cell: unique store
			var val ssa.Value
			n := 0
			for _, ref := range *x.Referrers() {
				if st, ok := ref.(*ssa.Store); ok && st.Addr == x {
					val = st.Val
					n++
				}
			}
			if n != 1 {
				return nil
			}
			v = val
		default:
			return nil
		}
	}
	return nil
}

func ruleTxStale(c *Ctx, r *Reporter) {
	r.Rule("cleanup-criteria", 2)
	fn := c.Func("pkg/transaction", "RegistryImpl", "CleanupStaleTransactions")
	creation := c.Field("pkg/transaction", "TransactionImpl", "creationTime")
	lastActive := c.Field("pkg/transaction", "TransactionImpl", "lastActiveTime")
	ttl := c.Field("pkg/transaction", "TransactionImpl", "ttl")
	idle := c.Field("pkg/transaction", "RegistryImpl", "idleTxTTL")
	if fn == nil || creation == nil || lastActive == nil || ttl == nil || idle == nil {
		r.Unresolved("transaction.RegistryImpl.CleanupStaleTransactions / TransactionImpl.{creationTime,lastActiveTime,ttl} / RegistryImpl.idleTxTTL", "not found")
		return
	}
	// durationSince(field): a call to (time.Time).Sub whose argument is a load of the field (or time.Since(field))
	isSince := func(v ssa.Value, f *types.Var) bool {
		call, ok := v.(*ssa.Call)
		if !ok {
			return false
		}
		sc := call.Call.StaticCallee()
		if sc == nil {
			return false
		}
		switch sc.String() {
		case "(time.Time).Sub":
			return len(call.Call.Args) == 2 && loadsFieldDeep(call.Call.Args[1], f)
		case "time.Since":
			return len(call.Call.Args) == 1 && loadsFieldDeep(call.Call.Args[0], f)
		}
		return false
	}
	check := func(label string, sinceField, limitField *types.Var) {
		found := false
		pos := c.FnPos(fn)
		for _, b := range fn.Blocks {
			if len(b.Instrs) == 0 {
				continue
			}
			iff, ok := b.Instrs[len(b.Instrs)-1].(*ssa.If)
			if !ok {
				continue
			}
			bo, ok := iff.Cond.(*ssa.BinOp)
			if !ok {
				continue
			}
			op := bo.Op
			x, y := bo.X, bo.Y
			if isSince(y, sinceField) {
				x, y = y, x
				op = flipOp(op)
			}
			if !isSince(x, sinceField) || !isLoadOfField(y, limitField) {
				continue
			}
			if op != token.GTR && op != token.GEQ {
				continue
			}
			// true edge collects the id as stale: the successor appends to a slice
			hasAppend := false
			for _, ins := range b.Succs[0].Instrs {
				if call, ok := ins.(*ssa.Call); ok {
					if bi, ok := call.Call.Value.(*ssa.Builtin); ok && bi.Name() == "append" {
						hasAppend = true
					}
				}
			}
			if hasAppend {
				found = true
				pos = c.InsPos(iff)
			}
		}
		r.Check(found, "transaction.RegistryImpl.CleanupStaleTransactions:"+label, pos, "criterion present: "+label, "the sweeper no longer marks a transaction stale when "+label+" (an abandoned transaction would keep the lock)")
	}
	check("age > ttl", creation, ttl)
	check("idle > idleTxTTL", lastActive, idle)
}

func loadsFieldDeep(v ssa.Value, f *types.Var) bool {
	if isLoadOfField(v, f) {
		return true
	}
	if u, ok := v.(*ssa.UnOp); ok && u.Op == token.MUL {
		if al, ok := u.X.(*ssa.Alloc); ok {
			for _, ref := range *al.Referrers() {
				if st, ok := ref.(*ssa.Store); ok && st.Addr == al && (isLoadOfField(st.Val, f) || loadsFieldDeep(st.Val, f)) {
					return true
				}
			}
		}
	}
	// a getter: a small function every return of which is a load of the field (possibly under the owner's lock)
	if call, ok := v.(*ssa.Call); ok {
		if g := call.Call.StaticCallee(); g != nil && len(g.Blocks) > 0 && len(g.Blocks) <= 4 {
			rets := Returns(g)
			if len(rets) == 0 {
				return false
			}
			for _, ret := range rets {
				if len(ret.Results) != 1 || !isLoadOfField(resolveLoad(ReturnValue(ret, 0)), f) {
					return false
				}
			}
			return true
		}
	}
	return false
}

var _ = fmt.Sprintf
