package main

import (
	"fmt"
	"go/token"
	"go/types"
	"strings"

	"golang.org/x/tools/go/ssa"
)

// registerCalls sets scenario values for the results of calls (static or invoke) by callee name.
func registerCalls(fn *ssa.Function, sc *Scenario, inLoop func(*ssa.BasicBlock) bool, ints map[string]int64, bools map[string]bool) {
	if sc.Terms == nil {
		sc.Terms = map[string]int64{}
	}
	if sc.Bools == nil {
		sc.Bools = map[string]bool{}
	}
	ev := &evaluator{sc: sc, phi: map[*ssa.Phi]ssa.Value{}}
	AllInstrs(fn, false, func(_ *ssa.Function, ins ssa.Instruction) {
		call, ok := ins.(*ssa.Call)
		if !ok || (inLoop != nil && !inLoop(ins.Block())) {
			return
		}
		n := calleeName(call.Common())
		if sc.Vals == nil {
			sc.Vals = map[ssa.Value]int64{}
			sc.BoolVals = map[ssa.Value]bool{}
		}
		if v, ok := bools[n]; ok {
			sc.BoolVals[call] = v
		}
		if v, ok := ints[n]; ok {
			if _, isTuple := call.Type().(*types.Tuple); isTuple {
				if call.Referrers() != nil {
					tup := call.Type().(*types.Tuple)
					for _, ref := range *call.Referrers() {
						if ex, ok := ref.(*ssa.Extract); ok && ex.Index == tup.Len()-1 {
							sc.Vals[ex] = v
						}
					}
				}
			} else {
				sc.Vals[call] = v
			}
			sc.Terms[ev.pathOf(call)] = v
			if tup, isTuple := call.Type().(*types.Tuple); isTuple {
				// (n, err) style results: the last component gets the value (nil error), the others are left to defaults
				sc.Terms[fmt.Sprintf("%s#%d", ev.pathOf(call), tup.Len()-1)] = v
			}
		}
		if v, ok := bools[n]; ok {
			sc.Bools[ev.pathOf(call)] = v
		}
	})
}

func ruleFlushRules(c *Ctx, r *Reporter) {
	a := getStAnchors(c, r)
	if !a.ok {
		return
	}
	fn := a.flushMem
	r.Rule("flush-dedup-table", 10)
	// collecting loop: the loop that calls Iterator.Key and Iterator.Next
	var loop *GenericLoop
	for _, l := range GenericLoops(fn) {
		hasKey, hasNext := false, false
		for _, b := range fn.Blocks {
			if !l.Contains(b) {
				continue
			}
			for _, ins := range b.Instrs {
				if call, ok := ins.(*ssa.Call); ok && call.Call.StaticCallee() != nil && recvTypeName(call.Call.StaticCallee()) == "memtable.Iterator" {
					switch call.Call.StaticCallee().Name() {
					case "Key":
						hasKey = true
					case "Next":
						hasNext = true
					}
				}
			}
		}
		if hasKey && hasNext {
			loop = l
		}
	}
	if loop == nil {
		r.Undecided("storage.Manager.flushMemTable:collect", c.FnPos(fn), "no loop over the memtable iterator found")
	} else {
		var entriesPhi, prevPhi *ssa.Phi
		for _, ins := range loop.Header.Instrs {
			if ph, ok := ins.(*ssa.Phi); ok {
				if ph.Type().String() == "[]byte" {
					prevPhi = ph
				} else if strings.HasPrefix(ph.Type().String(), "[]") {
					entriesPhi = ph
				}
			}
		}
		// the stored-sequence operand of the dedup comparison
		lastSeqPath := ""
		AllInstrs(fn, false, func(_ *ssa.Function, ins ssa.Instruction) {
			bo, ok := ins.(*ssa.BinOp)
			if !ok || !loop.Contains(ins.Block()) {
				return
			}
			for _, pair := range [][2]ssa.Value{{bo.X, bo.Y}, {bo.Y, bo.X}} {
				if call, ok := pair[0].(*ssa.Call); ok && calleeName(call.Common()) == "SequenceNumber" {
					ev := &evaluator{sc: &Scenario{}, phi: map[*ssa.Phi]ssa.Value{}}
					lastSeqPath = ev.pathOf(pair[1])
				}
			}
		})
		if entriesPhi == nil || prevPhi == nil || lastSeqPath == "" {
			r.Undecided("storage.Manager.flushMemTable:collect", c.blockPos(loop.Header), "collecting loop does not carry (entries, previousKey) or has no sequence comparison")
		} else {
			type row struct {
				name            string
				prev, key       int64
				seq, last       int64
				val             int64
				wantAppend, rep bool
			}
			rows := []row{
				{"first-key", NilRank, 5, 5, 0, 7, true, false},
				{"new-key", 4, 5, 5, 9, 7, true, false},
				{"new-key,tombstone", 4, 5, 5, 9, NilRank, true, false},
				{"first-key,tombstone", NilRank, 5, 5, 0, NilRank, true, false},
				{"same-key,seq>stored", 5, 5, 6, 5, 7, false, true},
				{"same-key,seq>stored,tombstone", 5, 5, 6, 5, NilRank, false, true},
				{"same-key,seq=stored", 5, 5, 5, 5, 7, false, false},
				{"same-key,seq<stored", 5, 5, 4, 5, 7, false, false},
				{"same-key,seq=stored,tombstone", 5, 5, 5, 5, NilRank, false, false},
				{"same-key,seq<stored,tombstone", 5, 5, 4, 5, NilRank, false, false},
			}
			for _, rw := range rows {
				sc := &Scenario{Terms: map[string]int64{"phi:" + prevPhi.Comment: rw.prev, lastSeqPath: rw.last, "phi:" + entriesPhi.Comment: 1, "len(phi:" + entriesPhi.Comment + ")": 3}, Bools: map[string]bool{}}
				registerCalls(fn, sc, loop.Contains, map[string]int64{"Key": rw.key, "Value": rw.val, "SequenceNumber": rw.seq}, map[string]bool{"Valid": true})
				ev := EvalLoopIter(loop, sc)
				rn := "storage.Manager.flushMemTable:collect[" + rw.name + "]"
				if ev.Err != "" || ev.Reached == nil {
					r.Undecided(rn, c.blockPos(loop.Header), "row not decidable: "+ev.Err)
					continue
				}
				appended := ev.PhiNext(entriesPhi) != ssa.Value(entriesPhi)
				replaced := false
				for _, e := range ev.Effects {
					if e.Kind == "store" && strings.HasPrefix(strings.TrimLeft(e.What, "&"), "phi:"+entriesPhi.Comment+"[") {
						replaced = true
					}
				}
				advanced := ev.HasCall("Next")
				good := appended == rw.wantAppend && replaced == rw.rep && advanced
				r.Check(good, rn, c.blockPos(loop.Header), fmt.Sprintf("appended=%v replaced=%v", appended, replaced),
					fmt.Sprintf("appended=%v replaced=%v advanced=%v; specification: every key change (values and tombstones alike) adds an entry; for the same key the stored entry is replaced only by a strictly higher sequence", appended, replaced, advanced))
			}
		}
	}
	// write loop: every collected entry reaches AddWithSequence with its own key, value and sequence number
	r.Rule("flush-writes-everything", 1)
	add := c.Func("pkg/sstable", "Writer", "AddWithSequence")
	var wl *RangeLoop
	for _, l := range RangeLoops(fn) {
		for _, b := range fn.Blocks {
			if l.InLoop(b) {
				for _, ins := range b.Instrs {
					if call, ok := ins.(*ssa.Call); ok && call.Call.StaticCallee() == add && add != nil {
						wl = l
					}
				}
			}
		}
	}
	if wl == nil {
		r.Bad("storage.Manager.flushMemTable:write", c.FnPos(fn), "no loop writes the collected entries with AddWithSequence")
	} else {
		isAdd := func(i ssa.Instruction) bool {
			call, ok := i.(*ssa.Call)
			return ok && call.Call.StaticCallee() == add
		}
		bad, path := wl.IterationMustPass(isAdd, nil)
		if bad != nil {
			r.Bad("storage.Manager.flushMemTable:write", c.blockPos(wl.Body), "a collected entry can be skipped by the write loop (e.g. a tombstone or an empty value is not written): the SSTable would miss it and an older value would resurface", c.PathString(path)...)
		} else {
			okArgs := false
			AllInstrs(fn, false, func(_ *ssa.Function, ins ssa.Instruction) {
				if !isAdd(ins) {
					return
				}
				args := ins.(*ssa.Call).Call.Args
				ev := &evaluator{sc: &Scenario{}, phi: map[*ssa.Phi]ssa.Value{}}
				k, v, s := ev.pathOf(args[1]), ev.pathOf(args[2]), ev.pathOf(args[3])
				okArgs = strings.HasSuffix(k, ".key") && strings.HasSuffix(v, ".value") && strings.HasSuffix(s, ".seqNum") &&
					strings.TrimSuffix(k, ".key") == strings.TrimSuffix(v, ".value") && strings.TrimSuffix(k, ".key") == strings.TrimSuffix(s, ".seqNum")
			})
			r.Check(okArgs, "storage.Manager.flushMemTable:write", c.blockPos(wl.Body), "every entry is written with its own key, value (nil for tombstones) and sequence number", "the written key/value/sequence are not the fields of the same collected entry")
		}
	}
}

// ---------------------------------------------------------------- empty is not deleted

func ruleEmptyNotDeleted(c *Ctx, r *Reporter) {
	r.Rule("empty-is-not-deleted", 3)
	// (1) no nil-collapsing copy append(<nil>, x...) flows into a value sink (a struct field named value/Value, or a
	// parameter named value of the table/block writers)
	n := 0
	for _, fn := range c.KevoFns {
		p := pkgOf(fn)
		if !strings.HasPrefix(p, "pkg/") || strings.HasPrefix(p, "pkg/client") {
			continue
		}
		AllInstrs(fn, false, func(_ *ssa.Function, ins ssa.Instruction) {
			call, ok := ins.(*ssa.Call)
			if !ok {
				return
			}
			b, ok := call.Call.Value.(*ssa.Builtin)
			if !ok || b.Name() != "append" || len(call.Call.Args) != 2 || !isNilConst(call.Call.Args[0]) || call.Type().String() != "[]byte" {
				return
			}
			// where does it flow?
			if sink, pos := flowsToValueSink(call, 0); sink != "" {
				n++
				r.Bad(FnName(fn)+":nil-collapsing-copy→"+sink, c.InsPos(ins), "append([]byte(nil), v...) is nil for an EMPTY v and flows into '"+sink+"' where nil means 'deleted': an empty value is stored as a tombstone ("+c.InsPos(pos)+")")
			}
		})
	}
	if n == 0 {
		r.OK("nil-collapsing-copies", "-", "no append(<nil>, v...) result reaches a 'nil means tombstone' sink")
	}
	// (2) a value entry of the memtable never keeps a nil value: newEntry(key, nil, TypeValue, seq) stores non-nil
	ne := c.Func("pkg/memtable", "", "newEntry")
	tv := c.Const("pkg/memtable", "TypeValue")
	td := c.Const("pkg/memtable", "TypeDeletion")
	if ne == nil || tv == nil || td == nil || len(ne.Params) != 4 {
		r.Unresolved("memtable.newEntry / TypeValue / TypeDeletion", "not found")
		return
	}
	tvI, _ := constInt(ssa.NewConst(tv.Val(), tv.Type()))
	tdI, _ := constInt(ssa.NewConst(td.Val(), td.Type()))
	for _, row := range []struct {
		name    string
		val, ty int64
		wantNil bool
	}{{"value=nil,TypeValue", NilRank, tvI, false}, {"value=bytes,TypeValue", 7, tvI, false}, {"value=nil,TypeDeletion", NilRank, tdI, true}} {
		sc := &Scenario{Terms: map[string]int64{"param:" + ne.Params[1].Name(): row.val, "param:" + ne.Params[2].Name(): row.ty, "param:" + ne.Params[0].Name(): 3}}
		ev := EvalPath(ne.Blocks[0], nil, sc, nil)
		rn := "memtable.newEntry[" + row.name + "]"
		if ev.Err != "" || ev.Ret == nil {
			r.Undecided(rn, c.FnPos(ne), "row not decidable: "+ev.Err)
			continue
		}
		stored, ok := ev.StoreTo(".value")
		if !ok {
			r.Undecided(rn, c.FnPos(ne), "no store to entry.value on this path")
			continue
		}
		isNil := stored == "nil"
		r.Check(isNil == row.wantNil, rn, c.FnPos(ne), "stored value: "+map[bool]string{true: "nil", false: "non-nil"}[isNil],
			fmt.Sprintf("stored value is %s; a value entry must carry a non-nil (possibly empty) value because the read path treats nil as 'deleted' (Put(k, nil) — what an empty protobuf value arrives as — would read as not-found)", map[bool]string{true: "nil", false: "non-nil"}[isNil]))
	}
}

// flowsToValueSink: does v flow (through phis, struct-field stores and calls) into a value sink?
func flowsToValueSink(v ssa.Value, d int) (string, ssa.Instruction) {
	if d > 4 || v.Referrers() == nil {
		return "", nil
	}
	for _, ref := range *v.Referrers() {
		switch x := ref.(type) {
		case *ssa.Store:
			if x.Val != v {
				continue
			}
			if fv := fieldVarOf(x.Addr); fv != nil && (fv.Name() == "value" || fv.Name() == "Value") {
				return "field " + fv.Name(), x
			}
		case *ssa.Phi:
			if s, p := flowsToValueSink(x, d+1); s != "" {
				return s, p
			}
		case *ssa.Call:
			f := x.Call.StaticCallee()
			if f == nil {
				continue
			}
			for i, a := range x.Call.Args {
				if a == v && i < len(f.Params) && f.Params[i].Name() == "value" && (strings.Contains(f.String(), "sstable") || strings.Contains(f.String(), "block")) {
					return "parameter value of " + FnName(f), x
				}
			}
		}
	}
	return "", nil
}

// ---------------------------------------------------------------- tombstone marker agreement

func ruleTombstoneMarker(c *Ctx, r *Reporter) {
	r.Rule("tombstone-marker-agreement", 3)
	k := c.Const("pkg/sstable/block", "TombstoneValueLengthMarker")
	finish := c.Func("pkg/sstable/block", "Builder", "Finish")
	valF := c.Field("pkg/sstable/block", "Entry", "Value")
	if k == nil || finish == nil || valF == nil {
		r.Unresolved("block.TombstoneValueLengthMarker / Builder.Finish / Entry.Value", "not found")
		return
	}
	kv := k.Val().ExactString()
	// writer: a binary.Write of the marker constant on the Value == nil edge, and no value bytes written there
	isValNil := func(cond ssa.Value) (bool, bool) {
		v, trueIsNonNil, ok := nilTest(cond)
		if !ok {
			return false, false
		}
		if u, ok := v.(*ssa.UnOp); ok && u.Op == token.MUL && fieldVarOf(u.X) == valF {
			return !trueIsNonNil, trueIsNonNil
		}
		if f, ok := v.(*ssa.Field); ok && fieldVarOf(f) == valF {
			return !trueIsNonNil, trueIsNonNil
		}
		return false, false
	}
	wOK := false
	wElse := false
	AllInstrs(finish, false, func(_ *ssa.Function, ins ssa.Instruction) {
		call, ok := ins.(*ssa.Call)
		if !ok || staticName(call) != "encoding/binary.Write" {
			return
		}
		mi, ok := call.Call.Args[2].(*ssa.MakeInterface)
		if !ok {
			return
		}
		if kc, ok := mi.X.(*ssa.Const); ok && kc.Value != nil && kc.Value.ExactString() == kv && kc.Type().String() == "uint32" {
			if GuardedBy(ins.Block(), isValNil) {
				wOK = true
			} else {
				wElse = true
			}
		}
	})
	r.Check(wOK && !wElse, "block.Builder.Finish:marker", c.FnPos(finish), "the tombstone marker is written exactly on the Value == nil edge", "the tombstone marker is not written exactly when Value == nil")
	for _, dn := range []string{"decodeCurrent", "decodeNext"} {
		fn := c.Func("pkg/sstable/block", "Iterator", dn)
		if fn == nil {
			r.Unresolved("block.Iterator."+dn, "not found")
			continue
		}
		// a comparison valueLen == marker exists, and the value allocation sits on its false edge
		isMarker := func(cond ssa.Value) (bool, bool) {
			bo, ok := cond.(*ssa.BinOp)
			if !ok || (bo.Op != token.EQL && bo.Op != token.NEQ) {
				return false, false
			}
			kc, ok := bo.Y.(*ssa.Const)
			if !ok || kc.Value == nil || kc.Value.ExactString() != kv {
				return false, false
			}
			return bo.Op == token.EQL, bo.Op == token.NEQ
		}
		notMarker := func(cond ssa.Value) (bool, bool) { t, f := isMarker(cond); return f, t }
		has := false
		allocGuarded := true
		AllInstrs(fn, false, func(_ *ssa.Function, ins ssa.Instruction) {
			if iff, ok := ins.(*ssa.If); ok {
				if t, f := isMarker(iff.Cond); t || f {
					has = true
				}
			}
			if mk, ok := ins.(*ssa.MakeSlice); ok {
				// the value buffer: its length derives from the value-length field (not the key)
				if strings.Contains(Path(mk.Len), "valueLen") || lenFromUint32(mk.Len) {
					if !GuardedBy(ins.Block(), notMarker) {
						allocGuarded = false
					}
				}
			}
		})
		r.Check(has && allocGuarded, "block.Iterator."+dn+":marker", c.FnPos(fn), "a value length equal to the marker yields a nil value; values are materialised only on the other edge",
			"the reader does not test the value length against the same tombstone marker constant the writer uses (or materialises a value on the marker edge)")
	}
}

func lenFromUint32(v ssa.Value) bool {
	if cv, ok := v.(*ssa.Convert); ok {
		return cv.X.Type().String() == "uint32"
	}
	return v.Type().String() == "uint32"
}

// ---------------------------------------------------------------- recency at load

func ruleRecencyAtLoad(c *Ctx, r *Reporter) {
	a := getStAnchors(c, r)
	if !a.ok {
		return
	}
	r.Rule("recency-at-load", 2)
	for _, fn := range []*ssa.Function{a.load, a.reload} {
		// the list built from the directory must be given a recency order: a sort of Manager.sstables (directly or in a
		// helper) that every success exit after the first append passes
		sorts := FnSet{}
		for _, f := range c.KevoFns {
			if pkgOf(f) != "pkg/engine/storage" {
				continue
			}
			AllInstrs(f, false, func(_ *ssa.Function, ins ssa.Instruction) {
				if call, ok := ins.(*ssa.Call); ok {
					switch staticName(call) {
					case "sort.Slice", "sort.SliceStable", "sort.Sort", "sort.Stable", "slices.SortFunc", "slices.SortStableFunc":
						sorts[f] = true
					}
				}
			})
		}
		var firstAppend ssa.Instruction
		AllInstrs(fn, false, func(_ *ssa.Function, ins ssa.Instruction) {
			if st, ok := ins.(*ssa.Store); ok && fieldVarOf(st.Addr) == a.sstables {
				if call, ok := st.Val.(*ssa.Call); ok {
					if b, ok := call.Call.Value.(*ssa.Builtin); ok && b.Name() == "append" {
						firstAppend = ins
					}
				}
			}
		})
		if firstAppend == nil {
			r.Undecided(FnName(fn), c.FnPos(fn), "no append to the SSTable list found in the loader")
			continue
		}
		exits := SuccessExits(fn, true)
		isExit := func(i ssa.Instruction) bool {
			for _, e := range exits {
				if e == i {
					return true
				}
			}
			return false
		}
		bad, path := Reach(fn, firstAppend, isExit, func(i ssa.Instruction) bool {
			call, ok := i.(*ssa.Call)
			if !ok {
				return false
			}
			if sorts[fn] {
				switch staticName(call) {
				case "sort.Slice", "sort.SliceStable", "slices.SortFunc", "slices.SortStableFunc":
					return true
				}
			}
			return c.CallMust(i, sorts) && argIsField(call, a.sstables)
		})
		if bad != nil {
			r.Bad(FnName(fn), c.InsPos(firstAppend), "the SSTable list is left in directory (file name) order: level ascending and a per-process counter that restarts at every open, while readers treat the LAST element as the newest table", c.PathString(path)...)
		} else {
			r.OK(FnName(fn), c.InsPos(firstAppend), "the loaded list is sorted into recency order before it is used")
		}
	}
	// the comparator: deeper level first, then older timestamp first (P-ORD table)
	r.Rule("recency-comparator-table", 5)
	var cmp *ssa.Function
	for _, f := range c.KevoFns {
		if pkgOf(f) == "pkg/engine/storage" && f.Parent() != nil && f.Signature.Params().Len() == 2 && f.Signature.Results().Len() == 1 && f.Signature.Results().At(0).Type().String() == "bool" {
			if strings.Contains(FnName(f.Parent()), "sortSSTables") || strings.Contains(FnName(f.Parent()), "Recency") {
				cmp = f
			}
		}
	}
	if cmp == nil {
		r.Undecided("storage:recency-comparator", "-", "no comparator closure of the recency sort found")
		return
	}
	// terms: the two fileAge structs come from calls age(tables[i]) / age(tables[j]); give their fields ranks
	var calls []*ssa.Call
	AllInstrs(cmp, false, func(_ *ssa.Function, ins ssa.Instruction) {
		if call, ok := ins.(*ssa.Call); ok && call.Call.StaticCallee() == nil {
			if _, isB := call.Call.Value.(*ssa.Builtin); !isB {
				calls = append(calls, call)
			}
		}
	})
	if len(calls) != 2 {
		r.Undecided("storage:recency-comparator", c.FnPos(cmp), "comparator does not compute two ages")
		return
	}
	for _, row := range []struct {
		la, lb, ta, tb int64
		want           bool
		name           string
	}{{1, 0, 5, 9, true, "deeper-level-first"}, {0, 1, 5, 9, false, "shallower-level-later"}, {0, 0, 5, 9, true, "same-level,older-first"}, {0, 0, 9, 5, false, "same-level,newer-later"}, {0, 0, 5, 5, false, "equal"}} {
		sc := &Scenario{Terms: map[string]int64{}}
		ev := &evaluator{sc: sc, phi: map[*ssa.Phi]ssa.Value{}}
		pa, pb := ev.pathOf(calls[0]), ev.pathOf(calls[1])
		// the age struct's fields: one named like "level", one like "time"
		lvl, tim := "", ""
		if st, ok := calls[0].Type().Underlying().(*types.Struct); ok {
			for i := 0; i < st.NumFields(); i++ {
				n := strings.ToLower(st.Field(i).Name())
				if strings.Contains(n, "level") {
					lvl = st.Field(i).Name()
				}
				if strings.Contains(n, "time") || strings.Contains(n, "stamp") {
					tim = st.Field(i).Name()
				}
			}
		}
		if lvl == "" || tim == "" {
			r.Undecided("storage:recency-comparator["+row.name+"]", c.FnPos(cmp), "age record has no level/time fields")
			continue
		}
		sc.Terms[pa+"."+lvl], sc.Terms[pb+"."+lvl] = row.la, row.lb
		sc.Terms[pa+"."+tim], sc.Terms[pb+"."+tim] = row.ta, row.tb
		res := EvalPath(cmp.Blocks[0], nil, sc, nil)
		rn := "storage:recency-comparator[" + row.name + "]"
		if res.Err != "" || res.Ret == nil || res.RetVals[0].Kind != "bool" {
			r.Undecided(rn, c.FnPos(cmp), "row not decidable: "+res.Err)
			continue
		}
		r.Check(res.RetVals[0].B == row.want, rn, c.FnPos(cmp), fmt.Sprint("less=", res.RetVals[0].B), fmt.Sprintf("less=%v; specification: deeper level first, then older creation time first (so that the last element is the newest table)", res.RetVals[0].B))
	}
}

func argIsField(call *ssa.Call, fv interface{}) bool {
	for _, a := range call.Call.Args {
		if u, ok := a.(*ssa.UnOp); ok && u.Op == token.MUL {
			if fieldVarOf(u.X) == fv {
				return true
			}
		}
	}
	return false
}
