package main

import (
	"fmt"
	"go/constant"
	"go/token"
	"sort"
	"strings"

	"golang.org/x/tools/go/ssa"
)

func init() {
	register(&PropertyDef{
		ID: "C10",
		Explanation: "Decided (structural part of 'log damage is contained'): " +
			"(1) error-class exhaustiveness — every error value that can leave Reader.ReadEntry (sentinels, fmt.Errorf formats with their %w operands resolved to the errors.New texts, pass-through results of io.ReadFull) is classified under the very predicates the replay loops use (== io.EOF, errors.Is(io.ErrUnexpectedEOF), strings.Contains of the constant substrings found in the loops): none may be 'fatal', because a fatal class makes recovery fail and the open path move every log file aside; " +
			"(2) never discard logs — no rename/remove of log files on the open/recovery path (destructive-operation table); " +
			"(3) reuse validates the tail — ReuseWAL opens the newest file for appending only behind a successful entry-boundary scan, which answers true only for a clean io.EOF; readRecord never converts another error into io.EOF and ReadEntry reports io.EOF only with no pending fragments; " +
			"(4) CRC on every success exit of readRecord; (5) no fabrication — every variable-length slice of parseEntryData is dominated by a bounds check against len(data); a new first fragment discards pending fragments; recoverFromCorruption constructs no entry. " +
			"(6) second level: the errors ReplayWALFile itself returns while handling a damaged record are classified 'skip this file' by ReplayWALDir's predicates (substring or errors.Is against a sentinel the error wraps); no read after the first of a record can leave readRecord as a clean io.EOF. " +
			"Added after blind round 5: ReadEntry answers an explicit io.EOF only behind err == io.EOF. " +
			"Added after blind round 6: NewManager has a log before recovery (writes acknowledged after a recovery must be numbered above what was recovered). " +
			"Added after blind round 7: after a damaged record the resynchronisation either skips at least one maximal record or resets the pending fragments (a torn entry's first fragment must not be glued to later ones). " +
			"Added after blind round 8: re-stated after fix 4f4a928: the exits of ReadEntry that report a damaged record lie behind a reset of the pending fragments (the earlier criterion 'the resynchronisation skips a maximal record' was unsound and has been withdrawn). " +
			"Added after blind round 9: wal.OpenReader fails only behind a failed system call; no integer division by an untested variable in the functions recovery reaches (a counter of recovered entries is 0 when the first record is damaged: a panic at every open).",
		NotDecided: "the set of entries delivered for each truncation offset / corruption position (enumeration: a different family); that resynchronisation after skipping 32 KB finds a record boundary.",
		Rules:      []func(*Ctx, *Reporter){ruleWalErrorClasses, ruleDestructiveOps, ruleReuseValidatesTail, ruleWalCRC, ruleNoFabrication, ruleLogExistsBeforeRecovery, ruleSkipAfterDamageDropsFragments, ruleLogOpenFailsOnlyOnIO, ruleNoUnguardedDivisionOnOpenPath},
	})
}

// errText resolves the message of an error value: global sentinel -> its errors.New text; fmt.Errorf -> format with %w/%v
// operands substituted when they are sentinels.
func (c *Ctx) sentinelText(g *ssa.Global) string {
	if g == nil || g.Pkg == nil {
		return ""
	}
	switch g.Pkg.Pkg.Path() + "." + g.Name() {
	case "io.EOF":
		return "EOF"
	case "io.ErrUnexpectedEOF":
		return "unexpected EOF"
	}
	init := g.Pkg.Func("init")
	if init == nil {
		return ""
	}
	text := ""
	AllInstrs(init, false, func(_ *ssa.Function, ins ssa.Instruction) {
		st, ok := ins.(*ssa.Store)
		if !ok || st.Addr != ssa.Value(g) {
			return
		}
		if call, ok := st.Val.(*ssa.Call); ok && staticName(call) == "errors.New" {
			if s, ok := constString(call.Call.Args[0]); ok {
				text = s
			}
		}
	})
	return text
}

type errClass struct {
	Text   string
	IsEOF  bool
	IsUEOF bool
	Pos    string
	From   string
	Wraps  []string // names of the sentinel globals the error is or wraps (%w)
	Direct bool     // the sentinel value itself (== matches), not an error wrapping it
}

// errorsLeaving collects the error values returned (as failures) by fn and, transitively, by the kevo callees whose error
// it passes through.
func (c *Ctx) errorsLeaving(fn *ssa.Function, seen map[*ssa.Function]bool) []errClass {
	if seen[fn] {
		return nil
	}
	seen[fn] = true
	var out []errClass
	k := errResultIndex(fn)
	if k < 0 {
		return nil
	}
	for _, ret := range Returns(fn) {
		if ClassifyReturn(ret) == ExitSuccess {
			continue
		}
		out = append(out, c.errorsOfValueSeen(fn, ReturnValue(ret, k), ret, seen)...)
	}
	return out
}

// errorsOfValue: the error values an expression of fn can denote (sentinels, fmt.Errorf texts, pass-through of callees).
func (c *Ctx) errorsOfValue(fn *ssa.Function, v ssa.Value, at ssa.Instruction) []errClass {
	return c.errorsOfValueSeen(fn, v, at, map[*ssa.Function]bool{fn: true})
}

func (c *Ctx) errorsOfValueSeen(fn *ssa.Function, v0 ssa.Value, at0 ssa.Instruction, seen map[*ssa.Function]bool) []errClass {
	var out []errClass
	var resolve func(v ssa.Value, at ssa.Instruction, d int)
	resolve = func(v ssa.Value, at ssa.Instruction, d int) {
		if d > 6 || v == nil {
			return
		}
		v = resolveLoad(stripConv(v))
		if isNilConst(v) {
			return
		}
		if g := globalLoad(v); g != nil {
			t := c.sentinelText(g)
			out = append(out, errClass{Text: t, IsEOF: g.Pkg.Pkg.Path() == "io" && g.Name() == "EOF", IsUEOF: g.Name() == "ErrUnexpectedEOF", Pos: c.InsPos(at), From: FnName(fn), Wraps: []string{g.Name()}, Direct: true})
			return
		}
		switch x := v.(type) {
		case *ssa.Phi:
			for _, e := range x.Edges {
				resolve(e, at, d+1)
			}
		case *ssa.Extract:
			if call, ok := x.Tuple.(*ssa.Call); ok {
				switch staticName(call) {
				case "io.ReadFull", "io.ReadAtLeast":
					out = append(out, errClass{Text: "EOF", IsEOF: true, Direct: true, Pos: c.InsPos(at), From: FnName(fn) + " (io.ReadFull: nothing read)"})
					out = append(out, errClass{Text: "unexpected EOF", IsUEOF: true, Direct: true, Pos: c.InsPos(at), From: FnName(fn) + " (io.ReadFull: short read)"})
					return
				}
				for _, cal := range c.Callees(call) {
					if c.InKevo(cal) {
						out = append(out, c.errorsLeaving(cal, seen)...)
					}
				}
			}
		case *ssa.Call:
			if staticName(x) == "fmt.Errorf" {
				format, _ := constString(x.Call.Args[0])
				text := format
				isU := false
				var wraps []string
				// operands
				if len(x.Call.Args) > 1 {
					for _, el := range sliceLiteralElems(x.Call.Args[1]) {
						if g := globalLoad(stripAll(el)); g != nil {
							t := c.sentinelText(g)
							if g.Name() == "ErrUnexpectedEOF" {
								isU = true
							}
							if strings.Contains(text, "%w") {
								wraps = append(wraps, g.Name())
							}
							text = strings.Replace(text, "%w", t, 1)
						}
					}
				}
				out = append(out, errClass{Text: text, IsUEOF: isU, Pos: c.InsPos(at), From: FnName(fn), Wraps: wraps})
				return
			}
			if staticName(x) == "errors.New" {
				s, _ := constString(x.Call.Args[0])
				out = append(out, errClass{Text: s, Pos: c.InsPos(at), From: FnName(fn)})
				return
			}
			for _, cal := range c.Callees(x) {
				if c.InKevo(cal) {
					out = append(out, c.errorsLeaving(cal, seen)...)
				}
			}
		}
	}
	resolve(v0, at0, 0)
	return out
}

func ruleWalErrorClasses(c *Ctx, r *Reporter) {
	r.Rule("error-class-exhaustiveness", 8)
	read := c.Func("pkg/wal", "Reader", "ReadEntry")
	if read == nil {
		r.Unresolved("wal.Reader.ReadEntry", "not found")
		return
	}
	errs := c.errorsLeaving(read, map[*ssa.Function]bool{})
	// dedupe by text
	uniq := map[string]errClass{}
	for _, e := range errs {
		if _, has := uniq[e.Text]; !has {
			uniq[e.Text] = e
		}
	}
	for _, loopFn := range []*ssa.Function{c.Func("pkg/wal", "", "ReplayWALFile"), c.Func("pkg/wal", "WAL", "getEntriesFromFile")} {
		if loopFn == nil {
			r.Unresolved("wal.ReplayWALFile / WAL.getEntriesFromFile", "not found")
			continue
		}
		preds := c.errorPredicates(loopFn)
		r.Notes = append(r.Notes, fmt.Sprintf("C10 %s classifies: io.EOF(==:%v Is:%v) ErrUnexpectedEOF(==:%v Is:%v) contains%v is%v", FnName(loopFn), preds.eofEq, preds.eof, preds.ueofEq, preds.ueof, preds.substrings, preds.sentinels))
		var texts []string
		for t := range uniq {
			texts = append(texts, t)
		}
		sort.Strings(texts)
		for _, t := range texts {
			e := uniq[t]
			class := preds.classify(e)
			name := fmt.Sprintf("%s:%q", FnName(loopFn), t)
			r.Check(class != "fatal", name, e.Pos, "classified "+class+" (raised in "+e.From+")",
				"an error that log damage can produce ("+fmt.Sprintf("%q", t)+", raised in "+e.From+") matches none of the loop's predicates and is FATAL: recovery fails, every log file is moved to a backup directory and the engine opens empty")
		}
	}
	// second level: what ReplayWALFile itself returns while it is handling a damaged record (the region behind its own
	// 'skip' predicate) must be classified 'skip this file' by ReplayWALDir, not fatal
	file := c.Func("pkg/wal", "", "ReplayWALFile")
	dir := c.Func("pkg/wal", "", "ReplayWALDir")
	if file == nil || dir == nil {
		r.Unresolved("wal.ReplayWALFile / ReplayWALDir", "not found")
		return
	}
	skipFact := func(cond ssa.Value) (bool, bool) {
		call, ok := cond.(*ssa.Call)
		if !ok {
			return false, false
		}
		if isErrPredicateHelper(call.Call.StaticCallee()) {
			if q := c.errorPredicates(call.Call.StaticCallee()); len(q.substrings)+len(q.sentinels) > 0 {
				return true, false
			}
		}
		switch staticName(call) {
		case "strings.Contains":
			return true, false
		case "errors.Is":
			if g := globalLoad(call.Call.Args[1]); g != nil && g.Pkg != nil && strings.HasPrefix(g.Pkg.Pkg.Path(), modPath) {
				return true, false
			}
		}
		return false, false
	}
	dpreds := c.errorPredicates(dir)
	r.Notes = append(r.Notes, fmt.Sprintf("C10 %s classifies: contains%v is%v", FnName(dir), dpreds.substrings, dpreds.sentinels))
	k := errResultIndex(file)
	nL2 := 0
	for _, ret := range Returns(file) {
		if ClassifyReturn(ret) == ExitSuccess || !GuardedBy(ret.Block(), skipFact) {
			continue
		}
		for _, e := range c.errorsOfValue(file, ReturnValue(ret, k), ret) {
			nL2++
			class := dpreds.classify(e)
			name := fmt.Sprintf("%s:%q", FnName(dir), e.Text)
			r.Check(class != "fatal", name, e.Pos, "classified "+class+" (raised in "+e.From+" while handling a damaged record)",
				"the error ReplayWALFile returns while it is handling a damaged record ("+fmt.Sprintf("%q", e.Text)+") matches none of ReplayWALDir's predicates and is FATAL there: one damaged file makes recovery fail, every log file — the undamaged ones included — is moved to a backup directory and the engine opens empty")
		}
	}
	if nL2 == 0 {
		r.Info(FnName(dir)+":second-level", c.FnPos(file), "ReplayWALFile returns no error from inside its damage-handling region")
	}
}

type errPreds struct {
	substrings, sentinels []string
	eof, ueof             bool // errors.Is (matches wrapped errors as well)
	eofEq, ueofEq         bool // == (matches the sentinel value itself only)
}

// errorPredicates: the tests fn applies to error values (strings.Contains on the text, errors.Is / == against sentinels).
// isErrPredicateHelper: a module function that takes an error and answers with one bool (`looksCorrupt(err)`): the
// classification tests it makes count as tests of its caller.
func isErrPredicateHelper(f *ssa.Function) bool {
	if f == nil || len(f.Blocks) == 0 || f.Pkg == nil || !strings.HasPrefix(f.Pkg.Pkg.Path(), modPath) {
		return false
	}
	res := f.Signature.Results()
	if res.Len() != 1 || res.At(0).Type().String() != "bool" {
		return false
	}
	for i := 0; i < f.Signature.Params().Len(); i++ {
		if isErrorType(f.Signature.Params().At(i).Type()) {
			return true
		}
	}
	return false
}

func (c *Ctx) errorPredicates(fn *ssa.Function) errPreds {
	return c.errorPredicatesD(fn, 0)
}

func (c *Ctx) errorPredicatesD(fn *ssa.Function, depth int) errPreds {
	var p errPreds
	AllInstrs(fn, false, func(_ *ssa.Function, ins ssa.Instruction) {
		switch x := ins.(type) {
		case *ssa.Call:
			if h := x.Call.StaticCallee(); depth < 2 && isErrPredicateHelper(h) && h != fn {
				q := c.errorPredicatesD(h, depth+1)
				p.substrings = append(p.substrings, q.substrings...)
				p.sentinels = append(p.sentinels, q.sentinels...)
				p.eof, p.ueof, p.eofEq, p.ueofEq = p.eof || q.eof, p.ueof || q.ueof, p.eofEq || q.eofEq, p.ueofEq || q.ueofEq
			}
			if staticName(x) == "strings.Contains" {
				if s, ok := constString(x.Call.Args[1]); ok {
					p.substrings = append(p.substrings, s)
				}
			}
			if staticName(x) == "errors.Is" && len(x.Call.Args) == 2 {
				if g := globalLoad(x.Call.Args[1]); g != nil {
					switch g.Name() {
					case "ErrUnexpectedEOF":
						p.ueof = true
					case "EOF":
						p.eof = true
					default:
						p.sentinels = append(p.sentinels, g.Name())
					}
				}
			}
		case *ssa.BinOp:
			if x.Op == token.EQL || x.Op == token.NEQ {
				for _, o := range []ssa.Value{x.X, x.Y} {
					if g := globalLoad(o); g != nil && g.Pkg != nil && isErrorType(o.Type()) {
						switch {
						case g.Pkg.Pkg.Path() == "io" && g.Name() == "EOF":
							p.eofEq = true
						case g.Pkg.Pkg.Path() == "io" && g.Name() == "ErrUnexpectedEOF":
							p.ueofEq = true
						}
					}
				}
			}
		}
	})
	sort.Strings(p.substrings)
	sort.Strings(p.sentinels)
	return p
}

func (p errPreds) classify(e errClass) string {
	switch {
	case e.IsEOF && (p.eof || p.eofEq && e.Direct):
		return "end-of-log"
	case e.IsUEOF && (p.ueof || p.ueofEq && e.Direct):
		return "end-of-log"
	}
	for _, s := range p.substrings {
		if strings.Contains(e.Text, s) {
			return "skip"
		}
	}
	for _, s := range p.sentinels {
		for _, w := range e.Wraps {
			if w == s {
				return "skip"
			}
		}
	}
	return "fatal"
}

func ruleReuseValidatesTail(c *Ctx, r *Reporter) {
	r.Rule("reuse-validates-tail", 3)
	reuse := c.Func("pkg/wal", "", "ReuseWAL")
	read := c.Func("pkg/wal", "Reader", "ReadEntry")
	rec := c.Func("pkg/wal", "Reader", "readRecord")
	fragF := c.Field("pkg/wal", "Reader", "fragments")
	if reuse == nil || read == nil || rec == nil || fragF == nil {
		r.Unresolved("wal.ReuseWAL / Reader.{ReadEntry,readRecord,fragments}", "not found")
		return
	}
	// validators: bool functions of pkg/wal that scan a file with ReadEntry/readRecord and return true only on err == io.EOF
	validators := FnSet{}
	for _, fn := range c.KevoFns {
		if pkgOf(fn) != "pkg/wal" || fn.Signature.Results().Len() != 1 || fn.Signature.Results().At(0).Type().String() != "bool" {
			continue
		}
		scans := len(c.CallsIn(fn, NewFnSet(read, rec), false)) > 0
		if !scans {
			continue
		}
		ok := true
		n := 0
		for _, ret := range Returns(fn) {
			v := ReturnValue(ret, 0)
			if b, isK := constBool(v); isK {
				if b {
					ok = false // an unconditional true
				}
				continue
			}
			bo, isB := v.(*ssa.BinOp)
			if !isB || bo.Op != token.EQL {
				ok = false
				continue
			}
			g := globalLoad(bo.Y)
			if g == nil {
				g = globalLoad(bo.X)
			}
			if g == nil || g.Name() != "EOF" {
				ok = false
				continue
			}
			n++
		}
		if ok && n > 0 {
			validators[fn] = true
		}
	}
	validated := func(cond ssa.Value) (bool, bool) {
		if call, ok := cond.(*ssa.Call); ok && validators[call.Call.StaticCallee()] {
			return true, false
		}
		return false, false
	}
	nOpen := 0
	AllInstrs(reuse, false, func(_ *ssa.Function, ins ssa.Instruction) {
		call, ok := ins.(*ssa.Call)
		if !ok || staticName(call) != "os.OpenFile" {
			return
		}
		nOpen++
		r.Check(GuardedBy(ins.Block(), withNot(validated)), "wal.ReuseWAL:open-for-append", c.InsPos(ins), "the newest file is opened for appending only after a scan proved that it ends on a clean entry boundary ("+strings.Join(validators.Names(), ", ")+")",
			"the newest log file is opened for appending without a preceding tail validation: records written behind a torn or damaged tail cannot be read back at the next recovery")
	})
	if nOpen == 0 {
		r.Undecided("wal.ReuseWAL:open-for-append", c.FnPos(reuse), "no os.OpenFile in ReuseWAL")
	}
	// readRecord: io.EOF leaves only as the untouched result of the header read
	okRec := true
	for _, ret := range Returns(rec) {
		v := resolveLoad(stripConv(ReturnValue(ret, 1)))
		if g := globalLoad(v); g != nil && g.Name() == "EOF" {
			okRec = false
			r.Bad("wal.Reader.readRecord:explicit-EOF", c.InsPos(ret), "readRecord returns io.EOF explicitly (converting another condition into a clean end of file): a torn header would look like a clean end and the file would be reused for appending behind the stray bytes")
		}
	}
	if okRec {
		r.OK("wal.Reader.readRecord:eof-pass-through", c.FnPos(rec), "io.EOF is never returned explicitly")
	}
	// io.ReadFull answers a plain io.EOF when it could not read a single byte. That is a clean end only for the FIRST read
	// of a record; a later read (payload after a complete header) that passes its error through unchanged turns a record
	// cut right behind its header into a clean end of file.
	var reads []*ssa.Call
	AllInstrs(rec, false, func(_ *ssa.Function, ins ssa.Instruction) {
		if call, ok := ins.(*ssa.Call); ok {
			switch staticName(call) {
			case "io.ReadFull", "io.ReadAtLeast", "(*bufio.Reader).Read":
				reads = append(reads, call)
			}
		}
	})
	if len(reads) == 0 {
		r.Undecided("wal.Reader.readRecord:reads", c.FnPos(rec), "no read call found")
	}
	for i, rd := range reads {
		first := true
		for _, other := range reads {
			if other != rd && Dominates(other, rd) {
				first = false
			}
		}
		if first {
			continue
		}
		rd := rd
		isRaw := func(v ssa.Value) bool {
			v = resolveLoad(stripConv(v))
			if ex, ok := v.(*ssa.Extract); ok && ex.Tuple == ssa.Value(rd) {
				return true
			}
			return false
		}
		notEOF := func(cond ssa.Value) (bool, bool) {
			bo, ok := cond.(*ssa.BinOp)
			if ok && (bo.Op == token.EQL || bo.Op == token.NEQ) {
				x, y := bo.X, bo.Y
				if globalLoad(x) != nil {
					x, y = y, x
				}
				if g := globalLoad(y); g != nil && g.Name() == "EOF" && isRaw(x) {
					return bo.Op == token.NEQ, bo.Op == token.EQL
				}
			}
			if call, ok := cond.(*ssa.Call); ok && staticName(call) == "errors.Is" && len(call.Call.Args) == 2 && isRaw(call.Call.Args[0]) {
				if g := globalLoad(call.Call.Args[1]); g != nil && g.Name() == "EOF" {
					return false, true
				}
			}
			return false, false
		}
		cons := fmt.Sprintf("wal.Reader.readRecord:later-read-eof#%d", i)
		var badRet ssa.Instruction
		var badPath []*ssa.BasicBlock
		for _, ret := range Returns(rec) {
			ret := ret
			hit, path := ReachE(rec, rd, func(x ssa.Instruction) bool { return x == ssa.Instruction(ret) }, nil, PruneFactEdges(notEOF))
			if hit == nil {
				continue
			}
			// resolve the returned error along this path
			v := ReturnValue(ret, 1)
			for k := 0; k < 6; k++ {
				phi, ok := stripConv(v).(*ssa.Phi)
				if !ok {
					break
				}
				idx := -1
				for j, b := range path {
					if b == phi.Block() && j > 0 {
						for e, p := range phi.Block().Preds {
							if p == path[j-1] {
								idx = e
							}
						}
					}
				}
				if idx < 0 {
					break
				}
				v = phi.Edges[idx]
			}
			if isRaw(v) {
				badRet, badPath = ret, path
			}
		}
		if badRet != nil {
			r.Bad(cons, c.InsPos(rd), "a read that is not the first of the record passes its error through unchanged: when the file ends exactly behind the record header, io.ReadFull answers a plain io.EOF and the torn record looks like a clean end of the log (the file is then reused for appending behind the stray header)", c.PathString(badPath)...)
		} else {
			r.OK(cons, c.InsPos(rd), "the error of this later read cannot leave as io.EOF")
		}
	}
	// ReadEntry returns io.EOF only with no pending fragments
	noPending := func(cond ssa.Value) (bool, bool) {
		bo, ok := cond.(*ssa.BinOp)
		if !ok {
			return false, false
		}
		call, ok := bo.X.(*ssa.Call)
		if !ok {
			return false, false
		}
		if b, ok := call.Call.Value.(*ssa.Builtin); !ok || b.Name() != "len" || !isLoadOfField(call.Call.Args[0], fragF) {
			return false, false
		}
		k, ok := constInt(bo.Y)
		if !ok || k != 0 {
			return false, false
		}
		switch bo.Op {
		case token.GTR, token.NEQ:
			return false, true
		case token.EQL:
			return true, false
		}
		return false, false
	}
	okRead := true
	nEOF := 0
	// an explicit io.EOF may only be answered where readRecord itself answered io.EOF (not for a record cut short)
	wasEOF := func(cond ssa.Value) (bool, bool) {
		bo, ok := cond.(*ssa.BinOp)
		if ok && (bo.Op == token.EQL || bo.Op == token.NEQ) {
			for _, o := range []ssa.Value{bo.X, bo.Y} {
				if g := globalLoad(o); g != nil && g.Name() == "EOF" && g.Pkg != nil && g.Pkg.Pkg.Path() == "io" {
					return bo.Op == token.EQL, bo.Op == token.NEQ
				}
			}
		}
		return false, false
	}
	okConv := true
	var convPos ssa.Instruction
	for _, ret := range Returns(read) {
		v := resolveLoad(stripConv(ReturnValue(ret, 1)))
		if g := globalLoad(v); g != nil && g.Name() == "EOF" {
			nEOF++
			if !GuardedBy(ret.Block(), noPending) {
				okRead = false
			}
			if !GuardedBy(ret.Block(), wasEOF) {
				okConv = false
				convPos = ret
			}
		}
	}
	cp := c.FnPos(read)
	if convPos != nil {
		cp = c.InsPos(convPos)
	}
	r.Check(okConv, "wal.Reader.ReadEntry:eof-not-converted", cp, "an explicit io.EOF is answered only behind err == io.EOF", "ReadEntry answers a clean io.EOF on a path that is not behind err == io.EOF (e.g. for io.ErrUnexpectedEOF): a record cut short looks like a clean end, the tail check lets the file be reused, and records appended behind the torn bytes are lost at the next recovery")
	r.Check(okRead && nEOF > 0, "wal.Reader.ReadEntry:eof", c.FnPos(read), "io.EOF is reported only when no fragments are pending", "ReadEntry can report a clean io.EOF while fragments of an unfinished entry are pending")
}

func ruleNoFabrication(c *Ctx, r *Reporter) {
	r.Rule("no-fabrication", 4)
	parse := c.Func("pkg/wal", "Reader", "parseEntryData")
	read := c.Func("pkg/wal", "Reader", "ReadEntry")
	recov := c.Func("pkg/wal", "", "recoverFromCorruption")
	fragF := c.Field("pkg/wal", "Reader", "fragments")
	if parse == nil || read == nil || recov == nil || fragF == nil {
		r.Unresolved("wal.Reader.{parseEntryData,ReadEntry,fragments} / recoverFromCorruption", "not found")
		return
	}
	// every slice data[lo:hi] with a non-constant bound is dominated by a check hi > len(data) → failure
	data := parse.Params[len(parse.Params)-1]
	lx := &LinX{}
	n := 0
	ok := true
	AllInstrs(parse, false, func(_ *ssa.Function, ins ssa.Instruction) {
		sl, isS := ins.(*ssa.Slice)
		if !isS || sl.X != ssa.Value(data) || sl.High == nil {
			return
		}
		hi := lx.Lin(sl.High).String()
		if h := lx.Lin(sl.High); len(h) == 1 && h[0].Guard == "" && h[0].L.isConst() {
			// constant prefix: covered by the minimum-size check at entry
			return
		}
		inBounds := func(cond ssa.Value) (bool, bool) {
			bo, isB := cond.(*ssa.BinOp)
			if !isB {
				return false, false
			}
			call, isC := bo.Y.(*ssa.Call)
			if !isC {
				return false, false
			}
			if b, isBi := call.Call.Value.(*ssa.Builtin); !isBi || b.Name() != "len" || call.Call.Args[0] != ssa.Value(data) {
				return false, false
			}
			// hi <= covered expression: the checked expression must be >= hi; accept equality or hi + const
			chk := lx.Lin(bo.X)
			if len(chk) != 1 {
				return false, false
			}
			h := lx.Lin(sl.High)
			if len(h) != 1 {
				return false, false
			}
			d := chk[0].L.add(h[0].L, -1)
			if !d.isConst() || d.K < 0 {
				return false, false
			}
			switch bo.Op {
			case token.GTR:
				return false, true
			case token.LEQ:
				return true, false
			}
			return false, false
		}
		n++
		if !GuardedBy(ins.Block(), inBounds) {
			ok = false
			r.Bad("wal.Reader.parseEntryData:bounds["+hi+"]", c.InsPos(ins), "data is sliced up to "+hi+" without a dominating check against len(data): a corrupted length field panics or reads beyond the entry")
		}
	})
	if n == 0 {
		r.Undecided("wal.Reader.parseEntryData:bounds", c.FnPos(parse), "no variable-length slice of the entry data found")
	} else if ok {
		r.OK("wal.Reader.parseEntryData:bounds", c.FnPos(parse), fmt.Sprintf("%d variable-length slice(s), each behind a bounds check against len(data)", n))
	}
	// minimum size check at entry: len(data) < 13 fails
	minOK := false
	AllInstrs(parse, false, func(_ *ssa.Function, ins ssa.Instruction) {
		if bo, isB := ins.(*ssa.BinOp); isB && bo.Op == token.LSS {
			if k, isK := constInt(bo.Y); isK && k >= 13 {
				minOK = true
			}
		}
	})
	r.Check(minOK, "wal.Reader.parseEntryData:minimum-size", c.FnPos(parse), "entries shorter than the fixed prefix are rejected", "no minimum-size check before the fixed prefix is read")
	// a new FIRST fragment discards pending fragments: in ReadEntry, on the recordType == FIRST edge the fragments are reset
	// before the append (a slice [:0] store or a length check)
	firstTag := int64(2)
	if k := c.Const("pkg/wal", "RecordTypeFirst"); k != nil {
		firstTag, _ = constant.Int64Val(k.Val())
	}
	rtF := c.Field("pkg/wal", "record", "recordType")
	isFirst := func(cond ssa.Value) (bool, bool) {
		bo, ok := cond.(*ssa.BinOp)
		if !ok || bo.Op != token.EQL || !isLoadOfField(bo.X, rtF) {
			return false, false
		}
		if k, ok := constInt(bo.Y); ok && k == firstTag {
			return true, false
		}
		return false, false
	}
	reset := false
	AllInstrs(read, false, func(_ *ssa.Function, ins ssa.Instruction) {
		st, ok := ins.(*ssa.Store)
		if !ok || fieldVarOf(st.Addr) != fragF || !GuardedBy(ins.Block(), isFirst) {
			return
		}
		if sl, ok := st.Val.(*ssa.Slice); ok && sl.Low == nil {
			if k, ok := constInt(sl.High); ok && k == 0 {
				reset = true
			}
		}
		if isNilConst(st.Val) {
			reset = true
		}
	})
	r.Check(reset, "wal.Reader.ReadEntry:first-fragment", c.FnPos(read), "a new first fragment discards the pending fragments of an unfinished entry", "a first fragment is appended to pending fragments of an unfinished entry: two entries are glued together and an entry that was never appended is returned")
	// recoverFromCorruption constructs no entry
	mk := false
	AllInstrs(recov, true, func(_ *ssa.Function, ins ssa.Instruction) {
		if al, ok := ins.(*ssa.Alloc); ok && strings.HasSuffix(al.Type().String(), "wal.Entry") {
			mk = true
		}
	})
	r.Check(!mk && recov.Signature.Results().Len() == 1, "wal.recoverFromCorruption", c.FnPos(recov), "only advances the reader", "the corruption-recovery helper constructs entries")
}
