package main

import (
	"fmt"
	"go/token"
	"go/types"
	"strings"

	"golang.org/x/tools/go/ssa"
)

func init() {
	register(&PropertyDef{
		ID: "C18",
		Explanation: "Decided: (1) the decision table of entry.compareWithEntry over all 9 orderings of (key, sequence) is (key ascending; equal keys: higher sequence first); " +
			"(2) SkipList.Find's selection loop replaces its result exactly when the candidate's sequence is strictly higher and stops at the first different key; the descent loops advance exactly while next.key < key; a first candidate with a different key yields nil; " +
			"(3) SkipList.Insert advances exactly while next < e in comparator order (so an equal entry is inserted before older equals), links the new node's own pointer before redirecting the predecessor, bottom-up, through atomic pointers; " +
			"(4) node and entry fields are written only in their constructors and newEntry copies key and value; " +
			"(5) Insert is called only from MemTable.Put/Delete with MemTable.mu held exclusively; the IsImmutable test dominates Insert; immutable is only ever stored true; SwitchToNewMemTable marks the old table before publishing the new one under the pool's write lock; " +
			"(6) Iterator.isVisible ⇔ snapshot == 0 ∨ seq ≤ snapshot (table), Next/Seek/SeekToFirst each contain the skip-invisible loop and Valid tests visibility; MemTable.Put/Delete keep nextSeqNum under a > guard. " +
			"Added after blind round 4: MemTable.Get's decision table over both arms (no entry → (nil,false), deletion marker → (nil,true), value → (value,true)). " +
			"Added after blind round 5: MemTablePool.Put/Delete write the active table with the pool lock held; the comparator does not subtract sequence numbers. " +
			"Added after blind round 6: the read accessors MemTable.Get, Iterator.Key, Iterator.Value (and transaction.Buffer.Get) return nil or freshly allocated bytes on every exit (tree defect in MemTable.Get, repaired: 3d66abb). " +
			"Added after blind round 7: the adapter-seek rule of C05. " +
			"Added after blind round 10: no try-lock fallbacks (an iterator created from a remembered snapshot while the writer holds the lock starts behind writes that have returned). " +
			"Added after blind round 11: the module's []byte copy helpers keep an empty input empty and non-nil.",
		NotDecided: "what concurrent readers observe under all interleavings (needs schedules); memory-model arguments beyond 'links are atomic.Pointer and published after initialisation'.",
		Rules:      []func(*Ctx, *Reporter){ruleMemComparator, ruleMemFind, ruleMemInsert, ruleMemImmutableFields, ruleMemSingleWriter, ruleMemImmutable, ruleMemVisibility, ruleMemTableGetTable, rulePoolWritesUnderPoolLock, ruleComparatorNoSubtraction, ruleAccessorsReturnCopies, ruleAdapterSeekAlwaysSeeks, ruleNoTryLockFallbacks, ruleCopyHelpersKeepEmptyNonNil},
	})
}

type memAnchors struct {
	cmpEntry, cmpKey, find, insert, newEntry, newNode *ssa.Function
	mtPut, mtDel, mtGet                               *ssa.Function
	entryT, nodeT                                     *types.Named
	ok                                                bool
}

func getMemAnchors(c *Ctx, r *Reporter) *memAnchors {
	a := &memAnchors{}
	a.cmpEntry = c.Func("pkg/memtable", "entry", "compareWithEntry")
	a.cmpKey = c.Func("pkg/memtable", "entry", "compare")
	a.find = c.Func("pkg/memtable", "SkipList", "Find")
	a.insert = c.Func("pkg/memtable", "SkipList", "Insert")
	a.newEntry = c.Func("pkg/memtable", "", "newEntry")
	a.newNode = c.Func("pkg/memtable", "", "newNode")
	a.mtPut = c.Func("pkg/memtable", "MemTable", "Put")
	a.mtDel = c.Func("pkg/memtable", "MemTable", "Delete")
	a.mtGet = c.Func("pkg/memtable", "MemTable", "Get")
	a.entryT = c.Named("pkg/memtable", "entry")
	a.nodeT = c.Named("pkg/memtable", "node")
	a.ok = a.cmpEntry != nil && a.find != nil && a.insert != nil && a.newEntry != nil && a.newNode != nil && a.mtPut != nil && a.mtDel != nil && a.mtGet != nil && a.entryT != nil && a.nodeT != nil
	if !a.ok {
		r.Unresolved("memtable.entry.compareWithEntry / SkipList.{Find,Insert} / newEntry / newNode / MemTable.{Put,Delete,Get}", "a named anchor no longer resolves")
	}
	return a
}

func ruleMemComparator(c *Ctx, r *Reporter) {
	a := getMemAnchors(c, r)
	if !a.ok {
		return
	}
	r.Rule("comparator-table", 9)
	fn := a.cmpEntry
	if len(fn.Params) != 2 {
		r.Undecided("memtable.entry.compareWithEntry", c.FnPos(fn), "unexpected signature")
		return
	}
	pe, po := "param:"+fn.Params[0].Name(), "param:"+fn.Params[1].Name()
	for _, k := range []int64{-1, 0, 1} {
		for _, s := range []int64{-1, 0, 1} {
			sc := &Scenario{Terms: map[string]int64{pe + ".key": 5 + k, po + ".key": 5, pe + ".seqNum": 5 + s, po + ".seqNum": 5}}
			res := EvalPath(fn.Blocks[0], nil, sc, nil)
			name := fmt.Sprintf("memtable.entry.compareWithEntry[key%s,seq%s]", rel(k), rel(s))
			if res.Err != "" || res.Ret == nil || len(res.RetVals) != 1 || res.RetVals[0].Kind != "int" {
				r.Undecided(name, c.FnPos(fn), "decision table row not decidable: "+res.Err)
				continue
			}
			want := k
			if k == 0 {
				want = -s
			}
			got := sign(res.RetVals[0].I)
			r.Check(got == want, name, c.FnPos(fn), fmt.Sprintf("returns sign %d", got),
				fmt.Sprintf("returns sign %d, specification (key ascending; equal keys: higher sequence first) requires %d", got, want))
		}
	}
}

func rel(i int64) string {
	switch i {
	case -1:
		return "<"
	case 1:
		return ">"
	}
	return "="
}

// loopWithPhiOfType: the loop of fn whose header has a phi of (pointer to) the named type.
func loopWithPhiOfType(fn *ssa.Function, n *types.Named) (*GenericLoop, *ssa.Phi) {
	for _, l := range GenericLoops(fn) {
		for _, ins := range l.Header.Instrs {
			ph, ok := ins.(*ssa.Phi)
			if !ok {
				break
			}
			if p, ok := ph.Type().(*types.Pointer); ok && p.Elem() == types.Type(n) {
				return l, ph
			}
		}
	}
	return nil, nil
}

func ruleMemFind(c *Ctx, r *Reporter) {
	a := getMemAnchors(c, r)
	if !a.ok {
		return
	}
	r.Rule("find-selection-table", 4)
	fn := a.find
	loop, resPhi := loopWithPhiOfType(fn, a.entryT)
	if loop == nil {
		r.Undecided("memtable.SkipList.Find:selection", c.FnPos(fn), "no loop carrying a *entry result found")
	} else {
		// candidate phi: the *node phi of the same header
		var candPhi *ssa.Phi
		for _, ins := range loop.Header.Instrs {
			if ph, ok := ins.(*ssa.Phi); ok && ph != resPhi {
				if p, ok := ph.Type().(*types.Pointer); ok && p.Elem() == types.Type(a.nodeT) {
					candPhi = ph
				}
			}
		}
		if candPhi == nil {
			r.Undecided("memtable.SkipList.Find:selection", c.FnPos(fn), "no candidate node phi in the selection loop")
		} else {
			cand, res := "phi:"+candPhi.Comment, "phi:"+resPhi.Comment
			key := "param:" + fn.Params[1].Name()
			for _, s := range []int64{-1, 0, 1} {
				sc := &Scenario{Terms: map[string]int64{cand: 1, cand + ".entry": 1, cand + ".entry.key": 5, key: 5, cand + ".entry.seqNum": 5 + s, res + ".seqNum": 5, res: 1}}
				ev := EvalLoopIter(loop, sc)
				name := fmt.Sprintf("memtable.SkipList.Find:selection[same-key,cand.seq%sresult.seq]", rel(s))
				if ev.Err != "" || ev.Reached == nil {
					r.Undecided(name, c.blockPos(loop.Header), "row not decidable: "+ev.Err)
					continue
				}
				next := ev.PhiNext(resPhi)
				replaced := next != ssa.Value(resPhi)
				nextPath := Path(next)
				want := s > 0
				ok := replaced == want
				if replaced && !strings.Contains(nextPath, candPhi.Comment) {
					ok = false
				}
				r.Check(ok, name, c.blockPos(loop.Header), fmt.Sprintf("result %s", map[bool]string{true: "replaced by the candidate", false: "kept"}[replaced]),
					fmt.Sprintf("result is %s (next = %s); the highest sequence must win and ties must keep the earlier (newer-inserted) node, i.e. replace iff candidate.seq > result.seq", map[bool]string{true: "replaced", false: "kept"}[replaced], nextPath))
			}
			// different key ends the scan and returns the result
			sc := &Scenario{Terms: map[string]int64{cand: 1, cand + ".entry": 1, cand + ".entry.key": 6, key: 5, cand + ".entry.seqNum": 9, res + ".seqNum": 5, res: 1}}
			ev := EvalLoopIter(loop, sc)
			okEnd := ev.Err == "" && ev.Reached == nil
			r.Check(okEnd, "memtable.SkipList.Find:selection[different-key]", c.blockPos(loop.Header), "the scan over equal keys stops at the first different key", "the selection loop continues past a different key (a version of another key could be returned): "+ev.Err)
		}
	}
	// descent loops of Find and Iterator.Seek: advance exactly while next.key < target
	r.Rule("descent-advance-table", 6)
	for _, spec := range [][2]string{{"SkipList", "Find"}, {"Iterator", "Seek"}} {
		f := c.Func("pkg/memtable", spec[0], spec[1])
		if f == nil {
			r.Unresolved("memtable."+spec[0]+"."+spec[1], "not found")
			continue
		}
		checkAdvanceLoop(c, r, f, a, "param:"+f.Params[1].Name(), false)
	}
	// first candidate with a different key yields nil: covered by evaluating from the block after the descent is too
	// value-dependent; the structural part: Find returns nil on the compare != 0 edge
	r.Rule("find-miss", 1)
	missOK := false
	for _, ret := range Returns(fn) {
		if !isNilConst(ReturnValue(ret, 0)) {
			continue
		}
		g := func(cond ssa.Value) (bool, bool) {
			bo, ok := cond.(*ssa.BinOp)
			if !ok {
				return false, false
			}
			x, y := bo.X, bo.Y
			if _, isK := constInt(x); isK {
				x, y = y, x
			}
			if call, ok := x.(*ssa.Call); ok && (call.Call.StaticCallee() == a.cmpKey || staticName(call) == "bytes.Compare") {
				if k, ok := constInt(y); ok && k == 0 {
					return bo.Op == token.NEQ, bo.Op == token.EQL
				}
			}
			if call, ok := cond.(*ssa.Call); ok && staticName(call) == "bytes.Equal" {
				return false, true
			}
			return false, false
		}
		// the nil return is reachable through the key-differs edge
		for _, p := range ret.Block().Preds {
			if len(p.Instrs) > 0 {
				if iff, ok := p.Instrs[len(p.Instrs)-1].(*ssa.If); ok {
					t, f := withNot(g)(iff.Cond)
					if (t && p.Succs[0] == ret.Block()) || (f && p.Succs[1] == ret.Block()) {
						missOK = true
					}
				}
			}
		}
	}
	r.Check(missOK, "memtable.SkipList.Find:miss", c.FnPos(fn), "a first candidate whose key differs yields nil", "Find does not return nil when the first candidate at level 0 has a different key")
}

// checkAdvanceLoop: the innermost loops that move `current` to `next` must continue exactly while next < target.
// withSeq: the target is an entry compared with compareWithEntry (Insert); otherwise a key.
func checkAdvanceLoop(c *Ctx, r *Reporter, fn *ssa.Function, a *memAnchors, target string, withSeq bool) {
	n := 0
	for _, l := range GenericLoops(fn) {
		// the advance loop: header has a *node phi named next/current and the loop contains no other loop header
		var nextPhi *ssa.Phi
		for _, ins := range l.Header.Instrs {
			if ph, ok := ins.(*ssa.Phi); ok {
				if p, ok := ph.Type().(*types.Pointer); ok && p.Elem() == types.Type(a.nodeT) && ph.Comment == "next" {
					nextPhi = ph
				}
			}
		}
		if nextPhi == nil {
			continue
		}
		inner := true
		for _, l2 := range GenericLoops(fn) {
			if l2.Header != l.Header && l.Contains(l2.Header) {
				inner = false
			}
		}
		if !inner {
			continue
		}
		n++
		nx := "phi:next"
		type row struct{ k, s int64 }
		rows := []row{{-1, 0}, {0, 0}, {1, 0}}
		if withSeq {
			rows = nil
			for _, k := range []int64{-1, 0, 1} {
				for _, s := range []int64{-1, 0, 1} {
					rows = append(rows, row{k, s})
				}
			}
		}
		for _, rw := range rows {
			terms := map[string]int64{nx: 1, nx + ".entry": 1, nx + ".entry.key": 5 + rw.k, nx + ".entry.seqNum": 5 + rw.s}
			if withSeq {
				terms[target+".key"] = 5
				terms[target+".seqNum"] = 5
				terms[target] = 1
			} else {
				terms[target] = 5
			}
			ev := EvalLoopIter(l, &Scenario{Terms: terms})
			name := fmt.Sprintf("%s:advance[next.key%starget", FnName(fn), rel(rw.k))
			if withSeq {
				name += fmt.Sprintf(",next.seq%starget.seq", rel(rw.s))
			}
			name += "]"
			if ev.Err != "" {
				r.Undecided(name, c.blockPos(l.Header), "row not decidable: "+ev.Err)
				continue
			}
			advanced := ev.Reached != nil
			want := rw.k < 0
			if withSeq && rw.k == 0 {
				want = rw.s > 0 // next is newer than e: next sorts before e, keep advancing
			}
			r.Check(advanced == want, name, c.blockPos(l.Header), map[bool]string{true: "advances", false: "stops"}[advanced],
				fmt.Sprintf("%s, specification: advance exactly while next sorts strictly before the target", map[bool]string{true: "advances", false: "stops"}[advanced]))
		}
		// nil next stops
		ev := EvalLoopIter(l, &Scenario{Terms: map[string]int64{"phi:next": NilRank}})
		r.Check(ev.Err == "" && ev.Reached == nil, FnName(fn)+":advance[next=nil]", c.blockPos(l.Header), "stops at the end of the level", "does not stop when next is nil: "+ev.Err)
	}
	if n == 0 {
		r.Undecided(FnName(fn)+":advance", c.FnPos(fn), "no advance loop (phi 'next' of type *node) found")
	}
}

func ruleMemInsert(c *Ctx, r *Reporter) {
	a := getMemAnchors(c, r)
	if !a.ok {
		return
	}
	r.Rule("insert-position-table", 10)
	fn := a.insert
	checkAdvanceLoop(c, r, fn, a, "param:"+fn.Params[1].Name(), true)

	r.Rule("publication-order", 3)
	setNext := c.Func("pkg/memtable", "node", "setNext")
	if setNext == nil {
		r.Unresolved("memtable.node.setNext", "not found")
		return
	}
	var newNodeVal ssa.Value
	AllInstrs(fn, false, func(_ *ssa.Function, ins ssa.Instruction) {
		if call, ok := ins.(*ssa.Call); ok && call.Call.StaticCallee() == a.newNode {
			newNodeVal = call
		}
	})
	var own, redirect []ssa.Instruction
	for _, s := range c.CallsIn(fn, NewFnSet(setNext), false) {
		args := s.Common().Args
		if args[0] == newNodeVal {
			own = append(own, s)
		} else if len(args) == 3 && args[2] == newNodeVal {
			redirect = append(redirect, s)
		}
	}
	if newNodeVal == nil || len(own) != 1 || len(redirect) != 1 {
		r.Undecided("memtable.SkipList.Insert:link", c.FnPos(fn), fmt.Sprintf("expected one setNext on the new node and one redirecting the predecessor, found %d and %d", len(own), len(redirect)))
	} else {
		r.Check(Dominates(own[0], redirect[0]), "memtable.SkipList.Insert:own-link-first", c.InsPos(redirect[0]),
			"the new node's own link is set before the predecessor is redirected to it", "the predecessor is redirected to the new node before the node's own next pointer is set: a concurrent reader can fall off the list")
		// same level argument, bottom-up loop
		lvOwn, lvRed := own[0].(ssa.CallInstruction).Common().Args[1], redirect[0].(ssa.CallInstruction).Common().Args[1]
		okLevel := lvOwn == lvRed
		bottomUp := false
		if phi, ok := lvOwn.(*ssa.Phi); ok {
			for i, e := range phi.Edges {
				if k, isK := constInt(e); isK && k == 0 && !phi.Block().Dominates(phi.Block().Preds[i]) {
					for j, e2 := range phi.Edges {
						if bo, ok := e2.(*ssa.BinOp); ok && j != i && bo.Op == token.ADD && bo.X == ssa.Value(phi) {
							if k2, ok := constInt(bo.Y); ok && k2 == 1 {
								bottomUp = true
							}
						}
					}
				}
			}
		}
		r.Check(okLevel && bottomUp, "memtable.SkipList.Insert:bottom-up", c.InsPos(own[0]), "levels are linked from 0 upwards", "levels are not linked bottom-up from level 0 (a reader descending from a higher level could miss the node at level 0)")
	}
	// links are atomic pointers
	nextF := c.Field("pkg/memtable", "node", "next")
	okAtomic := nextF != nil && strings.Contains(nextF.Type().String(), "atomic.Pointer")
	r.Check(okAtomic, "memtable.node.next", c.FnPos(fn), "links are atomic.Pointer values", "node links are not atomic pointers")
}

func ruleMemImmutableFields(c *Ctx, r *Reporter) {
	a := getMemAnchors(c, r)
	if !a.ok {
		return
	}
	r.Rule("immutable-after-construction", 6)
	fields := map[*types.Var]*ssa.Function{}
	for _, f := range []string{"key", "value", "valueType", "seqNum"} {
		if fv := c.Field("pkg/memtable", "entry", f); fv != nil {
			fields[fv] = a.newEntry
		}
	}
	for _, f := range []string{"entry", "height"} {
		if fv := c.Field("pkg/memtable", "node", f); fv != nil {
			fields[fv] = a.newNode
		}
	}
	if len(fields) != 6 {
		r.Unresolved("memtable.entry.{key,value,valueType,seqNum} / node.{entry,height}", "field not found")
		return
	}
	counts := map[*types.Var]int{}
	for _, fn := range c.KevoFns {
		AllInstrs(fn, false, func(_ *ssa.Function, ins ssa.Instruction) {
			st, ok := ins.(*ssa.Store)
			if !ok {
				return
			}
			fv := fieldVarOf(st.Addr)
			ctor, interesting := fields[fv]
			if !interesting {
				return
			}
			counts[fv]++
			if fn != ctor {
				r.Bad("memtable."+fv.Name()+"←"+FnName(fn), c.InsPos(ins), "field of a published skiplist node/entry is written outside its constructor: lock-free readers can observe the change")
			}
		})
	}
	for fv, ctor := range fields {
		if counts[fv] >= 1 {
			r.OK("memtable."+ownerName(fv, a)+"."+fv.Name(), c.FnPos(ctor), fmt.Sprintf("%d store(s), all in %s", counts[fv], FnName(ctor)))
		} else {
			r.Undecided("memtable."+ownerName(fv, a)+"."+fv.Name(), c.FnPos(ctor), "no initialising store found")
		}
	}
	// newEntry copies
	r.Rule("entry-copies", 2)
	AllInstrs(a.newEntry, false, func(_ *ssa.Function, ins ssa.Instruction) {
		st, ok := ins.(*ssa.Store)
		if !ok {
			return
		}
		fv := fieldVarOf(st.Addr)
		if fv == nil || (fv.Name() != "key" && fv.Name() != "value") {
			return
		}
		r.Check(isFreshBytes(st.Val, 0), "memtable.newEntry:"+fv.Name(), c.InsPos(ins), "stores a fresh copy", "stores the caller's slice by reference (the caller may reuse its buffer; WAL replay and the service pass short-lived buffers)")
	})
}

func ownerName(fv *types.Var, a *memAnchors) string {
	st := a.entryT.Underlying().(*types.Struct)
	for i := 0; i < st.NumFields(); i++ {
		if st.Field(i) == fv {
			return "entry"
		}
	}
	return "node"
}

func ruleMemSingleWriter(c *Ctx, r *Reporter) {
	a := getMemAnchors(c, r)
	if !a.ok {
		return
	}
	li := c.Locks()
	r.Rule("single-writer", 2)
	n := 0
	for _, e := range c.Callers(a.insert) {
		if e.Site == nil || !c.InKevo(e.Caller.Func) {
			continue
		}
		n++
		caller := e.Caller.Func
		name := "memtable.SkipList.Insert←" + FnName(caller)
		if caller != a.mtPut && caller != a.mtDel {
			r.Bad(name, c.InsPos(e.Site), "the skiplist is written outside MemTable.Put/Delete (it supports one writer at a time only)")
			continue
		}
		held := li.HeldAt(e.Site)
		r.Check(held.Holds("memtable.MemTable.mu", "W"), name, c.InsPos(e.Site), "called with MemTable.mu held exclusively", "Insert is called without MemTable.mu held exclusively (held: "+held.String()+"): two writers can corrupt the list")
	}
	if n == 0 {
		r.Bad("memtable.SkipList.Insert", c.FnPos(a.insert), "no caller of Insert found")
	}
	// MemTable.Get on a mutable table reads under the shared lock
	r.Rule("mutable-read-locked", 1)
	imm := c.Field("pkg/memtable", "MemTable", "immutable")
	immTrue := loadTrueFact(imm)
	isImmCall := func(cond ssa.Value) (bool, bool) {
		if call, ok := cond.(*ssa.Call); ok && call.Call.StaticCallee() != nil && call.Call.StaticCallee().Name() == "IsImmutable" {
			return true, false
		}
		return immTrue(cond)
	}
	ok := true
	nf := 0
	for _, s := range c.CallsIn(a.mtGet, NewFnSet(a.find), false) {
		nf++
		if GuardedBy(s.Block(), isImmCall) {
			continue // immutable arm: no writer can exist
		}
		if !li.HeldAt(s).Holds("memtable.MemTable.mu", "R") {
			ok = false
		}
	}
	r.Check(nf > 0 && ok, "memtable.MemTable.Get", c.FnPos(a.mtGet), "lookups on a mutable table hold MemTable.mu (shared); only the immutable arm is lock-free", "a lookup on a mutable table runs without MemTable.mu")
}

func ruleMemImmutable(c *Ctx, r *Reporter) {
	a := getMemAnchors(c, r)
	if !a.ok {
		return
	}
	r.Rule("immutable-means-immutable", 4)
	imm := c.Field("pkg/memtable", "MemTable", "immutable")
	if imm == nil {
		r.Unresolved("memtable.MemTable.immutable", "not found")
		return
	}
	immTrue := loadTrueFact(imm)
	notImm := func(cond ssa.Value) (bool, bool) {
		if call, ok := cond.(*ssa.Call); ok && call.Call.StaticCallee() != nil && call.Call.StaticCallee().Name() == "IsImmutable" {
			return false, true
		}
		t, f := immTrue(cond)
		return f, t
	}
	for _, fn := range []*ssa.Function{a.mtPut, a.mtDel} {
		for _, s := range c.CallsIn(fn, NewFnSet(a.insert), false) {
			r.Check(GuardedBy(s.Block(), notImm), FnName(fn)+":insert", c.InsPos(s), "Insert dominated by the not-immutable edge", "Insert is not dominated by the IsImmutable()==false edge: an immutable table (being flushed) could change")
		}
	}
	// immutable only ever stored true
	n := 0
	for _, fn := range c.KevoFns {
		AllInstrs(fn, false, func(_ *ssa.Function, ins ssa.Instruction) {
			name, addr, cc := atomicCall(ins)
			if name == "" || name == "Load" || fieldVarOf(addr) != imm {
				return
			}
			n++
			good := false
			if name == "Store" {
				if b, ok := constBool(cc.Args[1]); ok && b {
					good = true
				}
			}
			r.Check(good, "memtable.MemTable.immutable←"+FnName(fn), c.InsPos(ins), "stores true", "the immutable flag is written with something other than Store(true): an immutable table could become mutable again")
		})
	}
	if n == 0 {
		r.Bad("memtable.MemTable.immutable", "-", "the immutable flag is never set")
	}
	// SwitchToNewMemTable: mark before publishing the new active table, under pool.mu W
	sw := c.Func("pkg/memtable", "MemTablePool", "SwitchToNewMemTable")
	active := c.Field("pkg/memtable", "MemTablePool", "active")
	if sw == nil || active == nil {
		r.Unresolved("memtable.MemTablePool.{SwitchToNewMemTable,active}", "not found")
		return
	}
	li := c.Locks()
	var mark, pub ssa.Instruction
	for _, hi := range withSameReceiverHelpers(sw) {
		if call, ok := hi.ins.(*ssa.Call); ok && call.Call.StaticCallee() != nil && call.Call.StaticCallee().Name() == "SetImmutable" {
			mark = hi.at
		}
		if st, ok := hi.ins.(*ssa.Store); ok && fieldVarOf(st.Addr) == active {
			pub = hi.at
		}
	}
	okSw := mark != nil && pub != nil && Dominates(mark, pub) && li.HeldAt(pub).Holds("memtable.MemTablePool.mu", "W")
	r.Check(okSw, "memtable.MemTablePool.SwitchToNewMemTable", c.FnPos(sw), "the old table is marked immutable before the new active table is published, under the pool's write lock",
		"the new active table is published before the old one is marked immutable, or without the pool's write lock")
	// the old table joins the immutables (append) in the same critical section
	immF := c.Field("pkg/memtable", "MemTablePool", "immutables")
	joined := false
	for _, hi := range withSameReceiverHelpers(sw) {
		if st, ok := hi.ins.(*ssa.Store); ok && fieldVarOf(st.Addr) == immF {
			if call, ok := st.Val.(*ssa.Call); ok {
				if b, ok := call.Call.Value.(*ssa.Builtin); ok && b.Name() == "append" && isLoadOfField(call.Call.Args[0], immF) {
					joined = true
				}
			}
		}
	}
	r.Check(joined, "memtable.MemTablePool.SwitchToNewMemTable:keeps-old", c.FnPos(sw), "the switched-out table is appended to the immutables (stays readable)", "the switched-out table is not appended to the immutable list: its data becomes unreadable until flushed")
}

func ruleMemVisibility(c *Ctx, r *Reporter) {
	r.Rule("snapshot-visibility-table", 6)
	vis := c.Func("pkg/memtable", "Iterator", "isVisible")
	if vis == nil || len(vis.Params) != 2 {
		r.Unresolved("memtable.Iterator.isVisible", "not found")
		return
	}
	it, n := "param:"+vis.Params[0].Name(), "param:"+vis.Params[1].Name()
	for _, snap := range []int64{0, 5} {
		for _, seq := range []int64{4, 5, 6} {
			sc := &Scenario{Terms: map[string]int64{it + ".snapshotSeq": snap, n + ".entry.seqNum": seq, n + ".entry": 1, n: 1}}
			res := EvalPath(vis.Blocks[0], nil, sc, nil)
			name := fmt.Sprintf("memtable.Iterator.isVisible[snapshot=%d,seq=%d]", snap, seq)
			if res.Err != "" || res.Ret == nil || res.RetVals[0].Kind != "bool" {
				r.Undecided(name, c.FnPos(vis), "row not decidable: "+res.Err)
				continue
			}
			want := snap == 0 || seq <= snap
			r.Check(res.RetVals[0].B == want, name, c.FnPos(vis), fmt.Sprint("visible=", res.RetVals[0].B), fmt.Sprintf("visible=%v, specification (snapshot == 0 or seq <= snapshot) requires %v", res.RetVals[0].B, want))
		}
	}
	r.Rule("skip-invisible", 4)
	for _, mn := range []string{"Next", "Seek", "SeekToFirst"} {
		fn := c.Func("pkg/memtable", "Iterator", mn)
		if fn == nil {
			r.Unresolved("memtable.Iterator."+mn, "not found")
			continue
		}
		// a loop that contains a call to isVisible and advances it.current — in the method itself or in a helper of the
		// same type it calls directly (extracted "skip" helper)
		found := false
		bodies := []*ssa.Function{fn}
		AllInstrs(fn, false, func(_ *ssa.Function, ins ssa.Instruction) {
			if call, ok := ins.(*ssa.Call); ok {
				if g := call.Call.StaticCallee(); g != nil && g != vis && recvTypeName(g) == recvTypeName(fn) && len(g.Blocks) > 0 {
					bodies = append(bodies, g)
				}
			}
		})
		for _, fn := range bodies {
			for _, l := range GenericLoops(fn) {
				hasVis, adv := false, false
				for _, b := range fn.Blocks {
					if !l.Contains(b) {
						continue
					}
					for _, ins := range b.Instrs {
						if call, ok := ins.(*ssa.Call); ok && call.Call.StaticCallee() == vis {
							hasVis = true
						}
						if st, ok := ins.(*ssa.Store); ok {
							if fv := fieldVarOf(st.Addr); fv != nil && fv.Name() == "current" {
								adv = true
							}
						}
					}
				}
				if hasVis && adv {
					found = true
				}
			}
		}
		r.Check(found, "memtable.Iterator."+mn, c.FnPos(fn), "positions past nodes that are invisible in the snapshot", "does not skip nodes that are invisible in the iterator's snapshot: the iterator can rest on an invisible node and report itself exhausted")
	}
	valid := c.Func("pkg/memtable", "Iterator", "Valid")
	if valid != nil {
		r.Check(len(c.CallsIn(valid, NewFnSet(vis), false)) > 0, "memtable.Iterator.Valid", c.FnPos(valid), "tests visibility", "Valid no longer tests visibility")
	}
	// MemTable.Put/Delete: nextSeqNum updated under a > guard with seq+1
	r.Rule("next-seq-guard", 2)
	nsf := c.Field("pkg/memtable", "MemTable", "nextSeqNum")
	for _, mn := range []string{"Put", "Delete"} {
		fn := c.Func("pkg/memtable", "MemTable", mn)
		if fn == nil || nsf == nil {
			r.Unresolved("memtable.MemTable."+mn, "not found")
			continue
		}
		ok := false
		// the guarded store may sit in the method itself or in a helper of the same type that receives the sequence number
		type body struct {
			fn  *ssa.Function
			seq *ssa.Parameter
		}
		bodies := []body{{fn, fn.Params[len(fn.Params)-1]}}
		AllInstrs(fn, false, func(_ *ssa.Function, ins ssa.Instruction) {
			call, isCall := ins.(*ssa.Call)
			if !isCall {
				return
			}
			g := call.Call.StaticCallee()
			if g == nil || recvTypeName(g) != recvTypeName(fn) || len(g.Blocks) == 0 {
				return
			}
			for i, a := range call.Call.Args {
				if a == ssa.Value(fn.Params[len(fn.Params)-1]) && i < len(g.Params) {
					bodies = append(bodies, body{g, g.Params[i]})
				}
			}
		})
		for _, bd := range bodies {
			seqParam := bd.seq
			AllInstrs(bd.fn, false, func(_ *ssa.Function, ins ssa.Instruction) {
				name, addr, cc := atomicCall(ins)
				if name != "Store" || fieldVarOf(addr) != nsf {
					return
				}
				bo, isB := cc.Args[1].(*ssa.BinOp)
				if !isB || bo.Op != token.ADD || bo.X != ssa.Value(seqParam) {
					return
				}
				g := func(cond ssa.Value) (bool, bool) {
					b2, ok := cond.(*ssa.BinOp)
					if !ok {
						return false, false
					}
					x, y, op := b2.X, b2.Y, b2.Op
					if x != ssa.Value(seqParam) {
						x, y = y, x
						op = flipOp(op)
					}
					if x != ssa.Value(seqParam) {
						return false, false
					}
					_ = y
					switch op {
					case token.GTR, token.GEQ:
						return true, false
					}
					return false, false
				}
				if GuardedBy(ins.Block(), g) {
					ok = true
				}
			})
		}
		r.Check(ok, "memtable.MemTable."+mn+":nextSeqNum", c.FnPos(fn), "nextSeqNum = seq+1 under seq > current", "the snapshot bound nextSeqNum is not maintained as a guarded maximum (+1)")
	}
}

// helperIns: an instruction of fn, or of an unexported same-receiver helper that fn calls statically (one level); `at` is
// where it happens in fn (the instruction itself, or the call of the helper).
type helperIns struct {
	ins, at ssa.Instruction
}

func withSameReceiverHelpers(fn *ssa.Function) []helperIns {
	var out []helperIns
	AllInstrs(fn, false, func(_ *ssa.Function, ins ssa.Instruction) {
		out = append(out, helperIns{ins, ins})
		call, ok := ins.(*ssa.Call)
		if !ok {
			return
		}
		h := call.Call.StaticCallee()
		if h == nil || h == fn || len(h.Blocks) == 0 || h.Object() == nil || h.Object().Exported() || recvTypeName(h) == "" || recvTypeName(h) != recvTypeName(fn) {
			return
		}
		AllInstrs(h, false, func(_ *ssa.Function, x ssa.Instruction) {
			out = append(out, helperIns{x, ins})
		})
	})
	return out
}
