package main

import "strings"

func init() {
	register(&PropertyDef{
		ID: "C02",
		Explanation: "Crash points need process kills (a different family). Decided: the ordering skeleton every crash argument starts from — " +
			"(1) write-ahead: every memtable insert on a client write path is dominated by a successful log append, and only Put/Delete/ApplyBatch insert; " +
			"(2) sync-before-ack: in every wal.Append* each success exit after a record write passes maybeSync()==nil; in maybeSync the SyncImmediate arm reaches syncLocked and its error is returned; in syncLocked and Close writer.Flush precedes file.Sync, both errors are checked and the status changes only after the sync; the buffered writer is never replaced without a successful flush; " +
			"(3) rotation closes the old log on every success path after the pointer swap and Manager.Close closes the current log; " +
			"(4) atomic publication of SSTables: in Writer.Finish all writes precede Sync, Sync precedes the rename (FinalizeFile), the file is created under the temporary name, loaders skip non-.sst files, flush publishes the reader only after Finish succeeded; " +
			"(5) destructive file operations on database files are exactly the classified sites; " +
			"(6) recovery hands every recovered memtable to the read path and restores the sequence counter from the replay maximum; (7) the newest log file is reused for appending only behind a clean entry-boundary scan (so that writes acknowledged after a recovery are themselves recoverable); no read after the first of a record can leave as a clean io.EOF; (8) shared with C03/C09: the batch pre-validation uses writeRecord's own size formula and the buffer provision covers it; fragment writer and reader agree on chunk boundaries. " +
			"Added after blind round 5: the log file is written through the buffered writer only and record writers never flush; error classes of the replay loops distinguish == from errors.Is (a wrapped unexpected EOF must still end the log); recovery's last table stays mutable; precedence slices grow at the end only. " +
			"Added after blind round 6: recovery's limits (MaxMemTables, MemTableSize) are copied unchanged from the configuration and no sequence number is excluded, so recovery accepts every log the engine wrote within its limits. " +
			"Added after blind round 8: replay mirrors the live apply: MemTable.ProcessWALEntry is evaluated for every entry type the log accepts — put → Put, delete → Delete, merge → no effect, and none of them fails. " +
			"Added after blind round 9: wal.OpenReader fails only behind a failed system call (a size or content test there bypasses the replay loop's damage classes and sends recovery to its give-up arm); the temporary name a table is written under does not carry an extension the table loaders select (a crash between create and rename must not leave something the next open tries to load). " +
			"Added after blind round 10: every *.sst entry of the table directory is loaded at open.",
		NotDecided: "the state at arbitrary stop instants, torn writes, directory fsync, repeated crash/recover cycles — all need execution under fault injection.",
		Rules:      []func(*Ctx, *Reporter){ruleStWriteAhead, ruleWalSyncBeforeAck, ruleStRotation, ruleStRecovery, ruleSstFinish, ruleDestructiveOps, ruleStFlushPublish, ruleReuseValidatesTail, ruleWalBatch, ruleWalFragmentation, ruleRecoveryLastTableMutable, ruleWalFileWriters, ruleWalErrorClasses, subRules(ruleLayerOrder, "newest-is-last"), ruleRecoveryLimitsAreConfigured, ruleReplayMirrorsLiveApply, ruleLogOpenFailsOnlyOnIO, ruleTempNamesInvisibleToLoaders, ruleLoaderLoadsEveryTable},
	})
	register(&PropertyDef{
		ID: "C03",
		Explanation: "Decided: (1) buffer isolation — from TransactionImpl.Put/Delete/Get/New*Iterator no call path reaches a storage mutator or the log; only Commit does; " +
			"(2) one batch — Commit calls ApplyBatch exactly once, not in a loop, never after the lock release; Rollback and the read-only arm never do; " +
			"(3) ApplyBatch performs the log append and every memtable insert under one continuous exclusive hold of storage.Manager.mu, with no exit between the successful append and the inserts; point readers take it shared; " +
			"(4) AppendBatch: no flush/sync between the record writes of a batch, every record carries one loop-invariant sequence number, and every input-dependent rejection of writeRecord is tested with the identical size formula before the first record is written; " +
			"(5) Buffer.Put/Delete copy key and value before storing them (capture at call time) and assign the same map under string(key) (last operation wins); Rollback clears the buffer before releasing the lock; a successful transactional Put/Delete has buffered exactly that operation; (6) shared with C02/C10: a log file is reused for appending only behind a clean tail (a torn batch is never followed by new commits in the same file). " +
			"Added after blind round 5: the log file is written through the buffered writer only and the record writers never flush or sync on their own (a batch reaches the file in one piece). " +
			"Added after blind round 6: (a) the transaction buffer keeps no state derived from the operations map that Put/Delete/Clear do not also store to (a cached sorted view would make scans and the commit batch use superseded operations); (b) Buffer.Get returns a copy of the buffered value (tree defect, repaired: bda0e66); (c) batch-is-recognisable-at-replay: the log has no batch frame, a stop inside the final log write recovers a strict subset of a committed transaction — violated on this tree, recorded as an open finding with a demo. " +
			"Added after blind round 7: a table is sealed only where a new active table is installed afterwards (reviewed callers of SetImmutable; MemTable.Put drops writes into a sealed table silently); ErrWALClosed is answered only on status == WALStatusClosed (a rotating log must answer ErrWALRotating, the only error the storage layer retries). " +
			"Added after blind round 8: the merging iterator's Next advances children with their own Next only (no Seek to a computed successor key). " +
			"Added after blind round 9: Value() copies keep nil nil and empty empty (nil is the deletion marker below the merge); iterators below the merging layer position and step without looking at deletion markers. " +
			"Added after blind round 10: the memtable's Put/Delete always insert; the storage mutators are called from the reviewed set of callers only (a decorator that splits a commit into several ApplyBatch calls is a new caller). " +
			"Added after blind round 11: the module's []byte copy helpers keep an empty input empty and non-nil (nil is the deletion marker to every caller of Get).",
		NotDecided: "atomicity across a crash (the log format has no batch frame: a torn batch cannot be recognised at replay — design remark, needs a crash to observe); concurrent-reader interleavings.",
		Rules:      []func(*Ctx, *Reporter){ruleTxBufferIsolation, ruleTxApplyInside, ruleStSingleWriter, ruleStEffectOnce, ruleWalBatch, ruleTxBufferCapture, ruleTxRollbackClears, ruleTxOpsBuffered, ruleReuseValidatesTail, ruleWalFileWriters, ruleBufferViewsFollowMap, ruleBatchFrame, ruleAccessorsReturnCopies, ruleSealOnlyWhenReplaced, ruleClosedMeansClosed, ruleMergeNextStepsOnly, ruleValueWrappersKeepNil, ruleSourcesDoNotHideTombstones, ruleMemTablePutAlwaysInserts, subRules(ruleC16Who, "storage-mutator-callers"), ruleCopyHelpersKeepEmptyNonNil},
	})
	register(&PropertyDef{
		ID: "C06",
		Explanation: "Linearizability is a property of recorded histories and is NOT decided. Decided are structural preconditions without which it fails: " +
			"(1) single-writer section — in Put/Delete/ApplyBatch the log append, the memtable insert and the lastSeqNum update execute under one exclusive hold of storage.Manager.mu (closures passed to RetryOnWALRotating are analysed in the caller's lock context); readers hold it shared; " +
			"(2) error means no effect, success means once — no exit between a successful append and the insert, every feasible exit after the insert returns nil, the retry closure is re-run only on ErrWALRotating, which every Append* returns before consuming a number or writing a byte; " +
			"(3) the stamp given to the memtable is the very number the log assigned; (4) WAL pointer discipline — Manager.wal is accessed atomically on the write path; (5) the retry wrapper's decision table (one call on success or on another error, an error after exhausted retries, re-run only on errors every Append* returns before any effect); (6) immutable memtables leave the pool (the read path) only into the flush path; (7) shared with C08: the sequence counter is handed over to the new log at rotation (a write acknowledged after a flush is never shadowed by an older version with a higher stamp). " +
			"(8) every Append* reads the closed/rotating status while WAL.mu is held. " +
			"Added after blind round 6: cross-listed: write-ahead (the memtable insert is dominated by the success edge of the log append in Put, Delete and ApplyBatch) and entry-copies (newEntry copies key and value). " +
			"Added after blind round 7: GetNextSequence answers with the counter in every state (the rotation asks a log it has just marked rotating); SkipList.Find's selection table cross-listed (ties between equal sequence numbers). " +
			"Added after blind round 8: every exit of MemTablePool.Put/Delete passes MemTable.Put/Delete (no 'redundant write' shortcut in the pool). " +
			"Added after blind round 9: every answering exit of EngineFacade.Get / IsDeleted passes a storage lookup made by this invocation, directly or in a helper on every path — not inside a function literal that a once/coalescing/memo object decides to run. " +
			"Added after blind round 10: the memtable's Put/Delete always insert; behind the success edge of storage.Put/Delete the facade has no failing exit and makes no new error. " +
			"Added after blind round 11: the shared table file is read positionally (no Seek/Read through the file's shared offset under a shared lock).",
		NotDecided: "everything else: real-time order, stale reads across rotation, all schedules with background flush/compaction.",
		Rules:      []func(*Ctx, *Reporter){ruleStSingleWriter, ruleStEffectOnce, ruleStStamps, ruleWalRotatingNoEffect, ruleStWalPointer, ruleLayersLeaveOnly, ruleStRotationSeqOnly, ruleWalStatusUnderLock, ruleStWriteAhead, subRules(ruleMemImmutableFields, "entry-copies"), ruleGetNextSequenceAlwaysAnswers, subRules(ruleMemFind, "find-selection-table"), rulePoolWritesReachTable, ruleFacadeReadsStorageEveryTime, ruleMemTablePutAlwaysInserts, ruleFacadeErrorMeansNoEffect, rulePositionalReadsOnSharedFiles},
	})
	register(&PropertyDef{
		ID: "C08",
		Explanation: "Decided: (1) every store to WAL.nextSequence is old+k or guarded by a comparison that makes it larger than the old value; " +
			"(2) Append/AppendBatch return the counter value read before the write, write the record with it and advance the counter past it before every success exit; " +
			"(3) hand-over: wherever a freshly constructed WAL becomes the current log in non-constructor code, it first receives the old log's counter; " +
			"(4) recovery restores the counter to replay-maximum+1 on every success path with a non-zero maximum, and the maximum is a running maximum; " +
			"(5) the memtable stamp and the reported last sequence are the number the log assigned (batch entries share the batch's number because the log advances by one per batch); lastSeqNum is written only on the write path and by recovery. " +
			"(6) every Append* reads the closed/rotating status while WAL.mu is held (the hand-over of the counter at rotation relies on it). " +
			"Added after blind round 5: every entry applied by recovery is compared with the running maximum; every access to the counter (GetNextSequence included) holds WAL.mu. " +
			"Added after blind round 6: the Append*WithSequence variants leave the counter beyond the explicit number on both branches of their update; NewManager has a log in Manager.wal before recoverFromWAL hands the recovered maximum over; Primary.lastSyncedSeq (the reported position) is assigned in the synchronous callback or under a new > old guard, never unguarded in a goroutine; retention deletes a log file only when MaxSeq < MinSequenceKeep (cross-listed from C12: the file that alone records how far the counter got). " +
			"Added after blind round 7: GetNextSequence answers in every state; the acknowledged position of a session only moves forward (cross-listed from C13). " +
			"Added after blind round 8: the replay rule of C02 (a replay that fails on a legal entry type sends recovery down the arm that restarts the numbering). " +
			"Added after blind round 9: one lock is held exclusively at every call of storage.Manager.rotateWAL (two overlapping rotations seed two logs from the same counter; repaired in 1685eec); the only way past the store in WAL.UpdateNextSequence is 'not larger than the counter'. " +
			"Added after blind round 10: closed log segments are deleted only from the reviewed caller (the primary's retention). " +
			"Added after blind round 11: what is stored to Primary.lastSyncedSeq is a last-used sequence, never WAL.GetNextSequence() as it is.",
		NotDecided: "the actual numbers in a log directory after arbitrary histories; interactions between WAL retention and sequence numbers stored in SSTables.",
		Rules:      []func(*Ctx, *Reporter){ruleWalMonotone, ruleStRotationSeqOnly, ruleStRecovery, ruleStStamps, ruleWalStatusUnderLock, ruleWalCounterUnderLock, ruleExplicitSeqBelowCounter, ruleLogExistsBeforeRecovery, ruleReportedSeqMonotone, subRules(ruleRetention, "retention-spares-current-log"), subRules(ruleReplCursorWriters, "cursor-writers"), ruleGetNextSequenceAlwaysAnswers, ruleReplayMirrorsLiveApply, ruleRotationsAreSerialised, ruleHandOverAlwaysTaken, ruleRetentionCallers, ruleLastSequenceConvention},
	})
}

func ruleWalRotatingNoEffect(c *Ctx, r *Reporter) {
	// subset of ruleWalMonotone relevant to C06: computed there; run the whole rule and keep only that rule's obligations
	tmp := NewReporter(r.Property)
	ruleWalMonotone(c, tmp)
	for _, o := range tmp.Obls {
		if o.Rule == r.Property+"/rotating-means-no-effect" {
			r.Rule("rotating-means-no-effect", 5)
			r.add(o.Status, o.Construct, o.Pos, o.Detail, o.Path)
		}
	}
}

func ruleLayersLeaveOnly(c *Ctx, r *Reporter) {
	tmp := NewReporter(r.Property)
	ruleLayerOrder(c, tmp)
	for _, o := range tmp.Obls {
		if o.Rule == r.Property+"/layers-leave-only-to-be-flushed" {
			r.Rule("layers-leave-only-to-be-flushed", 1)
			r.add(o.Status, o.Construct, o.Pos, o.Detail, o.Path)
		}
	}
}

func ruleStRotationSeqOnly(c *Ctx, r *Reporter) {
	tmp := NewReporter(r.Property)
	ruleStRotation(c, tmp)
	for _, o := range tmp.Obls {
		if o.Rule == r.Property+"/seq-handover" {
			r.Rule("seq-handover", 1)
			r.add(o.Status, o.Construct, o.Pos, o.Detail, o.Path)
		}
	}
}

func init() {
	register(&PropertyDef{
		ID: "C01",
		Explanation: "Decided mechanisms behind 'reads return the latest write through every layer': " +
			"(1) layer order — the precedence slices (MemTablePool.immutables, Manager.sstables) only grow by append (newest last); MemTablePool.Get, Manager.Get and Manager.IsDeleted consult the newer layer first and walk the slice from the last element down; a hit never falls through to an older layer; " +
			"(2) tombstone short-circuit — a deletion marker in the memtables ends the lookup with not-found; an SSTable value is returned only on the exact-key, IsTombstone()==false edge of the same iterator; " +
			"(3) version order — decision tables of entry.compareWithEntry, SkipList.Find's selection and SkipList.Insert's position (P-ORD over all orderings); flush keeps the first (newest) entry of a key unless a later one has a strictly higher sequence; " +
			"(4) stamps — the memtable stamp is the number the log assigned; (5) empty is not deleted — no nil-collapsing copy reaches a 'nil means tombstone' sink and a value entry never keeps nil; " +
			"(6) flush writes every collected entry, tombstones included, with its own sequence number; the tombstone marker constant is shared by block writer and reader; " +
			"(7) the SSTable list is given a recency order when loaded from disk; (8) a successful transactional Put/Delete has buffered exactly that operation and pending operations leave the buffer only through Clear; immutable memtables leave the pool only into the flush path; (9) shared with C09: the buffered writer is never replaced without a flush and the fragment writer/reader agree on chunk boundaries (large values survive a reopen). " +
			"Added after blind round 5: recovery seals a table only on a path that appends a fresh one behind it (the active table is never sealed); MemTable.Get's table; the comparator does not subtract sequence numbers; sort comparators index the sorted slice. " +
			"Added after blind round 6: flushMemTable replaces the entry collected for a key only by a version with a greater sequence number (an older deletion marker cannot overwrite a newer put in the SSTable). " +
			"Added after blind round 7: after every successful decodeNext the decoded key becomes the block iterator's current key before the next decode (delta base = predecessor); recovery limits and flush table cross-listed. " +
			"Added after blind round 8: the block fetcher accepts every block size the writer can produce (no constant cap on a failing exit). " +
			"Added after blind round 9: the pool-write rule of C06 and the selection comparator of C12 are listed here too (a tombstone that is not inserted, a newer file moved below an older one). " +
			"Added after blind round 10: every *.sst entry of the table directory is opened and appended at load, or the open fails (no other way to pass a file over than 'directory' or 'other extension'); the memtable's Put/Delete always insert unless the table is immutable. " +
			"Added after blind round 11: between positioning the index cursor and positioning the data block iterator, every positioning method of sstable.Iterator loads the block the index points at.",
		NotDecided: "that the bytes returned equal the bytes put for every program (values); block/index seek landing inside SSTables (value-level binary search — the pinned tree gets this wrong, declared under C11); effects of memtable-size configurations.",
		Rules:      []func(*Ctx, *Reporter){ruleLayerOrder, ruleTombstoneShortCircuit, ruleMemComparator, ruleMemFind, ruleMemInsert, ruleFlushRules, ruleStStamps, ruleEmptyNotDeleted, ruleTombstoneMarker, ruleRecencyAtLoad, ruleTxOpsBuffered, ruleWalNoBufferDrop, ruleWalFragmentation, ruleSortKeysFromSortedSlice, ruleMemTableGetTable, ruleRecoveryLastTableMutable, ruleComparatorNoSubtraction, ruleFlushKeepsNewest, ruleDeltaBaseIsPredecessor, ruleRecoveryLimitsAreConfigured, ruleNoCapOnBlockSize, rulePoolWritesReachTable, ruleSelectionTakesOldest, ruleLoaderLoadsEveryTable, ruleMemTablePutAlwaysInserts, ruleTableIteratorLoadsWhatItIndexed, ruleCopyHelpersKeepEmptyNonNil},
	})
	register(&PropertyDef{
		ID: "C05",
		Explanation: "Decided mechanisms behind 'scans return exactly the live keys, once, in order, within bounds': " +
			"(1) source order — GetMemTables lists the active table first and the immutables newest first; the factory keeps memtable order, adds SSTables from the last down, memtables before SSTables, and merges with the hierarchical iterator; " +
			"(2) merge policy — decision tables (P-ORD) of findNextUniqueKey / Seek / SeekToLast: smallest (resp. greatest) key wins, on equal keys the earlier (newer) source keeps precedence, exhausted sources and keys below the target are skipped, sources are advanced exactly while their key <= the key just emitted; " +
			"(3) bounds — checkBounds ⇔ start <= key < end over all nil/non-nil bound combinations; Seek clamps below start and refuses at/after end; every accessor goes through the check; " +
			"(4) filter — Next/Seek report success only for keys that pass the predicate, Valid ⇔ inner valid ∧ predicate, prefix/suffix predicates are HasPrefix/HasSuffix(key, pattern); " +
			"(5) consumers — Scan/TxScan send only on the not-a-tombstone edge, stop iff limit > 0 ∧ count >= limit before emitting and count only emitted entries; " +
			"(6) memtable iterators skip nodes invisible in their snapshot in Next/Seek/SeekToFirst; (7) transaction scans overlay the buffer as source 0, bounded like the storage range. " +
			"Added after blind round 6: HierarchicalIterator.Seek/SeekToFirst/SeekToLast position EVERY child (loop over all of h.iterators without early exit, call on every iteration, passed by every exit); IteratorAdapter.SeekToLast re-seeks to the last key it saw, so that it lands on the newest version of the greatest key. " +
			"Added after blind round 7: the scan-sources rule of C04, including the loop bounds; the iterator adapters' Seek always passes the wrapped iterator's Seek with the caller's target. " +
			"Added after blind round 8: the buffer-seek rule; sstable.Iterator positions its index cursor before reading it in seekToFirst/SeekToLast/Seek; FilteredIterator.SeekToLast's fallback scan runs to the end of the inner iterator; the merge-next rule of C03. " +
			"Added after blind round 9: Value() copies keep nil nil; sources hand tombstones to the merge (no positioning function of a memtable, table, block, buffer, bounding or filtering iterator asks IsTombstone or reads a delete flag). " +
			"Added after blind round 10: no function of the table reader branches on a comparison of a block locator's size with a constant. " +
			"Added after blind round 11: every exit of SeekToFirst/SeekToLast/Seek of sstable.Iterator has set the `initialized` flag that Key/Value/Valid depend on.",
		NotDecided: "exactness of the key set for all data sets, seek landing inside SSTable blocks (see C11), scans concurrent with writers beyond the snapshot rule.",
		Rules:      []func(*Ctx, *Reporter){ruleSourceOrder, ruleMergePolicy, ruleBounds, ruleFilter, ruleScanConsumers, ruleMemVisibility, ruleTxOwnWrites, ruleCompositePositionsEveryChild, ruleMemSeekToLastNewest, ruleScanSourcesComplete, ruleAdapterSeekAlwaysSeeks, ruleBufferSeekStateless, ruleTableIteratorRewindsIndex, ruleFilteredSeekToLastScansAll, ruleMergeNextStepsOnly, ruleValueWrappersKeepNil, ruleSourcesDoNotHideTombstones, ruleNoCapOnLocatorSize, ruleTableIteratorMarksItselfPositioned},
	})
}

// subRules runs a rule function and keeps only the obligations of the named rules (for cross-listing a part of a rule
// function under another property).
func subRules(fn func(*Ctx, *Reporter), ids ...string) func(*Ctx, *Reporter) {
	return func(c *Ctx, r *Reporter) {
		tmp := NewReporter(r.Property)
		fn(c, tmp)
		for _, o := range tmp.Obls {
			for _, id := range ids {
				if o.Rule == r.Property+"/"+id {
					r.Rule(id, 1)
					r.add(o.Status, o.Construct, o.Pos, o.Detail, o.Path)
				}
			}
		}
	}
}

// subRulesConstruct runs a rule function and keeps only the obligations whose construct equals one of the given names.
func subRulesConstruct(fn func(*Ctx, *Reporter), constructs ...string) func(*Ctx, *Reporter) {
	return func(c *Ctx, r *Reporter) {
		tmp := NewReporter(r.Property)
		fn(c, tmp)
		for _, o := range tmp.Obls {
			for _, cn := range constructs {
				if o.Construct == cn {
					id := strings.TrimPrefix(o.Rule, r.Property+"/")
					r.Rule(id, 1)
					r.add(o.Status, o.Construct, o.Pos, o.Detail, o.Path)
				}
			}
		}
	}
}
