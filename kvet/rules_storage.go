package main

import (
	"fmt"
	"go/token"
	"go/types"
	"strings"

	"golang.org/x/tools/go/ssa"
)

type stAnchors struct {
	put, del, apply, get, isDeleted, getIter, getRange      *ssa.Function
	rotate, recover, flushMem, flushAll, schedule, retry    *ssa.Function
	getWAL, load, reload, closeF                            *ssa.Function
	poolPut, poolDel, poolGet, poolSetActive, poolGetTables *ssa.Function
	walField, sstables, immutableMTs, lastSeq               *types.Var
	w                                                       *walAnchors
	ok                                                      bool
}

func getStAnchors(c *Ctx, r *Reporter) *stAnchors {
	a := &stAnchors{}
	m := func(n string) *ssa.Function { return c.Func("pkg/engine/storage", "Manager", n) }
	a.put, a.del, a.apply, a.get, a.isDeleted = m("Put"), m("Delete"), m("ApplyBatch"), m("Get"), m("IsDeleted")
	a.getIter, a.getRange = m("GetIterator"), m("GetRangeIterator")
	a.rotate, a.recover, a.flushMem, a.flushAll, a.schedule, a.retry = m("rotateWAL"), m("recoverFromWAL"), m("flushMemTable"), m("FlushMemTables"), m("scheduleFlush"), m("RetryOnWALRotating")
	a.getWAL, a.load, a.reload, a.closeF = m("getWAL"), m("loadSSTables"), m("ReloadSSTables"), m("Close")
	p := func(n string) *ssa.Function { return c.Func("pkg/memtable", "MemTablePool", n) }
	a.poolPut, a.poolDel, a.poolGet, a.poolSetActive, a.poolGetTables = p("Put"), p("Delete"), p("Get"), p("SetActiveMemTable"), p("GetMemTables")
	a.walField = c.Field("pkg/engine/storage", "Manager", "wal")
	a.sstables = c.Field("pkg/engine/storage", "Manager", "sstables")
	a.immutableMTs = c.Field("pkg/engine/storage", "Manager", "immutableMTs")
	a.lastSeq = c.Field("pkg/engine/storage", "Manager", "lastSeqNum")
	a.w = getWalAnchors(c, r)
	a.ok = a.w.ok
	for _, f := range []*ssa.Function{a.put, a.del, a.apply, a.get, a.isDeleted, a.getIter, a.getRange, a.rotate, a.recover, a.flushMem, a.flushAll, a.schedule, a.retry, a.getWAL, a.load, a.reload, a.closeF, a.poolPut, a.poolDel, a.poolGet, a.poolSetActive, a.poolGetTables} {
		if f == nil {
			a.ok = false
		}
	}
	if a.walField == nil || a.sstables == nil || a.immutableMTs == nil || a.lastSeq == nil {
		a.ok = false
	}
	if !a.ok {
		r.Unresolved("storage.Manager.{Put,Delete,ApplyBatch,Get,IsDeleted,GetIterator,GetRangeIterator,rotateWAL,recoverFromWAL,flushMemTable,FlushMemTables,scheduleFlush,RetryOnWALRotating,getWAL,loadSSTables,ReloadSSTables,Close,wal,sstables,immutableMTs,lastSeqNum} / memtable.MemTablePool.{Put,Delete,Get,SetActiveMemTable,GetMemTables}", "a named anchor no longer resolves")
	}
	return a
}

func (a *stAnchors) mutators() []*ssa.Function { return []*ssa.Function{a.put, a.del, a.apply} }

// bodies: the function and its closures.
func bodies(fn *ssa.Function) []*ssa.Function {
	out := []*ssa.Function{fn}
	for _, c := range fn.AnonFuncs {
		out = append(out, bodies(c)...)
	}
	return out
}

func (a *stAnchors) appendSet() FnSet { return NewFnSet(a.w.appendFns...) }
func (a *stAnchors) insertSet() FnSet { return NewFnSet(a.poolPut, a.poolDel) }

// ---------------------------------------------------------------- write-ahead (C02), single writer section (C06/C03)

func ruleStWriteAhead(c *Ctx, r *Reporter) {
	a := getStAnchors(c, r)
	if !a.ok {
		return
	}
	r.Rule("write-ahead", 4)
	appended := callOKFact(c, func(call *ssa.Call) bool { return c.CallMay(call, a.appendSet()) })
	for _, mfn := range a.mutators() {
		n := 0
		for _, body := range bodies(mfn) {
			for _, s := range c.CallsIn(body, a.insertSet(), false) {
				n++
				r.Check(GuardedBy(s.Block(), appended), FnName(body)+":"+calleeName(s.Common()), c.InsPos(s),
					"memtable insert dominated by a successful log append", "memtable insert is not dominated by the success edge of the log append: the write is visible (and acknowledged) without being in the log")
			}
		}
		if n == 0 {
			r.Bad(FnName(mfn)+":insert", c.FnPos(mfn), "storage mutator no longer inserts into the memtable pool")
		}
	}
	// who inserts into the pool at all: only the three mutators (replay goes through MemTable.ProcessWALEntry)
	r.Rule("memtable-writers", 2)
	for f := range a.insertSet() {
		bad := false
		n := 0
		for _, e := range c.Callers(f) {
			if e.Site == nil || !c.InKevo(e.Caller.Func) {
				continue
			}
			n++
			top := topParent(e.Caller.Func)
			if top != a.put && top != a.del && top != a.apply && !strings.HasPrefix(pkgOf(top), "cmd/storage-bench") {
				bad = true
				r.Bad(FnName(f)+"←"+FnName(e.Caller.Func), c.InsPos(e.Site), "memtable pool written outside storage.Manager.Put/Delete/ApplyBatch (no log append precedes it)")
			}
		}
		if !bad {
			r.OK(FnName(f), c.FnPos(f), fmt.Sprintf("%d call site(s), all in Put/Delete/ApplyBatch", n))
		}
	}
}

func ruleStSingleWriter(c *Ctx, r *Reporter) {
	a := getStAnchors(c, r)
	if !a.ok {
		return
	}
	li := c.Locks()
	const mu = "storage.Manager.mu"
	r.Rule("single-writer-section", 9)
	for _, mfn := range a.mutators() {
		for _, body := range bodies(mfn) {
			AllInstrs(body, false, func(_ *ssa.Function, ins ssa.Instruction) {
				kind := ""
				if c.CallMay(ins, a.appendSet()) {
					kind = "log-append"
				} else if c.CallMay(ins, a.insertSet()) {
					kind = "memtable-insert"
				} else if st, ok := ins.(*ssa.Store); ok && fieldVarOf(st.Addr) == a.lastSeq {
					kind = "lastSeqNum-store"
				}
				if kind == "" {
					return
				}
				held := li.HeldAt(ins)
				r.Check(held.Holds(mu, "W"), FnName(body)+":"+kind, c.InsPos(ins), "executes with storage.Manager.mu held exclusively ("+held.String()+")",
					"executes without storage.Manager.mu held exclusively (held: "+held.String()+"): log order and memtable order can diverge under concurrency")
			})
		}
	}
	r.Rule("readers-hold-shared", 4)
	for _, rfn := range []*ssa.Function{a.get, a.isDeleted, a.getIter, a.getRange} {
		n := 0
		ok := true
		// the reader itself plus the Manager methods it hands the work to (extracted helpers), one level
		body := []*ssa.Function{rfn}
		AllInstrs(rfn, true, func(_ *ssa.Function, ins ssa.Instruction) {
			if call, isCall := ins.(*ssa.Call); isCall {
				if f := call.Call.StaticCallee(); f != nil && f != rfn && len(f.Blocks) > 0 && recvTypeName(f) == recvTypeName(rfn) && f != a.get && f != a.isDeleted && f != a.getIter && f != a.getRange {
					body = append(body, f)
				}
			}
		})
		visit := func(f func(_ *ssa.Function, ins ssa.Instruction)) {
			for _, b := range body {
				AllInstrs(b, true, f)
			}
		}
		visit(func(_ *ssa.Function, ins ssa.Instruction) {
			hit := c.CallMay(ins, NewFnSet(a.poolGet, a.poolGetTables))
			if u, isU := ins.(*ssa.UnOp); isU && u.Op == token.MUL && fieldVarOf(u.X) == a.sstables {
				hit = true
			}
			if !hit {
				return
			}
			n++
			if !li.HeldAt(ins).Holds(mu, "R") {
				ok = false
				r.Bad(FnName(rfn)+":unlocked-read", c.InsPos(ins), "reads the memtable pool / SSTable list without storage.Manager.mu (held: "+li.HeldAt(ins).String()+")")
			}
		})
		if n == 0 {
			// a reader that hands the work to one of its siblings (GetIterator = GetRangeIterator(nil, nil)): the sibling is checked
			var to *ssa.Function
			for _, call := range c.CallsIn(rfn, NewFnSet(a.get, a.isDeleted, a.getIter, a.getRange), false) {
				if f := call.Common().StaticCallee(); f != nil && f != rfn {
					to = f
				}
			}
			if to != nil {
				r.OK(FnName(rfn), c.FnPos(rfn), "no layer access of its own: delegates to "+FnName(to)+", which is checked")
			} else {
				r.Undecided(FnName(rfn), c.FnPos(rfn), "no layer access found")
			}
		} else if ok {
			r.OK(FnName(rfn), c.FnPos(rfn), fmt.Sprintf("%d layer access(es) under storage.Manager.mu (shared)", n))
		}
	}
}

// ---------------------------------------------------------------- error means no effect / success means once (C06)

func ruleStEffectOnce(c *Ctx, r *Reporter) {
	a := getStAnchors(c, r)
	if !a.ok {
		return
	}
	r.Rule("error-means-no-effect", 3)
	appendFailed := func(cond ssa.Value) (bool, bool) {
		t, f := callOKFact(c, func(call *ssa.Call) bool { return c.CallMay(call, a.appendSet()) })(cond)
		return f, t
	}
	infeasible := infeasibleErrEdges(c)
	for _, mfn := range a.mutators() {
		for _, body := range bodies(mfn) {
			apps := c.CallsIn(body, a.appendSet(), false)
			ins := c.CallsIn(body, a.insertSet(), false)
			if len(apps) == 0 {
				continue
			}
			name := FnName(body)
			isInsert := func(i ssa.Instruction) bool {
				for _, x := range ins {
					if ssa.Instruction(x) == i {
						return true
					}
				}
				return false
			}
			isRet := func(i ssa.Instruction) bool { _, ok := i.(*ssa.Return); return ok }
			ok := true
			inLoop := false
			for _, x := range ins {
				for _, gl := range GenericLoops(body) {
					if gl.Contains(x.Block()) {
						inLoop = true
					}
				}
			}
			if inLoop {
				// a batch may be empty: only failing exits between append and insert are wrong
				isRet = func(i ssa.Instruction) bool {
					ret, ok := i.(*ssa.Return)
					return ok && ClassifyReturn(ret) != ExitSuccess
				}
			}
			for _, ap := range apps {
				// after a SUCCESSFUL append, no exit before the memtable insert
				bad, path := ReachE(body, ap, isRet, isInsert, andEdges(PruneFactEdges(appendFailed), infeasible))
				if bad != nil {
					ok = false
					r.Bad(name+":exit-between-append-and-insert", c.InsPos(bad), "an exit is reachable after a successful log append and before the memtable insert: the operation is in the log (and will be replayed) but not applied or acknowledged", c.PathString(path)...)
				}
			}
			// after the (last) memtable insert every feasible exit returns nil
			for _, x := range ins {
				bad, path := ReachE(body, x, func(i ssa.Instruction) bool {
					ret, isR := i.(*ssa.Return)
					return isR && ClassifyReturn(ret) != ExitSuccess
				}, nil, infeasible)
				if bad != nil {
					ok = false
					r.Bad(name+":error-after-effect", c.InsPos(bad), "a failing exit is reachable after the memtable insert: a write that reports an error has taken effect", c.PathString(path)...)
				}
			}
			if ok {
				r.OK(name, c.FnPos(body), "no exit between successful append and insert; every feasible exit after the insert returns nil")
			}
		}
	}
	// retry loop: the operation is re-run only on ErrWALRotating
	r.Rule("retry-only-on-rotating", 1)
	// follow a delegation (RetryOnWALRotating -> RetryWithConfig(operation, ...)) to the function that calls the operation
	fn := a.retry
	opParam := ssa.Value(nil)
	if len(fn.Params) >= 2 {
		opParam = fn.Params[len(fn.Params)-1]
		for _, p := range fn.Params {
			if _, isSig := p.Type().Underlying().(*types.Signature); isSig {
				opParam = p
			}
		}
	}
	var retryPred *ssa.Function // predicate passed along with the operation, if any
	for depth := 0; depth < 2 && opParam != nil; depth++ {
		direct := false
		var deleg *ssa.Call
		AllInstrs(fn, false, func(_ *ssa.Function, ins ssa.Instruction) {
			call, ok := ins.(*ssa.Call)
			if !ok {
				return
			}
			if call.Call.Value == opParam {
				direct = true
			}
			if g := call.Call.StaticCallee(); g != nil && c.InKevo(g) {
				for _, arg := range call.Call.Args {
					if arg == opParam {
						deleg = call
					}
				}
			}
		})
		if direct || deleg == nil {
			break
		}
		g := deleg.Call.StaticCallee()
		for i, arg := range deleg.Call.Args {
			if arg == opParam && i < len(g.Params) {
				opParam = g.Params[i]
			} else if f, ok := arg.(*ssa.Function); ok {
				retryPred = f
			}
		}
		fn = g
	}
	var opCall ssa.Instruction
	AllInstrs(fn, false, func(_ *ssa.Function, ins ssa.Instruction) {
		if call, ok := ins.(*ssa.Call); ok && opParam != nil && call.Call.Value == opParam {
			opCall = ins
		}
	})
	rname := FnName(fn)
	if opCall == nil {
		r.Undecided("storage.Manager.RetryOnWALRotating", c.FnPos(fn), "call of the operation parameter not found")
	} else {
		// decision table (P-ORD, concrete loop counters): what the retry function does when the operation
		//   succeeds at once / fails with another error / keeps answering ErrWALRotating
		type row struct {
			name           string
			opResult       int64
			retryable      bool
			wantNil        bool
			minOps, maxOps int
		}
		rows := []row{
			{"operation succeeds", NilRank, false, true, 1, 1},
			{"operation fails with another error", 7, false, false, 1, 1},
			{"operation keeps answering ErrWALRotating", 5, true, false, 2, 16},
		}
		for _, rw := range rows {
			one := int64(1)
			sc := &Scenario{Terms: map[string]int64{}, Bools: map[string]bool{}, Vals: map[ssa.Value]int64{}, BoolVals: map[ssa.Value]bool{}, DefaultInt: &one, MaxVisits: 24}
			AllInstrs(fn, false, func(_ *ssa.Function, ins ssa.Instruction) {
				v, ok := ins.(ssa.Value)
				if !ok {
					return
				}
				if ins == opCall {
					sc.Vals[v] = rw.opResult
				}
				if globalLoad(v) == a.w.errRotating {
					sc.Vals[v] = 5
				}
				if g := globalLoad(v); g != nil && g != a.w.errRotating && isErrorType(v.Type()) {
					sc.Vals[v] = 9
				}
				if ld, ok := ins.(*ssa.UnOp); ok && ld.Op == token.MUL {
					if fa, ok := ld.X.(*ssa.FieldAddr); ok && fieldName(fa) == "MaxRetries" {
						sc.Vals[v] = 3
					}
				}
				if call, ok := ins.(*ssa.Call); ok && ins != opCall {
					if staticName(call) == "errors.Is" && len(call.Call.Args) == 2 && sameValue(resolveLoad(call.Call.Args[0]), opCall.(ssa.Value)) {
						switch g := globalLoad(call.Call.Args[1]); {
						case g == a.w.errRotating:
							sc.BoolVals[v] = rw.opResult == 5
						case g != nil:
							sc.BoolVals[v] = false
						}
					}
					if _, isParam := call.Call.Value.(*ssa.Parameter); isParam && call.Type().String() == "bool" {
						sc.BoolVals[v] = rw.retryable // the retry predicate handed in by the caller
					}
					if f := call.Call.StaticCallee(); f != nil && call.Type().String() == "bool" && c.InKevo(f) && len(call.Call.Args) == 1 && sameValue(call.Call.Args[0], opCall.(ssa.Value)) {
						sc.BoolVals[v] = rw.retryable
					}
				}
			})
			res := EvalPath(fn.Blocks[0], nil, sc, nil)
			cons := rname + ":retry-table[" + rw.name + "]"
			if res.Err != "" || res.Ret == nil {
				r.Undecided(cons, c.FnPos(fn), "row not decidable: "+res.Err)
				continue
			}
			nOps := 0
			for _, e := range res.Effects {
				if e.Ins == opCall {
					nOps++
				}
			}
			rv := res.RetVals[len(res.RetVals)-1]
			isNil := rv.Kind == "int" && rv.I == NilRank
			okRow := isNil == rw.wantNil && nOps >= rw.minOps && nOps <= rw.maxOps
			got := fmt.Sprintf("%d call(s) of the operation, returns %s", nOps, map[bool]string{true: "nil", false: "an error"}[isNil])
			r.Check(okRow, cons, c.FnPos(fn), got, "when the "+rw.name+": "+got+" — "+map[bool]string{true: "must report success after exactly one call", false: "must report an error (a write that was never applied would be acknowledged) and must not re-run the operation except on ErrWALRotating"}[rw.wantNil])
		}
		if retryPred != nil {
			// the predicate handed in accepts ErrWALRotating only (or ErrWALRotating and nothing that can follow an effect)
			r.Info(rname+":predicate", c.FnPos(retryPred), "retry predicate: "+FnName(retryPred))
		}
		isRotating := func(cond ssa.Value) (bool, bool) {
			if call, ok := cond.(*ssa.Call); ok && call.Type().String() == "bool" {
				if _, isParam := call.Call.Value.(*ssa.Parameter); isParam && len(call.Call.Args) == 1 && sameValue(call.Call.Args[0], opCall.(ssa.Value)) {
					return true, false // the caller's retry predicate (judged separately)
				}
				if staticName(call) == "errors.Is" && len(call.Call.Args) == 2 && globalLoad(call.Call.Args[1]) == a.w.errRotating {
					return true, false
				}
			}
			bo, ok := cond.(*ssa.BinOp)
			if !ok || (bo.Op != token.EQL && bo.Op != token.NEQ) {
				return false, false
			}
			if (sameValue(bo.X, opCall.(ssa.Value)) && globalLoad(bo.Y) == a.w.errRotating) || (sameValue(bo.Y, opCall.(ssa.Value)) && globalLoad(bo.X) == a.w.errRotating) {
				return bo.Op == token.EQL, bo.Op == token.NEQ
			}
			return false, false
		}
		// the operation must not be reachable again from itself except through the "is rotating" edge
		again, path := ReachE(fn, opCall, func(i ssa.Instruction) bool { return i == opCall }, nil, PruneFactEdges(isRotating))
		if again != nil {
			r.Bad("storage.Manager.RetryOnWALRotating", c.InsPos(opCall), "the operation can be re-run after a result other than ErrWALRotating: a write that succeeded or failed for another reason would be applied again", c.PathString(path)...)
		} else {
			r.OK("storage.Manager.RetryOnWALRotating", c.InsPos(opCall), "the operation is re-run only on the err == ErrWALRotating edge")
		}
		if retryPred != nil {
			// the predicate must be true for ErrWALRotating only: every 'true' return is behind err == ErrWALRotating
			okPred := true
			for _, ret := range Returns(retryPred) {
				v := ReturnValue(ret, 0)
				if b, isK := constBool(v); isK && !b {
					continue
				}
				// a comparison chain: collect the globals compared with
				var globals []*ssa.Global
				var walk func(x ssa.Value, d int)
				walk = func(x ssa.Value, d int) {
					if d > 6 {
						return
					}
					switch y := x.(type) {
					case *ssa.BinOp:
						if g := globalLoad(y.Y); g != nil {
							globals = append(globals, g)
						}
						if g := globalLoad(y.X); g != nil {
							globals = append(globals, g)
						}
					case *ssa.Phi:
						for i, e := range y.Edges {
							if _, isK := e.(*ssa.Const); isK {
								p := y.Block().Preds[i]
								if iff, ok := p.Instrs[len(p.Instrs)-1].(*ssa.If); ok {
									walk(iff.Cond, d+1)
								}
								continue
							}
							walk(e, d+1)
						}
					}
				}
				walk(v, 0)
				for _, g := range globals {
					if !preEffectSentinel(c, a.w, g) {
						okPred = false
					}
				}
				if len(globals) == 0 {
					okPred = false
				}
			}
			r.Check(okPred, rname+":predicate-is-rotating-only", c.FnPos(retryPred), "the retry predicate accepts only errors that every Append* returns before any effect", "the retry predicate "+FnName(retryPred)+" accepts an error that an Append* can return after it consumed a sequence number or wrote a record (or an unrecognised test): re-running the operation then applies the write twice")
		}
	}
}

// ---------------------------------------------------------------- stamps (C01/C08)

func ruleStStamps(c *Ctx, r *Reporter) {
	a := getStAnchors(c, r)
	if !a.ok {
		return
	}
	r.Rule("stamp-provenance", 4)
	// how far does AppendBatch advance the counter?
	batchAdvance := "+1"
	AllInstrs(a.w.appendBatch, false, func(_ *ssa.Function, ins ssa.Instruction) {
		st, ok := ins.(*ssa.Store)
		if !ok || fieldVarOf(st.Addr) != a.w.nextSeq {
			return
		}
		if bo, ok := st.Val.(*ssa.BinOp); ok && bo.Op == token.ADD {
			if _, isK := constInt(bo.Y); !isK {
				batchAdvance = "+n"
			}
		}
	})
	for _, mfn := range a.mutators() {
		for _, body := range bodies(mfn) {
			var app *ssa.Call
			for _, s := range c.CallsIn(body, a.appendSet(), false) {
				app, _ = s.(*ssa.Call)
			}
			if app == nil {
				continue
			}
			isBatch := c.CallMay(app, NewFnSet(a.w.appendBatch))
			for _, s := range c.CallsIn(body, a.insertSet(), false) {
				args := s.Common().Args
				seq := args[len(args)-1]
				name := FnName(body) + ":" + calleeName(s.Common()) + ":seq"
				ex, isEx := seq.(*ssa.Extract)
				direct := isEx && ex.Tuple == ssa.Value(app) && ex.Index == 0
				switch {
				case direct:
					r.OK(name, c.InsPos(s), "the stamp is the very number the log append returned")
				case isBatch && batchAdvance == "+n" && derivesFrom(seq, app):
					r.OK(name, c.InsPos(s), "the stamp derives from the batch's first number and the log advances by the batch size")
				case isBatch && derivesFrom(seq, app):
					r.Bad(name, c.InsPos(s), "batch entries are stamped start+i while the log advances its counter by 1 per batch: stamps run ahead of the log and later single writes get lower numbers (a later put loses to an earlier committed value)")
				default:
					r.Bad(name, c.InsPos(s), "the memtable stamp is not the sequence number the log assigned to this operation")
				}
			}
			// lastSeqNum
			AllInstrs(body, false, func(_ *ssa.Function, ins ssa.Instruction) {
				st, ok := ins.(*ssa.Store)
				if !ok || fieldVarOf(st.Addr) != a.lastSeq {
					return
				}
				ex, isEx := st.Val.(*ssa.Extract)
				good := isEx && ex.Tuple == ssa.Value(app) && ex.Index == 0
				if !good && isBatch && batchAdvance == "+n" && derivesFrom(st.Val, app) {
					good = true
				}
				r.Check(good, FnName(body)+":lastSeqNum", c.InsPos(ins), "reported last sequence is the number the log assigned", "the reported last sequence is not the number the log assigned (it can run ahead of the log and then go backwards)")
			})
		}
	}
	// other writers of lastSeqNum: only recovery (from the replay maximum)
	r.Rule("reported-sequence-writers", 1)
	for _, fn := range c.KevoFns {
		top := topParent(fn)
		if top == a.put || top == a.del || top == a.apply {
			continue
		}
		AllInstrs(fn, false, func(_ *ssa.Function, ins ssa.Instruction) {
			st, ok := ins.(*ssa.Store)
			if !ok || fieldVarOf(st.Addr) != a.lastSeq {
				return
			}
			if fn == a.recover {
				ex, isEx := st.Val.(*ssa.Extract)
				good := false
				if isEx {
					if call, ok := ex.Tuple.(*ssa.Call); ok && call.Call.StaticCallee() != nil && call.Call.StaticCallee().Name() == "RecoverFromWAL" && ex.Index == 1 {
						good = true
					}
				}
				r.Check(good, FnName(fn)+":lastSeqNum", c.InsPos(ins), "set from the replay maximum", "recovery sets the reported sequence from something other than the replay maximum")
				return
			}
			r.Bad(FnName(fn)+":lastSeqNum", c.InsPos(ins), "the reported last sequence is written outside the write path and recovery")
		})
	}
}

// derivesFrom: v depends (through arithmetic/conversions/phis) on result #0 of call.
func derivesFrom(v ssa.Value, call *ssa.Call) bool {
	seen := map[ssa.Value]bool{}
	var walk func(v ssa.Value, d int) bool
	walk = func(v ssa.Value, d int) bool {
		if d > 8 || v == nil || seen[v] {
			return false
		}
		seen[v] = true
		switch x := v.(type) {
		case *ssa.Extract:
			return x.Tuple == ssa.Value(call) && x.Index == 0
		case *ssa.BinOp:
			return walk(x.X, d+1) || walk(x.Y, d+1)
		case *ssa.Convert:
			return walk(x.X, d+1)
		case *ssa.Phi:
			for _, e := range x.Edges {
				if walk(e, d+1) {
					return true
				}
			}
		}
		return false
	}
	return walk(v, 0)
}

// ---------------------------------------------------------------- rotation (C02/C08/C14)

// walPublications: the instructions that make a *wal.WAL the manager's current log (atomic pointer store or plain store to Manager.wal).
func walPublications(c *Ctx, a *stAnchors, fn *ssa.Function) []ssa.Instruction {
	var out []ssa.Instruction
	AllInstrs(fn, false, func(_ *ssa.Function, ins ssa.Instruction) {
		if st, ok := ins.(*ssa.Store); ok && fieldVarOf(st.Addr) == a.walField {
			out = append(out, ins)
			return
		}
		if call, ok := ins.(*ssa.Call); ok {
			if f := call.Call.StaticCallee(); f != nil && f.String() == "sync/atomic.StorePointer" {
				if addrDerivesFromField(call.Call.Args[0], a.walField, 0) {
					out = append(out, ins)
				}
			}
		}
	})
	return out
}

func addrDerivesFromField(v ssa.Value, fv *types.Var, d int) bool {
	if d > 6 || v == nil {
		return false
	}
	switch x := v.(type) {
	case *ssa.FieldAddr:
		return fieldVarOf(x) == fv
	case *ssa.Convert:
		return addrDerivesFromField(x.X, fv, d+1)
	case *ssa.ChangeType:
		return addrDerivesFromField(x.X, fv, d+1)
	}
	return false
}

func publishedValue(ins ssa.Instruction) ssa.Value {
	switch x := ins.(type) {
	case *ssa.Store:
		return x.Val
	case *ssa.Call:
		v := x.Call.Args[1]
		for {
			switch y := v.(type) {
			case *ssa.Convert:
				v = y.X
				continue
			case *ssa.ChangeType:
				v = y.X
				continue
			}
			break
		}
		return v
	}
	return nil
}

func ruleStRotation(c *Ctx, r *Reporter) {
	a := getStAnchors(c, r)
	if !a.ok {
		return
	}
	fn := a.rotate
	pubs := walPublications(c, a, fn)
	r.Rule("seq-handover", 1)
	if len(pubs) == 0 {
		r.Undecided("storage.Manager.rotateWAL", c.FnPos(fn), "no publication of a new WAL found in rotateWAL")
		return
	}
	for _, pub := range pubs {
		newWAL := publishedValue(pub)
		// on every path to the publication on which an old log exists, a call newWAL.UpdateNextSequence(old.GetNextSequence()) runs first
		oldNilH := func(cond ssa.Value) (bool, bool) {
			v, trueIsNonNil, ok := nilTest(cond)
			if !ok || !strings.HasSuffix(v.Type().String(), "wal.WAL") || sameValue(v, newWAL) {
				return false, false
			}
			return !trueIsNonNil, trueIsNonNil
		}
		handover := func(ins ssa.Instruction) bool {
			call, isCall := ins.(*ssa.Call)
			if !isCall || call.Call.StaticCallee() != a.w.updateNext || !sameValue(call.Call.Args[0], newWAL) {
				return false
			}
			src, isC := call.Call.Args[1].(*ssa.Call)
			return isC && src.Call.StaticCallee() == a.w.getNext && !sameValue(src.Call.Args[0], newWAL)
		}
		missed, _ := ReachE(fn, nil, func(i ssa.Instruction) bool { return i == pub }, handover, PruneFactEdges(oldNilH))
		ok := missed == nil
		// or the constructor received the counter
		if call, isCall := tupleCall(newWAL); isCall && call.Call.StaticCallee() != nil && call.Call.StaticCallee().Name() != "NewWAL" {
			for _, arg := range call.Call.Args {
				if src, isC := arg.(*ssa.Call); isC && src.Call.StaticCallee() == a.w.getNext {
					ok = true
				}
			}
		}
		r.Check(ok, "storage.Manager.rotateWAL:publish", c.InsPos(pub), "the new log receives the old log's counter (UpdateNextSequence(old.GetNextSequence())) before it is published",
			"a freshly constructed WAL (counter = 1) becomes the current log without receiving the old log's sequence counter: after a flush the next write is stamped 1 again")

		// the old log is closed after the swap on every success path
		r.Rule("rotation-closes-old", 1)
		exits := SuccessExits(fn, true)
		isExit := func(i ssa.Instruction) bool {
			for _, e := range exits {
				if e == i {
					return true
				}
			}
			return false
		}
		oldNil := func(cond ssa.Value) (bool, bool) {
			v, trueIsNonNil, ok := nilTest(cond)
			if !ok || !strings.HasSuffix(v.Type().String(), "wal.WAL") || sameValue(v, newWAL) {
				return false, false
			}
			return !trueIsNonNil, trueIsNonNil
		}
		bad, path := ReachE(fn, pub, isExit, func(i ssa.Instruction) bool {
			call, isCall := i.(*ssa.Call)
			if !isCall {
				return false
			}
			if call.Call.StaticCallee() == a.w.closeF && !sameValue(call.Call.Args[0], newWAL) {
				return true
			}
			// a same-receiver helper that is handed a log other than the new one and closes it unless it is nil
			h := call.Call.StaticCallee()
			if h == nil || len(h.Blocks) == 0 || recvTypeName(h) != recvTypeName(fn) {
				return false
			}
			for k, arg := range call.Call.Args {
				if k >= len(h.Params) || !strings.HasSuffix(arg.Type().String(), "wal.WAL") || sameValue(arg, newWAL) {
					continue
				}
				prm := ssa.Value(h.Params[k])
				prmNil := func(cond ssa.Value) (bool, bool) {
					v, trueIsNonNil, ok := nilTest(cond)
					if !ok || v != prm {
						return false, false
					}
					return !trueIsNonNil, trueIsNonNil
				}
				var rets []ssa.Instruction
				for _, ret := range Returns(h) {
					rets = append(rets, ret)
				}
				miss, _ := MustPassE(h, rets, func(x ssa.Instruction) bool {
					c2, ok := x.(*ssa.Call)
					return ok && c2.Call.StaticCallee() == a.w.closeF && c2.Call.Args[0] == prm
				}, PruneFactEdges(prmNil))
				if miss == nil {
					return true
				}
			}
			return false
		}, PruneFactEdges(oldNil))
		if bad != nil {
			r.Bad("storage.Manager.rotateWAL:close-old", c.InsPos(bad), "after the pointer swap a success exit is reachable without closing (flushing and syncing) the old log: its buffered records are lost", c.PathString(path)...)
		} else {
			r.OK("storage.Manager.rotateWAL:close-old", c.InsPos(pub), "every success exit after the swap closes the old log")
		}
		r.Rule("seq-handover", 1)
	}
	// Manager.Close closes the current log
	r.Rule("close-closes-log", 1)
	cl := a.closeF
	n := 0
	AllInstrs(cl, false, func(_ *ssa.Function, ins ssa.Instruction) {
		if call, ok := ins.(*ssa.Call); ok && call.Call.StaticCallee() == a.w.closeF {
			n++
		}
	})
	walCloseOK := callOKFact(c, func(call *ssa.Call) bool { return call.Call.StaticCallee() == a.w.closeF })
	okc := n > 0
	for _, e := range SuccessExits(cl, true) {
		// success exits other than the already-closed early return must be on the Close()==nil edge or the wal==nil edge
		_ = e
	}
	_ = walCloseOK
	r.Check(okc, "storage.Manager.Close", c.FnPos(cl), "closes (flushes and syncs) the current log", "Manager.Close no longer closes the write-ahead log: buffered records of a cleanly closed database are lost")
}

func tupleCall(v ssa.Value) (*ssa.Call, bool) {
	switch x := v.(type) {
	case *ssa.Extract:
		c, ok := x.Tuple.(*ssa.Call)
		return c, ok
	case *ssa.Call:
		return x, true
	}
	return nil, false
}

// ---------------------------------------------------------------- recovery (C02/C08)

func ruleStRecovery(c *Ctx, r *Reporter) {
	a := getStAnchors(c, r)
	if !a.ok {
		return
	}
	fn := a.recover
	var rec *ssa.Call
	AllInstrs(fn, false, func(_ *ssa.Function, ins ssa.Instruction) {
		if call, ok := ins.(*ssa.Call); ok && call.Call.StaticCallee() != nil && call.Call.StaticCallee().Name() == "RecoverFromWAL" {
			rec = call
		}
	})
	r.Rule("recovery-publishes-everything", 1)
	if rec == nil {
		r.Bad("storage.Manager.recoverFromWAL:replay", c.FnPos(fn), "opening a database no longer replays the log into memtables")
		return
	}
	isRecExtract := func(v ssa.Value, idx int) bool {
		ex, ok := v.(*ssa.Extract)
		return ok && ex.Tuple == ssa.Value(rec) && ex.Index == idx
	}
	var loop *RangeLoop
	for _, l := range RangeLoops(fn) {
		if l.Slice != nil && isRecExtract(l.Slice, 0) {
			loop = l
		}
	}
	if loop == nil { // an indexed loop over the recovered tables, first to last
		for _, w := range IndexWalks(fn) {
			if w.Dir != "asc" || len(w.IndexAddr) == 0 || !isRecExtract(w.IndexAddr[0].X, 0) || !walkCoversAllOf(w, func(v ssa.Value) bool { return isRecExtract(v, 0) }) {
				continue
			}
			var body, done *ssa.BasicBlock
			for _, sc := range w.Loop.Header.Succs {
				if w.Loop.Contains(sc) {
					body = sc
				} else {
					done = sc
				}
			}
			if body == nil {
				continue
			}
			l := &RangeLoop{Header: w.Loop.Header, Body: body, Done: done, Slice: w.IndexAddr[0].X}
			for _, ia := range w.IndexAddr {
				for _, ref := range *ia.Referrers() {
					if ld, ok := ref.(*ssa.UnOp); ok && ld.Op == token.MUL {
						l.Elems = append(l.Elems, ld)
					}
				}
			}
			loop = l
		}
	}
	if loop == nil {
		r.Undecided("storage.Manager.recoverFromWAL:publish", c.FnPos(fn), "no range loop over the recovered memtables found")
	} else {
		isElem := func(v ssa.Value) bool {
			for _, e := range loop.Elems {
				if e == v {
					return true
				}
			}
			return false
		}
		publishes := func(i ssa.Instruction) bool {
			call, ok := i.(*ssa.Call)
			if !ok {
				return false
			}
			f := call.Call.StaticCallee()
			if f == nil || recvTypeName(f) != "memtable.MemTablePool" {
				return false
			}
			for _, arg := range call.Call.Args[1:] {
				if isElem(arg) {
					return true
				}
			}
			return false
		}
		bad, path := loop.IterationMustPass(publishes, nil)
		if bad != nil {
			r.Bad("storage.Manager.recoverFromWAL:publish", c.blockPos(loop.Body), "a recovered memtable can leave the loop without being handed to the memtable pool: its data is unreadable until the background flush has written it out", c.PathString(path)...)
		} else {
			r.OK("storage.Manager.recoverFromWAL:publish", c.blockPos(loop.Body), "every recovered memtable is handed to the memtable pool")
		}
	}

	r.Rule("recovery-restores-counter", 2)
	recFailed := func(cond ssa.Value) (bool, bool) {
		v, trueIsNonNil, ok := nilTest(cond)
		if !ok || !isRecExtract(stripConv(v), 2) {
			return false, false
		}
		return trueIsNonNil, !trueIsNonNil
	}
	noTables := emptinessFact(func(v ssa.Value) bool { return isRecExtract(v, 0) })
	maxZero := func(cond ssa.Value) (bool, bool) {
		bo, ok := cond.(*ssa.BinOp)
		if !ok || !isRecExtract(bo.X, 1) {
			return false, false
		}
		if k, ok := constInt(bo.Y); ok && k == 0 {
			switch bo.Op {
			case token.GTR, token.NEQ:
				return false, true
			case token.EQL:
				return true, false
			}
		}
		return false, false
	}
	walNil := func(cond ssa.Value) (bool, bool) {
		v, trueIsNonNil, ok := nilTest(cond)
		if !ok || !strings.HasSuffix(v.Type().String(), "wal.WAL") {
			return false, false
		}
		return !trueIsNonNil, trueIsNonNil
	}
	noDir := func(cond ssa.Value) (bool, bool) {
		if call, ok := cond.(*ssa.Call); ok && staticName(call) == "os.IsNotExist" {
			return true, false
		}
		return false, false
	}
	exits := SuccessExits(fn, true)
	target := func(i ssa.Instruction) bool {
		call, ok := i.(*ssa.Call)
		if !ok || call.Call.StaticCallee() != a.w.updateNext {
			return false
		}
		// argument max+1 (or larger)
		arg := call.Call.Args[1]
		if bo, ok := arg.(*ssa.BinOp); ok && bo.Op == token.ADD && isRecExtract(bo.X, 1) {
			if k, ok := constInt(bo.Y); ok && k >= 1 {
				return true
			}
		}
		return false
	}
	bad, path := MustPassE(fn, exits, target, andEdges(PruneFactEdges(recFailed), PruneFactEdges(noTables), PruneFactEdges(maxZero), PruneFactEdges(walNil), PruneFactEdges(noDir)))
	if bad != nil {
		r.Bad("storage.Manager.recoverFromWAL:counter", c.InsPos(bad), "after a successful replay with a non-zero maximum a success exit is reachable without UpdateNextSequence(max+1) on the live log: new writes would reuse sequence numbers of recovered ones", c.PathString(path)...)
	} else {
		r.OK("storage.Manager.recoverFromWAL:counter", c.FnPos(fn), "successful replay with max > 0: every success exit passes UpdateNextSequence(max+1)")
	}
	// memtable.RecoverFromWAL computes the maximum with a > guard
	mrec := c.Func("pkg/memtable", "", "RecoverFromWAL")
	seqField := c.Field("pkg/wal", "Entry", "SequenceNumber")
	if mrec == nil || seqField == nil {
		r.Unresolved("memtable.RecoverFromWAL / wal.Entry.SequenceNumber", "not found")
		return
	}
	okMax := false
	pos := c.FnPos(mrec)
	for _, body := range bodies(mrec) {
		AllInstrs(body, false, func(_ *ssa.Function, ins ssa.Instruction) {
			st, ok := ins.(*ssa.Store)
			if !ok || !isLoadOfField(st.Val, seqField) {
				return
			}
			// store of entry.SequenceNumber into a cell; guarded by entry.SequenceNumber > *cell
			cell := st.Addr
			g := func(cond ssa.Value) (bool, bool) {
				bo, ok := cond.(*ssa.BinOp)
				if !ok {
					return false, false
				}
				x, y, op := bo.X, bo.Y, bo.Op
				if !isLoadOfField(x, seqField) {
					x, y = y, x
					op = flipOp(op)
				}
				if !isLoadOfField(x, seqField) {
					return false, false
				}
				u, ok := y.(*ssa.UnOp)
				if !ok || u.Op != token.MUL || u.X != cell {
					return false, false
				}
				switch op {
				case token.GTR, token.GEQ:
					return true, false
				case token.LEQ, token.LSS:
					return false, true
				}
				return false, false
			}
			if GuardedBy(ins.Block(), g) {
				okMax = true
				pos = c.InsPos(ins)
				// every applied entry is counted: the comparison is evaluated on every path to the call that applies the entry
				var cmpBlocks []*ssa.BasicBlock
				for _, b := range body.Blocks {
					if len(b.Instrs) == 0 {
						continue
					}
					if iff, ok := b.Instrs[len(b.Instrs)-1].(*ssa.If); ok {
						if t, f := withNot(g)(iff.Cond); t || f {
							cmpBlocks = append(cmpBlocks, b)
						}
					}
				}
				AllInstrs(body, false, func(_ *ssa.Function, x ssa.Instruction) {
					call, ok := x.(*ssa.Call)
					if !ok || call.Call.StaticCallee() == nil || call.Call.StaticCallee().Name() != "ProcessWALEntry" {
						return
					}
					hit, path := ReachE(body, nil, func(y ssa.Instruction) bool { return y == x }, func(y ssa.Instruction) bool {
						for _, cb := range cmpBlocks {
							if y.Block() == cb {
								return true
							}
						}
						return false
					}, nil)
					r.Check(hit == nil, "memtable.RecoverFromWAL:every-applied-entry-counted", c.InsPos(x), "the seq > max test is evaluated on every path to the application of an entry",
						"an entry can be applied to a recovered memtable without its sequence number being compared with the running maximum (the update sits on one arm of another decision): when that entry is the last of the log, recovery restores a counter that is too low and the first write after the restart reuses an acknowledged sequence number", c.PathString(path)...)
				})
			}
		})
	}
	r.Check(okMax, "memtable.RecoverFromWAL:max", pos, "the replay maximum is updated under seq > max", "the replay maximum is not computed as a running maximum (seq > max guard missing): recovery could restore a counter below recovered numbers")
}
