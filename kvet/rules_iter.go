package main

import (
	"fmt"
	"go/token"
	"go/types"
	"strings"

	"golang.org/x/tools/go/ssa"
)

// selection loop of a merge function: the loop over the `iterators` field that contains a bytes.Compare call.
func mergeSelectionLoop(fn *ssa.Function, itersF *types.Var) (*GenericLoop, string) {
	for _, w := range walksOverField(fn, itersF) {
		has := false
		for _, b := range fn.Blocks {
			if !w.Loop.Contains(b) {
				continue
			}
			for _, ins := range b.Instrs {
				if call, ok := ins.(*ssa.Call); ok && staticName(call) == "bytes.Compare" {
					has = true
				}
			}
		}
		if has {
			return w.Loop, w.SlicePath
		}
	}
	return nil, ""
}

func ruleMergePolicy(c *Ctx, r *Reporter) {
	r.Rule("merge-policy-table", 14)
	itersF := c.Field("pkg/common/iterator/composite", "HierarchicalIterator", "iterators")
	if itersF == nil {
		r.Unresolved("composite.HierarchicalIterator.iterators", "not found")
		return
	}
	for _, spec := range []struct {
		name string
		mode string
	}{{"findNextUniqueKey", "min"}, {"Seek", "min"}, {"SeekToLast", "max"}} {
		fn := c.Func("pkg/common/iterator/composite", "HierarchicalIterator", spec.name)
		if fn == nil {
			r.Unresolved("composite.HierarchicalIterator."+spec.name, "not found")
			continue
		}
		name := FnName(fn)
		loop, slicePath := mergeSelectionLoop(fn, itersF)
		if loop == nil {
			r.Undecided(name+":selection", c.FnPos(fn), "no selection loop over the sources found")
			continue
		}
		elem := slicePath + "[*]"
		// loop phis
		var bytePhis, intPhis []*ssa.Phi
		for _, ins := range loop.Header.Instrs {
			ph, ok := ins.(*ssa.Phi)
			if !ok {
				break
			}
			if ph.Comment == "rangeindex" {
				continue
			}
			switch ph.Type().String() {
			case "[]byte":
				bytePhis = append(bytePhis, ph)
			case "int":
				intPhis = append(intPhis, ph)
			}
		}
		base := func(set bool, keyRank, bestRank int64) *Scenario {
			sc := &Scenario{Terms: map[string]int64{"phi:rangeindex": 0, "len(" + slicePath + ")": 10, "Key(" + elem + ")": keyRank}, Bools: map[string]bool{"Valid(" + elem + ")": true, "Next(" + elem + ")": true}}
			for _, p := range bytePhis {
				if set {
					sc.Terms["phi:"+p.Comment] = bestRank
				} else {
					sc.Terms["phi:"+p.Comment] = NilRank
				}
			}
			for _, p := range intPhis {
				if set {
					sc.Terms["phi:"+p.Comment] = 0
				} else {
					sc.Terms["phi:"+p.Comment] = -1
				}
			}
			// parameters: nil prevKey / low target
			for _, pa := range fn.Params[1:] {
				if pa.Type().String() == "[]byte" {
					if spec.name == "Seek" {
						sc.Terms["param:"+pa.Name()] = 1
					} else {
						sc.Terms["param:"+pa.Name()] = NilRank
					}
				}
			}
			return sc
		}
		// identify the key phi: the []byte phi that receives Key(elem) when nothing is selected yet
		ev0 := EvalLoopIter(loop, base(false, 5, 0))
		if ev0.Err != "" || ev0.Reached == nil {
			r.Undecided(name+":selection[unset]", c.blockPos(loop.Header), "row not decidable: "+ev0.Err)
			continue
		}
		var keyPhi *ssa.Phi
		for _, p := range bytePhis {
			if nx := ev0.PhiNext(p); nx != nil && nx != ssa.Value(p) && strings.HasPrefix(evPath(ev0, nx), "Key(") {
				keyPhi = p
			}
		}
		r.Check(keyPhi != nil, name+":selection[none-selected]", c.blockPos(loop.Header), "the first valid source becomes the candidate", "with no candidate selected yet a valid source is not taken as the candidate")
		if keyPhi == nil {
			continue
		}
		for _, k := range []int64{-1, 0, 1} {
			ev := EvalLoopIter(loop, base(true, 5+k, 5))
			rn := fmt.Sprintf("%s:selection[key%scandidate]", name, rel(k))
			if ev.Err != "" || ev.Reached == nil {
				r.Undecided(rn, c.blockPos(loop.Header), "row not decidable: "+ev.Err)
				continue
			}
			replaced := ev.PhiNext(keyPhi) != ssa.Value(keyPhi)
			want := k < 0
			policy := "smallest key wins; on equal keys the EARLIER (newer) source keeps precedence"
			if spec.mode == "max" {
				want = k > 0
				policy = "greatest key wins; on equal keys the EARLIER (newer) source keeps precedence"
			}
			r.Check(replaced == want, rn, c.blockPos(loop.Header), map[bool]string{true: "candidate replaced", false: "candidate kept"}[replaced],
				fmt.Sprintf("candidate %s; specification: %s", map[bool]string{true: "replaced", false: "kept"}[replaced], policy))
		}
		// invalid sources are skipped
		scI := base(true, 1, 5)
		scI.Bools["Valid("+elem+")"] = false
		evI := EvalLoopIter(loop, scI)
		r.Check(evI.Err == "" && evI.Reached != nil && evI.PhiNext(keyPhi) == ssa.Value(keyPhi), name+":selection[invalid-source]", c.blockPos(loop.Header), "an exhausted source is skipped", "an exhausted source can become the candidate: "+evI.Err)
		if spec.name == "Seek" {
			// keys below the target are never selected
			sc := base(false, 3, 0)
			for _, pa := range fn.Params[1:] {
				sc.Terms["param:"+pa.Name()] = 4
			}
			ev := EvalLoopIter(loop, sc)
			okLow := ev.Err == "" && ev.Reached != nil && ev.PhiNext(keyPhi) == ssa.Value(keyPhi)
			r.Check(okLow, name+":selection[key<target]", c.blockPos(loop.Header), "a source positioned below the target is not selected", "a key below the seek target can be selected: "+ev.Err)
		}
		if spec.name == "findNextUniqueKey" {
			// duplicate skipping: inner advance loop continues exactly while key <= prevKey
			var inner *GenericLoop
			for _, l2 := range GenericLoops(fn) {
				if l2.Header != loop.Header && loop.Contains(l2.Header) {
					inner = l2
				}
			}
			prev := "param:" + fn.Params[1].Name()
			elemI := elem
			if inner == nil {
				// the skip loop may have been extracted into a helper called from the source loop: helper(iter, prevKey)
				AllInstrs(fn, false, func(_ *ssa.Function, ins ssa.Instruction) {
					call, ok := ins.(*ssa.Call)
					if !ok || !loop.Contains(call.Block()) || inner != nil {
						return
					}
					g := call.Call.StaticCallee()
					if g == nil || !c.InKevo(g) || len(g.Blocks) == 0 {
						return
					}
					pPrev, pIter := "", ""
					for i, a := range call.Call.Args {
						if i >= len(g.Params) {
							break
						}
						if a == ssa.Value(fn.Params[1]) {
							pPrev = "param:" + g.Params[i].Name()
						} else if _, isIface := g.Params[i].Type().Underlying().(*types.Interface); isIface {
							pIter = "param:" + g.Params[i].Name()
						}
					}
					if pPrev == "" || pIter == "" {
						return
					}
					for _, l2 := range GenericLoops(g) {
						inner, prev, elemI = l2, pPrev, pIter
					}
				})
			}
			if inner == nil {
				r.Bad(name+":advance-past-previous", c.FnPos(fn), "no loop advances a source past the previous key: duplicates / older versions of the key just emitted are not skipped")
			} else {
				elem := elemI
				for _, k := range []int64{-1, 0, 1} {
					sc := &Scenario{Terms: map[string]int64{"Key(" + elem + ")": 5 + k, prev: 5, "phi:rangeindex": 0}, Bools: map[string]bool{"Valid(" + elem + ")": true, "Next(" + elem + ")": true}}
					ev := EvalLoopIter(inner, sc)
					rn := fmt.Sprintf("%s:advance[key%sprevious]", name, rel(k))
					if ev.Err != "" {
						r.Undecided(rn, c.blockPos(inner.Header), "row not decidable: "+ev.Err)
						continue
					}
					adv := ev.Reached != nil && ev.HasCall("Next")
					r.Check(adv == (k <= 0), rn, c.blockPos(inner.Header), map[bool]string{true: "source advanced", false: "source kept"}[adv],
						fmt.Sprintf("source %s; specification: advance exactly while its key <= the key just emitted (each key once, strictly ascending)", map[bool]string{true: "advanced", false: "kept"}[adv]))
				}
			}
		}
	}
	// Next resumes after the current key
	next := c.Func("pkg/common/iterator/composite", "HierarchicalIterator", "Next")
	find := c.Func("pkg/common/iterator/composite", "HierarchicalIterator", "findNextUniqueKey")
	keyF := c.Field("pkg/common/iterator/composite", "HierarchicalIterator", "key")
	if next != nil && find != nil {
		ok := false
		for _, s := range c.CallsIn(next, NewFnSet(find), false) {
			if isLoadOfField(s.Common().Args[1], keyF) {
				ok = true
			}
		}
		r.Check(ok, "composite.HierarchicalIterator.Next", c.FnPos(next), "continues strictly after the current key", "Next does not continue from the current key")
	}
}

func evPath(res *EvalResult, v ssa.Value) string {
	ev := &evaluator{sc: &Scenario{}, phi: res.phi}
	return ev.pathOf(v)
}

// ---------------------------------------------------------------- bounds

func ruleBounds(c *Ctx, r *Reporter) {
	r.Rule("bounds-table", 15)
	fn := c.Func("pkg/common/iterator/bounded", "BoundedIterator", "checkBounds")
	if fn == nil {
		r.Unresolved("bounded.BoundedIterator.checkBounds", "not found")
		return
	}
	b := "param:" + fn.Params[0].Name()
	it := b + ".Iterator"
	for _, st := range []int64{NilRank, 5} {
		for _, en := range []int64{NilRank, 9} {
			for _, key := range []int64{3, 5, 7, 9, 11} {
				sc := &Scenario{Terms: map[string]int64{b + ".start": st, b + ".end": en, "Key(" + it + ")": key}, Bools: map[string]bool{"Valid(" + it + ")": true}}
				res := EvalPath(fn.Blocks[0], nil, sc, nil)
				name := fmt.Sprintf("bounded.BoundedIterator.checkBounds[start=%s,end=%s,key=%d]", rankStr(st), rankStr(en), key)
				if res.Err != "" || res.Ret == nil || res.RetVals[0].Kind != "bool" {
					r.Undecided(name, c.FnPos(fn), "row not decidable: "+res.Err)
					continue
				}
				want := (st == NilRank || key >= st) && (en == NilRank || key < en)
				if st != NilRank && en != NilRank || key == 5 || key == 9 || key == 7 {
					r.Check(res.RetVals[0].B == want, name, c.FnPos(fn), fmt.Sprint("in-bounds=", res.RetVals[0].B), fmt.Sprintf("in-bounds=%v, specification start <= key < end requires %v", res.RetVals[0].B, want))
				} else if res.RetVals[0].B != want {
					r.Bad(name, c.FnPos(fn), fmt.Sprintf("in-bounds=%v, specification start <= key < end requires %v", res.RetVals[0].B, want))
				}
			}
		}
	}
	scInv := &Scenario{Terms: map[string]int64{b + ".start": NilRank, b + ".end": NilRank, "Key(" + it + ")": 5}, Bools: map[string]bool{"Valid(" + it + ")": false}}
	resInv := EvalPath(fn.Blocks[0], nil, scInv, nil)
	r.Check(resInv.Err == "" && resInv.Ret != nil && !resInv.RetVals[0].B, "bounded.BoundedIterator.checkBounds[invalid]", c.FnPos(fn), "an invalid inner iterator is out of bounds", "an invalid inner position is reported in bounds")

	// Seek: clamp below start, refuse at/after end
	r.Rule("bounded-seek-table", 5)
	seek := c.Func("pkg/common/iterator/bounded", "BoundedIterator", "Seek")
	if seek == nil {
		r.Unresolved("bounded.BoundedIterator.Seek", "not found")
		return
	}
	bs := "param:" + seek.Params[0].Name()
	tg := "param:" + seek.Params[1].Name()
	its := bs + ".Iterator"
	for _, t := range []int64{3, 5, 7, 9, 11} {
		sc := &Scenario{Terms: map[string]int64{bs + ".start": 5, bs + ".end": 9, tg: t, "Key(" + its + ")": 7}, Bools: map[string]bool{"Valid(" + its + ")": true}}
		// the inner Seek result
		res := evalWithInvoke(seek, sc, "Seek", true)
		name := fmt.Sprintf("bounded.BoundedIterator.Seek[start=5,end=9,target=%d]", t)
		if res.Err != "" || res.Ret == nil {
			r.Undecided(name, c.FnPos(seek), "row not decidable: "+res.Err)
			continue
		}
		// which argument was passed to the inner Seek?
		arg := ""
		for _, e := range res.Effects {
			if e.Kind == "call" && e.What == "Seek" {
				if call, ok := e.Ins.(*ssa.Call); ok && len(call.Call.Args) == 1 {
					arg = evPath(res, call.Call.Args[0])
				}
			}
		}
		switch {
		case t >= 9:
			r.Check(arg == "" && res.RetVals[0].Kind == "bool" && !res.RetVals[0].B, name, c.FnPos(seek), "a target at or after the end bound is refused", "a target at/after the exclusive end bound is not refused (inner seek argument: "+arg+")")
		case t < 5:
			r.Check(strings.HasSuffix(arg, ".start"), name, c.FnPos(seek), "a target below the start bound is clamped to the start bound", "a target below the start bound is passed on as '"+arg+"' instead of being clamped to start")
		default:
			r.Check(arg == tg, name, c.FnPos(seek), "target passed on unchanged", "an in-range target is passed on as '"+arg+"'")
		}
	}
	// every accessor goes through the bounds check
	r.Rule("bounded-accessors", 4)
	valid := c.Func("pkg/common/iterator/bounded", "BoundedIterator", "Valid")
	for _, mn := range []string{"Valid", "Key", "Value", "IsTombstone", "Next", "SeekToFirst", "SeekToLast"} {
		m := c.Func("pkg/common/iterator/bounded", "BoundedIterator", mn)
		if m == nil {
			r.Unresolved("bounded.BoundedIterator."+mn, "not found")
			continue
		}
		ok := len(c.CallsIn(m, NewFnSet(fn, valid), false)) > 0
		r.Check(ok, "bounded.BoundedIterator."+mn, c.FnPos(m), "goes through the bounds check", "does not go through checkBounds/Valid: a position outside [start,end) can be exposed")
	}
	// SeekToFirst with a start bound seeks to it
	stf := c.Func("pkg/common/iterator/bounded", "BoundedIterator", "SeekToFirst")
	if stf != nil {
		startF := c.Field("pkg/common/iterator/bounded", "BoundedIterator", "start")
		ok := false
		AllInstrs(stf, false, func(_ *ssa.Function, ins ssa.Instruction) {
			if call, isCall := ins.(*ssa.Call); isCall && call.Call.IsInvoke() && call.Call.Method.Name() == "Seek" && isLoadOfField(call.Call.Args[0], startF) {
				ok = true
			}
		})
		r.Check(ok, "bounded.BoundedIterator.SeekToFirst:start", c.FnPos(stf), "with a start bound, positions by Seek(start)", "SeekToFirst ignores the start bound")
	}
}

func rankStr(i int64) string {
	if i == NilRank {
		return "nil"
	}
	return fmt.Sprint(i)
}

// evalWithInvoke evaluates fn with all invokes of method `name` returning val.
func evalWithInvoke(fn *ssa.Function, sc *Scenario, name string, val bool) *EvalResult {
	if sc.Bools == nil {
		sc.Bools = map[string]bool{}
	}
	AllInstrs(fn, false, func(_ *ssa.Function, ins ssa.Instruction) {
		if call, ok := ins.(*ssa.Call); ok && call.Call.IsInvoke() && call.Call.Method.Name() == name {
			// path depends on resolved phis; register common forms
			ev := &evaluator{sc: sc, phi: map[*ssa.Phi]ssa.Value{}}
			sc.Bools[ev.pathOf(call)] = val
		}
	})
	return EvalPath(fn.Blocks[0], nil, sc, nil)
}

// ---------------------------------------------------------------- filter

func ruleFilter(c *Ctx, r *Reporter) {
	r.Rule("filter", 6)
	kf := c.Field("pkg/common/iterator/filtered", "FilteredIterator", "keyFilter")
	if kf == nil {
		r.Unresolved("filtered.FilteredIterator.keyFilter", "not found")
		return
	}
	isFilterCall := func(v ssa.Value) bool {
		call, ok := v.(*ssa.Call)
		return ok && isLoadOfField(call.Call.Value, kf)
	}
	passes := func(cond ssa.Value) (bool, bool) {
		if isFilterCall(cond) {
			return true, false
		}
		return false, false
	}
	nextF := c.Func("pkg/common/iterator/filtered", "FilteredIterator", "Next")
	for _, mn := range []string{"Next", "Seek"} {
		fn := c.Func("pkg/common/iterator/filtered", "FilteredIterator", mn)
		if fn == nil {
			r.Unresolved("filtered.FilteredIterator."+mn, "not found")
			continue
		}
		ok := true
		n := 0
		for _, ret := range Returns(fn) {
			v := ReturnValue(ret, 0)
			if b, isK := constBool(v); isK && b {
				n++
				if !GuardedBy(ret.Block(), passes) {
					ok = false
				}
			} else if call, isCall := v.(*ssa.Call); isCall && call.Call.StaticCallee() == nextF {
				n++
			}
		}
		r.Check(n > 0 && ok, "filtered.FilteredIterator."+mn, c.FnPos(fn), "reports success only for a key that passes the predicate (or delegates to Next)", "can report success for a key for which the predicate is false")
	}
	valid := c.Func("pkg/common/iterator/filtered", "FilteredIterator", "Valid")
	if valid != nil {
		// Valid's result is inner.Valid() && filter(key): evaluate the table
		fi := "param:" + valid.Params[0].Name()
		okT := true
		for _, iv := range []bool{true, false} {
			for _, pv := range []bool{true, false} {
				sc := &Scenario{Bools: map[string]bool{"Valid(" + fi + ".iter)": iv}, Terms: map[string]int64{}}
				// the predicate call path
				AllInstrs(valid, false, func(_ *ssa.Function, ins ssa.Instruction) {
					if call, ok := ins.(*ssa.Call); ok && isFilterCall(call) {
						ev := &evaluator{sc: sc, phi: map[*ssa.Phi]ssa.Value{}}
						sc.Bools[ev.pathOf(call)] = pv
					}
				})
				res := EvalPath(valid.Blocks[0], nil, sc, nil)
				if res.Err != "" || res.Ret == nil || res.RetVals[0].Kind != "bool" || res.RetVals[0].B != (iv && pv) {
					okT = false
				}
			}
		}
		r.Check(okT, "filtered.FilteredIterator.Valid", c.FnPos(valid), "valid ⇔ inner valid ∧ predicate(key)", "Valid is not (inner valid ∧ predicate(current key))")
	}
	stf := c.Func("pkg/common/iterator/filtered", "FilteredIterator", "SeekToFirst")
	if stf != nil && nextF != nil {
		r.Check(len(c.CallsIn(stf, NewFnSet(nextF), false)) > 0, "filtered.FilteredIterator.SeekToFirst", c.FnPos(stf), "advances to the first key that passes", "SeekToFirst does not advance past a first key that fails the predicate")
	}
	// prefix / suffix predicates
	for _, spec := range [][2]string{{"PrefixFilterFunc", "bytes.HasPrefix"}, {"SuffixFilterFunc", "bytes.HasSuffix"}} {
		fn := c.Func("pkg/common/iterator/filtered", "", spec[0])
		if fn == nil || len(fn.AnonFuncs) != 1 {
			r.Unresolved("filtered."+spec[0], "not found")
			continue
		}
		cl := fn.AnonFuncs[0]
		ok := false
		AllInstrs(cl, false, func(_ *ssa.Function, ins ssa.Instruction) {
			call, isCall := ins.(*ssa.Call)
			if !isCall || staticName(call) != spec[1] {
				return
			}
			_, keyIsParam := call.Call.Args[0].(*ssa.Parameter)
			patPath := Path(call.Call.Args[1])
			if keyIsParam && strings.Contains(patPath, fn.Params[0].Name()) {
				for _, ret := range Returns(cl) {
					if ReturnValue(ret, 0) == ssa.Value(call) {
						ok = true
					}
				}
			}
		})
		if ok {
			r.OK("filtered."+spec[0], c.FnPos(fn), "predicate is "+spec[1]+"(key, pattern)")
			continue
		}
		// a hand-written predicate: decision table over the length relation and the byte comparison
		type row struct {
			keyLen int64
			equal  bool
			want   bool
		}
		rows := []row{{2, true, false}, {3, true, true}, {5, true, true}, {5, false, false}, {3, false, false}}
		var bad []string
		decided := true
		for _, rw := range rows {
			zero := int64(0)
			sc := &Scenario{Terms: map[string]int64{}, Bools: map[string]bool{}, Vals: map[ssa.Value]int64{}, BoolVals: map[ssa.Value]bool{}, DefaultInt: &zero}
			for _, fv := range cl.FreeVars {
				if isIntType(fv.Type()) || isIntType(deref(fv.Type())) {
					sc.Vals[fv] = 3 // a captured length of the pattern
					sc.Terms["param:"+fv.Name()] = 3
				}
			}
			AllInstrs(cl, false, func(_ *ssa.Function, ins ssa.Instruction) {
				call, isCall := ins.(*ssa.Call)
				if !isCall {
					return
				}
				if b, isB := call.Call.Value.(*ssa.Builtin); isB && b.Name() == "len" {
					if _, isParam := call.Call.Args[0].(*ssa.Parameter); isParam {
						sc.Vals[call] = rw.keyLen
					} else {
						sc.Vals[call] = 3
					}
				}
				switch staticName(call) {
				case "bytes.Equal":
					sc.BoolVals[call] = rw.equal
				case "bytes.Compare":
					if rw.equal {
						sc.Vals[call] = 0
					} else {
						sc.Vals[call] = 1
					}
				case "bytes.HasPrefix", "bytes.HasSuffix":
					sc.BoolVals[call] = rw.equal && rw.keyLen >= 3
				}
			})
			res := EvalPath(cl.Blocks[0], nil, sc, nil)
			if res.Err != "" || res.Ret == nil || len(res.RetVals) != 1 || res.RetVals[0].Kind != "bool" {
				decided = false
				break
			}
			if res.RetVals[0].B != rw.want {
				bad = append(bad, fmt.Sprintf("len(key)=%d, len(pattern)=3, bytes %s → %v (must be %v)", rw.keyLen, map[bool]string{true: "equal", false: "differ"}[rw.equal], res.RetVals[0].B, rw.want))
			}
		}
		if !decided {
			r.Undecided("filtered."+spec[0], c.FnPos(fn), "the predicate is neither "+spec[1]+"(key, pattern) nor a length/equality test the table can decide")
			continue
		}
		r.Check(len(bad) == 0, "filtered."+spec[0], c.FnPos(fn), "hand-written predicate agrees with "+spec[1]+" on the length/equality table", "the predicate disagrees with "+spec[1]+"(key, pattern): "+strings.Join(bad, "; ")+" — a key that is exactly the pattern (or shorter/longer in the wrong way) is filtered wrongly")
	}
}

// ---------------------------------------------------------------- consumers skip tombstones

func ruleScanConsumers(c *Ctx, r *Reporter) {
	r.Rule("tombstones-skipped-by-consumers", 2)
	for _, hn := range []string{"Scan", "TxScan"} {
		fn := c.Func("pkg/grpc/service", "KevoServiceServer", hn)
		if fn == nil {
			r.Unresolved("service.KevoServiceServer."+hn, "not found")
			continue
		}
		name := FnName(fn)
		var sends []ssa.Instruction
		AllInstrs(fn, false, func(_ *ssa.Function, ins ssa.Instruction) {
			if call, ok := ins.(*ssa.Call); ok && call.Call.IsInvoke() && call.Call.Method.Name() == "Send" {
				sends = append(sends, ins)
			}
		})
		if len(sends) == 0 {
			r.Undecided(name, c.FnPos(fn), "no stream send found")
			continue
		}
		notTomb := func(cond ssa.Value) (bool, bool) {
			if call, ok := cond.(*ssa.Call); ok && calleeName(call.Common()) == "IsTombstone" {
				return false, true
			}
			return false, false
		}
		ok := true
		for _, s := range sends {
			if !GuardedBy(s.Block(), notTomb) {
				ok = false
				r.Bad(name+":send", c.InsPos(s), "an entry is sent to the client without the IsTombstone()==false edge dominating the send: deleted keys appear in scans")
			}
		}
		if ok {
			r.OK(name+":send", c.InsPos(sends[0]), "entries are sent only on the not-a-tombstone edge")
		}
		// limit: stop iff limit > 0 && count >= limit, tested before emitting; count advances only after a send
		var loop *GenericLoop
		for _, l := range GenericLoops(fn) {
			if l.Contains(sends[0].Block()) {
				loop = l
			}
		}
		if loop == nil {
			r.Undecided(name+":limit", c.FnPos(fn), "send is not inside a loop")
			continue
		}
		var countPhi *ssa.Phi
		for _, ins := range loop.Header.Instrs {
			if ph, ok := ins.(*ssa.Phi); ok && ph.Comment == "count" {
				countPhi = ph
			}
		}
		if countPhi == nil {
			r.Undecided(name+":limit", c.blockPos(loop.Header), "no count variable carried by the scan loop")
			continue
		}
		// find the limit value: compared with the count
		limitPath := ""
		AllInstrs(fn, false, func(_ *ssa.Function, ins ssa.Instruction) {
			if bo, ok := ins.(*ssa.BinOp); ok && (bo.X == ssa.Value(countPhi) || bo.Y == ssa.Value(countPhi)) && bo.Op != token.ADD {
				other := bo.Y
				if bo.Y == ssa.Value(countPhi) {
					other = bo.X
				}
				ev := &evaluator{sc: &Scenario{}, phi: map[*ssa.Phi]ssa.Value{}}
				limitPath = ev.pathOf(other)
			}
		})
		if limitPath == "" {
			r.Bad(name+":limit", c.blockPos(loop.Header), "the emitted-entry count is never compared with the limit")
			continue
		}
		okAll := true
		for _, row := range []struct {
			limit, count int64
			tomb         bool
		}{{0, 5, false}, {3, 2, false}, {3, 3, false}, {3, 4, false}, {3, 2, true}} {
			sc := &Scenario{Terms: map[string]int64{limitPath: row.limit, "phi:count": row.count}, Bools: map[string]bool{}}
			// all invokes: Valid true, IsTombstone as given; Send returns nil error
			AllInstrs(fn, false, func(_ *ssa.Function, ins ssa.Instruction) {
				call, ok := ins.(*ssa.Call)
				if !ok || !call.Call.IsInvoke() {
					return
				}
				ev := &evaluator{sc: sc, phi: map[*ssa.Phi]ssa.Value{}}
				switch call.Call.Method.Name() {
				case "Valid":
					sc.Bools[ev.pathOf(call)] = true
				case "IsTombstone":
					sc.Bools[ev.pathOf(call)] = row.tomb
				case "Send":
					sc.Terms[ev.pathOf(call)] = NilRank
				case "Next":
					sc.Bools[ev.pathOf(call)] = true
				}
			})
			ev := EvalLoopIter(loop, sc)
			rn := fmt.Sprintf("%s:limit[limit=%d,count=%d,tombstone=%v]", name, row.limit, row.count, row.tomb)
			if ev.Err != "" {
				r.Undecided(rn, c.blockPos(loop.Header), "row not decidable: "+ev.Err)
				okAll = false
				continue
			}
			stopWanted := row.limit > 0 && row.count >= row.limit
			stopped := ev.Reached == nil
			sent := ev.HasCall("Send")
			good := stopped == stopWanted
			if !stopWanted {
				if sent == row.tomb {
					good = false
				}
				// count advances iff sent
				nx := ev.PhiNext(countPhi)
				adv := nx != nil && nx != ssa.Value(countPhi)
				if adv != sent {
					good = false
				}
			} else if sent {
				good = false
			}
			if !good {
				okAll = false
				r.Bad(rn, c.blockPos(loop.Header), fmt.Sprintf("stopped=%v sent=%v; specification: stop iff limit > 0 and count >= limit (tested before emitting), emit iff not a tombstone, count only emitted entries", stopped, sent))
			}
		}
		if okAll {
			r.OK(name+":limit", c.blockPos(loop.Header), "stop iff limit > 0 ∧ count >= limit before emitting; tombstones neither sent nor counted")
		}
	}
}
