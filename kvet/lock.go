package main

import (
	"go/token"
	"go/types"
	"sort"
	"strings"

	"golang.org/x/tools/go/ssa"
)

// LockSet maps abstract lock id -> mode ("W" exclusive, "R" shared). nil LockSet = TOP (unknown / all locks).
type LockSet map[string]string

func (l LockSet) clone() LockSet {
	if l == nil {
		return nil
	}
	o := LockSet{}
	for k, v := range l {
		o[k] = v
	}
	return o
}

func (l LockSet) String() string {
	if l == nil {
		return "TOP"
	}
	var ks []string
	for k, v := range l {
		ks = append(ks, k+":"+v)
	}
	sort.Strings(ks)
	return "{" + strings.Join(ks, ",") + "}"
}

// Holds: lock id held in at least the given mode (W satisfies R).
func (l LockSet) Holds(id, mode string) bool {
	if l == nil {
		return true
	}
	m, ok := l[id]
	if !ok {
		return false
	}
	return mode == "R" || m == "W"
}

func meet(a, b LockSet) LockSet {
	if a == nil {
		return b.clone()
	}
	if b == nil {
		return a.clone()
	}
	o := LockSet{}
	for k, v := range a {
		if w, ok := b[k]; ok {
			if v == w {
				o[k] = v
			} else {
				o[k] = "R" // W on one path, R on the other: at least shared
			}
		}
	}
	return o
}

func equalLS(a, b LockSet) bool {
	if (a == nil) != (b == nil) {
		return false
	}
	if len(a) != len(b) {
		return false
	}
	for k, v := range a {
		if b[k] != v {
			return false
		}
	}
	return true
}

// lock aliases: pointer fields that are initialised once to the address of another lock.
var lockAliases = map[string]string{
	"transaction.TransactionImpl.rwLock": "transaction.Manager.txLock",
}

type LockOp struct {
	ID      string
	Acquire bool
	Mode    string // W or R
}

// LockOpOf recognises ins as a (non-deferred) sync lock operation.
func LockOpOf(ins ssa.Instruction) (LockOp, bool) {
	call, ok := ins.(*ssa.Call)
	if !ok {
		return LockOp{}, false
	}
	return lockOpOfCommon(call.Common())
}

func lockOpOfCommon(cc *ssa.CallCommon) (LockOp, bool) {
	var name string
	var recv ssa.Value
	if cc.IsInvoke() {
		// sync.Locker
		if n, ok := cc.Value.Type().(*types.Named); ok && n.Obj().Pkg() != nil && n.Obj().Pkg().Path() == "sync" && n.Obj().Name() == "Locker" {
			name = cc.Method.Name()
			recv = cc.Value
		} else {
			return LockOp{}, false
		}
	} else {
		f := cc.StaticCallee()
		if f == nil || f.Pkg == nil || f.Pkg.Pkg.Path() != "sync" || f.Signature.Recv() == nil {
			return LockOp{}, false
		}
		rt := f.Signature.Recv().Type().String()
		if rt != "*sync.Mutex" && rt != "*sync.RWMutex" {
			return LockOp{}, false
		}
		name = f.Name()
		if len(cc.Args) == 0 {
			return LockOp{}, false
		}
		recv = cc.Args[0]
	}
	var op LockOp
	switch name {
	case "Lock":
		op = LockOp{Acquire: true, Mode: "W"}
	case "Unlock":
		op = LockOp{Acquire: false, Mode: "W"}
	case "RLock":
		op = LockOp{Acquire: true, Mode: "R"}
	case "RUnlock":
		op = LockOp{Acquire: false, Mode: "R"}
	default:
		return LockOp{}, false
	}
	op.ID = lockID(recv)
	if a, ok := lockAliases[op.ID]; ok {
		op.ID = a
	}
	return op, true
}

// lockID names the lock designated by a mutex pointer value.
func lockID(v ssa.Value) string {
	switch x := v.(type) {
	case *ssa.FieldAddr:
		return fieldOwner(x.X.Type(), x.Field)
	case *ssa.UnOp:
		if x.Op == token.MUL {
			if fa, ok := x.X.(*ssa.FieldAddr); ok {
				return fieldOwner(fa.X.Type(), fa.Field)
			}
			if g, ok := x.X.(*ssa.Global); ok {
				return g.Pkg.Pkg.Name() + "." + g.Name()
			}
		}
	case *ssa.Global:
		return x.Pkg.Pkg.Name() + "." + x.Name()
	case *ssa.MakeInterface:
		return lockID(x.X)
	case *ssa.Alloc:
		return "local." + x.Parent().Name() + "." + x.Comment
	case *ssa.Phi:
		id := ""
		for _, e := range x.Edges {
			i := lockID(e)
			if id == "" {
				id = i
			} else if id != i {
				return "?phi"
			}
		}
		return id
	}
	return "?" + v.Name()
}

// fieldOwner renders pkg.Type.field for a field index of a (pointer to) struct type.
func fieldOwner(t types.Type, idx int) string {
	if p, ok := t.Underlying().(*types.Pointer); ok {
		t = p.Elem()
	}
	name := "?"
	if n, ok := t.(*types.Named); ok {
		if n.Obj().Pkg() != nil {
			name = n.Obj().Pkg().Name() + "." + n.Obj().Name()
		} else {
			name = n.Obj().Name()
		}
	}
	st, ok := t.Underlying().(*types.Struct)
	if !ok || idx >= st.NumFields() {
		return name + ".?"
	}
	return name + "." + st.Field(idx).Name()
}

// LockInfo holds the inter-procedural must-held analysis.
type LockInfo struct {
	c       *Ctx
	entry   map[*ssa.Function]LockSet
	held    map[*ssa.Function]map[ssa.Instruction]LockSet
	release map[*ssa.Function]map[string]bool // locks a function may net-release (unlock without holding from own lock)
}

// netRelease: locks fn (transitively, depth 3) unlocks on some path without having locked them itself.
func (li *LockInfo) computeRelease() {
	li.release = map[*ssa.Function]map[string]bool{}
	for round := 0; round < 3; round++ {
		for _, fn := range li.c.KevoFns {
			rel := map[string]bool{}
			// local analysis with empty entry: an Unlock of a lock not in the current set is a net release
			held := li.flow(fn, LockSet{}, func(ins ssa.Instruction, cur LockSet) {
				if op, ok := LockOpOf(ins); ok && !op.Acquire {
					if _, has := cur[op.ID]; !has {
						rel[op.ID] = true
					}
				}
				if ci, ok := ins.(*ssa.Call); ok {
					for _, cal := range li.c.Callees(ci) {
						for id := range li.release[cal] {
							if _, has := cur[id]; !has {
								rel[id] = true
							}
						}
					}
				}
			})
			_ = held
			if len(rel) > 0 {
				li.release[fn] = rel
			}
		}
	}
}

// flow runs the forward must-held dataflow over fn with the given entry set; visit (optional) is called
// for every instruction with the lock set that holds immediately BEFORE it, after the fixpoint.
func (li *LockInfo) flow(fn *ssa.Function, entry LockSet, visit func(ssa.Instruction, LockSet)) map[ssa.Instruction]LockSet {
	if len(fn.Blocks) == 0 {
		return nil
	}
	in := map[*ssa.BasicBlock]LockSet{}
	seen := map[*ssa.BasicBlock]bool{}
	in[fn.Blocks[0]] = entry.clone()
	if entry == nil {
		in[fn.Blocks[0]] = nil
	}
	seen[fn.Blocks[0]] = true
	work := []*ssa.BasicBlock{fn.Blocks[0]}
	transfer := func(b *ssa.BasicBlock, cur LockSet, cb func(ssa.Instruction, LockSet)) LockSet {
		for _, ins := range b.Instrs {
			if cb != nil {
				cb(ins, cur)
			}
			if op, ok := LockOpOf(ins); ok {
				if cur == nil {
					cur = nil // TOP stays TOP
					continue
				}
				cur = cur.clone()
				if op.Acquire {
					if old, has := cur[op.ID]; !has || (old == "R" && op.Mode == "W") {
						cur[op.ID] = op.Mode
					}
				} else {
					delete(cur, op.ID)
				}
				continue
			}
			if ci, ok := ins.(*ssa.Call); ok && cur != nil && li.release != nil {
				for _, cal := range li.c.Callees(ci) {
					for id := range li.release[cal] {
						if _, has := cur[id]; has {
							cur = cur.clone()
							delete(cur, id)
						}
					}
				}
			}
		}
		return cur
	}
	for len(work) > 0 {
		b := work[0]
		work = work[1:]
		out := transfer(b, in[b], nil)
		for _, s := range b.Succs {
			var n LockSet
			if !seen[s] {
				n = out.clone()
				if out == nil {
					n = nil
				}
				seen[s] = true
				in[s] = n
				work = append(work, s)
				continue
			}
			n = meet(in[s], out)
			if in[s] == nil && out == nil {
				n = nil
			}
			if !equalLS(n, in[s]) {
				in[s] = n
				work = append(work, s)
			}
		}
	}
	res := map[ssa.Instruction]LockSet{}
	for _, b := range fn.Blocks {
		if !seen[b] {
			continue
		}
		transfer(b, in[b], func(ins ssa.Instruction, cur LockSet) {
			res[ins] = cur
			if visit != nil {
				visit(ins, cur)
			}
		})
	}
	return res
}

// Locks computes (once) the whole-module lock information.
func (c *Ctx) Locks() *LockInfo {
	if c.lockInfo != nil {
		return c.lockInfo
	}
	li := &LockInfo{c: c, entry: map[*ssa.Function]LockSet{}, held: map[*ssa.Function]map[ssa.Instruction]LockSet{}}
	li.computeRelease()
	// initial entry sets: TOP for functions with kevo callers or closures, {} for roots
	hasCaller := map[*ssa.Function]bool{}
	for _, fn := range c.KevoFns {
		for _, e := range c.Callers(fn) {
			if e.Site != nil && c.InKevo(e.Caller.Func) {
				hasCaller[fn] = true
			}
		}
	}
	for _, fn := range c.KevoFns {
		if hasCaller[fn] || fn.Parent() != nil {
			li.entry[fn] = nil // TOP
		} else {
			li.entry[fn] = LockSet{}
		}
	}
	// iterate to the greatest fixpoint
	for round := 0; round < 12; round++ {
		changed := false
		for _, fn := range c.KevoFns {
			li.held[fn] = li.flow(fn, li.entry[fn], nil)
		}
		for _, fn := range c.KevoFns {
			var acc LockSet
			first := true
			contribute := func(ls LockSet) {
				if first {
					acc = ls.clone()
					if ls == nil {
						acc = nil
					}
					first = false
				} else {
					if acc == nil && ls == nil {
						return
					}
					acc = meet(acc, ls)
				}
			}
			n := 0
			for _, e := range c.Callers(fn) {
				if e.Site == nil || !c.InKevo(e.Caller.Func) {
					continue
				}
				n++
				if isGo(e.Site) {
					contribute(LockSet{})
					continue
				}
				if isDefer(e.Site) {
					// runs at function exit, before every defer registered earlier: a lock held at the registration and
					// released only by a deferred unlock that was registered before this defer is still held then.
					contribute(li.deferExecSet(e.Caller.Func, e.Site))
					continue
				}
				h, ok := li.held[e.Caller.Func][e.Site]
				if !ok {
					// unreachable call site
					continue
				}
				contribute(h)
			}
			if fn.Parent() != nil && n == 0 {
				// closure with no resolved kevo caller: synchronous-callback assumption when it is only passed as a
				// call argument; otherwise empty.
				contribute(li.closureCreationSet(fn))
			} else if fn.Parent() != nil {
				// closures called by library code as well (sort.Slice etc.) are covered by kevo callers found above
			}
			if first {
				acc = LockSet{}
			}
			if !equalLS(acc, li.entry[fn]) {
				li.entry[fn] = acc
				changed = true
			}
		}
		if !changed {
			break
		}
	}
	for _, fn := range c.KevoFns {
		li.held[fn] = li.flow(fn, li.entry[fn], nil)
	}
	c.lockInfo = li
	return li
}

// closureCreationSet: lock set at the MakeClosure of fn in its parent if the closure is used synchronously
// (passed directly as an argument of a non-go call, or called directly); {} otherwise.
func (li *LockInfo) closureCreationSet(fn *ssa.Function) LockSet {
	parent := fn.Parent()
	var mk *ssa.MakeClosure
	for _, b := range parent.Blocks {
		for _, ins := range b.Instrs {
			if m, ok := ins.(*ssa.MakeClosure); ok && m.Fn == fn {
				mk = m
			}
		}
	}
	if mk == nil {
		// closure without free variables is referenced as a plain function value
		return li.funcValueUseSet(fn)
	}
	sync := true
	var at ssa.Instruction
	for _, ref := range *mk.Referrers() {
		switch r := ref.(type) {
		case *ssa.Call:
			at = r
		case *ssa.Go, *ssa.Defer:
			sync = false
		case *ssa.Store, *ssa.MakeInterface, *ssa.Send:
			sync = false
		default:
			_ = r
		}
	}
	if !sync || at == nil {
		return LockSet{}
	}
	if h, ok := li.held[parent][at]; ok {
		return h
	}
	return LockSet{}
}

func (li *LockInfo) funcValueUseSet(fn *ssa.Function) LockSet {
	parent := fn.Parent()
	var res LockSet
	found := false
	for _, b := range parent.Blocks {
		for _, ins := range b.Instrs {
			ops := ins.Operands(nil)
			for _, op := range ops {
				if op == nil || *op != ssa.Value(fn) {
					continue
				}
				if _, ok := ins.(*ssa.Call); ok {
					h := li.held[parent][ins]
					if !found {
						res, found = h, true
					} else {
						res = meet(res, h)
					}
				} else {
					return LockSet{}
				}
			}
		}
	}
	if !found {
		return LockSet{}
	}
	return res
}

// HeldAt returns the must-held lock set immediately before ins.
func (li *LockInfo) HeldAt(ins ssa.Instruction) LockSet {
	m := li.held[ins.Parent()]
	if m == nil {
		return LockSet{}
	}
	h, ok := m[ins]
	if !ok {
		return nil // unreachable code: vacuous
	}
	return h
}

func (li *LockInfo) Entry(fn *ssa.Function) LockSet { return li.entry[fn] }

// deferExecSet: the locks certainly held when the call deferred at site d runs. Deferred calls run last-registered first,
// so a lock L is still held iff it is held where d is registered, some `defer L.Unlock()` dominates d (registered earlier,
// hence runs later), and no plain (non-deferred) release of L exists in the function at all (keeps the argument local and
// simple; functions mixing both forms get the conservative answer).
func (li *LockInfo) deferExecSet(fn *ssa.Function, d ssa.Instruction) LockSet {
	at, ok := li.held[fn][d]
	if !ok || at == nil {
		return LockSet{}
	}
	res := LockSet{}
	for id, mode := range at {
		earlier := false
		plain := false
		for _, b := range fn.Blocks {
			for _, ins := range b.Instrs {
				switch x := ins.(type) {
				case *ssa.Defer:
					if op, isOp := lockOpOfCommon(x.Common()); isOp && !op.Acquire && op.ID == id && Dominates(ins, d) {
						earlier = true
					}
				case *ssa.Call:
					if op, isOp := lockOpOfCommon(x.Common()); isOp && !op.Acquire && op.ID == id {
						plain = true
					}
				}
			}
		}
		if earlier && !plain {
			res[id] = mode
		}
	}
	return res
}
