package main

import (
	"fmt"
	"go/constant"
	"go/token"
	"go/types"
	"reflect"
	"sort"
	"strings"

	"golang.org/x/tools/go/ssa"
)

func init() {
	register(&PropertyDef{
		ID: "C20",
		Explanation: "Decides the structural mechanism behind 'configuration is validated and persists with the database': " +
			"(1) in Config.SaveManifest and Manifest.Save every file-system write is dominated by a successful validation; the manifest is written to a temp path and renamed onto MANIFEST, rename source = the path just written, rename dominated by the successful write; " +
			"(2) every exit of LoadConfigFromManifest / LoadManifest that returns a configuration is dominated by a successful json.Unmarshal and a successful validation; " +
			"(3) NewEngineFacade reaches NewDefaultConfig only on the errors.Is(err, ErrManifestNotFound) edge and LoadConfigFromManifest returns that sentinel only under os.IsNotExist; any other load error is returned; " +
			"(4) every Config field is exported, uniquely JSON-named, without '-'/omitempty/string options, of a type encoding/json round-trips exactly, and no custom (un)marshaller exists; " +
			"(5) the rejection conditions extracted from the validator cover the frozen table of documented constraints (missing or weakened constraint = violation); " +
			"(6) SaveManifest does not re-lock its own mutex (no recursive RLock); (7) destructive file operations are exactly the classified sites and nothing is written or removed before the manifest is loaded. " +
			"Added after blind round 6: an entry joins Manifest.Entries only behind a successful validation of its configuration (Save validates the current entry but writes them all; the loader takes the last one). " +
			"Added after blind round 7: Config.Update runs the caller's function with Config.mu held exclusively; NewManifest substitutes the defaults only for a nil configuration. " +
			"Added after blind round 8: in NewManifest the entry Current points to is the entry listed in Entries (Save validates the one and writes the other). " +
			"Added after blind round 10: no component outside pkg/config assigns a field of the shared configuration object (what SaveManifest writes back is what was loaded or set through Update). " +
			"Added after blind round 11: no error type of pkg/config overrides errors.Is matching (the 'no manifest' and 'unreadable manifest' sentinels must stay distinguishable).",
		NotDecided: "every assignment around the boundaries (value-level), floating-point formatting corner cases, crash during save (needs fault injection), fields that have no documented constraint.",
		Rules:      []func(*Ctx, *Reporter){ruleC20Save, ruleC20Load, ruleC20Default, ruleC20Types, ruleC20Constraints, ruleC20Reentrancy, ruleDestructiveOps, ruleManifestEntriesValidated, ruleConfigUpdateExclusive, ruleDefaultsOnlyForNil, ruleManifestCurrentIsListed, ruleConfigWrittenOnlyInConfigPkg, ruleSentinelErrorsMatchByIdentity},
	})
}

// configValidators: the core validator (most ErrInvalidConfig exits) and its wrappers.
func configValidators(c *Ctx) (core *ssa.Function, set FnSet) {
	g := c.Global("pkg/config", "ErrInvalidConfig")
	if g == nil {
		return nil, nil
	}
	best := 0
	for _, fn := range c.KevoFns {
		if pkgOf(fn) != "pkg/config" || fn.Parent() != nil {
			continue
		}
		n := 0
		for _, ret := range Returns(fn) {
			if returnsGlobalErr(ret, g) {
				n++
			}
		}
		if n > best {
			best, core = n, fn
		}
	}
	if core == nil {
		return nil, nil
	}
	all := c.MustSet(NewFnSet(core), true, 4)
	set = FnSet{}
	for f := range all {
		if pkgOf(f) == "pkg/config" && recvTypeName(f) == "config.Config" && errResultIndex(f) == 0 && f.Signature.Results().Len() == 1 && f.Signature.Params().Len() == 0 {
			set[f] = true
		}
	}
	set[core] = true
	return core, set
}

// callOKFact: fact "the call to one of fns returned a nil error" (tests of the call's error result).
func callOKFact(c *Ctx, match func(call *ssa.Call) bool) Fact {
	return func(cond ssa.Value) (bool, bool) {
		v, trueIsNonNil, ok := nilTest(cond)
		if !ok {
			return false, false
		}
		v = resolveLoad(stripConv(v))
		var call *ssa.Call
		switch x := v.(type) {
		case *ssa.Call:
			call = x
		case *ssa.Extract:
			call, _ = x.Tuple.(*ssa.Call)
		}
		if call == nil || !match(call) {
			return false, false
		}
		if trueIsNonNil {
			return false, true
		}
		return true, false
	}
}

func staticName(call *ssa.Call) string {
	if f := call.Call.StaticCallee(); f != nil {
		return f.String()
	}
	return ""
}

var fsWriteFns = map[string]bool{"os.WriteFile": true, "os.Rename": true, "os.Create": true, "os.OpenFile": true, "os.MkdirAll": true, "os.Mkdir": true, "os.Remove": true, "os.RemoveAll": true, "(*os.File).Write": true, "(*os.File).WriteString": true, "os.Truncate": true}

func ruleC20Save(c *Ctx, r *Reporter) {
	core, validators := configValidators(c)
	r.Rule("validate-before-write", 2)
	if core == nil {
		r.Unresolved("config validator", "no function returning config.ErrInvalidConfig found")
		return
	}
	r.Notes = append(r.Notes, "C20 validator core: "+FnName(core)+"; validators: "+strings.Join(validators.Names(), ", "))
	validated := callOKFact(c, func(call *ssa.Call) bool {
		for _, f := range c.Callees(call) {
			if validators[f] {
				return true
			}
		}
		return false
	})
	for _, spec := range [][2]string{{"Config", "SaveManifest"}, {"Manifest", "Save"}} {
		fn := c.Func("pkg/config", spec[0], spec[1])
		name := "config." + spec[0] + "." + spec[1]
		if fn == nil {
			r.Unresolved(name, "not found")
			continue
		}
		nW := 0
		ok := true
		var writeFile, rename, openFile *ssa.Call
		AllInstrs(fn, true, func(_ *ssa.Function, ins ssa.Instruction) {
			call, isCall := ins.(*ssa.Call)
			if !isCall || !fsWriteFns[staticName(call)] {
				return
			}
			nW++
			switch staticName(call) {
			case "os.WriteFile":
				writeFile = call
			case "os.OpenFile", "os.Create":
				openFile = call
			case "os.Rename":
				rename = call
			}
			if !GuardedBy(ins.Block(), validated) {
				ok = false
				r.Bad(name+":"+staticName(call), c.InsPos(ins), "file-system write not dominated by a successful validation: an invalid configuration could reach the disk")
			}
		})
		if nW == 0 {
			r.Undecided(name, c.FnPos(fn), "no file-system write found")
			continue
		}
		if ok {
			r.OK(name, c.FnPos(fn), fmt.Sprintf("%d file-system write(s), each dominated by validator()==nil", nW))
		}
		// temp + rename
		r.Rule("temp-then-rename", 2)
		if writeFile == nil && openFile != nil && rename != nil {
			// open/write/close form: the temporary file must be truncated (or created exclusively) when opened, the open
			// checked, and it is what gets renamed
			const oTrunc, oExcl = 0x200, 0x80 // os.O_TRUNC, os.O_EXCL on linux
			trunc := staticName(openFile) == "os.Create"
			if !trunc && len(openFile.Call.Args) >= 2 {
				if k, isK := constInt(openFile.Call.Args[1]); isK && (k&oTrunc != 0 || k&oExcl != 0) {
					trunc = true
				}
			}
			opOK := callOKFact(c, func(call *ssa.Call) bool { return call == openFile })
			good := sameValue(rename.Call.Args[0], openFile.Call.Args[0]) && !sameValue(rename.Call.Args[1], openFile.Call.Args[0]) && GuardedBy(rename.Block(), opOK) && mentionsConstString(rename.Call.Args[1], "MANIFEST", c, 0)
			switch {
			case !trunc:
				r.Bad(name+":atomic-replace", c.InsPos(openFile), "the temporary manifest file is opened without O_TRUNC (or O_EXCL): a longer leftover from an interrupted save keeps its tail, the renamed MANIFEST holds the new JSON followed by old bytes and cannot be loaded again")
			case !good:
				r.Bad(name+":atomic-replace", c.InsPos(rename), "the file opened for the new manifest is not the one renamed onto the manifest name (or the open is not checked)")
			default:
				r.OK(name+":atomic-replace", c.InsPos(rename), "temp file opened truncating, open checked, then renamed onto the manifest name")
			}
		} else if writeFile == nil || rename == nil {
			r.Bad(name+":atomic-replace", c.FnPos(fn), "manifest is not written to a temporary file and renamed into place")
		} else {
			src := rename.Call.Args[0]
			dst := rename.Call.Args[1]
			wpath := writeFile.Call.Args[0]
			wrOK := callOKFact(c, func(call *ssa.Call) bool { return call == writeFile })
			good := sameValue(src, wpath) && !sameValue(dst, wpath) && GuardedBy(rename.Block(), wrOK) && mentionsConstString(dst, "MANIFEST", c, 0)
			r.Check(good, name+":atomic-replace", c.InsPos(rename), "temp file written, write checked, then renamed onto the manifest name",
				"rename source is not the file just written, or the rename is not conditional on the write having succeeded, or the destination is not the manifest")
		}
		r.Rule("validate-before-write", 2)
	}
}

// mentionsConstString: v derives (through string concatenation / filepath.Join) from the constant named or valued s.
func mentionsConstString(v ssa.Value, s string, c *Ctx, depth int) bool {
	if depth > 6 || v == nil {
		return false
	}
	switch x := v.(type) {
	case *ssa.Const:
		if str, ok := constString(x); ok && strings.Contains(str, s) {
			return true
		}
	case *ssa.BinOp:
		return mentionsConstString(x.X, s, c, depth+1) || mentionsConstString(x.Y, s, c, depth+1)
	case *ssa.Call:
		for _, a := range x.Call.Args {
			if mentionsConstString(a, s, c, depth+1) {
				return true
			}
		}
	case *ssa.Slice:
		return mentionsConstString(x.X, s, c, depth+1)
	case *ssa.Alloc:
		for _, ref := range *x.Referrers() {
			if ia, ok := ref.(*ssa.IndexAddr); ok {
				for _, r2 := range *ia.Referrers() {
					if st, ok := r2.(*ssa.Store); ok && mentionsConstString(st.Val, s, c, depth+1) {
						return true
					}
				}
			}
		}
	case *ssa.Phi:
		for _, e := range x.Edges {
			if mentionsConstString(e, s, c, depth+1) {
				return true
			}
		}
	}
	return false
}

func ruleC20Load(c *Ctx, r *Reporter) {
	r.Rule("validate-after-load", 2)
	_, validators := configValidators(c)
	if validators == nil {
		r.Unresolved("config validator", "not found")
		return
	}
	validated := callOKFact(c, func(call *ssa.Call) bool {
		for _, f := range c.Callees(call) {
			if validators[f] {
				return true
			}
		}
		return false
	})
	unmarshalOK := callOKFact(c, func(call *ssa.Call) bool { return staticName(call) == "encoding/json.Unmarshal" })
	for _, fname := range []string{"LoadConfigFromManifest", "LoadManifest"} {
		fn := c.Func("pkg/config", "", fname)
		if fn == nil {
			r.Unresolved("config."+fname, "not found")
			continue
		}
		n := 0
		ok := true
		for _, ret := range Returns(fn) {
			if len(ret.Results) < 1 || isNilConst(ReturnValue(ret, 0)) {
				continue
			}
			n++
			if !GuardedBy(ret.Block(), validated) {
				ok = false
				r.Bad("config."+fname+":validate", c.InsPos(ret), "an exit returns a configuration that was not validated after loading")
			}
			if !GuardedBy(ret.Block(), unmarshalOK) {
				ok = false
				r.Bad("config."+fname+":unmarshal", c.InsPos(ret), "an exit returns a configuration although json.Unmarshal's error was not checked (a truncated manifest would be accepted)")
			}
		}
		if n == 0 {
			r.Undecided("config."+fname, c.FnPos(fn), "no exit returning a configuration found")
		} else if ok {
			r.OK("config."+fname, c.FnPos(fn), fmt.Sprintf("%d configuration-returning exit(s), each dominated by Unmarshal==nil and validator()==nil", n))
		}
	}
}

func ruleC20Default(c *Ctx, r *Reporter) {
	r.Rule("no-silent-default", 3)
	open := c.Func("pkg/engine", "", "NewEngineFacade")
	load := c.Func("pkg/config", "", "LoadConfigFromManifest")
	def := c.Func("pkg/config", "", "NewDefaultConfig")
	notFound := c.Global("pkg/config", "ErrManifestNotFound")
	if open == nil || load == nil || def == nil || notFound == nil {
		r.Unresolved("engine.NewEngineFacade / config.LoadConfigFromManifest / config.NewDefaultConfig / config.ErrManifestNotFound", "not found")
		return
	}
	// the load call in NewEngineFacade
	var loadCall *ssa.Call
	AllInstrs(open, false, func(_ *ssa.Function, ins ssa.Instruction) {
		if call, ok := ins.(*ssa.Call); ok && call.Call.StaticCallee() == load {
			loadCall = call
		}
	})
	if loadCall == nil {
		r.Bad("engine.NewEngineFacade:load", c.FnPos(open), "opening a database no longer loads the stored configuration (LoadConfigFromManifest not called)")
		return
	}
	// nothing touches the stored manifest before it is loaded: no file-system write other than MkdirAll precedes the load
	pre, _ := Reach(open, nil, func(i ssa.Instruction) bool {
		call, ok := i.(*ssa.Call)
		return ok && fsWriteFns[staticName(call)] && staticName(call) != "os.MkdirAll"
	}, func(i ssa.Instruction) bool { return i == ssa.Instruction(loadCall) })
	if pre != nil {
		r.Bad("engine.NewEngineFacade:manifest-untouched-before-load", c.InsPos(pre), "a file is removed/renamed/written before the stored configuration is loaded: a damaged manifest could be discarded and silently replaced by defaults")
	} else {
		r.OK("engine.NewEngineFacade:manifest-untouched-before-load", c.InsPos(loadCall), "no file-system write (other than creating the directory) precedes the load")
	}
	isLoadErr := func(v ssa.Value) bool {
		ex, ok := stripConv(v).(*ssa.Extract)
		return ok && ex.Tuple == loadCall && ex.Index == 1
	}
	isNotFound := func(cond ssa.Value) (bool, bool) {
		call, ok := cond.(*ssa.Call)
		if ok && staticName(call) == "errors.Is" && len(call.Call.Args) == 2 && isLoadErr(call.Call.Args[0]) && globalLoad(call.Call.Args[1]) == notFound {
			return true, false
		}
		// err == ErrManifestNotFound
		if bo, ok := cond.(*ssa.BinOp); ok && (bo.Op == token.EQL || bo.Op == token.NEQ) {
			if (isLoadErr(bo.X) && globalLoad(bo.Y) == notFound) || (isLoadErr(bo.Y) && globalLoad(bo.X) == notFound) {
				return bo.Op == token.EQL, bo.Op == token.NEQ
			}
		}
		return false, false
	}
	sites := c.CallsIn(open, NewFnSet(def), true)
	if len(sites) == 0 {
		r.Undecided("engine.NewEngineFacade:default", c.FnPos(open), "no call to NewDefaultConfig found (creation path changed)")
	}
	for _, s := range sites {
		r.Check(GuardedBy(s.Block(), isNotFound), "engine.NewEngineFacade:default", c.InsPos(s),
			"default configuration is created only on the errors.Is(err, ErrManifestNotFound) edge",
			"default configuration can be created although the manifest load failed for a reason other than 'not found' (silent fallback over existing data)")
	}
	// every other load error leaves the function as a failure: on the loadErr != nil && !notFound edge no success exit is reachable.
	// Structural form: the config value used after the load is either the loaded one (err == nil edge) or the default (not-found edge):
	// there is no path from the load call to a success exit that avoids both the err==nil edge and the not-found edge.
	loadOK := callOKFact(c, func(call *ssa.Call) bool { return call == loadCall })
	exits := SuccessExits(open, true)
	pruneOK := PruneFactEdges(loadOK)
	pruneNF := PruneFactEdges(isNotFound)
	bad, path := ReachE(open, loadCall, func(i ssa.Instruction) bool {
		for _, e := range exits {
			if e == i {
				return true
			}
		}
		return false
	}, nil, func(b *ssa.BasicBlock, s int) bool { return pruneOK(b, s) && pruneNF(b, s) })
	if bad != nil {
		r.Bad("engine.NewEngineFacade:load-error-propagates", c.InsPos(bad), "a success exit is reachable after a failed manifest load that was not 'not found'", c.PathString(path)...)
	} else {
		r.OK("engine.NewEngineFacade:load-error-propagates", c.InsPos(loadCall), "every path after a failed load that is not 'manifest not found' ends in a failing exit")
	}
	// the loaded configuration is the one used: storage.NewManager receives the phi(loaded, default)
	// LoadConfigFromManifest: returns ErrManifestNotFound only under os.IsNotExist
	isNotExist := func(cond ssa.Value) (bool, bool) {
		call, ok := cond.(*ssa.Call)
		if ok && (staticName(call) == "os.IsNotExist") {
			return true, false
		}
		if ok && staticName(call) == "errors.Is" && len(call.Call.Args) == 2 {
			if g := globalLoad(call.Call.Args[1]); g != nil && g.Name() == "ErrNotExist" {
				return true, false
			}
		}
		return false, false
	}
	n := 0
	for _, ret := range Returns(load) {
		if returnsGlobalErr(ret, notFound) {
			n++
			r.Check(GuardedBy(ret.Block(), isNotExist), "config.LoadConfigFromManifest:not-found", c.InsPos(ret),
				"ErrManifestNotFound is returned only when the file does not exist", "ErrManifestNotFound is returned for an error other than 'file does not exist': an unreadable manifest would be replaced by defaults")
		}
	}
	if n == 0 {
		r.Bad("config.LoadConfigFromManifest:not-found", c.FnPos(load), "no exit returns ErrManifestNotFound: a fresh database could not be created, or another error is used for it")
	}
}

func ruleC20Types(c *Ctx, r *Reporter) {
	r.Rule("round-trip-by-type", 20)
	cfg := c.Named("pkg/config", "Config")
	if cfg == nil {
		r.Unresolved("config.Config", "type not found")
		return
	}
	st := cfg.Underlying().(*types.Struct)
	names := map[string]string{}
	for i := 0; i < st.NumFields(); i++ {
		f := st.Field(i)
		if _, isMutex := f.Type().(*types.Named); isMutex && strings.HasPrefix(f.Type().String(), "sync.") {
			continue
		}
		key := "config.Config." + f.Name()
		tag := reflect.StructTag(st.Tag(i)).Get("json")
		parts := strings.Split(tag, ",")
		jname := parts[0]
		if jname == "" {
			jname = f.Name()
		}
		var problems []string
		if !f.Exported() {
			problems = append(problems, "unexported field is not persisted")
		}
		if jname == "-" {
			problems = append(problems, "json:\"-\" drops the field")
		}
		for _, opt := range parts[1:] {
			if opt == "omitempty" || opt == "omitzero" || opt == "string" {
				problems = append(problems, "json option "+opt+" changes the stored form")
			}
		}
		if prev, dup := names[strings.ToLower(jname)]; dup {
			problems = append(problems, "JSON name collides with "+prev)
		}
		names[strings.ToLower(jname)] = f.Name()
		switch u := f.Type().Underlying().(type) {
		case *types.Basic:
			switch u.Kind() {
			case types.Int, types.Int8, types.Int16, types.Int32, types.Int64, types.Uint, types.Uint8, types.Uint16, types.Uint32, types.Uint64, types.Float64, types.String, types.Bool:
			default:
				problems = append(problems, "type "+u.String()+" does not round-trip exactly through encoding/json")
			}
		default:
			problems = append(problems, "type "+f.Type().String()+" is not a basic type")
		}
		// custom marshalers on the field's named type
		if n, ok := f.Type().(*types.Named); ok {
			for j := 0; j < n.NumMethods(); j++ {
				switch n.Method(j).Name() {
				case "MarshalJSON", "UnmarshalJSON", "MarshalText", "UnmarshalText":
					problems = append(problems, "custom "+n.Method(j).Name()+" on "+n.Obj().Name())
				}
			}
		}
		if len(problems) > 0 {
			r.Bad(key, c.Pos(f.Pos()), strings.Join(problems, "; "))
		} else {
			r.OK(key, c.Pos(f.Pos()), "json:\""+jname+"\" "+f.Type().String())
		}
	}
	for j := 0; j < cfg.NumMethods(); j++ {
		switch cfg.Method(j).Name() {
		case "MarshalJSON", "UnmarshalJSON", "MarshalText", "UnmarshalText":
			r.Bad("config.Config."+cfg.Method(j).Name(), c.Pos(cfg.Method(j).Pos()), "custom (un)marshaller: round trip is no longer decided by the field table")
		}
	}
}

// rejectAtom: the validator fails when <field> <op> <bound>.
type rejectAtom struct {
	field string
	op    token.Token
	kval  string // constant bound (exact string) or ""
	other string // other field or ""
	pos   string
}

func ruleC20Constraints(c *Ctx, r *Reporter) {
	r.Rule("constraint-coverage", 17)
	core, _ := configValidators(c)
	if core == nil {
		r.Unresolved("config validator", "not found")
		return
	}
	success := SuccessExits(core, true)
	isSuccess := func(i ssa.Instruction) bool {
		for _, e := range success {
			if e == i {
				return true
			}
		}
		return false
	}
	cfgFieldName := func(v ssa.Value) string {
		if u, ok := v.(*ssa.UnOp); ok && u.Op == token.MUL {
			if fv := fieldVarOf(u.X); fv != nil {
				return fv.Name()
			}
		}
		if cv, ok := v.(*ssa.Convert); ok {
			if u, ok := cv.X.(*ssa.UnOp); ok && u.Op == token.MUL {
				if fv := fieldVarOf(u.X); fv != nil {
					return fv.Name()
				}
			}
		}
		return ""
	}
	var atoms []rejectAtom
	for _, b := range core.Blocks {
		if len(b.Instrs) == 0 {
			continue
		}
		iff, ok := b.Instrs[len(b.Instrs)-1].(*ssa.If)
		if !ok {
			continue
		}
		bo, ok := iff.Cond.(*ssa.BinOp)
		if !ok {
			continue
		}
		// which edge fails for sure?
		failEdge := -1
		for e := 0; e < 2; e++ {
			succ := b.Succs[e]
			if len(succ.Instrs) == 0 {
				continue
			}
			first := succ.Instrs[0]
			reachesSuccess := isSuccess(first)
			if !reachesSuccess {
				if f, _ := Reach(core, first, isSuccess, nil); f != nil {
					reachesSuccess = true
				}
			}
			if !reachesSuccess {
				failEdge = e
			}
		}
		if failEdge < 0 {
			continue
		}
		op := bo.Op
		x, y := bo.X, bo.Y
		fx, fy := cfgFieldName(x), cfgFieldName(y)
		if fx == "" && fy != "" {
			// flip
			x, y, fx, fy = y, x, fy, fx
			op = flipOp(op)
		}
		if fx == "" {
			continue
		}
		if failEdge == 1 {
			op = negateOp(op)
		}
		a := rejectAtom{field: fx, op: op, pos: c.InsPos(iff)}
		if k, ok := y.(*ssa.Const); ok && k.Value != nil {
			a.kval = constant.ToFloat(k.Value).ExactString()
			if k.Value.Kind() == constant.String {
				a.kval = "str:" + constant.StringVal(k.Value)
			}
		} else if fy != "" {
			a.other = fy
		} else {
			continue
		}
		atoms = append(atoms, a)
	}
	var rendered []string
	for _, a := range atoms {
		b := a.kval
		if a.other != "" {
			b = a.other
		}
		rendered = append(rendered, fmt.Sprintf("%s %s %s", a.field, a.op, b))
	}
	sort.Strings(rendered)
	r.Notes = append(r.Notes, "C20 rejection atoms extracted from "+FnName(core)+": "+strings.Join(rendered, " | "))

	has := func(field string, op token.Token, kval string) bool {
		for _, a := range atoms {
			if a.field == field && a.op == op && a.kval == kval && a.other == "" {
				return true
			}
		}
		return false
	}
	lowerExclusive := func(field string, bound int64, isInt bool) bool { // accepted ⇒ field > bound
		if has(field, token.LEQ, fmt.Sprint(bound)) {
			return true
		}
		if isInt && has(field, token.LSS, fmt.Sprint(bound+1)) {
			return true
		}
		return false
	}
	upperExclusive := func(field string, bound int64) bool { // accepted ⇒ field < bound
		return has(field, token.GEQ, fmt.Sprint(bound)) || has(field, token.GTR, fmt.Sprint(bound-1))
	}
	pos := c.FnPos(core)
	for _, f := range []string{"Version", "MemTableSize", "MaxMemTables", "SSTableBlockSize", "SSTableIndexSize", "CompactionLevels", "ReadOnlyTxTTL", "ReadWriteTxTTL", "IdleTxTimeout", "TxCleanupInterval", "TxWarningThreshold"} {
		r.Check(lowerExclusive(f, 0, true), "config.Config."+f+">0", pos, "rejected when <= 0", "documented constraint "+f+" > 0 is missing or weakened in the validator")
	}
	r.Check(lowerExclusive("CompactionRatio", 1, false), "config.Config.CompactionRatio>1.0", pos, "rejected when <= 1.0", "documented constraint CompactionRatio > 1.0 is missing or weakened")
	for _, f := range []string{"WALDir", "SSTDir"} {
		r.Check(has(f, token.EQL, "str:"), "config.Config."+f+"!=\"\"", pos, "rejected when empty", "documented constraint "+f+" non-empty is missing")
	}
	r.Check(upperExclusive("TxWarningThreshold", 100), "config.Config.TxWarningThreshold<100", pos, "rejected when >= 100", "documented constraint TxWarningThreshold < 100 is missing or weakened")
	r.Check(upperExclusive("TxCriticalThreshold", 100), "config.Config.TxCriticalThreshold<100", pos, "rejected when >= 100", "documented constraint TxCriticalThreshold < 100 is missing or weakened")
	crit := false
	for _, a := range atoms {
		if a.field == "TxCriticalThreshold" && a.op == token.LEQ && a.other == "TxWarningThreshold" {
			crit = true
		}
		if a.field == "TxWarningThreshold" && a.op == token.GEQ && a.other == "TxCriticalThreshold" {
			crit = true
		}
	}
	r.Check(crit, "config.Config.TxCriticalThreshold>TxWarningThreshold", pos, "rejected when critical <= warning", "documented constraint warning < critical is missing or weakened")
}

func flipOp(op token.Token) token.Token {
	switch op {
	case token.LSS:
		return token.GTR
	case token.GTR:
		return token.LSS
	case token.LEQ:
		return token.GEQ
	case token.GEQ:
		return token.LEQ
	}
	return op
}

func negateOp(op token.Token) token.Token {
	switch op {
	case token.LSS:
		return token.GEQ
	case token.GTR:
		return token.LEQ
	case token.LEQ:
		return token.GTR
	case token.GEQ:
		return token.LSS
	case token.EQL:
		return token.NEQ
	case token.NEQ:
		return token.EQL
	}
	return op
}

func ruleC20Reentrancy(c *Ctx, r *Reporter) {
	r.Rule("no-reentrancy", 1)
	checkNoReentrancy(c, r, func(fn *ssa.Function) bool { return pkgOf(fn) == "pkg/config" })
}
