package main

import (
	"fmt"
	"go/token"
	"go/types"
	"strings"

	"golang.org/x/tools/go/ssa"
)

func init() {
	register(&PropertyDef{
		ID: "C17",
		Explanation: "Decides the structural mechanism behind 'every transaction ends and releases the database': " +
			"(1) Commit and Rollback begin with active.CompareAndSwap(true,false); every effect (ApplyBatch, buffer clear, lock release, statistics) is dominated by the successful swap and the failing arm returns ErrTransactionClosed; Get/Put/Delete/New*Iterator test active before any buffer or storage access; " +
			"(2) after a successful swap every exit of Commit/Rollback passes through the release helper of the transaction's mode; the helpers are CAS-guarded, unlock in their own mode, and are the only code that unlocks txLock; only BeginTransaction locks it; " +
			"(3) wherever a transaction leaves the registry (delete from RegistryImpl.transactions, Registry.Remove call sites in the service) the same path has finished it first (Commit/Rollback, possibly deferred or in a spawned rollback); " +
			"(4) the begin hand-off in RegistryImpl.Begin is an unbuffered rendezvous whose timeout arm rolls the late transaction back; " +
			"(5) the sweeper marks a transaction stale when age > ttl or idle > idle-ttl (both comparisons present, right operands, right polarity). " +
			"Added after blind round 4: the lock pairing rule of C07 (every acquisition released or deferred before every reachable return), which covers TransactionImpl.mu on the early-return paths of the transaction's methods. " +
			"Added after blind round 7: a connection's tracking entry is deleted only when its set is empty (or by the connection sweep itself). " +
			"Added after blind round 8: the registry's ticker goroutine runs CleanupStaleTransactions on every tick. " +
			"Added after blind round 9: the default registry's idle limit is below its lifetime limit, the constants followed through a delegating constructor. " +
			"Added after blind round 10: the no-reentrancy obligations of the registry are listed here too (a lookup that calls the sweeper while holding the registry lock waits on itself). " +
			"Added after blind round 11: the service's CleanupConnection hands the registry the connection id it received, unchanged; in NewManagerWithTTL every time.Duration parameter is stored to the like-named field.",
		NotDecided: "timing (when the sweeper runs, the 10 s / 30 s constants), liveness for all call sequences, the begin goroutine's error returns that never reach the caller (reported as info).",
		Rules:      []func(*Ctx, *Reporter){ruleTxFinishOnce, ruleTxRelease, ruleTxLockWriters, ruleTxOrphanRemoval, ruleTxBeginHandoff, ruleTxStale, ruleLockReleasedOnEveryExit, ruleConnTrackingDroppedOnlyWhenEmpty, ruleSweeperSweepsEveryTick, ruleDefaultRegistryLimits, subRules(ruleReentrancyScope, "no-reentrancy"), ruleCleanupForwardsConnectionID, ruleTTLParamsLandInLikeNamedFields},
	})
	register(&PropertyDef{
		ID: "C04",
		Explanation: "The implementation is strict two-phase locking on one reader-writer lock; serializability follows if every transactional access lies inside the lock bracket. Decided: " +
			"(1) every success exit of Manager.BeginTransaction has acquired txLock in the mode of the transaction (RLock iff the stored mode is ReadOnly iff the readOnly argument) and sets the matching flag after acquiring; " +
			"(2) in Commit/Rollback, after the active swap, every exit passes through the release helper of the transaction's mode; helpers are CAS-guarded and the only unlockers; " +
			"(3) ApplyBatch is never reachable after the write-lock release in Commit (apply inside the bracket), and Commit is the only transactional path to storage mutation; " +
			"(4) Get consults the buffer before storage and goes to storage only on a buffer miss; in NewIterator/NewRangeIterator the buffer iterator is source 0 of the merge and the range scan bounds the buffer iterator with the same bounds as the storage iterator; " +
			"(5) a finished transaction is inert (C17 rule 1); (6) a successful transactional Put/Delete has buffered exactly that operation; (7) shared with C01/C08: batch entries are stamped with the number the log assigned (a later commit is never shadowed by an older transaction's higher stamp) and an empty value is never turned into a deletion marker on the way into the buffer. " +
			"Added after blind round 5: the retry wrapper's decision table (exhausted retries report an error). " +
			"Added after blind round 6: the buffer-view rule of C03; the memtable's snapshot bound nextSeqNum is advanced by Put and Delete alike (cross-listed from C18: a delete-only commit must be visible to later scans). " +
			"Added after blind round 7: every storage access of a transaction's Get/NewIterator/NewRangeIterator happens with TransactionImpl.mu held (Commit/Rollback wait for reads in flight); the scan iterator is built from every memtable and every SSTable it is given (whole-slice walks, no skipped iteration). " +
			"Added after blind round 8: BufferIterator.Seek does not read the iterator's old position; the bounds decision table cross-listed from C05. " +
			"Added after blind round 9: the transaction buffer's iterator, like every source below the merge, positions without looking at deletion markers (its tombstone is what hides the committed version). " +
			"Added after blind round 11: the Value() copy obligations are listed here too (the buffer iterator's empty value must not become the nil that means 'deleted' to the merge).",
		NotDecided: "equivalence of all interleavings to a serial order (needs histories); non-transactional writers are excluded by the property itself.",
		Rules:      []func(*Ctx, *Reporter){ruleTxAcquire, ruleTxRelease, ruleTxLockWriters, ruleTxApplyInside, ruleTxOwnWrites, ruleTxFinishOnce, ruleTxOpsBuffered, ruleStStamps, ruleEmptyNotDeleted, subRules(ruleStEffectOnce, "retry-only-on-rotating"), ruleBufferViewsFollowMap, subRules(ruleMemVisibility, "next-seq-guard"), ruleTxReadsUnderTxLock, ruleScanSourcesComplete, ruleBufferSeekStateless, ruleBounds, ruleSourcesDoNotHideTombstones, ruleValueWrappersKeepNil},
	})
}

type txAnchors struct {
	impl, mgr                     *types.Named
	active, mode, hasR, hasW, buf *types.Var
	commit, rollback, relR, relW  *ssa.Function
	begin                         *ssa.Function
	errClosed                     *ssa.Global
	roConst                       *types.Const
	applyBatch                    *ssa.Function
	ok                            bool
}

func getTxAnchors(c *Ctx, r *Reporter) *txAnchors {
	a := &txAnchors{}
	a.impl = c.Named("pkg/transaction", "TransactionImpl")
	a.active = c.Field("pkg/transaction", "TransactionImpl", "active")
	a.mode = c.Field("pkg/transaction", "TransactionImpl", "mode")
	a.hasR = c.Field("pkg/transaction", "TransactionImpl", "hasReadLock")
	a.hasW = c.Field("pkg/transaction", "TransactionImpl", "hasWriteLock")
	a.buf = c.Field("pkg/transaction", "TransactionImpl", "buffer")
	a.commit = c.Func("pkg/transaction", "TransactionImpl", "Commit")
	a.rollback = c.Func("pkg/transaction", "TransactionImpl", "Rollback")
	a.relR = c.Func("pkg/transaction", "TransactionImpl", "releaseReadLock")
	a.relW = c.Func("pkg/transaction", "TransactionImpl", "releaseWriteLock")
	a.begin = c.Func("pkg/transaction", "Manager", "BeginTransaction")
	a.errClosed = c.Global("pkg/transaction", "ErrTransactionClosed")
	a.roConst = c.Const("pkg/transaction", "ReadOnly")
	a.applyBatch = c.Func("pkg/engine/storage", "Manager", "ApplyBatch")
	a.ok = a.impl != nil && a.active != nil && a.mode != nil && a.hasR != nil && a.hasW != nil && a.buf != nil && a.commit != nil && a.rollback != nil &&
		a.relR != nil && a.relW != nil && a.begin != nil && a.errClosed != nil && a.roConst != nil && a.applyBatch != nil
	if !a.ok {
		r.Unresolved("transaction.TransactionImpl.{active,mode,hasReadLock,hasWriteLock,buffer,Commit,Rollback,release*Lock} / Manager.BeginTransaction / ErrTransactionClosed / ReadOnly / storage.Manager.ApplyBatch", "a named anchor no longer resolves")
	}
	return a
}

// casSuccessFact: the branch on <field>.CompareAndSwap(true,false) — true edge = swap succeeded.
func casSuccessFact(field *types.Var) Fact {
	return func(cond ssa.Value) (bool, bool) {
		call, ok := cond.(*ssa.Call)
		if !ok {
			return false, false
		}
		name, addr, cc := atomicCall(call)
		if name != "CompareAndSwap" || fieldVarOf(addr) != field || len(cc.Args) != 3 {
			return false, false
		}
		o, ok1 := constBool(cc.Args[1])
		n, ok2 := constBool(cc.Args[2])
		if !ok1 || !ok2 || !o || n {
			return false, false
		}
		return true, false
	}
}

// loadTrueFact: branch on <field>.Load() — true edge = flag set.
func loadTrueFact(field *types.Var) Fact {
	return func(cond ssa.Value) (bool, bool) {
		call, ok := cond.(*ssa.Call)
		if !ok {
			return false, false
		}
		name, addr, _ := atomicCall(call)
		if name != "Load" || fieldVarOf(addr) != field {
			return false, false
		}
		return true, false
	}
}

// modeFact: (isReadOnlyOnTrue, isReadOnlyOnFalse) for comparisons of the given value predicate with the ReadOnly constant.
func modeIsFact(a *txAnchors, isModeValue func(ssa.Value) bool, wantReadOnly bool) Fact {
	return func(cond ssa.Value) (bool, bool) {
		bo, ok := cond.(*ssa.BinOp)
		if !ok || (bo.Op != token.EQL && bo.Op != token.NEQ) {
			return false, false
		}
		var other ssa.Value
		if isModeValue(bo.X) {
			other = bo.Y
		} else if isModeValue(bo.Y) {
			other = bo.X
		} else {
			return false, false
		}
		k, ok := other.(*ssa.Const)
		if !ok || k.Value == nil || k.Value.ExactString() != a.roConst.Val().ExactString() {
			return false, false
		}
		eqMeansRO := bo.Op == token.EQL
		// true edge: readOnly iff eqMeansRO
		t := eqMeansRO == wantReadOnly
		return t, !t
	}
}

func isEffectCall(c *Ctx, ins ssa.Instruction) (string, bool) {
	ci, ok := ins.(ssa.CallInstruction)
	if !ok {
		return "", false
	}
	cc := ci.Common()
	if name, _, _ := atomicCall(ins); name != "" {
		return "", false
	}
	if _, ok := lockOpOfCommon(cc); ok {
		return "", false
	}
	if cc.IsInvoke() {
		ts := cc.Value.Type().String()
		if strings.Contains(ts, "StorageBackend") || strings.Contains(ts, "StatsCollector") {
			return ts + "." + cc.Method.Name(), true
		}
		return "", false
	}
	f := cc.StaticCallee()
	if f == nil {
		return "", false
	}
	switch recvTypeName(f) {
	case "transaction.Buffer":
		return FnName(f), true
	case "transaction.TransactionImpl":
		if strings.HasPrefix(f.Name(), "release") {
			return FnName(f), true
		}
	}
	if f.String() == "time.Now" {
		return "", false
	}
	return "", false
}

func ruleTxFinishOnce(c *Ctx, r *Reporter) {
	a := getTxAnchors(c, r)
	if !a.ok {
		return
	}
	r.Rule("finish-at-most-once", 7)
	swapped := casSuccessFact(a.active)
	for _, fn := range []*ssa.Function{a.commit, a.rollback} {
		name := FnName(fn)
		nEff := 0
		ok := true
		AllInstrs(fn, true, func(_ *ssa.Function, ins ssa.Instruction) {
			eff, is := isEffectCall(c, ins)
			if !is {
				return
			}
			nEff++
			if !GuardedBy(ins.Block(), swapped) {
				ok = false
				r.Bad(name+":"+eff, c.InsPos(ins), "effect not dominated by a successful active.CompareAndSwap(true,false): a second Commit/Rollback could repeat it")
			}
		})
		if nEff == 0 {
			r.Undecided(name, c.FnPos(fn), "no effect found")
			continue
		}
		if ok {
			r.OK(name, c.FnPos(fn), fmt.Sprintf("%d effect call(s), each dominated by the successful swap of active", nEff))
		}
		// failing arm returns ErrTransactionClosed
		found := false
		for _, ret := range Returns(fn) {
			if returnsGlobalErr(ret, a.errClosed) && !GuardedBy(ret.Block(), swapped) {
				found = true
			}
		}
		r.Check(found, name+":closed-error", c.FnPos(fn), "the failed swap returns ErrTransactionClosed", "no exit returns ErrTransactionClosed for a finished transaction")
	}
	isActive := loadTrueFact(a.active)
	for _, mn := range []string{"Get", "Put", "Delete", "NewIterator", "NewRangeIterator"} {
		fn := c.Func("pkg/transaction", "TransactionImpl", mn)
		if fn == nil {
			r.Unresolved("transaction.TransactionImpl."+mn, "not found")
			continue
		}
		nEff := 0
		ok := true
		AllInstrs(fn, true, func(_ *ssa.Function, ins ssa.Instruction) {
			eff, is := isEffectCall(c, ins)
			if !is {
				return
			}
			nEff++
			if !GuardedBy(ins.Block(), isActive) {
				ok = false
				r.Bad(FnName(fn)+":"+eff, c.InsPos(ins), "buffer/storage access not dominated by the active test: a finished transaction is not inert")
			}
		})
		if nEff == 0 {
			r.Undecided(FnName(fn), c.FnPos(fn), "no buffer/storage access found")
		} else if ok {
			r.OK(FnName(fn), c.FnPos(fn), fmt.Sprintf("%d buffer/storage access(es), each dominated by active.Load()==true", nEff))
		}
	}
}

func ruleTxRelease(c *Ctx, r *Reporter) {
	a := getTxAnchors(c, r)
	if !a.ok {
		return
	}
	r.Rule("release-at-end", 6)
	swapped := casSuccessFact(a.active)
	isModeField := func(v ssa.Value) bool { return isLoadOfField(v, a.mode) }
	isRO := modeIsFact(a, isModeField, true)
	notRO := modeIsFact(a, isModeField, false)
	rel := NewFnSet(a.relR, a.relW)
	for _, fn := range []*ssa.Function{a.commit, a.rollback} {
		name := FnName(fn)
		var exits []ssa.Instruction
		for _, ret := range Returns(fn) {
			exits = append(exits, ret)
		}
		// paths on which the swap failed are outside the rule: prune the edges on which 'swapped' does not hold:
		// i.e. refuse the false edge of the CAS branch.
		pruneFail := func(b *ssa.BasicBlock, s int) bool {
			if len(b.Instrs) == 0 {
				return true
			}
			iff, ok := b.Instrs[len(b.Instrs)-1].(*ssa.If)
			if !ok {
				return true
			}
			t, f := withNot(swapped)(iff.Cond)
			if t && s == 1 {
				return false
			}
			if f && s == 0 {
				return false
			}
			return true
		}
		bad, path := MustPassE(fn, exits, func(i ssa.Instruction) bool { return !isGo(i) && c.CallMust(i, rel) }, pruneFail)
		if bad != nil {
			r.Bad(name+":every-exit-releases", c.InsPos(bad), "an exit is reachable after the successful swap of active without releasing the transaction lock", c.PathString(path)...)
		} else {
			r.OK(name+":every-exit-releases", c.FnPos(fn), "every exit after the successful swap passes through a release helper")
		}
		// mode match
		okMode := true
		for _, s := range c.CallsIn(fn, NewFnSet(a.relR), true) {
			if !GuardedBy(s.Block(), isRO) {
				okMode = false
				r.Bad(name+":releaseReadLock-mode", c.InsPos(s), "releaseReadLock is called on a path where mode == ReadOnly is not established")
			}
		}
		for _, s := range c.CallsIn(fn, NewFnSet(a.relW), true) {
			if !GuardedBy(s.Block(), notRO) {
				okMode = false
				r.Bad(name+":releaseWriteLock-mode", c.InsPos(s), "releaseWriteLock is called on a path where mode != ReadOnly is not established")
			}
		}
		if okMode {
			r.OK(name+":release-matches-mode", c.FnPos(fn), "read release on the ReadOnly arm, write release on the other")
		}
	}
	// helpers: CAS-guarded unlock in the right mode
	for _, h := range []struct {
		fn    *ssa.Function
		flag  *types.Var
		mode  string
		other string
	}{{a.relR, a.hasR, "R", "W"}, {a.relW, a.hasW, "W", "R"}} {
		name := FnName(h.fn)
		got := casSuccessFact(h.flag)
		n := 0
		ok := true
		AllInstrs(h.fn, false, func(_ *ssa.Function, ins ssa.Instruction) {
			op, is := LockOpOf(ins)
			if !is {
				return
			}
			n++
			if op.Acquire || op.Mode != h.mode || op.ID != "transaction.Manager.txLock" {
				ok = false
				r.Bad(name+":unlock-mode", c.InsPos(ins), fmt.Sprintf("helper performs %v on %s in mode %s, expected a release in mode %s of transaction.Manager.txLock", map[bool]string{true: "acquire", false: "release"}[op.Acquire], op.ID, op.Mode, h.mode))
			}
			if !GuardedBy(ins.Block(), got) {
				ok = false
				r.Bad(name+":cas-guard", c.InsPos(ins), "unlock not guarded by the successful swap of the has*Lock flag: a double release would unlock a lock this transaction does not hold")
			}
		})
		if n == 0 {
			r.Bad(name, c.FnPos(h.fn), "release helper no longer unlocks the transaction lock")
		} else if ok {
			r.OK(name, c.FnPos(h.fn), "CAS-guarded unlock in mode "+h.mode)
		}
	}
}

func ruleTxLockWriters(c *Ctx, r *Reporter) {
	a := getTxAnchors(c, r)
	if !a.ok {
		return
	}
	r.Rule("txlock-who", 3)
	nAcq, nRel := 0, 0
	for _, fn := range c.KevoFns {
		AllInstrs(fn, false, func(_ *ssa.Function, ins ssa.Instruction) {
			var op LockOp
			var is bool
			if d, okd := ins.(*ssa.Defer); okd {
				op, is = lockOpOfCommon(d.Common())
			} else {
				op, is = LockOpOf(ins)
			}
			if !is || op.ID != "transaction.Manager.txLock" {
				return
			}
			if op.Acquire {
				nAcq++
				if fn != a.begin {
					r.Bad("txLock.acquire←"+FnName(fn), c.InsPos(ins), "transaction lock acquired outside Manager.BeginTransaction")
				}
			} else {
				nRel++
				if fn != a.relR && fn != a.relW {
					r.Bad("txLock.release←"+FnName(fn), c.InsPos(ins), "transaction lock released outside the CAS-guarded release helpers")
				}
			}
		})
	}
	r.Check(nAcq == 2, "txLock.acquire", c.FnPos(a.begin), "2 acquisitions, both in BeginTransaction", fmt.Sprintf("%d acquisitions of the transaction lock found (expected RLock and Lock in BeginTransaction)", nAcq))
	r.Check(nRel == 2, "txLock.release", c.FnPos(a.relR), "2 releases, one per helper", fmt.Sprintf("%d releases of the transaction lock found (expected one per helper)", nRel))
	// the raw lock accessor has no live caller that locks/unlocks through it
	get := c.Func("pkg/transaction", "Manager", "GetRWLock")
	if get != nil {
		for _, e := range c.Callers(get) {
			if e.Site == nil || !c.InKevo(e.Caller.Func) {
				continue
			}
			caller := e.Caller.Func
			if FnName(caller) == "engine.EngineFacade.GetRWLock" {
				// forwarder; its own callers
				live := false
				for _, e2 := range c.Callers(caller) {
					if e2.Site != nil && c.InKevo(e2.Caller.Func) {
						live = true
						r.Bad("GetRWLock←"+FnName(e2.Caller.Func), c.InsPos(e2.Site), "the raw transaction lock is handed to code outside the transaction package")
					}
				}
				if !live {
					r.OK("GetRWLock←engine.EngineFacade.GetRWLock", c.InsPos(e.Site), "compat forwarder without callers")
				}
				continue
			}
			r.Bad("GetRWLock←"+FnName(caller), c.InsPos(e.Site), "the raw transaction lock is used outside Begin/release helpers")
		}
	}
	// the rwLock field is initialised to &m.txLock
	rw := c.Field("pkg/transaction", "TransactionImpl", "rwLock")
	txl := c.Field("pkg/transaction", "Manager", "txLock")
	n := 0
	for _, fn := range c.KevoFns {
		AllInstrs(fn, false, func(_ *ssa.Function, ins ssa.Instruction) {
			st, ok := ins.(*ssa.Store)
			if !ok || fieldVarOf(st.Addr) != rw || rw == nil {
				return
			}
			n++
			if fa, ok := st.Val.(*ssa.FieldAddr); !ok || fieldVarOf(fa) != txl {
				r.Bad("TransactionImpl.rwLock←"+FnName(fn), c.InsPos(ins), "transaction's lock pointer is set to something other than the manager's txLock (transactions would not exclude each other)")
			}
		})
	}
	r.Check(n >= 1, "TransactionImpl.rwLock", c.FnPos(a.begin), fmt.Sprintf("%d store(s), all &Manager.txLock", n), "no initialisation of TransactionImpl.rwLock found")
}

func ruleTxAcquire(c *Ctx, r *Reporter) {
	a := getTxAnchors(c, r)
	if !a.ok {
		return
	}
	r.Rule("acquire-at-begin", 4)
	fn := a.begin
	// the value stored into tx.mode
	var modeVal ssa.Value
	AllInstrs(fn, false, func(_ *ssa.Function, ins ssa.Instruction) {
		if st, ok := ins.(*ssa.Store); ok && fieldVarOf(st.Addr) == a.mode {
			modeVal = st.Val
		}
	})
	if modeVal == nil {
		r.Undecided("transaction.Manager.BeginTransaction:mode", c.FnPos(fn), "no store to TransactionImpl.mode found")
		return
	}
	isModeVal := func(v ssa.Value) bool { return v == modeVal || isLoadOfField(v, a.mode) }
	isRO := modeIsFact(a, isModeVal, true)
	notRO := modeIsFact(a, isModeVal, false)
	// mode value is ReadOnly exactly when the readOnly parameter is true
	okPhi := false
	if phi, ok := modeVal.(*ssa.Phi); ok && len(fn.Params) >= 2 {
		param := fn.Params[len(fn.Params)-1]
		paramTrue := func(cond ssa.Value) (bool, bool) {
			if cond == ssa.Value(param) {
				return true, false
			}
			return false, false
		}
		okPhi = true
		for i, e := range phi.Edges {
			k, isK := e.(*ssa.Const)
			if !isK || k.Value == nil {
				okPhi = false
				continue
			}
			isROConst := k.Value.ExactString() == a.roConst.Val().ExactString()
			pred := phi.Block().Preds[i]
			fromTrue := GuardedBy(pred, paramTrue) || edgeIs(pred, phi.Block(), paramTrue, true)
			fromFalse := GuardedBy(pred, withNot(func(cv ssa.Value) (bool, bool) { t, f := paramTrue(cv); return f, t })) || edgeIs(pred, phi.Block(), paramTrue, false)
			if isROConst && !fromTrue {
				okPhi = false
			}
			if !isROConst && !fromFalse {
				okPhi = false
			}
		}
	}
	r.Check(okPhi, "transaction.Manager.BeginTransaction:mode", c.FnPos(fn), "stored mode is ReadOnly exactly when the readOnly argument is true", "the stored transaction mode is not tied to the readOnly argument (ReadOnly ⇔ readOnly)")
	// every success exit has acquired the lock
	exits := SuccessExits(fn, true)
	bad, path := MustPass(fn, exits, func(i ssa.Instruction) bool {
		op, ok := LockOpOf(i)
		return ok && op.Acquire && op.ID == "transaction.Manager.txLock"
	})
	if bad != nil {
		r.Bad("transaction.Manager.BeginTransaction:acquires", c.InsPos(bad), "a success exit is reachable without acquiring the transaction lock", c.PathString(path)...)
	} else {
		r.OK("transaction.Manager.BeginTransaction:acquires", c.FnPos(fn), fmt.Sprintf("%d success exit(s), each after acquiring txLock", len(exits)))
	}
	// lock mode matches the transaction mode; flag set after acquisition
	okMode := true
	n := 0
	AllInstrs(fn, false, func(_ *ssa.Function, ins ssa.Instruction) {
		op, ok := LockOpOf(ins)
		if !ok || !op.Acquire || op.ID != "transaction.Manager.txLock" {
			return
		}
		n++
		if op.Mode == "R" && !GuardedBy(ins.Block(), isRO) {
			okMode = false
			r.Bad("transaction.Manager.BeginTransaction:RLock", c.InsPos(ins), "shared lock taken on a path where the transaction is not established to be read-only (a writer would run under a read lock)")
		}
		if op.Mode == "W" && !GuardedBy(ins.Block(), notRO) {
			okMode = false
			r.Bad("transaction.Manager.BeginTransaction:Lock", c.InsPos(ins), "exclusive lock taken on the read-only arm")
		}
		// matching flag stored true after the acquisition, in the same arm
		flag := a.hasR
		if op.Mode == "W" {
			flag = a.hasW
		}
		found, _ := Reach(fn, ins, func(i ssa.Instruction) bool {
			name, addr, cc := atomicCall(i)
			if name == "Store" && fieldVarOf(addr) == flag {
				b, ok := constBool(cc.Args[1])
				return ok && b
			}
			return false
		}, func(i ssa.Instruction) bool { _, isRet := i.(*ssa.Return); return isRet })
		if found == nil || !Dominates(ins, found) {
			okMode = false
			r.Bad("transaction.Manager.BeginTransaction:flag-after-"+op.Mode, c.InsPos(ins), "the has*Lock flag of the acquired mode is not set after the acquisition (release helper would not unlock)")
		}
	})
	if n == 2 && okMode {
		r.OK("transaction.Manager.BeginTransaction:lock-mode", c.FnPos(fn), "RLock on the read-only arm, Lock on the other, matching flag set after each")
	} else if n != 2 {
		r.Bad("transaction.Manager.BeginTransaction:lock-mode", c.FnPos(fn), fmt.Sprintf("expected one RLock and one Lock of txLock, found %d acquisitions", n))
	}
	// no flag store before its acquisition: a flag set to true must be dominated by the matching acquisition
	AllInstrs(fn, false, func(_ *ssa.Function, ins ssa.Instruction) {
		name, addr, cc := atomicCall(ins)
		if name != "Store" {
			return
		}
		fv := fieldVarOf(addr)
		if fv != a.hasR && fv != a.hasW {
			return
		}
		if b, ok := constBool(cc.Args[1]); !ok || !b {
			return
		}
		want := "R"
		if fv == a.hasW {
			want = "W"
		}
		dom := false
		AllInstrs(fn, false, func(_ *ssa.Function, j ssa.Instruction) {
			if op, ok := LockOpOf(j); ok && op.Acquire && op.Mode == want && op.ID == "transaction.Manager.txLock" && Dominates(j, ins) {
				dom = true
			}
		})
		r.Check(dom, "transaction.Manager.BeginTransaction:"+fv.Name(), c.InsPos(ins), "flag set only after the matching acquisition", "has*Lock flag is set before / without the matching lock acquisition")
	})
}

// edgeIs: the CFG edge pred->succ is itself the (true/false) edge of a branch on which fact holds on its true edge.
func edgeIs(pred, succ *ssa.BasicBlock, fact Fact, wantTrue bool) bool {
	if len(pred.Instrs) == 0 {
		return false
	}
	iff, ok := pred.Instrs[len(pred.Instrs)-1].(*ssa.If)
	if !ok {
		return false
	}
	t, f := withNot(fact)(iff.Cond)
	if wantTrue {
		return (t && pred.Succs[0] == succ && pred.Succs[1] != succ) || (f && pred.Succs[1] == succ && pred.Succs[0] != succ)
	}
	// fact false: the other edge of a branch whose one edge establishes the fact
	return (t && pred.Succs[1] == succ && pred.Succs[0] != succ) || (f && pred.Succs[0] == succ && pred.Succs[1] != succ)
}

func ruleTxApplyInside(c *Ctx, r *Reporter) {
	a := getTxAnchors(c, r)
	if !a.ok {
		return
	}
	r.Rule("apply-inside-bracket", 2)
	fn := a.commit
	isApply := func(i ssa.Instruction) bool {
		ci, ok := i.(ssa.CallInstruction)
		if !ok {
			return false
		}
		return c.CallMay(i, NewFnSet(a.applyBatch)) || (ci.Common().IsInvoke() && ci.Common().Method.Name() == "ApplyBatch")
	}
	var applies []ssa.Instruction
	AllInstrs(fn, true, func(_ *ssa.Function, ins ssa.Instruction) {
		if isApply(ins) {
			applies = append(applies, ins)
		}
	})
	if len(applies) == 0 {
		r.Bad("transaction.TransactionImpl.Commit:apply", c.FnPos(fn), "Commit no longer applies the buffered operations")
		return
	}
	ok := true
	for _, rel := range c.CallsIn(fn, NewFnSet(a.relW, a.relR), false) {
		if f, path := Reach(fn, rel, isApply, nil); f != nil {
			ok = false
			r.Bad("transaction.TransactionImpl.Commit:apply-after-release", c.InsPos(f), "ApplyBatch is reachable after the transaction lock was released: the writes land outside the lock bracket", c.PathString(path)...)
		}
	}
	if ok {
		r.OK("transaction.TransactionImpl.Commit:apply-before-release", c.InsPos(applies[0]), "no path from a lock release to ApplyBatch")
	}
	// at most one ApplyBatch per path, not inside a loop: the apply call is not reachable from itself
	once := true
	for _, ap := range applies {
		if f, _ := Reach(fn, ap, isApply, nil); f != nil {
			once = false
			r.Bad("transaction.TransactionImpl.Commit:one-batch", c.InsPos(ap), "ApplyBatch can execute more than once in one Commit (loop or second call): the transaction would not be applied as one batch")
		}
	}
	if once && len(applies) == 1 {
		r.OK("transaction.TransactionImpl.Commit:one-batch", c.InsPos(applies[0]), "exactly one ApplyBatch call site, not in a loop")
	} else if once {
		r.Bad("transaction.TransactionImpl.Commit:one-batch", c.InsPos(applies[0]), fmt.Sprintf("%d ApplyBatch call sites in Commit", len(applies)))
	}
	// Rollback never applies
	nb := 0
	AllInstrs(a.rollback, true, func(_ *ssa.Function, ins ssa.Instruction) {
		if isApply(ins) {
			nb++
		}
	})
	r.Check(nb == 0, "transaction.TransactionImpl.Rollback:no-apply", c.FnPos(a.rollback), "Rollback never reaches ApplyBatch", "Rollback applies operations")
}

func ruleTxOwnWrites(c *Ctx, r *Reporter) {
	a := getTxAnchors(c, r)
	if !a.ok {
		return
	}
	r.Rule("own-writes-first", 3)
	get := c.Func("pkg/transaction", "TransactionImpl", "Get")
	bufGet := c.Func("pkg/transaction", "Buffer", "Get")
	if get == nil || bufGet == nil {
		r.Unresolved("transaction.TransactionImpl.Get / Buffer.Get", "not found")
		return
	}
	var bcall *ssa.Call
	for _, s := range c.CallsIn(get, NewFnSet(bufGet), false) {
		bcall, _ = s.(*ssa.Call)
	}
	if bcall == nil {
		r.Bad("transaction.TransactionImpl.Get:buffer", c.FnPos(get), "Get no longer consults the transaction's own buffer")
	} else {
		miss := func(cond ssa.Value) (bool, bool) {
			if ex, ok := cond.(*ssa.Extract); ok && ex.Tuple == bcall && ex.Index == 1 {
				return false, true
			}
			return false, false
		}
		ok := true
		n := 0
		AllInstrs(get, false, func(_ *ssa.Function, ins ssa.Instruction) {
			ci, isCall := ins.(ssa.CallInstruction)
			if !isCall || !ci.Common().IsInvoke() || !strings.Contains(ci.Common().Value.Type().String(), "StorageBackend") {
				return
			}
			n++
			if !GuardedBy(ins.Block(), withNot(miss)) && !GuardedBy(ins.Block(), miss) {
				ok = false
				r.Bad("transaction.TransactionImpl.Get:storage", c.InsPos(ins), "storage is consulted on a path where the buffer lookup has not missed (own writes would be shadowed by committed data)")
			}
		})
		if n == 0 {
			r.Bad("transaction.TransactionImpl.Get:storage", c.FnPos(get), "Get never reads from storage")
		} else if ok {
			r.OK("transaction.TransactionImpl.Get", c.FnPos(get), "buffer consulted first; storage only on the found==false edge")
		}
		// a buffered deletion maps to not-found: on the found edge with nil value, return ErrKeyNotFound (the value is not passed on)
	}
	// iterators: element 0 of the merge sources is the buffer iterator
	newHier := c.Func("pkg/common/iterator/composite", "", "NewHierarchicalIterator")
	bufIter := c.Func("pkg/transaction", "Buffer", "NewIterator")
	bounded := c.Func("pkg/common/iterator/bounded", "", "NewBoundedIterator")
	if newHier == nil || bufIter == nil || bounded == nil {
		r.Unresolved("composite.NewHierarchicalIterator / Buffer.NewIterator / bounded.NewBoundedIterator", "not found")
		return
	}
	for _, mn := range []string{"NewIterator", "NewRangeIterator"} {
		fn := c.Func("pkg/transaction", "TransactionImpl", mn)
		if fn == nil {
			r.Unresolved("transaction.TransactionImpl."+mn, "not found")
			continue
		}
		sites := c.CallsIn(fn, NewFnSet(newHier), false)
		if len(sites) == 0 {
			r.Bad("transaction.TransactionImpl."+mn+":merge", c.FnPos(fn), "no merge of buffer and storage iterators (own writes are not overlaid on scans)")
			continue
		}
		for _, s := range sites {
			var elems []ssa.Value
			alts := sliceAlternatives(s.Common().Args[0], 0)
			for _, alt := range alts {
				if len(alt) >= 2 {
					// report the first alternative that violates, else keep the last
					if elems == nil || !derivesFromCall(alt[0], bufIter, 0) {
						elems = alt
					}
				}
			}
			if len(elems) < 2 {
				r.Undecided("transaction.TransactionImpl."+mn+":merge", c.InsPos(s), "merge sources cannot be resolved to a list of at least two sources")
				continue
			}
			first := derivesFromCall(elems[0], bufIter, 0)
			laterHasBuf := false
			for _, e := range elems[1:] {
				if derivesFromCall(e, bufIter, 0) {
					laterHasBuf = true
				}
			}
			r.Check(first && !laterHasBuf, "transaction.TransactionImpl."+mn+":buffer-first", c.InsPos(s),
				"buffer iterator is source 0 of the merge (newest-first convention)", "the buffer iterator is not the first merge source: committed data would shadow the transaction's own writes in scans")
			if mn == "NewRangeIterator" {
				// bounded with the same bounds as the storage range iterator
				okB := false
				if bc := findCallIn(elems[0], bounded, 0); bc != nil && len(fn.Params) == 3 {
					okB = bc.Call.Args[1] == ssa.Value(fn.Params[1]) && bc.Call.Args[2] == ssa.Value(fn.Params[2])
				}
				r.Check(okB, "transaction.TransactionImpl.NewRangeIterator:buffer-bounded", c.InsPos(s),
					"buffer iterator bounded by the scan's own (start, end)", "the buffer iterator of a range scan is not bounded by the scan's start/end keys")
			}
		}
	}
}

// sliceLiteralElems returns the values stored into the backing array of a slice literal, by index.
func sliceLiteralElems(v ssa.Value) []ssa.Value {
	switch x := v.(type) {
	case *ssa.Call:
		if b, ok := x.Call.Value.(*ssa.Builtin); ok && b.Name() == "append" && len(x.Call.Args) == 2 {
			head := sliceLiteralElems(x.Call.Args[0])
			tail := sliceLiteralElems(x.Call.Args[1])
			if head == nil && !isEmptySlice(x.Call.Args[0]) {
				return nil
			}
			if tail == nil {
				return nil
			}
			return append(append([]ssa.Value{}, head...), tail...)
		}
		return nil
	case *ssa.Phi:
		return nil
	}
	if mk, ok := v.(*ssa.MakeSlice); ok {
		// make([]T, K) filled by s[i] = v with constant i
		k, isK := constInt(mk.Len)
		if !isK || k <= 0 || k > 8 || mk.Referrers() == nil {
			return nil
		}
		elems := make([]ssa.Value, k)
		for _, ref := range *mk.Referrers() {
			ia, ok := ref.(*ssa.IndexAddr)
			if !ok {
				continue
			}
			idx, isIdx := constInt(ia.Index)
			if !isIdx || idx < 0 || idx >= k || ia.Referrers() == nil {
				return nil
			}
			for _, u := range *ia.Referrers() {
				if st, ok := u.(*ssa.Store); ok {
					if elems[idx] != nil {
						return nil
					}
					elems[idx] = st.Val
				}
			}
		}
		for _, e := range elems {
			if e == nil {
				return nil
			}
		}
		return elems
	}
	sl, ok := v.(*ssa.Slice)
	if !ok {
		return nil
	}
	al, ok := sl.X.(*ssa.Alloc)
	if !ok {
		return nil
	}
	m := map[int64]ssa.Value{}
	max := int64(-1)
	refs := append([]ssa.Instruction{}, *al.Referrers()...)
	if sl.Referrers() != nil {
		// make([]T, K) with constant K is lowered to new [K]T + slice; its elements are assigned through the slice
		refs = append(refs, *sl.Referrers()...)
	}
	for _, ref := range refs {
		ia, ok := ref.(*ssa.IndexAddr)
		if !ok {
			continue
		}
		idx, ok := constInt(ia.Index)
		if !ok {
			return nil
		}
		for _, r2 := range *ia.Referrers() {
			if st, ok := r2.(*ssa.Store); ok {
				m[idx] = st.Val
				if idx > max {
					max = idx
				}
			}
		}
	}
	out := make([]ssa.Value, max+1)
	for i := range out {
		out[i] = m[int64(i)]
	}
	return out
}

func derivesFromCall(v ssa.Value, f *ssa.Function, depth int) bool {
	return findCallIn(v, f, depth) != nil || callOf(v, f) != nil
}

func callOf(v ssa.Value, f *ssa.Function) *ssa.Call {
	if call, ok := stripAll(v).(*ssa.Call); ok && call.Call.StaticCallee() == f {
		return call
	}
	return nil
}

func stripAll(v ssa.Value) ssa.Value {
	for {
		switch x := v.(type) {
		case *ssa.MakeInterface:
			v = x.X
		case *ssa.ChangeInterface:
			v = x.X
		case *ssa.ChangeType:
			v = x.X
		default:
			return v
		}
	}
}

// findCallIn: v is (a conversion of) a call to f, or a call one of whose arguments derives from a call to f.
func findCallIn(v ssa.Value, f *ssa.Function, depth int) *ssa.Call {
	if depth > 4 || v == nil {
		return nil
	}
	call, ok := stripAll(v).(*ssa.Call)
	if !ok {
		return nil
	}
	if call.Call.StaticCallee() == f {
		return call
	}
	for _, a := range call.Call.Args {
		if c2 := findCallIn(a, f, depth+1); c2 != nil {
			return c2
		}
	}
	// a small helper of the same package that builds the value (boundedBufferIterator(start, end)): look at what it
	// returns; a call found there is re-expressed with the helper's parameters replaced by this call's arguments
	if h := call.Call.StaticCallee(); h != nil && f != nil && h.Pkg == call.Parent().Pkg && len(h.Blocks) > 0 && depth < 3 {
		for _, ret := range Returns(h) {
			if len(ret.Results) == 0 {
				continue
			}
			if c2 := findCallIn(ReturnValue(ret, 0), f, depth+1); c2 != nil {
				return rebindCall(c2, h, call)
			}
		}
	}
	return nil
}

// rebindCall: inner is a call inside helper h; site is the call of h. Returns a synthetic view of inner whose arguments
// that are parameters of h are replaced by the arguments at site (so that callers comparing arguments with their own
// parameters keep working). Only Args are rewritten; the original instruction is not touched.
func rebindCall(inner *ssa.Call, h *ssa.Function, site *ssa.Call) *ssa.Call {
	cp := *inner
	cp.Call.Args = append([]ssa.Value(nil), inner.Call.Args...)
	for i, a := range cp.Call.Args {
		for k, p := range h.Params {
			if a == ssa.Value(p) && k < len(site.Call.Args) {
				cp.Call.Args[i] = site.Call.Args[k]
			}
		}
	}
	return &cp
}

func isEmptySlice(v ssa.Value) bool {
	switch x := v.(type) {
	case *ssa.Const:
		return x.Value == nil
	case *ssa.MakeSlice:
		k, ok := constInt(x.Len)
		return ok && k == 0
	}
	return false
}

// sliceAlternatives resolves a slice value built by literals, appends and phis into the possible element lists.
func sliceAlternatives(v ssa.Value, d int) [][]ssa.Value {
	if d > 4 {
		return nil
	}
	if phi, ok := v.(*ssa.Phi); ok {
		var out [][]ssa.Value
		for _, e := range phi.Edges {
			out = append(out, sliceAlternatives(e, d+1)...)
		}
		return out
	}
	if call, ok := v.(*ssa.Call); ok {
		if b, ok := call.Call.Value.(*ssa.Builtin); ok && b.Name() == "append" && len(call.Call.Args) == 2 {
			tail := sliceLiteralElems(call.Call.Args[1])
			if tail == nil {
				return nil
			}
			heads := sliceAlternatives(call.Call.Args[0], d+1)
			if heads == nil && isEmptySlice(call.Call.Args[0]) {
				heads = [][]ssa.Value{{}}
			}
			var out [][]ssa.Value
			for _, h := range heads {
				out = append(out, append(append([]ssa.Value{}, h...), tail...))
			}
			return out
		}
	}
	if el := sliceLiteralElems(v); el != nil {
		return [][]ssa.Value{el}
	}
	return nil
}
