package main

import (
	"fmt"
	"go/token"
	"go/types"
	"sort"
	"strings"

	"golang.org/x/tools/go/ssa"
)

// Rules added after the fourth blind mutation round (each decides a mechanism a seeded change broke and no earlier rule saw).

// ruleWalStatusUnderLock: the closed/rotating test of every Append* reads WAL.status while WAL.mu is held. Rotation relies on
// it: SetRotating() followed by GetNextSequence() (both synchronise with WAL.mu) must not be overtaken by a writer that
// tested the status before the hand-over and takes the lock after it.
func ruleWalStatusUnderLock(c *Ctx, r *Reporter) {
	r.Rule("status-checked-under-the-log-lock", 4)
	a := getWalAnchors(c, r)
	if !a.ok || a.status == nil {
		return
	}
	li := c.Locks()
	for _, fn := range a.appendFns {
		n := 0
		okAll := true
		var pos ssa.Instruction
		AllInstrs(fn, false, func(_ *ssa.Function, ins ssa.Instruction) {
			name, addr, _ := atomicCall(ins)
			isLoad := strings.HasPrefix(name, "Load") && fieldVarOf(addr) == a.status
			if ld, ok := ins.(*ssa.UnOp); ok && ld.Op == token.MUL && fieldVarOf(ld.X) == a.status {
				isLoad = true
			}
			if !isLoad {
				return
			}
			n++
			if !li.HeldAt(ins).Holds("wal.WAL.mu", "W") {
				okAll = false
				pos = ins
			}
		})
		name := FnName(fn) + ":status-test"
		if n == 0 {
			r.Bad(name, c.FnPos(fn), "the entry point no longer tests the log's status (closed / rotating) at all")
			continue
		}
		p := c.FnPos(fn)
		if pos != nil {
			p = c.InsPos(pos)
		}
		r.Check(okAll, name, p, "the status is read with WAL.mu held", "the closed/rotating test reads the status WITHOUT WAL.mu: a writer that passed the test just before a rotation takes the lock after the counter was handed to the new log and is stamped with a number the new log issues again (two acknowledged writes, one sequence number)")
	}
}

// ruleUnionRange: the key range over the selected level-0 files is a running minimum AND a running maximum, updated
// independently (decision table of one loop iteration over the four orderings).
func ruleUnionRange(c *Ctx, r *Reporter) {
	r.Rule("selection-range-is-the-union", 4)
	fn := c.Func("pkg/compaction", "TieredCompactionStrategy", "selectL0Compaction")
	if fn == nil {
		r.Unresolved("compaction.TieredCompactionStrategy.selectL0Compaction", "not found")
		return
	}
	// compare calls: bytes.Compare(x.FirstKey, <phi>) and bytes.Compare(x.LastKey, <phi>) inside one loop
	type cmp struct {
		call  *ssa.Call
		field string
		phi   *ssa.Phi
		elem  ssa.Value
		sign  int64 // +1: Compare(file.key, running); -1: Compare(running, file.key)
	}
	var cmps []cmp
	AllInstrs(fn, false, func(_ *ssa.Function, ins ssa.Instruction) {
		call, ok := ins.(*ssa.Call)
		if !ok || staticName(call) != "bytes.Compare" {
			return
		}
		for k := 0; k < 2; k++ {
			x, y := call.Call.Args[k], call.Call.Args[1-k]
			ld, ok := x.(*ssa.UnOp)
			if !ok || ld.Op != token.MUL {
				continue
			}
			fa, ok := ld.X.(*ssa.FieldAddr)
			if !ok {
				continue
			}
			if phi, ok := y.(*ssa.Phi); ok && (fieldName(fa) == "FirstKey" || fieldName(fa) == "LastKey") {
				sg := int64(1)
				if k == 1 {
					sg = -1
				}
				cmps = append(cmps, cmp{call, fieldName(fa), phi, x, sg})
			}
		}
	})
	var first, last *cmp
	for i := range cmps {
		switch cmps[i].field {
		case "FirstKey":
			first = &cmps[i]
		case "LastKey":
			last = &cmps[i]
		}
	}
	if first == nil || last == nil {
		r.Undecided(FnName(fn)+":range-loop", c.FnPos(fn), "the running minimum / maximum comparisons over FirstKey / LastKey were not found")
		return
	}
	var loop *GenericLoop
	for _, l := range GenericLoops(fn) {
		if l.Contains(first.call.Block()) && l.Contains(last.call.Block()) {
			loop = l
		}
	}
	if loop == nil {
		r.Undecided(FnName(fn)+":range-loop", c.FnPos(fn), "the two comparisons are not in one loop")
		return
	}
	// the carried values: header phis (the compare may use an inner phi of len()==0 || …; resolve to the header phi by name)
	headerPhi := func(p *ssa.Phi) *ssa.Phi {
		for _, ins := range loop.Header.Instrs {
			if hp, ok := ins.(*ssa.Phi); ok && hp.Comment == p.Comment {
				return hp
			}
		}
		return p
	}
	minPhi, maxPhi := headerPhi(first.phi), headerPhi(last.phi)
	for _, row := range []struct {
		f, l             int64
		wantMin, wantMax bool
	}{{-1, +1, true, true}, {-1, -1, true, false}, {+1, +1, false, true}, {+1, -1, false, false}} {
		five := int64(5)
		sc := &Scenario{Terms: map[string]int64{}, Bools: map[string]bool{}, Vals: map[ssa.Value]int64{first.call: row.f * first.sign, last.call: row.l * last.sign}, BoolVals: map[ssa.Value]bool{}, DefaultInt: &five, MaxVisits: 1}
		// the loop runs another time: index < len
		for _, ins := range loop.Header.Instrs {
			if bo, ok := ins.(*ssa.BinOp); ok && bo.Op == token.LSS {
				sc.BoolVals[bo] = true
			}
		}
		res := EvalLoopIter(loop, sc)
		cons := fmt.Sprintf("%s:range-table[first%s,last%s]", FnName(fn), map[int64]string{-1: "<min", 1: ">=min"}[row.f], map[int64]string{1: ">max", -1: "<=max"}[row.l])
		if res.Err != "" || res.Reached != loop.Header {
			r.Undecided(cons, c.FnPos(fn), "row not decidable: "+res.Err)
			continue
		}
		nm, nx := res.PhiNext(minPhi), res.PhiNext(maxPhi)
		gotMin := nm != nil && nm != ssa.Value(minPhi) && sameFieldLoad(nm, first.elem)
		gotMax := nx != nil && nx != ssa.Value(maxPhi) && sameFieldLoad(nx, last.elem)
		keptMin := nm == ssa.Value(minPhi) || nm == nil
		keptMax := nx == ssa.Value(maxPhi) || nx == nil
		ok := (row.wantMin && gotMin || !row.wantMin && keptMin) && (row.wantMax && gotMax || !row.wantMax && keptMax)
		r.Check(ok, cons, c.blockPos(loop.Header), fmt.Sprintf("min updated=%v, max updated=%v", gotMin, gotMax),
			fmt.Sprintf("for a file whose first key is %s and whose last key is %s the range is updated min=%v max=%v (required min=%v max=%v): the range handed to the level-1 overlap test is smaller than the union of the selected files, so an overlapping level-1 file stays out of the merge and its older versions survive (resurrected keys, overlapping level-1 files)",
				map[int64]string{-1: "below the running minimum", 1: "not below it"}[row.f], map[int64]string{1: "above the running maximum", -1: "not above it"}[row.l], gotMin, gotMax, row.wantMin, row.wantMax))
	}
}

// ruleSortKeysFromSortedSlice: in every sort.Slice / sort.SliceStable of kevo the comparator indexes the slice being sorted.
// Keys taken from a parallel slice by the same indices go stale with the first swap.
func ruleSortKeysFromSortedSlice(c *Ctx, r *Reporter) {
	r.Rule("sort-keys-come-from-the-sorted-slice", 6)
	root := func(v ssa.Value) ssa.Value {
		for i := 0; i < 4; i++ {
			switch x := v.(type) {
			case *ssa.MakeInterface:
				v = x.X
			case *ssa.ChangeType:
				v = x.X
			case *ssa.UnOp:
				if x.Op == token.MUL {
					return x.X // the cell / field address loaded from
				}
				return v
			default:
				return v
			}
		}
		return v
	}
	sortIdx := map[*ssa.Function]int{}
	for _, fn := range c.KevoFns {
		if strings.HasPrefix(pkgOf(fn), "pkg/client") || strings.HasPrefix(pkgOf(fn), "cmd/") {
			continue
		}
		AllInstrs(fn, false, func(_ *ssa.Function, ins ssa.Instruction) {
			call, ok := ins.(*ssa.Call)
			if !ok {
				return
			}
			sn := staticName(call)
			if sn != "sort.Slice" && sn != "sort.SliceStable" {
				return
			}
			mc, ok := call.Call.Args[1].(*ssa.MakeClosure)
			helperArgs := map[ssa.Value]ssa.Value{} // parameter of a comparator-making helper -> the caller's argument
			if !ok {
				// sort.Slice(files, oldestFirst(files)): a helper that returns the comparator closure
				hc, isCall := call.Call.Args[1].(*ssa.Call)
				if !isCall || hc.Call.StaticCallee() == nil {
					return
				}
				h := hc.Call.StaticCallee()
				for _, ret := range Returns(h) {
					if len(ret.Results) == 1 {
						if m2, isMC := ret.Results[0].(*ssa.MakeClosure); isMC {
							mc, ok = m2, true
						}
					}
				}
				if !ok {
					return
				}
				for i, p := range h.Params {
					if i < len(hc.Call.Args) {
						helperArgs[p] = hc.Call.Args[i]
					}
				}
			}
			less := mc.Fn.(*ssa.Function)
			sortedRoot := root(call.Call.Args[0])
			var foreign []string
			nIdx := 0
			AllInstrs(less, false, func(_ *ssa.Function, x ssa.Instruction) {
				var base, idx ssa.Value
				switch y := x.(type) {
				case *ssa.IndexAddr:
					base, idx = y.X, y.Index
				case *ssa.Index:
					base, idx = y.X, y.Index
				default:
					return
				}
				if len(less.Params) < 2 || (idx != ssa.Value(less.Params[0]) && idx != ssa.Value(less.Params[1])) {
					return
				}
				nIdx++
				// base inside the closure: a free variable (by value) or a load of a captured cell
				b := base
				if ld, ok := b.(*ssa.UnOp); ok && ld.Op == token.MUL {
					b = ld.X
				}
				var bound ssa.Value
				for i, fv := range less.FreeVars {
					if ssa.Value(fv) == b && i < len(mc.Bindings) {
						bound = mc.Bindings[i]
					}
				}
				if bound == nil {
					bound = b
				}
				if al, isCell := bound.(*ssa.Alloc); isCell && len(helperArgs) > 0 {
					// a captured parameter of the helper is spilled into a cell
					if sv := singleStore(al); sv != nil {
						bound = sv
					}
				}
				if a, viaHelper := helperArgs[bound]; viaHelper {
					bound = a
				}
				if bound != sortedRoot && root(bound) != sortedRoot {
					foreign = append(foreign, Path(base)+" at "+c.InsPos(x))
				}
			})
			sortIdx[topParent(fn)]++
			cons := fmt.Sprintf("%s:%s#%d", FnName(topParent(fn)), sn, sortIdx[topParent(fn)])
			r.Check(len(foreign) == 0, cons, c.InsPos(ins), fmt.Sprintf("the comparator indexes only the slice being sorted (%d index operations)", nIdx),
				"the comparator takes keys from another slice by the positions i, j of the slice being sorted ("+strings.Join(foreign, "; ")+"): sort permutes only its argument, so after the first swap the keys belong to other elements and the resulting order is wrong")
		})
	}
}

// ruleCatchUpGuard: the 'nothing to send yet' exits of the catch-up reader are decided by the log's own counter only.
func ruleCatchUpGuard(c *Ctx, r *Reporter) {
	r.Rule("catch-up-guard-reads-the-log", 1)
	get := c.Func("pkg/replication", "Primary", "getWALEntriesFromSequence")
	from := c.Func("pkg/wal", "WAL", "GetEntriesFrom")
	next := c.Func("pkg/wal", "WAL", "GetNextSequence")
	if get == nil || from == nil || next == nil {
		r.Unresolved("replication.Primary.getWALEntriesFromSequence / wal.WAL.{GetEntriesFrom,GetNextSequence}", "not found")
		return
	}
	var read *ssa.Call
	AllInstrs(get, false, func(_ *ssa.Function, ins ssa.Instruction) {
		if cl, ok := ins.(*ssa.Call); ok && cl.Call.StaticCallee() == from {
			read = cl
		}
	})
	if read == nil {
		return // reported by catch-up-serves-the-requested-position
	}
	// operands allowed in a guard: constants, the requested position, the log counter (± constant)
	var okOperand func(v ssa.Value, d int) bool
	okOperand = func(v ssa.Value, d int) bool {
		if d > 5 {
			return false
		}
		switch x := v.(type) {
		case *ssa.Const:
			return true
		case *ssa.Parameter:
			return true
		case *ssa.Call:
			return x.Call.StaticCallee() == next
		case *ssa.BinOp:
			return okOperand(x.X, d+1) && okOperand(x.Y, d+1)
		case *ssa.Convert:
			return okOperand(x.X, d+1)
		case *ssa.Phi:
			for _, e := range x.Edges {
				if !okOperand(e, d+1) {
					return false
				}
			}
			return true
		}
		return false
	}
	var bad []string
	n := 0
	for _, b := range get.Blocks {
		if len(b.Instrs) == 0 {
			continue
		}
		iff, ok := b.Instrs[len(b.Instrs)-1].(*ssa.If)
		if !ok || Dominates(read, iff) {
			continue
		}
		// does one of its edges lead to a return without reading the log?
		early := false
		for si := range b.Succs {
			s := b.Succs[si]
			hit, _ := ReachBlock(s, func(i ssa.Instruction) bool { _, isR := i.(*ssa.Return); return isR }, func(i ssa.Instruction) bool { return i == ssa.Instruction(read) }, nil)
			if hit != nil {
				early = true
			}
		}
		if !early {
			continue
		}
		n++
		if !okOperand(iff.Cond, 0) {
			bad = append(bad, CondString(iff.Cond)+" at "+c.InsPos(iff))
		}
	}
	r.Check(len(bad) == 0, FnName(get)+":early-exits", c.FnPos(get), fmt.Sprintf("%d guard(s) before the log is read, all over the requested position and WAL.GetNextSequence()", n),
		"an exit that answers 'nothing to send' before the log is read is decided by something else than the log's own counter ("+strings.Join(bad, "; ")+"): replication-side state (e.g. a last-synced position that starts at 0 with every new Primary) says 'nothing' although the log holds the entries — a replica joining after a primary restart never catches up")
}

// ruleNoReceiveLimit: the primary's catch-up batches are capped by entry count, not by bytes; a message-size limit on the
// replication connection makes a batch above the limit undeliverable for ever (same batch on every retry).
func ruleNoReceiveLimit(c *Ctx, r *Reporter) {
	r.Rule("no-message-size-limit-below-the-sender", 1)
	var bad, info []string
	for _, fn := range c.KevoFns {
		if pkgOf(fn) != "pkg/replication" {
			continue
		}
		AllInstrs(fn, false, func(_ *ssa.Function, ins ssa.Instruction) {
			call, ok := ins.(*ssa.Call)
			if !ok {
				return
			}
			f := call.Call.StaticCallee()
			if f == nil || f.Pkg == nil || f.Pkg.Pkg.Path() != "google.golang.org/grpc" {
				return
			}
			switch f.Name() {
			case "MaxCallRecvMsgSize", "WithMaxMsgSize":
				// client side (the replica's dial options): must not go below the library default of 4 MiB
				if k, isK := constInt(call.Call.Args[0]); !isK || k < 4*1024*1024 {
					bad = append(bad, f.Name()+"("+Path(call.Call.Args[0])+") in "+FnName(topParent(fn))+" at "+c.InsPos(ins))
				}
			case "MaxRecvMsgSize", "MaxSendMsgSize", "MaxCallSendMsgSize":
				info = append(info, f.Name()+"("+Path(call.Call.Args[0])+") in "+FnName(topParent(fn)))
			}
		})
	}
	r.Check(len(bad) == 0, "replication:replica-receive-limit", "", "the replica does not lower its receive limit below the gRPC default (4 MiB)",
		"the replica's receive limit is lowered ("+strings.Join(bad, "; ")+") while the primary caps its catch-up batches by entry count (100), not by bytes: a batch above the limit fails with ResourceExhausted on every retry and the replica never gets past it")
	r.Info("replication:message-size-options", "", "other size options: "+strings.Join(info, "; ")+". Not decided: catch-up batches are capped by count only, so a batch can exceed even the default limits (a limitation of the unmodified tree at 4 MiB / 16 MiB)")
}

// sameFieldLoad: two loads of the same field of the same base value (separate load instructions of x.f).
func sameFieldLoad(a, b ssa.Value) bool {
	if sameValue(a, b) {
		return true
	}
	la, oka := a.(*ssa.UnOp)
	lb, okb := b.(*ssa.UnOp)
	if !oka || !okb || la.Op != token.MUL || lb.Op != token.MUL {
		return false
	}
	fa, oka := la.X.(*ssa.FieldAddr)
	fb, okb := lb.X.(*ssa.FieldAddr)
	return oka && okb && fa.Field == fb.Field && fa.X == fb.X
}

// ruleRetainedBuffersAreFresh: block.NewReader keeps the byte slice it is given (Reader.data) for the life of the reader and
// of every iterator and cache entry made from it. Every caller must therefore hand over memory nobody else writes to: a
// slice allocated in the calling function (or read wholesale from the file), never a buffer kept in a struct and reused.
func ruleRetainedBuffersAreFresh(c *Ctx, r *Reporter) {
	r.Rule("retained-buffers-are-fresh", 2)
	nr := c.Func("pkg/sstable/block", "", "NewReader")
	if nr == nil || len(nr.Params) < 1 {
		r.Unresolved("block.NewReader", "not found")
		return
	}
	// does it retain its argument?
	retains := false
	AllInstrs(nr, false, func(_ *ssa.Function, ins ssa.Instruction) {
		if st, ok := ins.(*ssa.Store); ok {
			if _, isField := st.Addr.(*ssa.FieldAddr); isField {
				v := st.Val
				for i := 0; i < 3; i++ {
					if sl, ok := v.(*ssa.Slice); ok {
						v = sl.X
					}
				}
				if v == ssa.Value(nr.Params[0]) {
					retains = true
				}
			}
		}
	})
	if !retains {
		r.Info("block.NewReader:retains", c.FnPos(nr), "NewReader does not keep its argument (copies it): callers may reuse their buffers")
		r.OK("block.NewReader:callers", c.FnPos(nr), "nothing to require of callers")
		return
	}
	n := 0
	for _, e := range c.Callers(nr) {
		caller := e.Caller.Func
		if !c.InKevo(caller) || e.Site == nil {
			continue
		}
		n++
		arg := e.Site.Common().Args[0]
		fresh := isFreshBytes(arg, 0)
		if !fresh {
			// a parameter of the caller: one level up
			if p, ok := arg.(*ssa.Parameter); ok {
				fresh = true
				idx := paramIndex(caller, p)
				for _, e2 := range c.Callers(caller) {
					if c.InKevo(e2.Caller.Func) && e2.Site != nil && idx < len(e2.Site.Common().Args) {
						if !isFreshBytes(e2.Site.Common().Args[idx], 0) {
							fresh = false
						}
					}
				}
			}
		}
		r.Check(fresh, "block.NewReader<-"+FnName(topParent(caller)), c.InsPos(e.Site), "the block bytes are allocated for this reader alone",
			"block.NewReader keeps the slice it is given, and this caller passes memory that is not exclusively the reader's ("+Path(arg)+"): a later read into the same buffer changes the bytes under iterators and cached blocks made earlier (entries vanish or turn into garbage without any error)")
	}
	if n == 0 {
		r.Undecided("block.NewReader:callers", c.FnPos(nr), "no live caller found")
	}
}

// ruleReaderLimitsCoverFormat: a sanity limit in the block decoder on a key length must not be below what the format can
// encode (key lengths are 16-bit fields: up to 65535 bytes); otherwise entries the writer produced are rejected on read and —
// because the iterators treat a failed decode as the end of the block — vanish silently together with the rest of their block.
func ruleReaderLimitsCoverFormat(c *Ctx, r *Reporter) {
	r.Rule("reader-limits-cover-the-format", 1)
	const maxKey = 65535
	n := 0
	for _, fn := range c.KevoFns {
		if pkgOf(fn) != "pkg/sstable/block" || fn.Parent() != nil {
			continue
		}
		// only decode-side functions: reachable from the iterator's decode methods or named validate*
		if !strings.HasPrefix(fn.Name(), "validate") && !strings.HasPrefix(fn.Name(), "decode") {
			continue
		}
		for _, b := range fn.Blocks {
			if len(b.Instrs) == 0 {
				continue
			}
			iff, ok := b.Instrs[len(b.Instrs)-1].(*ssa.If)
			if !ok {
				continue
			}
			bo, ok := iff.Cond.(*ssa.BinOp)
			if !ok {
				continue
			}
			x, y, op := bo.X, bo.Y, bo.Op
			if _, isK := constInt(x); isK {
				x, y, op = y, x, flipOp(op)
			}
			k, isK := constInt(y)
			if !isK || (op != token.GTR && op != token.GEQ) || k < 256 {
				continue
			}
			// x is built from 16-bit length values only
			if !fromUint16Lengths(x, 0) {
				continue
			}
			// the true edge rejects (leads to a failing / false return)
			n++
			limit := k
			if op == token.GEQ {
				limit = k - 1
			}
			r.Check(limit >= maxKey, fmt.Sprintf("%s:limit[%s]", FnName(fn), CondString(bo)), c.InsPos(iff), fmt.Sprintf("accepts key lengths up to %d ≥ 65535", limit),
				fmt.Sprintf("the decoder rejects key lengths above %d although the format encodes up to 65535: such keys are written without complaint and silently disappear on read, with the rest of their block", limit))
		}
	}
	if n == 0 {
		r.Info("block:decoder-limits", "", "no constant upper limit on key lengths in the decoder")
		r.OK("block:decoder-limits:none", "", "nothing to compare")
	}
}

func fromUint16Lengths(v ssa.Value, d int) bool {
	if d > 5 {
		return false
	}
	switch x := v.(type) {
	case *ssa.Convert:
		return fromUint16Lengths(x.X, d+1)
	case *ssa.BinOp:
		if x.Op == token.ADD {
			return fromUint16Lengths(x.X, d+1) && fromUint16Lengths(x.Y, d+1)
		}
		return false
	case *ssa.Parameter:
		return x.Type().String() == "uint16"
	case *ssa.Call:
		return strings.HasSuffix(staticName(x), ".Uint16")
	}
	return v.Type().String() == "uint16"
}

// ---------------------------------------------------------------- SSTable seek: floor vs lower bound

// ruleBlockSeekInterval: block.Iterator.Seek searches the restart points (keys of every 16th entry). The entry with the
// first key >= target lies in the interval that STARTS at the last restart point whose key is <= target. A search that finds
// the first restart point whose key is >= target (a lower bound) must therefore look at the interval before that point
// unless the restart key equals the target. Decided by two tables: (a) the update table of one search iteration classifies
// the search (lower-bound / floor); (b) for a lower-bound search, the post-loop row "found restart has a key > target and is
// not the first restart" must examine another position before it answers.
func ruleBlockSeekInterval(c *Ctx, r *Reporter) {
	r.Rule("seek-lands-in-the-right-interval", 1)
	fn := c.Func("pkg/sstable/block", "Iterator", "Seek")
	if fn == nil {
		r.Unresolved("block.Iterator.Seek", "not found")
		return
	}
	name := FnName(fn)
	// the search loop: a loop whose header compares two integer phis (left < right) and whose body indexes restartPoints
	var loop *GenericLoop
	var leftPhi, rightPhi *ssa.Phi
	findSearch := func(f *ssa.Function) bool {
		for _, l := range GenericLoops(f) {
			iff, ok := l.Header.Instrs[len(l.Header.Instrs)-1].(*ssa.If)
			if !ok {
				continue
			}
			bo, ok := iff.Cond.(*ssa.BinOp)
			if !ok || (bo.Op != token.LSS && bo.Op != token.LEQ) {
				continue
			}
			lp, ok1 := bo.X.(*ssa.Phi)
			rp, ok2 := bo.Y.(*ssa.Phi)
			if ok1 && ok2 && lp.Block() == l.Header && rp.Block() == l.Header {
				loop, leftPhi, rightPhi = l, lp, rp
			}
		}
		return loop != nil
	}
	// Seek may delegate the search to a primitive on the same receiver that is given the target (SeekFloor): the
	// search is then judged there, and what Seek makes of the primitive's answer is judged here (seekComposition)
	seekFn := fn
	var delegate *ssa.Call
	if !findSearch(fn) && len(fn.Params) >= 2 {
		AllInstrs(fn, false, func(_ *ssa.Function, ins ssa.Instruction) {
			call, ok := ins.(*ssa.Call)
			if !ok || delegate != nil || call.Call.StaticCallee() == nil || len(call.Call.Args) < 2 {
				return
			}
			if call.Call.Args[0] == ssa.Value(fn.Params[0]) && call.Call.Args[1] == ssa.Value(fn.Params[1]) && len(call.Call.StaticCallee().Blocks) > 0 && findSearch(call.Call.StaticCallee()) {
				delegate = call
			}
		})
		if delegate != nil {
			fn = delegate.Call.StaticCallee()
		}
	}
	if loop == nil {
		r.Info(name+":search", c.FnPos(fn), "no binary search over two integer bounds found: the landing position is not decided by this rule")
		r.OK(name+":search-shape", c.FnPos(fn), "nothing recognised to judge")
		return
	}
	// the comparison of the probed key with the target inside the loop
	var cmpCall *ssa.Call
	for _, b := range fn.Blocks {
		if !loop.Contains(b) {
			continue
		}
		for _, ins := range b.Instrs {
			if call, ok := ins.(*ssa.Call); ok && staticName(call) == "bytes.Compare" {
				cmpCall = call
			}
		}
	}
	if cmpCall == nil {
		r.Info(name+":search", c.FnPos(fn), "the search loop does not compare keys with bytes.Compare: not decided")
		r.OK(name+":search-shape", c.FnPos(fn), "nothing recognised to judge")
		return
	}
	// target as second argument? normalise the sign: probe vs target
	sign := int64(1)
	if _, isParam := cmpCall.Call.Args[0].(*ssa.Parameter); isParam {
		sign = -1 // Compare(target, probe)
	}
	classify := func(cmp int64) (string, string) {
		ten := int64(10)
		sc := &Scenario{Terms: map[string]int64{}, Bools: map[string]bool{}, Vals: map[ssa.Value]int64{cmpCall: cmp * sign, leftPhi: 2, rightPhi: 6}, BoolVals: map[ssa.Value]bool{}, DefaultInt: &ten}
		AllInstrs(fn, false, func(_ *ssa.Function, ins ssa.Instruction) {
			if ex, ok := ins.(*ssa.Extract); ok && ex.Type().String() == "bool" {
				sc.BoolVals[ex] = true // decode succeeded
			}
		})
		res := EvalLoopIter(loop, sc)
		if res.Err != "" || res.Reached != loop.Header {
			return "?", "?"
		}
		desc := func(phi *ssa.Phi) string {
			v := res.PhiNext(phi)
			if v == nil || v == ssa.Value(phi) {
				return "same"
			}
			// mid = (left+right)/2 ; mid+1 ; mid-1
			if bo, ok := v.(*ssa.BinOp); ok {
				if k, isK := constInt(bo.Y); isK && k == 1 {
					if bo.Op == token.ADD {
						return "mid+1"
					}
					if bo.Op == token.SUB {
						return "mid-1"
					}
				}
				if bo.Op == token.QUO || bo.Op == token.SHR {
					return "mid"
				}
			}
			return "other"
		}
		return desc(leftPhi), desc(rightPhi)
	}
	ltL, ltR := classify(-1) // probe < target
	geL, geR := classify(+1) // probe > target
	eqL, eqR := classify(0)
	kind := "unknown"
	switch {
	case ltL == "mid+1" && ltR == "same" && geL == "same" && geR == "mid" && eqL == "same" && eqR == "mid":
		kind = "lower-bound" // ends at the first restart point whose key is >= target
	case ltL == "mid" && geR == "mid-1":
		kind = "floor" // ends at the last restart point whose key is <= target
	}
	r.Notes = append(r.Notes, fmt.Sprintf("C11 block.Seek search table: probe<target → left=%s right=%s; probe>target → left=%s right=%s; probe==target → left=%s right=%s ⇒ %s", ltL, ltR, geL, geR, eqL, eqR, kind))
	if kind == "unknown" {
		r.Info(name+":search", c.blockPos(loop.Header), "search update table not recognised (left/right updates: <: "+ltL+"/"+ltR+", >: "+geL+"/"+geR+"): the landing position is not decided by this rule")
		r.OK(name+":search-shape", c.FnPos(fn), "nothing recognised to judge")
		return
	}
	if kind == "floor" {
		// a floor search keeps `left = mid`: with two candidates left it makes progress only if mid is the UPPER one
		var midV ssa.Value
		for _, b := range fn.Blocks {
			if !loop.Contains(b) {
				continue
			}
			for _, ins := range b.Instrs {
				if bo, ok := ins.(*ssa.BinOp); ok && (bo.Op == token.QUO || bo.Op == token.SHR) && midV == nil {
					midV = bo
				}
			}
		}
		if up, known := midRoundsUp(midV); known && !up {
			r.Bad(name+":search-shape", c.blockPos(loop.Header), "the floor search keeps `left = mid` but computes mid rounded DOWN: with two restart points left (right = left+1) and the lower one <= target, mid is left again and the loop never ends — the first seek into a block with two or more restart points hangs")
			return
		}
		r.OK(name+":search-shape", c.blockPos(loop.Header), "floor search: ends at the last restart point whose key is <= target; the forward scan starts in the right interval")
		if delegate != nil {
			seekComposition(c, r, seekFn, delegate, name)
		}
		return
	}
	// lower-bound: post-loop row
	var done *ssa.BasicBlock
	for _, s := range loop.Header.Succs {
		if !loop.Contains(s) {
			done = s
		}
	}
	if done == nil {
		r.Undecided(name+":after-search", c.FnPos(fn), "loop exit not found")
		return
	}
	ten := int64(10)
	sc := &Scenario{Terms: map[string]int64{}, Bools: map[string]bool{}, Vals: map[ssa.Value]int64{leftPhi: 3, rightPhi: 3}, BoolVals: map[ssa.Value]bool{}, DefaultInt: &ten, MaxVisits: 3}
	nDecodeSites := 0
	AllInstrs(fn, false, func(_ *ssa.Function, ins ssa.Instruction) {
		if ex, ok := ins.(*ssa.Extract); ok && ex.Type().String() == "bool" {
			sc.BoolVals[ex] = true
		}
		if call, ok := ins.(*ssa.Call); ok && staticName(call) == "bytes.Compare" && !loop.Contains(call.Block()) {
			// first comparison after the search: the restart key is greater than the target; later ones: reached
			nDecodeSites++
			if nDecodeSites == 1 {
				sc.Vals[call] = 1 * sign
			} else {
				sc.Vals[call] = 0
			}
		}
	})
	res := EvalPath(done, loop.Header, sc, nil)
	if res.Err != "" || res.Ret == nil {
		r.Undecided(name+":after-search", c.blockPos(done), "post-search row not decidable: "+res.Err)
		return
	}
	decodes := 0
	for _, e := range res.Effects {
		if e.Kind == "call" && (strings.Contains(e.What, "decodeCurrent") || strings.Contains(e.What, "decodeNext") || strings.Contains(e.What, "decode")) {
			decodes++
		}
	}
	r.Check(decodes >= 2, name+":after-lower-bound-search", c.blockPos(done),
		"when the restart point found has a key greater than the target (and is not the first), the iterator examines the interval before it",
		"the restart search ends at the FIRST restart point whose key is >= target, and when that key is greater than the target the iterator answers with it at once: the entries between the previous restart point and this one — among them the target, unless it sits exactly on a restart point — are never examined. A point lookup misses 15 of every 16 keys of a block, and a range scan starts too late")
}

// midRoundsUp: v = (a + b [+ 1]) / 2 or >> 1 — does the midpoint round up? known=false for any other shape.
func midRoundsUp(v ssa.Value) (up bool, known bool) {
	bo, ok := v.(*ssa.BinOp)
	if !ok {
		return false, false
	}
	if k, isK := constInt(bo.Y); !isK || (bo.Op == token.QUO && k != 2) || (bo.Op == token.SHR && k != 1) {
		return false, false
	}
	consts, terms := int64(0), 0
	var flat func(x ssa.Value, d int) bool
	flat = func(x ssa.Value, d int) bool {
		if d > 4 {
			return false
		}
		if k, isK := constInt(x); isK {
			consts += k
			return true
		}
		if b, ok := x.(*ssa.BinOp); ok && b.Op == token.ADD {
			return flat(b.X, d+1) && flat(b.Y, d+1)
		}
		if c, ok := x.(*ssa.Convert); ok {
			return flat(c.X, d+1)
		}
		terms++
		return true
	}
	if !flat(bo.X, 0) || terms != 2 {
		return false, false
	}
	return consts == 1, consts == 0 || consts == 1
}

// seekComposition: Seek built on a floor primitive ("the last key <= target"). The first key >= target is the floor
// itself only when it EQUALS the target; otherwise it is the entry after the floor, or the first entry when there is no
// floor. So: a success that Seek reports without moving on must be guarded by an equality test of a key with the
// target (or be the answer of the step/rewind it has just made), and the floor's answer may not be returned as it is.
func seekComposition(c *Ctx, r *Reporter, seek *ssa.Function, floor *ssa.Call, name string) {
	cons := name + ":floor-then-step"
	target := ssa.Value(seek.Params[1])
	var eqCalls []*ssa.Call
	AllInstrs(seek, false, func(_ *ssa.Function, ins ssa.Instruction) {
		call, ok := ins.(*ssa.Call)
		if !ok {
			return
		}
		if sn := staticName(call); (sn == "bytes.Equal" || sn == "bytes.Compare") && (call.Call.Args[0] == target || call.Call.Args[1] == target) {
			eqCalls = append(eqCalls, call)
		}
	})
	equalFact := func(cond ssa.Value) (bool, bool) {
		for _, call := range eqCalls {
			if staticName(call) == "bytes.Equal" {
				if t, f := callTrueFact(call)(cond); t || f {
					return t, f
				}
				continue
			}
			if bo, ok := cond.(*ssa.BinOp); ok {
				x, y := bo.X, bo.Y
				if k, isK := constInt(x); isK && k == 0 && y == ssa.Value(call) {
					x, y = y, x
				}
				if k, isK := constInt(y); isK && k == 0 && x == ssa.Value(call) {
					switch bo.Op {
					case token.EQL:
						return true, false
					case token.NEQ:
						return false, true
					}
				}
			}
		}
		return false, false
	}
	for _, ret := range Returns(seek) {
		v := ReturnValue(ret, 0)
		if b, isK := constBool(v); isK {
			if !b {
				continue
			}
			if !Dominates(floor, ret) {
				continue // a success before the floor was asked: not this rule's
			}
			if !GuardedBy(ret.Block(), equalFact) {
				r.Bad(cons, c.InsPos(ret), "Seek reports success on the floor entry (the last key <= target) without having established that it EQUALS the target: for a target between two keys the iterator lands on the smaller one — a range scan delivers a key below its start, a point lookup compares the wrong entry")
				return
			}
			continue
		}
		if v == ssa.Value(floor) {
			r.Bad(cons, c.InsPos(ret), "Seek returns the floor primitive's answer as its own: 'the last key <= target' is not 'the first key >= target' unless they are equal")
			return
		}
		if call, ok := v.(*ssa.Call); ok && call.Call.StaticCallee() != nil && len(call.Call.Args) > 0 && call.Call.Args[0] == ssa.Value(seek.Params[0]) {
			switch call.Call.StaticCallee().Name() {
			case "Next", "Valid":
				continue
			}
		}
		r.Undecided(cons, c.InsPos(ret), "a result of Seek that is neither a constant, nor guarded by an equality with the target, nor the answer of Next/Valid: "+v.String())
		return
	}
	r.OK(cons, c.FnPos(seek), "Seek answers with the floor only when it equals the target, otherwise with the entry after it (or the first entry)")
}

// ruleIndexSeekAgreement: the index block holds one key per data block. The writer stores the block's FIRST key; a reader
// that positions the index with a lower-bound seek (first index key >= target) must step back to the previous entry unless
// the index key equals the target, because the target lies in the block that STARTS at or before it.
func ruleIndexSeekAgreement(c *Ctx, r *Reporter) {
	r.Rule("index-seek-agrees-with-index-key", 1)
	// writer: which key of the block goes into the index
	kind := "?"
	fk := c.Field("pkg/sstable", "IndexEntry", "FirstKey")
	for _, fn := range c.KevoFns {
		if pkgOf(fn) != "pkg/sstable" {
			continue
		}
		AllInstrs(fn, false, func(_ *ssa.Function, ins ssa.Instruction) {
			st, ok := ins.(*ssa.Store)
			if !ok || fk == nil || fieldVarOf(st.Addr) != fk {
				return
			}
			// value: entries[0].Key (first) or entries[len-1].Key (last)
			v := st.Val
			if ld, ok := v.(*ssa.UnOp); ok && ld.Op == token.MUL {
				if fa, ok := ld.X.(*ssa.FieldAddr); ok {
					var ia *ssa.IndexAddr
					switch el := fa.X.(type) {
					case *ssa.UnOp:
						ia, _ = el.X.(*ssa.IndexAddr)
					case *ssa.IndexAddr:
						ia = el
					}
					if ia != nil {
						if k, isK := constInt(ia.Index); isK && k == 0 {
							kind = "first"
						} else {
							kind = "last-or-other"
						}
					}
				}
			}
		})
	}
	seek := c.Func("pkg/sstable", "Iterator", "Seek")
	if seek == nil || fk == nil {
		r.Unresolved("sstable.Iterator.Seek / IndexEntry.FirstKey", "not found")
		return
	}
	// reader: methods called on the index iterator before the data block is loaded, on the path where the index seek succeeded
	idxF := c.Field("pkg/sstable", "Iterator", "indexIterator")
	var methods []string
	for _, h := range withSameReceiverHelpers(seek) { // the positioning may sit in an extracted helper
		call, ok := h.ins.(*ssa.Call)
		if !ok || call.Call.StaticCallee() == nil || len(call.Call.Args) == 0 {
			continue
		}
		if isLoadOfField(call.Call.Args[0], idxF) {
			methods = append(methods, call.Call.StaticCallee().Name())
		}
	}
	stepsBack := false
	for _, m := range methods {
		switch m {
		case "Prev", "SeekForPrev", "SeekFloor", "SeekLE", "SeekToPrev":
			stepsBack = true
		}
	}
	cons := "sstable.Iterator.Seek~sstable.IndexEntry.FirstKey"
	if kind != "first" {
		r.Info(cons, c.FnPos(seek), "index key kind '"+kind+"': not judged")
		r.OK(cons+":kind", c.FnPos(seek), "nothing recognised to judge")
		return
	}
	// the point-lookup path positions its own index iterator: same agreement
	if fb := c.Func("pkg/sstable", "Reader", "FindBlockForKey"); fb != nil && len(fb.Params) >= 2 {
		var ms []string
		back := false
		AllInstrs(fb, false, func(_ *ssa.Function, ins ssa.Instruction) {
			call, ok := ins.(*ssa.Call)
			if !ok || call.Call.StaticCallee() == nil || recvTypeName(call.Call.StaticCallee()) != "block.Iterator" || len(call.Call.Args) < 2 || call.Call.Args[1] != ssa.Value(fb.Params[1]) {
				return
			}
			ms = append(ms, call.Call.StaticCallee().Name())
			switch call.Call.StaticCallee().Name() {
			case "Prev", "SeekForPrev", "SeekFloor", "SeekLE", "SeekToPrev":
				back = true
			}
		})
		fcons := "sstable.Reader.FindBlockForKey~sstable.IndexEntry.FirstKey"
		if len(ms) == 0 {
			r.Info(fcons, c.FnPos(fb), "the index is not positioned by the key (every block is a candidate): nothing to agree on")
		} else {
			r.Check(back, fcons, c.FnPos(fb), "the candidate blocks start at the last index entry <= key",
				"the index holds each block's FIRST key, and FindBlockForKey starts its candidate list at the first index key >= key ("+strings.Join(ms, ", ")+"): the block that contains the key — the one that starts at or before it — is not among the candidates unless the key is the first of its block, so Reader.Get misses it")
		}
	}
	r.Check(stepsBack, cons, c.FnPos(seek), "the index holds each block's first key and the reader positions on the last entry <= target",
		"the index holds each block's FIRST key, and the reader positions the index with a lower-bound seek ("+strings.Join(methods, ", ")+") and loads that block: for a target that is not the first key of a block this is the block AFTER the one that contains it; the search then only moves forward. In a table with several blocks a point lookup finds only the first key of each block, and a range scan skips the tail of the block its start key lies in")
}

// ruleMemTableGetTable: MemTable.Get answers (nil,false) for no entry, (nil,true) for a deletion marker and (value,true) for a
// value — on the lock-free immutable arm exactly as on the locked mutable arm (decision table over both arms).
func ruleMemTableGetTable(c *Ctx, r *Reporter) {
	r.Rule("memtable-get-table", 6)
	fn := c.Func("pkg/memtable", "MemTable", "Get")
	find := c.Func("pkg/memtable", "SkipList", "Find")
	imm := c.Func("pkg/memtable", "MemTable", "IsImmutable")
	kDel := c.Const("pkg/memtable", "TypeDeletion")
	kVal := c.Const("pkg/memtable", "TypeValue")
	if fn == nil || find == nil || imm == nil || kDel == nil || kVal == nil {
		r.Unresolved("memtable.MemTable.{Get,IsImmutable} / SkipList.Find / TypeDeletion / TypeValue", "not found")
		return
	}
	del, _ := constantInt(kDel)
	val, _ := constantInt(kVal)
	for _, immutable := range []bool{true, false} {
		for _, row := range []struct {
			name      string
			entry     int64
			vt        int64
			wantFound bool
			wantNil   bool
		}{{"no entry", NilRank, val, false, true}, {"deletion marker", 7, del, true, true}, {"value", 7, val, true, false}} {
			one := int64(1)
			sc := &Scenario{Terms: map[string]int64{}, Bools: map[string]bool{}, Vals: map[ssa.Value]int64{}, BoolVals: map[ssa.Value]bool{}, DefaultInt: &one}
			AllInstrs(fn, false, func(_ *ssa.Function, ins ssa.Instruction) {
				switch x := ins.(type) {
				case *ssa.Call:
					switch x.Call.StaticCallee() {
					case find:
						sc.Vals[x] = row.entry
					case imm:
						sc.BoolVals[x] = immutable
					}
				case *ssa.UnOp:
					if x.Op == token.MUL {
						if fa, ok := x.X.(*ssa.FieldAddr); ok && fieldName(fa) == "valueType" {
							sc.Vals[x] = row.vt
						}
					}
				}
			})
			res := EvalPath(fn.Blocks[0], nil, sc, nil)
			// the answer delegated to a helper (`return foundResult(e)`): the row is continued in the helper, which sees
			// the same entry
			if res.Err == "" && res.Ret != nil && len(res.Ret.Results) == 2 {
				if ex, ok := ReturnValue(res.Ret, 0).(*ssa.Extract); ok {
					if call, ok := ex.Tuple.(*ssa.Call); ok {
						if h := call.Call.StaticCallee(); h != nil && len(h.Blocks) > 0 && pkgOf(h) == "pkg/memtable" && h != fn {
							AllInstrs(h, false, func(_ *ssa.Function, ins ssa.Instruction) {
								if x, ok := ins.(*ssa.UnOp); ok && x.Op == token.MUL {
									if fa, ok := x.X.(*ssa.FieldAddr); ok && fieldName(fa) == "valueType" {
										sc.Vals[x] = row.vt
									}
								}
							})
							for _, prm := range h.Params {
								if strings.HasSuffix(prm.Type().String(), "memtable.entry") {
									sc.Vals[prm] = row.entry
								}
							}
							res = EvalPath(h.Blocks[0], nil, sc, nil)
						}
					}
				}
			}
			cons := fmt.Sprintf("memtable.MemTable.Get[%s,%s]", map[bool]string{true: "immutable", false: "mutable"}[immutable], row.name)
			if res.Err != "" || res.Ret == nil || len(res.RetVals) != 2 || res.RetVals[1].Kind != "bool" {
				r.Undecided(cons, c.FnPos(fn), "row not decidable: "+res.Err)
				continue
			}
			gotNil := res.RetVals[0].Kind == "int" && res.RetVals[0].I == NilRank
			gotFound := res.RetVals[1].B
			okRow := gotFound == row.wantFound && gotNil == row.wantNil
			if !row.wantNil && !gotNil && !strings.HasSuffix(strings.TrimRight(res.RetPaths[0], ")"), ".value") {
				okRow = false
			}
			r.Check(okRow, cons, c.InsPos(res.Ret), fmt.Sprintf("returns (%s, %v)", map[bool]string{true: "nil", false: res.RetPaths[0]}[gotNil], gotFound),
				fmt.Sprintf("for %s on the %s arm Get returns (%s, %v); required (%s, %v): %s", row.name, map[bool]string{true: "immutable (lock-free)", false: "mutable"}[immutable],
					map[bool]string{true: "nil", false: res.RetPaths[0]}[gotNil], gotFound, map[bool]string{true: "nil", false: "the entry's value"}[row.wantNil], row.wantFound,
					"a deletion marker must count as found-but-deleted, otherwise the lookup falls through to older tables and a deleted key comes back with its old value"))
		}
	}
}

// ruleReplNoReentrancy: the self-deadlock rule of C07 applied to the replication package (a method that holds a lock of its
// receiver calls a method of the same receiver that takes it again — e.g. unregistering a session from inside the broadcast
// loop that holds Primary.mu shared). On the primary this happens inside wal.Append, with the WAL lock held.
func ruleReplNoReentrancy(c *Ctx, r *Reporter) {
	r.Rule("no-reentrancy-in-replication", 5)
	checkNoReentrancy(c, r, func(fn *ssa.Function) bool { return pkgOf(fn) == "pkg/replication" })
}

// ruleLockReleasedOnEveryExit: pairing — in every function, a lock acquired on a path is released (directly or by a deferred
// unlock already registered) before every return that path can reach. Hand-over functions that return holding a lock by
// design are listed with the function that releases it.
var lockHandOver = map[string]string{
	"transaction.Manager.BeginTransaction|transaction.Manager.txLock": "released by TransactionImpl.Commit/Rollback through releaseReadLock/releaseWriteLock (C04/C17 release-at-end)",
}

func ruleLockReleasedOnEveryExit(c *Ctx, r *Reporter) {
	r.Rule("lock-released-on-every-exit", 150)
	for _, fn := range c.KevoFns {
		p := pkgOf(fn)
		if !strings.HasPrefix(p, "pkg/") || strings.HasPrefix(p, "pkg/client") || p == "pkg/engine/transaction" {
			continue // pkg/engine/transaction: a second transaction implementation nobody imports (dead)
		}
		type acq struct {
			ins  ssa.Instruction
			op   LockOp
			base ssa.Value
		}
		var acqs []acq
		for _, b := range fn.Blocks {
			for _, ins := range b.Instrs {
				call, ok := ins.(*ssa.Call)
				if !ok {
					continue
				}
				if op, ok := lockOpOfCommon(call.Common()); ok && op.Acquire {
					acqs = append(acqs, acq{ins, op, lockBase(call.Common())})
				}
			}
		}
		for i, a := range acqs {
			a := a
			isRelease := func(x ssa.Instruction) bool {
				var cc *ssa.CallCommon
				switch y := x.(type) {
				case *ssa.Call:
					cc = y.Common()
				case *ssa.Defer:
					cc = y.Common()
					// defer func() { mu.Unlock() }()
					if mc, ok := y.Call.Value.(*ssa.MakeClosure); ok {
						rel := false
						AllInstrs(mc.Fn.(*ssa.Function), false, func(_ *ssa.Function, z ssa.Instruction) {
							if cl, ok := z.(*ssa.Call); ok {
								if op, ok := lockOpOfCommon(cl.Common()); ok && !op.Acquire && op.ID == a.op.ID {
									rel = true
								}
							}
						})
						return rel
					}
				default:
					return false
				}
				op, ok := lockOpOfCommon(cc)
				if !ok || op.Acquire || op.ID != a.op.ID {
					return false
				}
				return sameLockBase(lockBase(cc), a.base)
			}
			hit, path := ReachE(fn, a.ins, func(x ssa.Instruction) bool { _, isR := x.(*ssa.Return); return isR }, isRelease, nil)
			cons := fmt.Sprintf("%s:%s#%d", FnName(fn), a.op.ID, i)
			if hit == nil {
				r.OK(cons, c.InsPos(a.ins), "released (or deferred) before every return")
				continue
			}
			if why, ok := lockHandOver[FnName(topParent(fn))+"|"+a.op.ID]; ok {
				r.OK(cons, c.InsPos(a.ins), "hand-over by design: "+why)
				continue
			}
			// a release helper called on the way (same receiver): e.g. releaseWriteLock()
			viaHelper := false
			hit2, _ := ReachE(fn, a.ins, func(x ssa.Instruction) bool { _, isR := x.(*ssa.Return); return isR }, func(x ssa.Instruction) bool {
				if isRelease(x) {
					return true
				}
				var cc *ssa.CallCommon
				switch y := x.(type) {
				case *ssa.Call:
					cc = y.Common()
				case *ssa.Defer:
					cc = y.Common()
				default:
					return false
				}
				if g := cc.StaticCallee(); g != nil && c.InKevo(g) && len(g.Blocks) > 0 {
					rel := false
					AllInstrs(g, true, func(_ *ssa.Function, z ssa.Instruction) {
						if cl, ok := z.(*ssa.Call); ok {
							if op, ok := lockOpOfCommon(cl.Common()); ok && !op.Acquire && op.ID == a.op.ID {
								rel = true
							}
						}
					})
					return rel
				}
				return false
			}, nil)
			if hit2 == nil {
				viaHelper = true
			}
			if viaHelper {
				r.OK(cons, c.InsPos(a.ins), "released through a helper before every return")
				continue
			}
			r.Bad(cons, c.InsPos(a.ins), "a return is reachable after this acquisition without a release of "+a.op.ID+" (no unlock on the path and no deferred unlock registered before it): the lock stays held and the next user of it blocks for ever", c.PathString(path)...)
		}
	}
}

func sameLockBase(a, b ssa.Value) bool {
	if a == nil || b == nil {
		return false
	}
	if sameValue(a, b) {
		return true
	}
	fa, oka := a.(*ssa.FieldAddr)
	fb, okb := b.(*ssa.FieldAddr)
	if oka && okb && fa.Field == fb.Field {
		return sameLockBase(fa.X, fb.X) || sameValue(fa.X, fb.X) || sameFieldLoad(fa.X, fb.X)
	}
	// two loads of the same captured variable / cell
	la, oka := a.(*ssa.UnOp)
	lb, okb := b.(*ssa.UnOp)
	if oka && okb && la.Op == token.MUL && lb.Op == token.MUL && la.X == lb.X {
		return true
	}
	return false
}

// ruleReflectiveDoors: the transaction registry reaches the engine reflectively (reflect.Value.MethodByName), which the call
// graph cannot see. The only door it may use is the engine's own BeginTransaction — the facade method that downgrades a
// replica's transactions to read-only. Any other reflective method name (or a non-constant one) is a way around the guard.
func ruleReflectiveDoors(c *Ctx, r *Reporter) {
	r.Rule("reflective-calls-use-the-guarded-door", 1)
	allowed := map[string]bool{"BeginTransaction": true}
	n := 0
	var bad []string
	for _, fn := range c.KevoFns {
		p := pkgOf(fn)
		if p != "pkg/transaction" && p != "pkg/grpc/service" && p != "pkg/engine" {
			continue
		}
		AllInstrs(fn, false, func(_ *ssa.Function, ins ssa.Instruction) {
			call, ok := ins.(*ssa.Call)
			if !ok {
				return
			}
			switch staticName(call) {
			case "(reflect.Value).MethodByName", "(reflect.Value).Method", "(reflect.Value).FieldByName", "(reflect.Value).Call":
			default:
				return
			}
			if staticName(call) == "(reflect.Value).Call" {
				return
			}
			n++
			if s, isS := constString(call.Call.Args[len(call.Call.Args)-1]); isS && allowed[s] && staticName(call) == "(reflect.Value).MethodByName" {
				return
			}
			bad = append(bad, staticName(call)+"("+Path(call.Call.Args[len(call.Call.Args)-1])+") in "+FnName(topParent(fn))+" at "+c.InsPos(ins))
		})
	}
	if n == 0 {
		r.Info("transaction:reflective-lookups", "", "no reflective method lookup left")
		r.OK("transaction:reflective-lookups:none", "", "nothing to restrict")
		return
	}
	r.Check(len(bad) == 0, "transaction:reflective-lookups", "", fmt.Sprintf("%d reflective lookup(s), all of the engine's BeginTransaction", n),
		"the engine is reached reflectively through another door than its BeginTransaction ("+strings.Join(bad, "; ")+"): the facade's BeginTransaction is the only place where a read-only (replica) engine downgrades a client's transaction, so a client of a replica can commit writes")
}

// ruleKeepalivePings: a replica behind a silently cut connection (no FIN/RST) is only noticed because the primary's gRPC
// server pings idle connections: keepalive.ServerParameters.Time must be set to a positive constant (the library default
// is two hours) together with a Timeout. MaxConnectionIdle is not a substitute: a replica always has its stream open.
func ruleKeepalivePings(c *Ctx, r *Reporter) {
	r.Rule("keepalive-pings-enabled", 1)
	found := false
	for _, fn := range c.KevoFns {
		if pkgOf(fn) != "pkg/replication" {
			continue
		}
		AllInstrs(fn, false, func(_ *ssa.Function, ins ssa.Instruction) {
			al, ok := ins.(*ssa.Alloc)
			if !ok || !strings.HasSuffix(deref(al.Type()).String(), "keepalive.ServerParameters") || al.Referrers() == nil {
				return
			}
			found = true
			fields := map[string]int64{}
			for _, ref := range *al.Referrers() {
				fa, ok := ref.(*ssa.FieldAddr)
				if !ok || fa.Referrers() == nil {
					continue
				}
				for _, rr := range *fa.Referrers() {
					if st, ok := rr.(*ssa.Store); ok {
						if k, isK := constInt(st.Val); isK {
							fields[fieldName(fa)] = k
						} else {
							fields[fieldName(fa)] = -1
						}
					}
				}
			}
			const hour = int64(3600) * 1e9
			t, hasT := fields["Time"]
			_, hasTo := fields["Timeout"]
			ok2 := hasT && t > 0 && t <= hour && hasTo
			r.Check(ok2, FnName(topParent(fn))+":keepalive.ServerParameters", c.InsPos(ins), fmt.Sprintf("Time=%ds with a Timeout: idle connections are pinged", t/1e9),
				fmt.Sprintf("the primary's gRPC server is not configured to ping its peers (Time set: %v, Timeout set: %v; fields set: %v): with the default of two hours a replica behind a silently cut connection stays in the topology, and once the send window towards it is full the blocking Send stalls client writes", hasT && t > 0, hasTo, keysOf(fields)))
		})
	}
	if !found {
		r.Bad("replication:keepalive.ServerParameters", "", "the primary's gRPC server sets no keepalive parameters at all: dead peers are never detected")
	}
}

func keysOf(m map[string]int64) []string {
	var out []string
	for k := range m {
		out = append(out, k)
	}
	sort.Strings(out)
	return out
}

// ruleRecoveryLastTableMutable: recovery hands its LAST memtable to the pool as the active table, and MemTable.Put/Delete
// return silently on an immutable table. So in memtable.RecoverFromWAL a table may be sealed (SetImmutable) only on a path
// that also appends a fresh table behind it before the handler returns: the last table is never sealed.
func ruleRecoveryLastTableMutable(c *Ctx, r *Reporter) {
	r.Rule("recovered-active-table-is-mutable", 1)
	rec := c.Func("pkg/memtable", "", "RecoverFromWAL")
	seal := c.Func("pkg/memtable", "MemTable", "SetImmutable")
	newMT := c.Func("pkg/memtable", "", "NewMemTable")
	if rec == nil || seal == nil || newMT == nil {
		r.Unresolved("memtable.RecoverFromWAL / MemTable.SetImmutable / NewMemTable", "not found")
		return
	}
	n := 0
	fns := append([]*ssa.Function{rec}, rec.AnonFuncs...)
	for _, fn := range fns {
		AllInstrs(fn, false, func(_ *ssa.Function, ins ssa.Instruction) {
			call, ok := ins.(*ssa.Call)
			if !ok || call.Call.StaticCallee() != seal {
				return
			}
			n++
			// a fresh table appended to the recovered list: store of append(list, NewMemTable()) / append(list, x) with x fresh
			isAppendFresh := func(x ssa.Instruction) bool {
				st, ok := x.(*ssa.Store)
				if !ok {
					return false
				}
				ap, ok := st.Val.(*ssa.Call)
				if !ok {
					return false
				}
				b, isB := ap.Call.Value.(*ssa.Builtin)
				if !isB || b.Name() != "append" {
					return false
				}
				return strings.Contains(Path(ap.Call.Args[1]), "NewMemTable") || strings.Contains(fmt.Sprint(ap.Call.Args[1].Type()), "MemTable")
			}
			hit, path := ReachE(fn, ins, func(x ssa.Instruction) bool {
				ret, isR := x.(*ssa.Return)
				return isR && ClassifyReturn(ret) != ExitFailure
			}, isAppendFresh, nil)
			r.Check(hit == nil, FnName(fn)+":seal-then-append", c.InsPos(ins), "a recovered table is sealed only on a path that appends a fresh table behind it",
				"a recovered memtable can be sealed without a fresh table being appended behind it before the handler returns: when the log ends there, the storage manager installs a SEALED table as the active one, MemTable.Put/Delete return silently on it, and the first write after the reopen is logged and acknowledged but never reaches memory", c.PathString(path)...)
		})
	}
	if n == 0 {
		r.Info("memtable.RecoverFromWAL:seal", c.FnPos(rec), "recovery seals no table")
		r.OK("memtable.RecoverFromWAL:seal:none", c.FnPos(rec), "nothing to require")
	}
}

// ---------------------------------------------------------------- round 5

// derivesFrom: v is computed from something satisfying pred through string/path building (Sprintf, Join, +, conversions).
func flowsFromPred(v ssa.Value, pred func(ssa.Value) bool, d int, seen map[ssa.Value]bool) bool {
	if v == nil || d > 10 || seen[v] {
		return false
	}
	seen[v] = true
	if pred(v) {
		return true
	}
	switch x := v.(type) {
	case *ssa.Call:
		for _, a := range x.Call.Args {
			if flowsFromPred(a, pred, d+1, seen) {
				return true
			}
		}
	case *ssa.BinOp:
		return flowsFromPred(x.X, pred, d+1, seen) || flowsFromPred(x.Y, pred, d+1, seen)
	case *ssa.Convert:
		return flowsFromPred(x.X, pred, d+1, seen)
	case *ssa.ChangeType:
		return flowsFromPred(x.X, pred, d+1, seen)
	case *ssa.MakeInterface:
		return flowsFromPred(x.X, pred, d+1, seen)
	case *ssa.Slice:
		return flowsFromPred(x.X, pred, d+1, seen)
	case *ssa.Phi:
		for _, e := range x.Edges {
			if flowsFromPred(e, pred, d+1, seen) {
				return true
			}
		}
	case *ssa.UnOp:
		if x.Op == token.MUL {
			// varargs array cell / local cell: what was stored there
			switch a := x.X.(type) {
			case *ssa.Alloc:
				for _, ref := range *a.Referrers() {
					if st, ok := ref.(*ssa.Store); ok && st.Addr == ssa.Value(a) && flowsFromPred(st.Val, pred, d+1, seen) {
						return true
					}
				}
			case *ssa.IndexAddr:
				return flowsFromPred(a.X, pred, d+1, seen)
			}
		}
	case *ssa.Alloc:
		// a varargs array: any element stored into it
		for _, ref := range *x.Referrers() {
			if ia, ok := ref.(*ssa.IndexAddr); ok && ia.Referrers() != nil {
				for _, rr := range *ia.Referrers() {
					if st, ok := rr.(*ssa.Store); ok && flowsFromPred(st.Val, pred, d+1, seen) {
						return true
					}
				}
			}
		}
	}
	return false
}

// ruleTempFilePerTable: the temporary file an SSTable is written to is named after the table's own file name (so two
// writers in one directory never share it) and lives in the table's directory (so the rename is atomic).
func ruleTempFilePerTable(c *Ctx, r *Reporter) {
	r.Rule("temp-file-is-per-table", 1)
	fn := c.Func("pkg/sstable", "", "NewFileManager")
	if fn == nil || len(fn.Params) < 1 {
		r.Unresolved("sstable.NewFileManager", "not found")
		return
	}
	path := ssa.Value(fn.Params[0])
	var create *ssa.Call
	AllInstrs(fn, false, func(_ *ssa.Function, ins ssa.Instruction) {
		if call, ok := ins.(*ssa.Call); ok && (staticName(call) == "os.Create" || staticName(call) == "os.OpenFile") {
			create = call
		}
	})
	if create == nil {
		r.Undecided("sstable.NewFileManager:create", c.FnPos(fn), "no file creation found")
		return
	}
	isBaseOfPath := func(v ssa.Value) bool {
		call, ok := v.(*ssa.Call)
		return ok && staticName(call) == "path/filepath.Base" && call.Call.Args[0] == path
	}
	isPathItself := func(v ssa.Value) bool { return v == path }
	named := flowsFromPred(create.Call.Args[0], isBaseOfPath, 0, map[ssa.Value]bool{}) || flowsFromPred(create.Call.Args[0], isPathItself, 0, map[ssa.Value]bool{}) && !flowsFromPred(create.Call.Args[0], func(v ssa.Value) bool {
		call, ok := v.(*ssa.Call)
		return ok && staticName(call) == "path/filepath.Base"
	}, 0, map[ssa.Value]bool{})
	r.Check(named, "sstable.NewFileManager:temp-name", c.InsPos(create), "the temporary file's name contains the table's own file name",
		"the temporary file's name ("+Path(create.Call.Args[0])+") does not depend on the table's own file name: two writers open in the same directory (a flush overlapping a compaction) share one temporary file; the first Finish renames it, the second writes its table into the first one's name")
}

// ruleWalFileWriters: the log file is written through the buffered writer only, and the record write path never flushes or
// syncs on its own. AppendBatch relies on a whole batch reaching the file in one write (the log has no batch frame).
func ruleWalFileWriters(c *Ctx, r *Reporter) {
	r.Rule("log-file-written-through-the-buffer-only", 2)
	a := getWalAnchors(c, r)
	if !a.ok {
		return
	}
	var direct []string
	for _, fn := range c.KevoFns {
		if pkgOf(fn) != "pkg/wal" {
			continue
		}
		AllInstrs(fn, false, func(_ *ssa.Function, ins ssa.Instruction) {
			call, ok := ins.(*ssa.Call)
			if !ok {
				return
			}
			switch staticName(call) {
			case "(*os.File).Write", "(*os.File).WriteString", "(*os.File).WriteAt", "(*os.File).ReadFrom":
				if isLoadOfField(call.Call.Args[0], a.file) {
					direct = append(direct, staticName(call)+" in "+FnName(topParent(fn))+" at "+c.InsPos(ins))
				}
			}
		})
	}
	r.Check(len(direct) == 0, "wal.WAL.file:direct-writes", "", "no direct write to the log file: everything goes through the buffered writer",
		"the log file is written directly, past the buffered writer ("+strings.Join(direct, "; ")+"): part of a batch reaches the file while the rest is still in the buffer, and a stop in between leaves a strict subset of a committed transaction in the log")
	// the record write path does not flush or sync
	var bad []string
	for _, fn := range []*ssa.Function{a.writeRecord, a.writeRaw, a.writeData, a.writeFrag} {
		if fn == nil {
			continue
		}
		AllInstrs(fn, false, func(_ *ssa.Function, ins ssa.Instruction) {
			call, ok := ins.(*ssa.Call)
			if !ok {
				return
			}
			switch staticName(call) {
			case "(*bufio.Writer).Flush", "(*os.File).Sync":
				bad = append(bad, staticName(call)+" in "+FnName(fn)+" at "+c.InsPos(ins))
			}
			if g := call.Call.StaticCallee(); g != nil && (g == a.maybeSync || g == a.syncLocked || g == a.sync) {
				bad = append(bad, FnName(g)+" in "+FnName(fn)+" at "+c.InsPos(ins))
			}
		})
	}
	r.Check(len(bad) == 0, "wal.WAL.writeRecord*:no-flush", "", "the record writers never flush or sync (only the Append* entry points do, after the last record)",
		"a record writer flushes or syncs on its own ("+strings.Join(bad, "; ")+"): inside AppendBatch this puts a prefix of the batch on disk before the rest is written")
}

// ruleReuseNewestOnly: ReuseWAL appends to the NEWEST log file only (the last of the sorted list) — appending to an older
// file puts new operations before the contents of the newer files in replay order.
func ruleReuseNewestOnly(c *Ctx, r *Reporter) {
	r.Rule("reuse-appends-to-the-newest-file", 1)
	reuse := c.Func("pkg/wal", "", "ReuseWAL")
	find := c.Func("pkg/wal", "", "FindWALFiles")
	if reuse == nil || find == nil {
		r.Unresolved("wal.ReuseWAL / FindWALFiles", "not found")
		return
	}
	var open *ssa.Call
	AllInstrs(reuse, false, func(_ *ssa.Function, ins ssa.Instruction) {
		if call, ok := ins.(*ssa.Call); ok && staticName(call) == "os.OpenFile" {
			open = call
		}
	})
	if open == nil {
		r.Undecided("wal.ReuseWAL:open", c.FnPos(reuse), "no os.OpenFile in ReuseWAL")
		return
	}
	// the path opened: files[len(files)-1]
	isLast := func(v ssa.Value) bool {
		ld, ok := v.(*ssa.UnOp)
		if !ok || ld.Op != token.MUL {
			return false
		}
		ia, ok := ld.X.(*ssa.IndexAddr)
		if !ok {
			return false
		}
		sub, ok := ia.Index.(*ssa.BinOp)
		if !ok || sub.Op != token.SUB {
			return false
		}
		k, isK := constInt(sub.Y)
		if !isK || k != 1 {
			return false
		}
		ln, ok := sub.X.(*ssa.Call)
		if !ok {
			return false
		}
		b, isB := ln.Call.Value.(*ssa.Builtin)
		return isB && b.Name() == "len" && ln.Call.Args[0] == ia.X
	}
	arg := resolveLoad(open.Call.Args[0])
	r.Check(isLast(arg), "wal.ReuseWAL:file-chosen", c.InsPos(open), "the file reopened for appending is the last of the sorted list",
		"the file reopened for appending ("+Path(open.Call.Args[0])+") is not simply the newest one: operations appended to an older file are replayed BEFORE the contents of the newer files (append order across files is broken)")
}

// ruleWalReaderNoConstantLimits: the log reader puts no constant upper bound on a decoded key/value length: the writer
// accepts any length (long keys are spread over fragments), so such a bound rejects entries that were written successfully —
// and replay treats the rejection as corruption and silently skips what follows.
func ruleWalReaderNoConstantLimits(c *Ctx, r *Reporter) {
	r.Rule("reader-accepts-what-the-writer-writes", 1)
	var bad []string
	for _, fn := range c.KevoFns {
		if pkgOf(fn) != "pkg/wal" || recvTypeName(fn) != "wal.Reader" {
			continue
		}
		for _, b := range fn.Blocks {
			if len(b.Instrs) == 0 {
				continue
			}
			iff, ok := b.Instrs[len(b.Instrs)-1].(*ssa.If)
			if !ok {
				continue
			}
			bo, ok := iff.Cond.(*ssa.BinOp)
			if !ok {
				continue
			}
			x, y, op := bo.X, bo.Y, bo.Op
			if _, isK := constInt(x); isK {
				x, y, op = y, x, flipOp(op)
			}
			k, isK := constInt(y)
			if !isK || (op != token.GTR && op != token.GEQ) || k < 1024 {
				continue
			}
			if flowsFromPred(x, func(v ssa.Value) bool {
				call, ok := v.(*ssa.Call)
				return ok && strings.HasSuffix(staticName(call), ".Uint32")
			}, 0, map[ssa.Value]bool{}) {
				bad = append(bad, CondString(bo)+" in "+FnName(fn)+" at "+c.InsPos(iff))
			}
		}
	}
	r.Check(len(bad) == 0, "wal.Reader:constant-length-limits", "", "no constant upper bound on a decoded key/value length",
		"the reader rejects entries whose decoded length exceeds a constant ("+strings.Join(bad, "; ")+") although the writer accepts them (long keys and values are fragmented): the entry is acknowledged but can never be read back, and replay skips what follows it")
}

// ruleExecutorGetsTracker: the default executor is constructed with the coordinator's tombstone tracker AFTER that tracker
// was defaulted: the NewCompactionExecutor call is unreachable on a path where options.TombstoneManager may still be nil.
// (An executor built with a nil tracker falls back to the level rule alone and drops tombstones the coordinator recorded.)
func ruleExecutorGetsTracker(c *Ctx, r *Reporter) {
	r.Rule("executor-gets-the-tombstone-tracker", 1)
	fn := c.Func("pkg/compaction", "", "NewCompactionCoordinator")
	newEx := c.Func("pkg/compaction", "", "NewCompactionExecutor")
	tmF := c.Field("pkg/compaction", "CompactionCoordinatorOptions", "TombstoneManager")
	if fn == nil || newEx == nil || tmF == nil {
		r.Unresolved("compaction.NewCompactionCoordinator / NewCompactionExecutor / CompactionCoordinatorOptions.TombstoneManager", "not found")
		return
	}
	var call *ssa.Call
	AllInstrs(fn, false, func(_ *ssa.Function, ins ssa.Instruction) {
		if cl, ok := ins.(*ssa.Call); ok && cl.Call.StaticCallee() == newEx {
			call = cl
		}
	})
	if call == nil {
		r.Info(FnName(fn)+":executor", c.FnPos(fn), "no default executor is constructed here")
		r.OK(FnName(fn)+":executor:none", c.FnPos(fn), "nothing to require")
		return
	}
	// the tracker argument is the options field
	argOK := false
	for _, a := range call.Call.Args {
		if isLoadOfField(resolveLoad(a), tmF) || strings.Contains(Path(a), "TombstoneManager") {
			argOK = true
		}
	}
	nonNil := func(cond ssa.Value) (bool, bool) {
		v, trueIsNonNil, ok := nilTest(cond)
		if !ok || !(isLoadOfField(v, tmF) || strings.Contains(Path(v), "TombstoneManager")) {
			return false, false
		}
		return trueIsNonNil, !trueIsNonNil
	}
	isDefault := func(x ssa.Instruction) bool {
		st, ok := x.(*ssa.Store)
		return ok && fieldVarOf(st.Addr) == tmF && !isNilConst(st.Val)
	}
	hit, path := ReachE(fn, nil, func(x ssa.Instruction) bool { return x == ssa.Instruction(call) }, isDefault, PruneFactEdges(nonNil))
	// or: the value handed over is known to be non-nil by construction (a local that was defaulted)
	for _, a := range call.Call.Args {
		if strings.Contains(a.Type().String(), "Tombstone") && valueNonNil(a, call.Block(), 0) {
			argOK, hit = true, nil
		}
	}
	r.Check(argOK && hit == nil, FnName(fn)+":executor-tracker", c.InsPos(call), "the default executor receives options.TombstoneManager after it was defaulted",
		"the default executor can be constructed while options.TombstoneManager is still nil (the default is applied later, or another value is passed): the executor never consults the deletes the coordinator records and drops their tombstones by the level rule alone — a deleted key comes back when an older version sits in a deeper level", c.PathString(path)...)
}

// valueNonNil: v is non-nil at block b by construction: a constructor result, a value behind a dominating non-nil test,
// or a phi of such values.
func valueNonNil(v ssa.Value, b *ssa.BasicBlock, d int) bool {
	if d > 5 || v == nil {
		return false
	}
	switch x := v.(type) {
	case *ssa.MakeInterface:
		return valueNonNil(x.X, b, d+1)
	case *ssa.ChangeInterface:
		return valueNonNil(x.X, b, d+1)
	case *ssa.Call:
		if f := x.Call.StaticCallee(); f != nil && strings.HasPrefix(f.Name(), "New") {
			return true
		}
	case *ssa.Extract:
		// first result of a constructor (New*) behind its error check: non-nil by convention when the call did not fail
		if call, ok := x.Tuple.(*ssa.Call); ok && x.Index == 0 {
			if f := call.Call.StaticCallee(); f != nil && (strings.HasPrefix(f.Name(), "New") || nonNilOnSuccess(f, d+1)) {
				okFact := callOKFactFor(call)
				if GuardedBy(b, okFact) {
					return true
				}
			}
		}
	case *ssa.Alloc:
		return true
	case *ssa.Phi:
		for i, e := range x.Edges {
			if !valueNonNil(e, x.Block().Preds[i], d+1) {
				// the edge may come from the non-nil side of a test on the value itself
				if knownNilnessOnEdge(e, x.Block().Preds[i], x.Block()) != +1 && !ctorOKOnEdge(e, x.Block().Preds[i], x.Block()) {
					return false
				}
			}
		}
		return true
	}
	return knownNilness(v, b) == +1
}

// knownNilnessOnEdge: nil-ness of v established by the branch that ends pred and leads to succ.
func knownNilnessOnEdge(v ssa.Value, pred, succ *ssa.BasicBlock) int {
	if len(pred.Instrs) == 0 {
		return 0
	}
	iff, ok := pred.Instrs[len(pred.Instrs)-1].(*ssa.If)
	if !ok {
		return knownNilness(v, pred)
	}
	tv, trueIsNonNil, ok := nilTest(iff.Cond)
	if !ok || !sameValue(tv, v) {
		return knownNilness(v, pred)
	}
	onTrue := pred.Succs[0] == succ
	if onTrue == trueIsNonNil {
		return +1
	}
	return -1
}

// ruleWalCounterUnderLock: every access to WAL.nextSequence outside constructors holds WAL.mu. The rotation reads the old
// log's counter through GetNextSequence() and relies on that read waiting for an append (or batch) still in flight.
func ruleWalCounterUnderLock(c *Ctx, r *Reporter) {
	r.Rule("counter-accessed-under-the-log-lock", 6)
	a := getWalAnchors(c, r)
	if !a.ok {
		return
	}
	li := c.Locks()
	ctor := c.CtorOnly()
	for _, fn := range c.KevoFns {
		if pkgOf(fn) != "pkg/wal" || fn.Parent() != nil || ctor[fn] || strings.HasPrefix(fn.Name(), "NewWAL") || fn.Name() == "ReuseWAL" {
			continue
		}
		n, bad := 0, 0
		var pos ssa.Instruction
		AllInstrs(fn, false, func(_ *ssa.Function, ins ssa.Instruction) {
			acc := false
			switch x := ins.(type) {
			case *ssa.UnOp:
				acc = x.Op == token.MUL && fieldVarOf(x.X) == a.nextSeq
			case *ssa.Store:
				acc = fieldVarOf(x.Addr) == a.nextSeq
			}
			if name, addr, _ := atomicCall(ins); name != "" && fieldVarOf(addr) == a.nextSeq {
				acc = true
			}
			if !acc {
				return
			}
			n++
			h := li.HeldAt(ins)
			if !h.Holds("wal.WAL.mu", "W") && !h.Holds("wal.WAL.mu", "R") {
				bad++
				pos = ins
			}
		})
		if n == 0 {
			continue
		}
		p := c.FnPos(fn)
		if pos != nil {
			p = c.InsPos(pos)
		}
		r.Check(bad == 0, FnName(fn)+":nextSequence", p, fmt.Sprintf("%d access(es), all with WAL.mu held", n),
			fmt.Sprintf("%d of %d access(es) to the sequence counter happen without WAL.mu: a reader (the rotation's hand-over through GetNextSequence) no longer waits for an append in flight and copies a counter the in-flight batch is about to use", bad, n))
	}
}

// ruleSessionsMapWriters: every write to the content of Primary.sessions (insert, delete, replacement) holds Primary.mu
// exclusively. The write path iterates the map under the shared lock inside wal.Append; a map write under the shared lock
// aborts the process ("concurrent map iteration and map write").
func ruleSessionsMapWriters(c *Ctx, r *Reporter) {
	r.Rule("session-map-written-under-exclusive-lock", 2)
	sessF := c.Field("pkg/replication", "Primary", "sessions")
	if sessF == nil {
		r.Unresolved("replication.Primary.sessions", "field not found")
		return
	}
	li := c.Locks()
	ctor := c.CtorOnly()
	for _, fn := range c.KevoFns {
		if pkgOf(fn) != "pkg/replication" || ctor[topParent(fn)] || strings.HasPrefix(topParent(fn).Name(), "New") {
			continue
		}
		idx := 0
		AllInstrs(fn, false, func(_ *ssa.Function, ins ssa.Instruction) {
			w := false
			switch x := ins.(type) {
			case *ssa.MapUpdate:
				w = isLoadOfField(x.Map, sessF)
			case *ssa.Call:
				if b, ok := x.Call.Value.(*ssa.Builtin); ok && (b.Name() == "delete" || b.Name() == "clear") {
					w = isLoadOfField(x.Call.Args[0], sessF)
				}
			case *ssa.Store:
				w = fieldVarOf(x.Addr) == sessF
			}
			if !w {
				return
			}
			idx++
			held := li.HeldAt(ins)
			r.Check(held.Holds("replication.Primary.mu", "W"), fmt.Sprintf("%s:sessions-write#%d", FnName(topParent(fn)), idx), c.InsPos(ins), "Primary.mu is held exclusively",
				"the session map is written while Primary.mu is held only shared or not at all (held: "+held.String()+"): the write path iterates this map under the shared lock inside wal.Append — the Go runtime aborts the process on a concurrent map iteration and write, i.e. a replica coming or going crashes the primary")
		})
	}
}

// ruleApplierAlwaysApplies: every success exit of EngineApplier.Apply returns the result of the mode-specific apply
// function: no path answers 'done' without having performed the operation (a 'seen already' shortcut would skip an entry
// whose first attempt failed and is being retransmitted).
func ruleApplierAlwaysApplies(c *Ctx, r *Reporter) {
	r.Rule("apply-performs-the-operation", 1)
	fn := c.Func("pkg/replication", "EngineApplier", "Apply")
	ro := c.Func("pkg/replication", "EngineApplier", "applyInReadOnlyMode")
	nm := c.Func("pkg/replication", "EngineApplier", "applyInNormalMode")
	if fn == nil || ro == nil || nm == nil {
		r.Unresolved("replication.EngineApplier.{Apply,applyInReadOnlyMode,applyInNormalMode}", "not found")
		return
	}
	var bad []string
	n := 0
	for _, ret := range Returns(fn) {
		v := resolveLoad(ReturnValue(ret, 0))
		n++
		ok := false
		var check func(v ssa.Value, d int) bool
		check = func(v ssa.Value, d int) bool {
			if d > 4 {
				return false
			}
			switch x := v.(type) {
			case *ssa.Call:
				g := x.Call.StaticCallee()
				return g == ro || g == nm
			case *ssa.Phi:
				for _, e := range x.Edges {
					if !check(e, d+1) {
						return false
					}
				}
				return true
			}
			return false
		}
		ok = check(v, 0)
		if !ok && ClassifyReturn(ret) == ExitFailure {
			ok = true // refusing with an error is fine
		}
		if !ok {
			bad = append(bad, Path(v)+" at "+c.InsPos(ret))
		}
	}
	// and the applier keeps no state of its own that could decide to skip
	st := c.Named("pkg/replication", "EngineApplier")
	extra := ""
	if st != nil {
		if s, ok := st.Underlying().(*types.Struct); ok && s.NumFields() != 1 {
			var fs []string
			for i := 0; i < s.NumFields(); i++ {
				fs = append(fs, s.Field(i).Name())
			}
			extra = " (EngineApplier has state beyond the engine: " + strings.Join(fs, ", ") + ")"
		}
	}
	r.Check(len(bad) == 0 && n > 0, "replication.EngineApplier.Apply:exits", c.FnPos(fn), "every non-failing exit returns the result of applyInReadOnlyMode / applyInNormalMode",
		"Apply can answer success without performing the operation (returns "+strings.Join(bad, "; ")+")"+extra+": an entry whose first application failed is reported applied when it is retransmitted — the replica skips it for good while reporting its sequence as applied")
}

// ruleCatchUpFlushesFirst: GetEntriesFrom re-reads the log FILES; the writes still sitting in the buffered writer must be
// flushed to the file first, otherwise a replica that has to catch up (late join, reconnect) never sees the newest writes
// under SyncBatch/SyncNone.
func ruleCatchUpFlushesFirst(c *Ctx, r *Reporter) {
	r.Rule("catch-up-read-flushes-the-buffer-first", 1)
	a := getWalAnchors(c, r)
	from := c.Func("pkg/wal", "WAL", "GetEntriesFrom")
	fromFile := c.Func("pkg/wal", "WAL", "getEntriesFromFile")
	if !a.ok || from == nil || fromFile == nil {
		if a.ok {
			r.Unresolved("wal.WAL.GetEntriesFrom / getEntriesFromFile", "not found")
		}
		return
	}
	// functions of pkg/wal that flush the buffered writer on every path to their normal return (helpers count)
	flushers := FnSet{}
	for _, g := range c.KevoFns {
		if pkgOf(g) != "pkg/wal" || g.Parent() != nil || g == from {
			continue
		}
		direct := func(x ssa.Instruction) bool {
			cl, ok := x.(*ssa.Call)
			return ok && staticName(cl) == "(*bufio.Writer).Flush"
		}
		has := false
		AllInstrs(g, false, func(_ *ssa.Function, x ssa.Instruction) {
			if direct(x) {
				has = true
			}
		})
		if !has {
			continue
		}
		if miss, _ := MustPass(g, SuccessExits(g, true), direct); miss == nil {
			flushers[g] = true
		}
	}
	isFlush := func(x ssa.Instruction) bool {
		call, ok := x.(*ssa.Call)
		if !ok {
			return false
		}
		if staticName(call) == "(*bufio.Writer).Flush" {
			return true
		}
		g := call.Call.StaticCallee()
		return g != nil && (g == a.syncLocked || g == a.sync || flushers[g])
	}
	// the reads: calls that reach getEntriesFromFile (directly or through a helper)
	reach := c.ReachSet(NewFnSet(fromFile), true)
	var firstBad ssa.Instruction
	var badPath []*ssa.BasicBlock
	n := 0
	AllInstrs(from, false, func(_ *ssa.Function, ins ssa.Instruction) {
		call, ok := ins.(*ssa.Call)
		if !ok {
			return
		}
		g := call.Call.StaticCallee()
		if g == nil || !(g == fromFile || reach[g]) {
			return
		}
		n++
		if hit, path := ReachE(from, nil, func(x ssa.Instruction) bool { return x == ins }, isFlush, nil); hit != nil && firstBad == nil {
			firstBad, badPath = ins, path
		}
	})
	if n == 0 {
		r.Undecided("wal.WAL.GetEntriesFrom:reads", c.FnPos(from), "no file read found")
		return
	}
	p := c.FnPos(from)
	if firstBad != nil {
		p = c.InsPos(firstBad)
	}
	r.Check(firstBad == nil, "wal.WAL.GetEntriesFrom:flush-before-read", p, "the buffered writer is flushed before any log file is read",
		"a log file can be read without the buffered writer having been flushed: what GetEntriesFrom returns lacks the writes still in the buffer, so under SyncBatch/SyncNone a replica that must catch up (late join, restart, reconnect) never receives the newest writes and the poll keeps sending nothing", c.PathString(badPath)...)
}

// ruleNoBlockingChanUnderLock: no blocking channel send (a plain `ch <- v`, or a select without a default arm that sends)
// while a mutex is held, in the engine/storage/transaction/compaction/memtable/wal packages. The receiver of such a channel
// is a background worker that needs the same locks to get back to its receive (scheduleFlush signals the flusher with
// Manager.mu held exclusively; the flusher takes Manager.mu before it returns to the channel).
func ruleNoBlockingChanUnderLock(c *Ctx, r *Reporter) {
	r.Rule("no-blocking-channel-send-under-a-lock", 1)
	li := c.Locks()
	n := 0
	for _, fn := range c.KevoFns {
		if !inC07Scope(fn) {
			continue
		}
		AllInstrs(fn, false, func(_ *ssa.Function, ins ssa.Instruction) {
			blocking := false
			what := ""
			switch x := ins.(type) {
			case *ssa.Send:
				blocking, what = true, "ch <- v on "+Path(x.Chan)
			case *ssa.Select:
				if x.Blocking {
					for _, st := range x.States {
						if st.Dir == types.SendOnly {
							blocking, what = true, "select without default sending on "+Path(st.Chan)
						}
					}
				} else {
					for _, st := range x.States {
						if st.Dir == types.SendOnly {
							n++
							r.OK(fmt.Sprintf("%s:send(%s)", FnName(topParent(fn)), sanitize(Path(st.Chan))), c.InsPos(ins), "non-blocking send (select with default)")
						}
					}
				}
			}
			if !blocking {
				return
			}
			n++
			held := li.HeldAt(ins)
			cons := fmt.Sprintf("%s:send(%s)", FnName(topParent(fn)), sanitize(what))
			r.Check(len(held) == 0, cons, c.InsPos(ins), "blocking send with no lock held",
				"a blocking channel send ("+what+") runs while "+held.String()+" is held: when the channel is full the sender waits for the receiver, and the receiver (a background worker) needs that lock before it receives again — every later call blocks for ever")
		})
	}
	if n == 0 {
		r.Info("channel-sends", "", "no channel send in scope")
		r.OK("channel-sends:none", "", "nothing to require")
	}
}

// ruleReadOnlyOnlyRaised: the replication manager only ever RAISES the engine's read-only flag (setEngineReadOnly(true)); the
// only code that lowers it is the applier's bracket, which restores it at once. Stopping replication must not make a replica
// writable while its service is still up.
func ruleReadOnlyOnlyRaised(c *Ctx, r *Reporter) {
	r.Rule("read-only-flag-only-raised", 1)
	set := c.Func("pkg/replication", "Manager", "setEngineReadOnly")
	if set == nil {
		r.Unresolved("replication.Manager.setEngineReadOnly", "not found")
		return
	}
	n := 0
	for _, e := range c.Callers(set) {
		if !c.InKevo(e.Caller.Func) || e.Site == nil {
			continue
		}
		n++
		args := e.Site.Common().Args
		b, isK := constBool(args[len(args)-1])
		r.Check(isK && b, "replication.Manager.setEngineReadOnly<-"+FnName(topParent(e.Caller.Func)), c.InsPos(e.Site), "called with the constant true",
			"the replication manager can LOWER the engine's read-only flag (argument "+Path(args[len(args)-1])+"): after that call a node that still answers as a replica accepts client writes, and node info reports read_only=false")
	}
	if n == 0 {
		r.Undecided("replication.Manager.setEngineReadOnly:callers", c.FnPos(set), "no caller found")
	}
}

// rulePoolWritesUnderPoolLock: MemTablePool.Put/Delete call the active table's Put/Delete while holding the pool lock. The
// switch to a new table takes the pool lock exclusively, and SetImmutable is a bare atomic store: the pool lock is the only
// thing that keeps a write that has passed the immutability test from finishing after the table was handed off as immutable.
func rulePoolWritesUnderPoolLock(c *Ctx, r *Reporter) {
	r.Rule("pool-writes-hold-the-pool-lock", 2)
	li := c.Locks()
	for _, mn := range []string{"Put", "Delete"} {
		fn := c.Func("pkg/memtable", "MemTablePool", mn)
		mt := c.Func("pkg/memtable", "MemTable", mn)
		if fn == nil || mt == nil {
			r.Unresolved("memtable.MemTablePool."+mn+" / MemTable."+mn, "not found")
			continue
		}
		n, bad := 0, 0
		var pos ssa.Instruction
		AllInstrs(fn, false, func(_ *ssa.Function, ins ssa.Instruction) {
			call, ok := ins.(*ssa.Call)
			if !ok || call.Call.StaticCallee() != mt {
				return
			}
			n++
			h := li.HeldAt(ins)
			if !h.Holds("memtable.MemTablePool.mu", "R") && !h.Holds("memtable.MemTablePool.mu", "W") {
				bad++
				pos = ins
			}
		})
		p := c.FnPos(fn)
		if pos != nil {
			p = c.InsPos(pos)
		}
		r.Check(n > 0 && bad == 0, "memtable.MemTablePool."+mn+":insert-under-pool-lock", p, "the active table is written with MemTablePool.mu held",
			"the active table's "+mn+" runs without MemTablePool.mu: a write that passed the immutability test can finish after SwitchToNewMemTable handed the table off — an 'immutable' table changes under its flush, and writers arriving after the switch return silently although their write is in no table")
	}
}

// ruleComparatorNoSubtraction: a three-way comparison of sequence numbers is not computed by subtracting them: the uint64
// difference changes sign for numbers 2^63 or more apart, and the order is no longer transitive (the decision tables of the
// comparator use small ranks and cannot see this).
func ruleComparatorNoSubtraction(c *Ctx, r *Reporter) {
	r.Rule("comparator-without-subtraction", 1)
	fn := c.Func("pkg/memtable", "entry", "compareWithEntry")
	if fn == nil {
		r.Unresolved("memtable.entry.compareWithEntry", "not found")
		return
	}
	var bad []string
	AllInstrs(fn, false, func(_ *ssa.Function, ins ssa.Instruction) {
		bo, ok := ins.(*ssa.BinOp)
		if !ok || bo.Op != token.SUB {
			return
		}
		if b, ok := bo.X.Type().Underlying().(*types.Basic); ok && b.Info()&types.IsUnsigned != 0 {
			bad = append(bad, Path(bo.X)+" - "+Path(bo.Y)+" at "+c.InsPos(ins))
		}
	})
	r.Check(len(bad) == 0, "memtable.entry.compareWithEntry:arithmetic", c.FnPos(fn), "sequence numbers are compared, not subtracted",
		"the comparator subtracts unsigned sequence numbers ("+strings.Join(bad, "; ")+"): for numbers 2^63 or more apart the sign of the difference flips, a newer version is linked behind an older one and iteration yields the stale version first")
}

// callOKFactFor: the fact "this call's error result is nil" (for a call whose last result is an error).
func callOKFactFor(call *ssa.Call) Fact {
	return func(cond ssa.Value) (bool, bool) {
		v, trueNonNil, ok := nilTest(cond)
		if !ok {
			return false, false
		}
		ex, isEx := v.(*ssa.Extract)
		if !isEx || ex.Tuple != ssa.Value(call) || !isErrorType(ex.Type()) {
			return false, false
		}
		return !trueNonNil, trueNonNil
	}
}

// ctorOKOnEdge: e is the first result of a New* call and the edge pred->succ is the err == nil side of the test of that
// call's error.
func ctorOKOnEdge(e ssa.Value, pred, succ *ssa.BasicBlock) bool {
	ex, ok := e.(*ssa.Extract)
	if !ok || ex.Index != 0 || len(pred.Instrs) == 0 {
		return false
	}
	call, ok := ex.Tuple.(*ssa.Call)
	if !ok {
		return false
	}
	if f := call.Call.StaticCallee(); f == nil || !(strings.HasPrefix(f.Name(), "New") || nonNilOnSuccess(f, 1)) {
		return false
	}
	iff, ok := pred.Instrs[len(pred.Instrs)-1].(*ssa.If)
	if !ok {
		return false
	}
	t, f := callOKFactFor(call)(iff.Cond)
	for i, s := range pred.Succs {
		if s == succ && ((i == 0 && t) || (i == 1 && f)) {
			return true
		}
	}
	return false
}

// nonNilOnSuccess: a function of the analysed module returning (T, error) whose every exit with a nil error returns a
// first result that is non-nil by construction (an open-or-create helper around New*/Reuse* calls).
func nonNilOnSuccess(f *ssa.Function, d int) bool {
	if d > 3 || f == nil || len(f.Blocks) == 0 || f.Signature.Results().Len() != 2 || !isErrorType(f.Signature.Results().At(1).Type()) {
		return false
	}
	n := 0
	for _, ret := range Returns(f) {
		if ClassifyReturn(ret) == ExitFailure {
			continue
		}
		n++
		if !valueNonNil(ReturnValue(ret, 0), ret.Block(), d+1) {
			return false
		}
	}
	return n > 0
}
