package main

import (
	"fmt"
	"go/constant"
	"go/token"
	"sort"
	"strings"

	"golang.org/x/tools/go/ssa"
)

// Lin is a linear expression K + sum(coef * term) over symbolic terms (len(path), opaque values).
type Lin struct {
	K int64
	T map[string]int64
}

func linConst(k int64) Lin { return Lin{K: k, T: map[string]int64{}} }
func linTerm(t string) Lin { return Lin{T: map[string]int64{t: 1}} }

func (a Lin) add(b Lin, sign int64) Lin {
	o := Lin{K: a.K + sign*b.K, T: map[string]int64{}}
	for k, v := range a.T {
		o.T[k] = v
	}
	for k, v := range b.T {
		o.T[k] += sign * v
		if o.T[k] == 0 {
			delete(o.T, k)
		}
	}
	return o
}

func (a Lin) scale(m int64) Lin {
	o := Lin{K: a.K * m, T: map[string]int64{}}
	for k, v := range a.T {
		if v*m != 0 {
			o.T[k] = v * m
		}
	}
	return o
}

func (a Lin) isConst() bool { return len(a.T) == 0 }

func (a Lin) String() string {
	var ks []string
	for k := range a.T {
		ks = append(ks, k)
	}
	sort.Strings(ks)
	var parts []string
	if a.K != 0 || len(ks) == 0 {
		parts = append(parts, fmt.Sprint(a.K))
	}
	for _, k := range ks {
		c := a.T[k]
		switch c {
		case 1:
			parts = append(parts, k)
		default:
			parts = append(parts, fmt.Sprintf("%d*%s", c, k))
		}
	}
	return strings.Join(parts, " + ")
}

// GAlt is one guarded alternative of a value.
type GAlt struct {
	Guard string // conjunction of canonical conditions ("" = always)
	L     Lin
}

// GLin is a value as a set of guarded linear alternatives.
type GLin []GAlt

func (g GLin) String() string {
	var parts []string
	for _, a := range g {
		if a.Guard == "" {
			parts = append(parts, a.L.String())
		} else {
			parts = append(parts, "["+a.Guard+"] "+a.L.String())
		}
	}
	sort.Strings(parts)
	return strings.Join(parts, " | ")
}

// Subst replaces path prefixes in term names and guards (e.g. "param:key" -> "entries[*].Key").
func (g GLin) Subst(m map[string]string) GLin {
	rep := func(s string) string {
		// longest keys first
		var ks []string
		for k := range m {
			ks = append(ks, k)
		}
		sort.Slice(ks, func(i, j int) bool { return len(ks[i]) > len(ks[j]) })
		for _, k := range ks {
			s = strings.ReplaceAll(s, k, m[k])
		}
		return s
	}
	var out GLin
	for _, a := range g {
		n := Lin{K: a.L.K, T: map[string]int64{}}
		for t, c := range a.L.T {
			n.T[rep(t)] += c
		}
		out = append(out, GAlt{Guard: rep(a.Guard), L: n})
	}
	return out
}

// LinX extracts linear expressions from SSA values.
type LinX struct {
	depth int
	Names map[ssa.Value]string // custom symbols for specific SSA values (decoded fields)
}

func conj(a, b string) string {
	if a == "" {
		return b
	}
	if b == "" {
		return a
	}
	parts := append(strings.Split(a, " && "), strings.Split(b, " && ")...)
	sort.Strings(parts)
	var uniq []string
	for i, p := range parts {
		if i == 0 || p != parts[i-1] {
			uniq = append(uniq, p)
		}
	}
	return strings.Join(uniq, " && ")
}

// Path renders a canonical access path for a value (parameters, fields, elements).
func Path(v ssa.Value) string { return pathD(v, 0) }

func pathD(v ssa.Value, d int) string {
	if d > 8 || v == nil {
		return "?"
	}
	switch x := v.(type) {
	case *ssa.Parameter:
		return "param:" + x.Name()
	case *ssa.FreeVar:
		return "param:" + x.Name()
	case *ssa.Const:
		if x.Value == nil {
			return "nil"
		}
		return x.Value.ExactString()
	case *ssa.UnOp:
		if x.Op == token.MUL {
			switch a := x.X.(type) {
			case *ssa.FieldAddr:
				return pathD(a.X, d+1) + "." + fieldName(a)
			case *ssa.IndexAddr:
				return pathD(a.X, d+1) + "[*]"
			case *ssa.Alloc:
				// single-store cell (spilled parameter / captured variable)
				if val := singleStore(a); val != nil {
					return pathD(val, d+1)
				}
				return "cell:" + a.Comment
			case *ssa.FreeVar:
				return "param:" + a.Name()
			case *ssa.Global:
				return a.Pkg.Pkg.Name() + "." + a.Name()
			}
			return "*" + pathD(x.X, d+1)
		}
	case *ssa.Field:
		if st, ok := x.X.Type().Underlying().(interface{ NumFields() int }); ok {
			_ = st
		}
		return pathD(x.X, d+1) + ".#" + fmt.Sprint(x.Field)
	case *ssa.FieldAddr:
		return "&" + pathD(x.X, d+1) + "." + fieldName(x)
	case *ssa.Convert:
		return pathD(x.X, d+1)
	case *ssa.ChangeType:
		return pathD(x.X, d+1)
	case *ssa.Extract:
		return pathD(x.Tuple, d+1) + "#" + fmt.Sprint(x.Index)
	case *ssa.Call:
		if f := x.Call.StaticCallee(); f != nil {
			var args []string
			for _, a := range x.Call.Args {
				args = append(args, pathD(a, d+1))
			}
			return f.Name() + "(" + strings.Join(args, ",") + ")"
		}
		if b, ok := x.Call.Value.(*ssa.Builtin); ok {
			var args []string
			for _, a := range x.Call.Args {
				args = append(args, pathD(a, d+1))
			}
			return b.Name() + "(" + strings.Join(args, ",") + ")"
		}
	case *ssa.Slice:
		return pathD(x.X, d+1) + "[:]"
	case *ssa.Phi:
		if x.Comment != "" {
			return "phi:" + x.Comment
		}
	case *ssa.Alloc:
		return "cell:" + x.Comment
	}
	return "?" + v.Name()
}

func fieldName(fa *ssa.FieldAddr) string {
	if fv := fieldVarOf(fa); fv != nil {
		return fv.Name()
	}
	return fmt.Sprint(fa.Field)
}

func singleStore(a *ssa.Alloc) ssa.Value {
	var val ssa.Value
	n := 0
	if a.Referrers() == nil {
		return nil
	}
	for _, ref := range *a.Referrers() {
		if st, ok := ref.(*ssa.Store); ok && st.Addr == a {
			val = st.Val
			n++
		}
	}
	if n == 1 {
		return val
	}
	return nil
}

// CondString renders a branch condition canonically.
func CondString(cond ssa.Value) string {
	switch x := cond.(type) {
	case *ssa.BinOp:
		l, r := operandString(x.X), operandString(x.Y)
		op := x.Op
		// order operands: constant on the right
		if _, isK := x.X.(*ssa.Const); isK {
			l, r = r, l
			op = flipOp(op)
		}
		return l + " " + op.String() + " " + r
	case *ssa.UnOp:
		if x.Op == token.NOT {
			return "!(" + CondString(x.X) + ")"
		}
	}
	return Path(cond)
}

func negCond(s string) string {
	for _, p := range [][2]string{{" != ", " == "}, {" == ", " != "}, {" < ", " >= "}, {" >= ", " < "}, {" > ", " <= "}, {" <= ", " > "}} {
		if strings.Contains(s, p[0]) {
			return strings.Replace(s, p[0], p[1], 1)
		}
	}
	if strings.HasPrefix(s, "!(") && strings.HasSuffix(s, ")") {
		return s[2 : len(s)-1]
	}
	return "!(" + s + ")"
}

func operandString(v ssa.Value) string {
	var lx LinX
	g := lx.Lin(v)
	if len(g) == 1 && g[0].Guard == "" {
		return g[0].L.String()
	}
	return Path(v)
}

// Lin computes the guarded linear form of an integer value.
func (lx *LinX) Lin(v ssa.Value) GLin {
	lx.depth++
	defer func() { lx.depth-- }()
	if lx.depth > 24 {
		return GLin{{L: linTerm(Path(v))}}
	}
	if lx.Names != nil {
		if n, ok := lx.Names[v]; ok {
			return GLin{{L: linTerm(n)}}
		}
	}
	switch x := v.(type) {
	case *ssa.Const:
		if x.Value != nil && x.Value.Kind() == constant.Int {
			if i, ok := constant.Int64Val(x.Value); ok {
				return GLin{{L: linConst(i)}}
			}
			if u, ok := constant.Uint64Val(x.Value); ok {
				return GLin{{L: linTerm(fmt.Sprintf("K%d", u))}}
			}
		}
	case *ssa.Convert:
		if isIntType(x.Type()) && isIntType(x.X.Type()) {
			return lx.Lin(x.X)
		}
	case *ssa.ChangeType:
		return lx.Lin(x.X)
	case *ssa.BinOp:
		switch x.Op {
		case token.ADD, token.SUB:
			sign := int64(1)
			if x.Op == token.SUB {
				sign = -1
			}
			a, b := lx.Lin(x.X), lx.Lin(x.Y)
			if len(a)*len(b) > 16 {
				break
			}
			var out GLin
			for _, p := range a {
				for _, q := range b {
					out = append(out, GAlt{Guard: conj(p.Guard, q.Guard), L: p.L.add(q.L, sign)})
				}
			}
			return out
		case token.MUL:
			a, b := lx.Lin(x.X), lx.Lin(x.Y)
			if len(b) == 1 && b[0].Guard == "" && b[0].L.isConst() {
				var out GLin
				for _, p := range a {
					out = append(out, GAlt{Guard: p.Guard, L: p.L.scale(b[0].L.K)})
				}
				return out
			}
			if len(a) == 1 && a[0].Guard == "" && a[0].L.isConst() {
				var out GLin
				for _, q := range b {
					out = append(out, GAlt{Guard: q.Guard, L: q.L.scale(a[0].L.K)})
				}
				return out
			}
		}
	case *ssa.Call:
		if b, ok := x.Call.Value.(*ssa.Builtin); ok && b.Name() == "len" && len(x.Call.Args) == 1 {
			return GLin{{L: linTerm("len(" + Path(x.Call.Args[0]) + ")")}}
		}
		if b, ok := x.Call.Value.(*ssa.Builtin); ok && b.Name() == "min" && len(x.Call.Args) == 2 {
			return GLin{{L: linTerm("min(" + operandString(x.Call.Args[0]) + "," + operandString(x.Call.Args[1]) + ")")}}
		}
		if f := x.Call.StaticCallee(); f != nil && f.Name() == "min" && len(x.Call.Args) == 2 {
			return GLin{{L: linTerm("min(" + operandString(x.Call.Args[0]) + "," + operandString(x.Call.Args[1]) + ")")}}
		}
	case *ssa.Phi:
		if alts := lx.phiAlts(x); alts != nil {
			return alts
		}
	case *ssa.UnOp:
		if x.Op == token.MUL {
			if al, ok := x.X.(*ssa.Alloc); ok {
				if val := singleStore(al); val != nil {
					return lx.Lin(val)
				}
			}
		}
	}
	return GLin{{L: linTerm(Path(v))}}
}

func isIntType(t interface{ String() string }) bool {
	switch t.String() {
	case "int", "int8", "int16", "int32", "int64", "uint", "uint8", "uint16", "uint32", "uint64", "uintptr", "byte":
		return true
	}
	return false
}

// phiAlts: a two-way (if/else or if-without-else) phi becomes two guarded alternatives; loop phis stay opaque.
func (lx *LinX) phiAlts(phi *ssa.Phi) GLin {
	b := phi.Block()
	d := b.Idom()
	if d == nil || len(d.Instrs) == 0 || len(phi.Edges) != 2 {
		return nil
	}
	iff, ok := d.Instrs[len(d.Instrs)-1].(*ssa.If)
	if !ok {
		return nil
	}
	// loop header? (a predecessor is dominated by the phi's block)
	for _, p := range b.Preds {
		if b.Dominates(p) {
			return nil
		}
	}
	cond := CondString(iff.Cond)
	var out GLin
	for i, e := range phi.Edges {
		p := b.Preds[i]
		var g string
		switch {
		case p == d && d.Succs[0] == b && d.Succs[1] != b:
			g = cond
		case p == d && d.Succs[1] == b && d.Succs[0] != b:
			g = negCond(cond)
		case d.Succs[0] != b && (d.Succs[0] == p || d.Succs[0].Dominates(p)):
			g = cond
		case d.Succs[1] != b && (d.Succs[1] == p || d.Succs[1].Dominates(p)):
			g = negCond(cond)
		default:
			return nil
		}
		for _, a := range lx.Lin(e) {
			out = append(out, GAlt{Guard: conj(g, a.Guard), L: a.L})
		}
	}
	return out
}
