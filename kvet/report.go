package main

import (
	"crypto/sha1"
	"encoding/json"
	"fmt"
	"os"
	"path/filepath"
	"sort"
	"strings"
)

type Status string

const (
	Discharged Status = "discharged"
	Violated   Status = "violated"
	Undecided  Status = "undecided"
	Unresolved Status = "unresolved"
	Info       Status = "info"
)

// Obligation is one rule instance on one construct.
type Obligation struct {
	Property  string   `json:"property"`
	Rule      string   `json:"rule"`
	Construct string   `json:"construct"`
	Status    Status   `json:"status"`
	Pos       string   `json:"pos,omitempty"`
	Detail    string   `json:"detail,omitempty"`
	Path      []string `json:"path,omitempty"`
	Known     bool     `json:"known_finding,omitempty"`
}

func (o *Obligation) Key() string { return o.Rule + "/" + o.Construct }

// Reporter collects the obligations of one property run.
type Reporter struct {
	Property string
	Obls     []*Obligation
	seen     map[string]*Obligation
	floors   map[string]int // rule -> minimum instance count
	Notes    []string
	curRule  string
}

func NewReporter(prop string) *Reporter {
	return &Reporter{Property: prop, seen: map[string]*Obligation{}, floors: map[string]int{}}
}

// Rule sets the current rule id (without property prefix) and its instance floor.
func (r *Reporter) Rule(id string, floor int) {
	r.curRule = r.Property + "/" + id
	if floor > r.floors[r.curRule] {
		r.floors[r.curRule] = floor
	}
	if _, ok := r.floors[r.curRule]; !ok {
		r.floors[r.curRule] = floor
	}
}

func (r *Reporter) add(st Status, construct, pos, detail string, path []string) *Obligation {
	o := &Obligation{Property: r.Property, Rule: r.curRule, Construct: construct, Status: st, Pos: pos, Detail: detail, Path: path}
	k := o.Key()
	if prev, ok := r.seen[k]; ok {
		// keep the worst status for a repeated key; append detail
		if rank(st) > rank(prev.Status) {
			prev.Status, prev.Pos, prev.Detail, prev.Path = st, pos, detail, path
		}
		return prev
	}
	r.seen[k] = o
	r.Obls = append(r.Obls, o)
	return o
}

func rank(s Status) int {
	switch s {
	case Info:
		return 0
	case Discharged:
		return 1
	case Undecided:
		return 2
	case Unresolved:
		return 3
	case Violated:
		return 4
	}
	return 0
}

func (r *Reporter) OK(construct, pos, detail string) { r.add(Discharged, construct, pos, detail, nil) }
func (r *Reporter) Bad(construct, pos, detail string, path ...string) {
	r.add(Violated, construct, pos, detail, path)
}
func (r *Reporter) Undecided(construct, pos, detail string) {
	r.add(Undecided, construct, pos, detail, nil)
}
func (r *Reporter) Unresolved(construct, detail string) {
	r.add(Unresolved, construct, "-", "anchor-unresolved: "+detail, nil)
}
func (r *Reporter) Info(construct, pos, detail string) { r.add(Info, construct, pos, detail, nil) }

// Check records OK or Bad.
func (r *Reporter) Check(ok bool, construct, pos, okDetail, badDetail string, path ...string) bool {
	if ok {
		r.OK(construct, pos, okDetail)
	} else {
		r.Bad(construct, pos, badDetail, path...)
	}
	return ok
}

// KnownFinding is an entry of /verif/known_findings.json.
type KnownFinding struct {
	Property    string `json:"property"`
	Rule        string `json:"rule"`
	Construct   string `json:"construct"`
	Status      string `json:"status"` // open | fixed
	Commit      string `json:"commit,omitempty"`
	WhatFails   string `json:"what_fails"`
	ConfirmedBy string `json:"confirmed_by,omitempty"`
}

func LoadKnown(path string) ([]KnownFinding, error) {
	b, err := os.ReadFile(path)
	if err != nil {
		if os.IsNotExist(err) {
			return nil, nil
		}
		return nil, err
	}
	var f struct {
		Findings []KnownFinding `json:"findings"`
	}
	if err := json.Unmarshal(b, &f); err != nil {
		return nil, err
	}
	return f.Findings, nil
}

type Evidence struct {
	PropertyID  string                 `json:"property_id"`
	Tier        string                 `json:"tier"`
	Seed        int                    `json:"seed"`
	Level       string                 `json:"level"`
	Coverage    map[string]interface{} `json:"coverage"`
	Assumptions []string               `json:"assumptions"`
	WallS       float64                `json:"wall_s"`
	Violations  int                    `json:"violations"`
}

// Finish applies floors and known findings, prints the verdict lines, writes evidence and returns the exit code.
func (r *Reporter) Finish(c *Ctx, verifDir, tier string, seed int, wall float64, known []KnownFinding, explanation string, notDecided string, extra map[string]interface{}) int {
	// instance floors
	counts := map[string]int{}
	for _, o := range r.Obls {
		if o.Status != Info {
			counts[o.Rule]++
		}
	}
	var rules []string
	for rule := range r.floors {
		rules = append(rules, rule)
	}
	sort.Strings(rules)
	saveRule := r.curRule
	for _, rule := range rules {
		if counts[rule] < r.floors[rule] {
			r.curRule = rule
			r.add(Violated, "instance-floor", "-", fmt.Sprintf("rule matched %d constructs, floor confirmed by hand is %d (a rule that matches nothing passes vacuously)", counts[rule], r.floors[rule]), nil)
		}
	}
	r.curRule = saveRule

	// known findings
	knownOpen := map[string]KnownFinding{}
	for _, k := range known {
		if k.Status == "open" {
			knownOpen[k.Rule+"/"+k.Construct] = k
		}
	}
	sort.SliceStable(r.Obls, func(i, j int) bool { return r.Obls[i].Key() < r.Obls[j].Key() })
	viol := 0
	nKnown := 0
	var knownMatched []string
	replayDir := filepath.Join(verifDir, "evidence", "replay")
	for _, o := range r.Obls {
		switch o.Status {
		case Violated, Undecided, Unresolved:
			if k, ok := knownOpen[o.Key()]; ok && o.Status == Violated && k.Property == r.Property {
				o.Known = true
				nKnown++
				knownMatched = append(knownMatched, o.Key())
				fmt.Printf("KNOWN-FINDING: property=%s %s %s — %s (%s)\n", r.Property, o.Rule, o.Construct, k.WhatFails, o.Pos)
				continue
			}
			viol++
			h := sha1.Sum([]byte(o.Key()))
			name := fmt.Sprintf("%s-%s-%x.json", r.Property, sanitize(strings.TrimPrefix(o.Rule, r.Property+"/")), h[:4])
			os.MkdirAll(replayDir, 0o755)
			rp := filepath.Join(replayDir, name)
			b, _ := json.MarshalIndent(o, "", "  ")
			os.WriteFile(rp, b, 0o644)
			fmt.Printf("%s %s %s at %s: %s\n", strings.ToUpper(string(o.Status)), o.Rule, o.Construct, o.Pos, o.Detail)
			for _, p := range o.Path {
				fmt.Printf("    %s\n", p)
			}
			fmt.Printf("VIOLATION property=%s replay=%s\n", r.Property, rp)
		}
	}

	// evidence
	nonInfo := 0
	byStatus := map[string]int{}
	perRule := map[string]int{}
	for _, o := range r.Obls {
		byStatus[string(o.Status)]++
		if o.Status != Info {
			nonInfo++
			perRule[o.Rule]++
		}
	}
	var samples []interface{}
	step := 1
	if len(r.Obls) > 12 {
		step = len(r.Obls) / 12
	}
	for i := 0; i < len(r.Obls); i += step {
		samples = append(samples, r.Obls[i])
	}
	// always include violated/known ones
	for _, o := range r.Obls {
		if o.Status == Violated || o.Status == Undecided || o.Status == Unresolved {
			samples = append(samples, o)
		}
	}
	var infos []string
	for _, o := range r.Obls {
		if o.Status == Info {
			infos = append(infos, fmt.Sprintf("%s %s @%s: %s", o.Rule, o.Construct, o.Pos, o.Detail))
		}
	}
	floors := map[string]interface{}{}
	for _, rule := range rules {
		floors[rule] = map[string]int{"instances": counts[rule], "floor": r.floors[rule]}
	}
	cov := map[string]interface{}{
		"explanation":            explanation,
		"not_decided":            notDecided,
		"evaluations":            nonInfo,
		"distinct_nontrivial":    nonInfo,
		"obligations":            nonInfo,
		"discharged":             byStatus[string(Discharged)],
		"rule":                   "one obligation per (rule, construct) with construct built from qualified names; every obligation counted here inspected at least one path, call site, field access or decision-table row of live code in /repo's current tree; info lines are not counted",
		"samples":                samples,
		"by_status":              byStatus,
		"rules":                  floors,
		"info":                   infos,
		"known_findings_matched": knownMatched,
		"notes":                  r.Notes,
		"exhaustive":             false,
		"checker_cmd":            fmt.Sprintf("./check %s %s", r.Property, tier),
	}
	if c != nil {
		cov["packages_analysed"] = c.NumPkgs
		cov["kevo_functions_analysed"] = c.NumFns
		cov["call_graph"] = "VTA over CHA (golang.org/x/tools v0.29.0)"
	}
	for k, v := range extra {
		cov[k] = v
	}
	ev := Evidence{
		PropertyID: r.Property, Tier: tier, Seed: seed, Level: "other", Coverage: cov,
		Assumptions: []string{
			"closed world: the module's own packages are the only callers (entry locksets and who-may-call tables are computed from call sites inside /repo)",
			"call graph is VTA over CHA; reflection edges are added by hand where listed; unsafe pointer casts are modelled only for storage.Manager.wal",
			"path rules are path-insensitive beyond nil-ness of tested error results and branch polarity",
			"lock identity is (type, field); two objects of one type share an abstract lock",
			"a passing check means every obligation of the claimed structural rules was discharged on the current tree; it does not decide the behavioural property as a whole (see coverage.not_decided)",
		},
		WallS: wall, Violations: viol,
	}
	os.MkdirAll(filepath.Join(verifDir, "evidence"), 0o755)
	b, _ := json.MarshalIndent(ev, "", " ")
	if err := os.WriteFile(filepath.Join(verifDir, "evidence", r.Property+".json"), b, 0o644); err != nil {
		fmt.Fprintf(os.Stderr, "cannot write evidence: %v\n", err)
		return 2
	}
	fmt.Printf("property=%s tier=%s obligations=%d discharged=%d known-findings=%d violations=%d info=%d wall=%.1fs\n",
		r.Property, tier, nonInfo, byStatus[string(Discharged)], nKnown, viol, byStatus[string(Info)], wall)
	if viol > 0 {
		return 1
	}
	return 0
}

func sanitize(s string) string {
	var b strings.Builder
	for _, r := range s {
		if (r >= 'a' && r <= 'z') || (r >= 'A' && r <= 'Z') || (r >= '0' && r <= '9') || r == '-' {
			b.WriteRune(r)
		} else {
			b.WriteRune('_')
		}
	}
	return b.String()
}
