package main

import (
	"fmt"
	"go/token"
	"go/types"
	"sort"
	"strings"

	"golang.org/x/tools/go/ssa"
)

type walAnchors struct {
	wal                                          *types.Named
	nextSeq, writer, file, status, observers, mu *types.Var
	appendFns                                    []*ssa.Function // the five Append* entry points
	appendF, appendBatch                         *ssa.Function
	writeRecord, writeRaw, writeData, writeFrag  *ssa.Function
	maybeSync, syncLocked, closeF, sync          *ssa.Function
	updateNext, getNext                          *ssa.Function
	errRotating                                  *ssa.Global
	ok                                           bool
}

func getWalAnchors(c *Ctx, r *Reporter) *walAnchors {
	a := &walAnchors{}
	a.wal = c.Named("pkg/wal", "WAL")
	a.nextSeq = c.Field("pkg/wal", "WAL", "nextSequence")
	a.writer = c.Field("pkg/wal", "WAL", "writer")
	a.file = c.Field("pkg/wal", "WAL", "file")
	a.status = c.Field("pkg/wal", "WAL", "status")
	a.observers = c.Field("pkg/wal", "WAL", "observers")
	a.mu = c.Field("pkg/wal", "WAL", "mu")
	for _, n := range []string{"Append", "AppendWithSequence", "AppendExactBytes", "AppendBatch", "AppendBatchWithSequence"} {
		if f := c.Func("pkg/wal", "WAL", n); f != nil {
			a.appendFns = append(a.appendFns, f)
		}
	}
	a.appendF = c.Func("pkg/wal", "WAL", "Append")
	a.appendBatch = c.Func("pkg/wal", "WAL", "AppendBatch")
	a.writeRecord = c.Func("pkg/wal", "WAL", "writeRecord")
	a.writeRaw = c.Func("pkg/wal", "WAL", "writeRawRecord")
	a.writeData = c.Func("pkg/wal", "WAL", "writeRecordData")
	a.writeFrag = c.Func("pkg/wal", "WAL", "writeFragmentedRecord")
	a.maybeSync = c.Func("pkg/wal", "WAL", "maybeSync")
	a.syncLocked = c.Func("pkg/wal", "WAL", "syncLocked")
	a.closeF = c.Func("pkg/wal", "WAL", "Close")
	a.sync = c.Func("pkg/wal", "WAL", "Sync")
	a.updateNext = c.Func("pkg/wal", "WAL", "UpdateNextSequence")
	a.getNext = c.Func("pkg/wal", "WAL", "GetNextSequence")
	a.errRotating = c.Global("pkg/wal", "ErrWALRotating")
	a.ok = a.wal != nil && a.nextSeq != nil && a.writer != nil && a.file != nil && a.status != nil && len(a.appendFns) == 5 &&
		a.writeRecord != nil && a.writeRaw != nil && a.writeData != nil && a.writeFrag != nil && a.maybeSync != nil && a.syncLocked != nil &&
		a.closeF != nil && a.updateNext != nil && a.getNext != nil && a.errRotating != nil
	if !a.ok {
		r.Unresolved("wal.WAL.{nextSequence,writer,file,status,Append*,writeRecord,writeRawRecord,writeRecordData,writeFragmentedRecord,maybeSync,syncLocked,Close,UpdateNextSequence,GetNextSequence} / wal.ErrWALRotating", "a named anchor no longer resolves")
	}
	return a
}

func (a *walAnchors) writeSet() FnSet {
	return NewFnSet(a.writeRecord, a.writeRaw, a.writeData, a.writeFrag)
}

// isMethodCallOnField: ins calls the (pointer) method `method` of the value loaded from struct field fv.
func isMethodCallOnField(ins ssa.Instruction, full string, fv *types.Var) bool {
	call, ok := ins.(*ssa.Call)
	if !ok {
		return false
	}
	f := call.Call.StaticCallee()
	if f == nil || f.String() != full || len(call.Call.Args) == 0 {
		return false
	}
	return isLoadOfField(call.Call.Args[0], fv)
}

// alwaysNilErr: every return of fn has the nil constant as its error result.
// alwaysNilErr: every feasible return of fn yields a nil error. A return is infeasible when it is only reachable through
// the non-nil edge of a test on the result of a (statically called) function that itself always returns nil; a returned
// call result counts as nil when that callee always returns nil (depth-bounded, memoised).
var alwaysNilMemo = map[*ssa.Function]int{} // 1 yes, 2 no, 3 in progress

func alwaysNilErr(fn *ssa.Function) bool {
	switch alwaysNilMemo[fn] {
	case 1:
		return true
	case 2, 3:
		return false
	}
	alwaysNilMemo[fn] = 3
	res := alwaysNilErrCompute(fn)
	if res {
		alwaysNilMemo[fn] = 1
	} else {
		alwaysNilMemo[fn] = 2
	}
	return res
}

func alwaysNilErrCompute(fn *ssa.Function) bool {
	k := errResultIndex(fn)
	if k < 0 || len(fn.Blocks) == 0 {
		return false
	}
	staticNil := func(v ssa.Value) bool {
		call, ok := stripConv(v).(*ssa.Call)
		if !ok {
			return false
		}
		f := call.Call.StaticCallee()
		return f != nil && f != fn && alwaysNilErr(f)
	}
	fact := func(cond ssa.Value) (bool, bool) {
		v, trueIsNonNil, ok := nilTest(cond)
		if !ok || !staticNil(resolveLoad(v)) {
			return false, false
		}
		return trueIsNonNil, !trueIsNonNil
	}
	edgeOK := PruneFactEdges(fact)
	for _, ret := range Returns(fn) {
		v := ReturnValue(ret, k)
		if isNilConst(v) || staticNil(v) {
			continue
		}
		// feasible?
		hit, _ := ReachBlock(fn.Blocks[0], func(i ssa.Instruction) bool { return i == ssa.Instruction(ret) }, nil, edgeOK)
		if hit != nil {
			return false
		}
	}
	return true
}

// infeasibleErrEdges prunes the non-nil edge of tests on results of functions that always return nil.
func infeasibleErrEdges(c *Ctx) func(b *ssa.BasicBlock, succ int) bool {
	fact := func(cond ssa.Value) (bool, bool) {
		v, trueIsNonNil, ok := nilTest(cond)
		if !ok {
			return false, false
		}
		call, ok := stripConv(v).(*ssa.Call)
		if !ok {
			return false, false
		}
		cs := c.Callees(call)
		if len(cs) == 0 {
			return false, false
		}
		for _, f := range cs {
			if !alwaysNilErr(f) {
				return false, false
			}
		}
		return trueIsNonNil, !trueIsNonNil
	}
	return PruneFactEdges(fact)
}

func andEdges(fs ...func(b *ssa.BasicBlock, succ int) bool) func(b *ssa.BasicBlock, succ int) bool {
	return func(b *ssa.BasicBlock, succ int) bool {
		for _, f := range fs {
			if f != nil && !f(b, succ) {
				return false
			}
		}
		return true
	}
}

// ErrorDropped: starting after call, following only the edges on which the call's error result is NOT known to be nil,
// can a success exit be reached? (true = the error can be dropped). Returns the exit and path.
func ErrorDropped(c *Ctx, fn *ssa.Function, call ssa.Instruction) (ssa.Instruction, []*ssa.BasicBlock) {
	okFact := callOKFact(c, func(cl *ssa.Call) bool { return ssa.Instruction(cl) == call })
	exits := SuccessExits(fn, true)
	return ReachE(fn, call, func(i ssa.Instruction) bool {
		for _, e := range exits {
			if e == i {
				return true
			}
		}
		return false
	}, nil, PruneFactEdges(okFact))
}

// ---------------------------------------------------------------- C02: sync before acknowledging

func ruleWalSyncBeforeAck(c *Ctx, r *Reporter) {
	a := getWalAnchors(c, r)
	if !a.ok {
		return
	}
	r.Rule("sync-before-ack", 8)
	writes := a.writeSet()
	for _, fn := range a.appendFns {
		name := FnName(fn)
		exits := SuccessExits(fn, true)
		isExit := func(i ssa.Instruction) bool {
			for _, e := range exits {
				if e == i {
					return true
				}
			}
			return false
		}
		sites := c.CallsIn(fn, writes, false)
		if len(sites) == 0 {
			r.Undecided(name, c.FnPos(fn), "no record write found in an append entry point")
			continue
		}
		ok := true
		for _, w := range sites {
			bad, path := Reach(fn, w, isExit, func(i ssa.Instruction) bool { return c.CallMust(i, NewFnSet(a.maybeSync)) })
			if bad != nil {
				ok = false
				r.Bad(name+":sync", c.InsPos(bad), "a success exit is reachable after a record write without passing maybeSync: the write is acknowledged before it can be durable", c.PathString(path)...)
			}
		}
		// the error of maybeSync is not dropped
		for _, ms := range c.CallsIn(fn, NewFnSet(a.maybeSync), false) {
			if bad, path := ErrorDropped(c, fn, ms); bad != nil {
				ok = false
				r.Bad(name+":sync-error-checked", c.InsPos(bad), "a success exit is reachable although maybeSync returned an error (sync error dropped)", c.PathString(path)...)
			}
		}
		if ok {
			r.OK(name, c.FnPos(fn), fmt.Sprintf("%d record write site(s); every later success exit passes maybeSync()==nil", len(sites)))
		}
	}
	// maybeSync: the SyncImmediate arm reaches syncLocked with its error propagated
	syncImm := c.Const("pkg/config", "SyncImmediate")
	modeField := c.Field("pkg/config", "Config", "WALSyncMode")
	if syncImm == nil || modeField == nil {
		r.Unresolved("config.SyncImmediate / config.Config.WALSyncMode", "not found")
	} else {
		notImmediate := func(cond ssa.Value) (bool, bool) {
			bo, ok := cond.(*ssa.BinOp)
			if !ok || (bo.Op != token.EQL && bo.Op != token.NEQ) {
				return false, false
			}
			var other ssa.Value
			if isLoadOfField(bo.X, modeField) {
				other = bo.Y
			} else if isLoadOfField(bo.Y, modeField) {
				other = bo.X
			} else {
				return false, false
			}
			k, ok := other.(*ssa.Const)
			if !ok || k.Value == nil {
				return false, false
			}
			isImm := k.Value.ExactString() == syncImm.Val().ExactString()
			eq := bo.Op == token.EQL
			// mode == Immediate: false edge means "not immediate". mode == other: true edge means "not immediate".
			if isImm {
				return !eq, eq
			}
			return eq, false
		}
		fn := a.maybeSync
		exits := SuccessExits(fn, true)
		bad, path := MustPassE(fn, exits, func(i ssa.Instruction) bool { return c.CallMust(i, NewFnSet(a.syncLocked)) }, PruneFactEdges(notImmediate))
		if bad != nil {
			r.Bad("wal.WAL.maybeSync:immediate", c.InsPos(bad), "with WALSyncMode == SyncImmediate a success exit is reachable without calling syncLocked: acknowledged writes are not on disk", c.PathString(path)...)
		} else {
			r.OK("wal.WAL.maybeSync:immediate", c.FnPos(fn), "SyncImmediate: every success exit passes syncLocked")
		}
		okE := true
		for _, sl := range c.CallsIn(fn, NewFnSet(a.syncLocked), false) {
			if bad, path := ErrorDropped(c, fn, sl); bad != nil {
				okE = false
				r.Bad("wal.WAL.maybeSync:error-propagates", c.InsPos(bad), "maybeSync can return nil although syncLocked failed", c.PathString(path)...)
			}
		}
		if okE {
			r.OK("wal.WAL.maybeSync:error-propagates", c.FnPos(fn), "syncLocked's error is returned")
		}
	}
	// syncLocked / Close: Flush precedes Sync, both errors checked, status changes only after Sync
	for _, fn := range []*ssa.Function{a.syncLocked, a.closeF} {
		name := FnName(fn)
		var flush, fsync ssa.Instruction
		AllInstrs(fn, false, func(_ *ssa.Function, ins ssa.Instruction) {
			if isMethodCallOnField(ins, "(*bufio.Writer).Flush", a.writer) {
				flush = ins
			}
			if isMethodCallOnField(ins, "(*os.File).Sync", a.file) {
				fsync = ins
			}
		})
		// the flush+sync pair may live in a same-receiver helper (flushAndSyncForClose()): the pair is then checked inside
		// the helper, and the helper's call stands for the sync in this function
		inner := fn
		var helperCall ssa.Instruction
		if flush == nil || fsync == nil {
			AllInstrs(fn, false, func(_ *ssa.Function, ins ssa.Instruction) {
				call, ok := ins.(*ssa.Call)
				if !ok {
					return
				}
				h := call.Call.StaticCallee()
				if h == nil || h == fn || len(h.Blocks) == 0 || recvTypeName(h) != recvTypeName(fn) {
					return
				}
				var f2, s2 ssa.Instruction
				AllInstrs(h, false, func(_ *ssa.Function, x ssa.Instruction) {
					if isMethodCallOnField(x, "(*bufio.Writer).Flush", a.writer) {
						f2 = x
					}
					if isMethodCallOnField(x, "(*os.File).Sync", a.file) {
						s2 = x
					}
				})
				if f2 != nil && s2 != nil {
					inner, flush, fsync, helperCall = h, f2, s2, ins
				}
			})
		}
		if flush == nil || fsync == nil {
			r.Bad(name+":flush-then-sync", c.FnPos(fn), "does not both flush the buffer and fsync the file")
			continue
		}
		flushOK := callOKFact(c, func(call *ssa.Call) bool { return ssa.Instruction(call) == flush })
		good := Dominates(flush, fsync) && GuardedBy(fsync.Block(), flushOK)
		r.Check(good, name+":flush-then-sync", c.InsPos(fsync), "writer.Flush dominates file.Sync and Sync runs only if Flush succeeded", "file.Sync is not preceded by a successful writer.Flush: buffered records would not reach the disk before the sync")
		okEx := true
		if helperCall != nil {
			if bad, path := ErrorDropped(c, fn, helperCall); bad != nil {
				okEx = false
				r.Bad(name+":sync-error-checked", c.InsPos(bad), "a success exit is reachable although the flush-and-sync helper returned an error", c.PathString(path)...)
			}
		}
		for _, ci := range []ssa.Instruction{flush, fsync} {
			if bad, path := ErrorDropped(c, inner, ci); bad != nil {
				okEx = false
				r.Bad(name+":sync-error-checked", c.InsPos(bad), "a success exit is reachable although Flush/Sync returned an error", c.PathString(path)...)
			}
		}
		if okEx {
			r.OK(name+":sync-error-checked", c.FnPos(fn), "Flush and Sync errors are returned")
		}
		// status stores only after the sync
		okSt := true
		AllInstrs(fn, false, func(_ *ssa.Function, ins ssa.Instruction) {
			name2, addr, _ := atomicCall(ins)
			isStore := strings.HasPrefix(name2, "Store") && fieldVarOf(addr) == a.status
			if st, ok := ins.(*ssa.Store); ok && fieldVarOf(st.Addr) == a.status {
				isStore = true
			}
			after := fsync
			if helperCall != nil {
				after = helperCall
			}
			if isStore && !Dominates(after, ins) {
				okSt = false
				r.Bad(name+":status-after-sync", c.InsPos(ins), "the WAL status is changed before the buffer was flushed and synced (a later sync would be refused and buffered records lost)")
			}
		})
		if okSt {
			r.OK(name+":status-after-sync", c.FnPos(fn), "no status change before the sync")
		}
	}
	// the write buffer is never replaced without having been flushed successfully
	r.Rule("no-buffer-drop", 2)
	n := 0
	for _, fn := range c.KevoFns {
		if pkgOf(fn) != "pkg/wal" {
			continue
		}
		AllInstrs(fn, false, func(_ *ssa.Function, ins ssa.Instruction) {
			st, ok := ins.(*ssa.Store)
			if !ok || fieldVarOf(st.Addr) != a.writer {
				return
			}
			if _, isLit := st.Addr.(*ssa.FieldAddr).X.(*ssa.Alloc); isLit {
				return // composite literal in a constructor
			}
			n++
			flushed := callOKFact(c, func(call *ssa.Call) bool { return isMethodCallOnField(call, "(*bufio.Writer).Flush", a.writer) })
			r.Check(GuardedBy(ins.Block(), flushed), FnName(fn)+":writer-replaced", c.InsPos(ins),
				"the buffered writer is replaced only after a successful Flush of the old one", "the buffered writer is replaced without a (successful) Flush of the old one: records still in the old buffer never reach the log")
		})
	}
	if n == 0 {
		r.Info("wal.WAL.writer", "-", "no replacement of the buffered writer outside constructors")
	}
}

// ---------------------------------------------------------------- C03: batch in one buffered write, validated before the first byte

func ruleWalBatch(c *Ctx, r *Reporter) {
	a := getWalAnchors(c, r)
	if !a.ok {
		return
	}
	maxRec := c.Const("pkg/wal", "MaxRecordSize")
	if maxRec == nil {
		r.Unresolved("wal.MaxRecordSize", "not found")
		return
	}
	for _, bn := range []string{"AppendBatch", "AppendBatchWithSequence"} {
		fn := c.Func("pkg/wal", "WAL", bn)
		if fn == nil {
			r.Unresolved("wal.WAL."+bn, "not found")
			continue
		}
		name := FnName(fn)
		recs := c.CallsIn(fn, a.writeSet(), false)
		r.Rule("no-intermediate-flush", 2)
		if len(recs) == 0 {
			r.Undecided(name, c.FnPos(fn), "no record write found in a batch append")
			continue
		}
		// between record writes of one batch no Flush/Sync/maybeSync is reachable (i.e. none inside the record loop)
		flushLike := func(i ssa.Instruction) bool {
			if isMethodCallOnField(i, "(*bufio.Writer).Flush", a.writer) || isMethodCallOnField(i, "(*os.File).Sync", a.file) {
				return true
			}
			return c.CallMay(i, NewFnSet(a.maybeSync, a.syncLocked, a.sync))
		}
		okNF := true
		for _, w := range recs {
			// from a record write, can we reach a flush and then another record write?
			var hit ssa.Instruction
			AllInstrs(fn, false, func(_ *ssa.Function, ins ssa.Instruction) {
				if !flushLike(ins) {
					return
				}
				if f, _ := Reach(fn, w, func(i ssa.Instruction) bool { return i == ins }, nil); f == nil {
					return
				}
				for _, w2 := range recs {
					if f2, _ := Reach(fn, ins, func(i ssa.Instruction) bool { return i == ssa.Instruction(w2) }, nil); f2 != nil {
						hit = ins
					}
				}
			})
			if hit != nil {
				okNF = false
				r.Bad(name+":flush-inside-batch", c.InsPos(hit), "a flush/sync can run between two record writes of the same batch: a crash there leaves a strict subset of the transaction in the log")
			}
		}
		if okNF {
			r.OK(name, c.FnPos(fn), "no flush or sync between the record writes of a batch")
		}
		// every record of the batch is written with the same sequence number
		r.Rule("batch-one-sequence", 2)
		okSeq := true
		var seqArg ssa.Value
		for _, w := range recs {
			args := w.Common().Args
			if w.Common().StaticCallee() == a.writeRecord && len(args) >= 4 {
				if seqArg == nil {
					seqArg = args[3]
				}
				if inLoopVarying(args[3]) {
					okSeq = false
					r.Bad(name+":record-seq", c.InsPos(w), "records of one batch are written with a sequence number that varies inside the record loop, while the counter advances by one per batch")
				}
			}
		}
		if okSeq {
			r.OK(name+":record-seq", c.FnPos(fn), "all records of a batch carry one loop-invariant sequence number")
		}

		// buffer provision: the per-entry size added to the batch total equals the bytes writeRecord puts into the buffer
		r.Rule("buffer-provision-formula", 2)
		{
			var lx0 LinX
			hdr := c.Const("pkg/wal", "HeaderSize")
			var payloadLen ssa.Value
			AllInstrs(a.writeRecord, false, func(_ *ssa.Function, ins ssa.Instruction) {
				if mk, ok := ins.(*ssa.MakeSlice); ok {
					if _, isK := mk.Len.(*ssa.Const); !isK {
						payloadLen = mk.Len
					}
				}
			})
			// accumulator: loop phi compared with Size()-Buffered()
			var inc ssa.Value
			var cmpPos ssa.Instruction
			AllInstrs(fn, false, func(_ *ssa.Function, ins ssa.Instruction) {
				bo, ok := ins.(*ssa.BinOp)
				if !ok || (bo.Op != token.GTR && bo.Op != token.GEQ && bo.Op != token.LSS && bo.Op != token.LEQ) {
					return
				}
				for _, pair := range [][2]ssa.Value{{bo.X, bo.Y}, {bo.Y, bo.X}} {
					phi, isPhi := pair[0].(*ssa.Phi)
					if !isPhi || !strings.Contains(operandString(pair[1]), "Buffered") {
						continue
					}
					for i, e := range phi.Edges {
						if phi.Block().Dominates(phi.Block().Preds[i]) {
							if add, ok := e.(*ssa.BinOp); ok && add.Op == token.ADD {
								if add.X == ssa.Value(phi) {
									inc = add.Y
								} else if add.Y == ssa.Value(phi) {
									inc = add.X
								}
								cmpPos = ins
							}
						}
					}
				}
			})
			w0 := recs[0]
			sub0 := map[string]string{}
			if w0.Common().StaticCallee() == a.writeRecord {
				for i, p := range a.writeRecord.Params {
					if i < len(w0.Common().Args) {
						sub0["param:"+p.Name()] = Path(w0.Common().Args[i])
					}
				}
			}
			if hdr == nil || payloadLen == nil || inc == nil {
				r.Undecided(name+":provision", c.FnPos(fn), "cannot find the batch-size accumulator compared with the free buffer space, or writeRecord's payload allocation")
			} else {
				hk, _ := constInt(ssa.NewConst(hdr.Val(), hdr.Type()))
				var want GLin
				for _, alt := range lx0.Lin(payloadLen).Subst(sub0) {
					want = append(want, GAlt{Guard: alt.Guard, L: alt.L.add(linConst(hk), 1)})
				}
				got := lx0.Lin(inc)
				r.Check(got.String() == want.String(), name+":provision", c.InsPos(cmpPos),
					"the batch total grows by HeaderSize + payload size per entry, exactly what writeRecord buffers: "+want.String(),
					"the size provisioned per entry ("+got.String()+") differs from what writeRecord writes into the buffer ("+want.String()+"): the buffer can spill to the file in the middle of a batch, and a crash there leaves a strict subset of the transaction in the log")
			}
		}

		// validate-before-first-write
		r.Rule("validate-before-first-write", 2)
		// the rejection conditions of the callee (writeRecord) that do not depend on I/O: `lin > K` → failing exit before any write
		var lx LinX
		calleeRejects := rejectionConds(c, a.writeRecord, a.writeSet(), &lx)
		if len(calleeRejects) == 0 {
			r.Info(name+":validation", c.FnPos(a.writeRecord), "writeRecord has no input-dependent rejection before its write")
			r.OK(name+":validation", c.FnPos(fn), "nothing to validate up front")
			continue
		}
		// substitute parameters by the canonical paths of the call arguments
		w := recs[0]
		sub := map[string]string{}
		if w.Common().StaticCallee() == a.writeRecord {
			for i, p := range a.writeRecord.Params {
				if i < len(w.Common().Args) {
					sub["param:"+p.Name()] = Path(w.Common().Args[i])
				}
			}
		}
		// the pre-validation: rejection conditions in fn that dominate... i.e. failing branches located before the first write
		own := rejectionCondsBefore(c, fn, recs, &lx)
		for _, cr := range calleeRejects {
			want := cr.Subst(sub).String()
			found := false
			for _, o := range own {
				if o.String() == want {
					found = true
				}
			}
			var have []string
			for _, o := range own {
				have = append(have, o.String())
			}
			sort.Strings(have)
			r.Check(found, name+":validation", c.FnPos(fn),
				"the record-size rejection of writeRecord ("+want+") is tested for every entry before the first record of the batch is written",
				"writeRecord can reject an entry in the middle of the record loop ("+want+") but no identical test runs before the first write; pre-checks found: ["+strings.Join(have, " ; ")+"] — a failed commit would leave the earlier entries of the batch in the log")
		}
	}
}

// inLoopVarying: v (transitively through arithmetic) depends on a loop-carried phi.
func inLoopVarying(v ssa.Value) bool {
	seen := map[ssa.Value]bool{}
	var walk func(v ssa.Value, d int) bool
	walk = func(v ssa.Value, d int) bool {
		if d > 8 || seen[v] {
			return false
		}
		seen[v] = true
		switch x := v.(type) {
		case *ssa.Phi:
			for _, p := range x.Block().Preds {
				if x.Block().Dominates(p) {
					return true
				}
			}
			for _, e := range x.Edges {
				if walk(e, d+1) {
					return true
				}
			}
		case *ssa.BinOp:
			return walk(x.X, d+1) || walk(x.Y, d+1)
		case *ssa.Convert:
			return walk(x.X, d+1)
		}
		return false
	}
	return walk(v, 0)
}

// rejectionConds: conditions `A > B` (as guarded linear forms of A-B) of branches in fn whose true edge leads to a failing
// exit without passing a write, located before any write of fn.
func rejectionConds(c *Ctx, fn *ssa.Function, writes FnSet, lx *LinX) []GLin {
	var firstWrites []ssa.CallInstruction
	firstWrites = c.CallsIn(fn, writes, false)
	return rejectionCondsBefore(c, fn, firstWrites, lx)
}

func rejectionCondsBefore(c *Ctx, fn *ssa.Function, writes []ssa.CallInstruction, lx *LinX) []GLin {
	var out []GLin
	isWrite := func(i ssa.Instruction) bool {
		for _, w := range writes {
			if ssa.Instruction(w) == i {
				return true
			}
		}
		return false
	}
	for _, b := range fn.Blocks {
		if len(b.Instrs) == 0 {
			continue
		}
		iff, ok := b.Instrs[len(b.Instrs)-1].(*ssa.If)
		if !ok {
			continue
		}
		bo, ok := iff.Cond.(*ssa.BinOp)
		if !ok || (bo.Op != token.GTR && bo.Op != token.LSS && bo.Op != token.GEQ && bo.Op != token.LEQ) {
			continue
		}
		// true edge must end in a failing exit without any write
		succ := b.Succs[0]
		if len(succ.Instrs) == 0 {
			continue
		}
		fails := true
		for _, ret := range Returns(fn) {
			if f, _ := Reach(fn, succ.Instrs[0], func(i ssa.Instruction) bool { return i == ssa.Instruction(ret) }, nil); f != nil || succ.Instrs[0] == ssa.Instruction(ret) {
				if ClassifyReturn(ret) != ExitFailure {
					fails = false
				}
			}
		}
		if !fails {
			continue
		}
		// the branch must not come after a write (no write reaches it) unless it is in a loop that precedes... keep: no write dominates it
		afterWrite := false
		for _, w := range writes {
			if Dominates(w, iff) {
				afterWrite = true
			}
			if f, _ := Reach(fn, w, func(i ssa.Instruction) bool { return i == ssa.Instruction(iff) }, nil); f != nil {
				afterWrite = true
			}
		}
		_ = isWrite
		if afterWrite {
			continue
		}
		// normalise to  X - Y  (op)  0  with op in {>, >=}
		x, y, op := bo.X, bo.Y, bo.Op
		if op == token.LSS || op == token.LEQ {
			x, y = y, x
			op = flipOp(op)
		}
		gx, gy := lx.Lin(x), lx.Lin(y)
		if len(gx)*len(gy) > 16 {
			continue
		}
		var g GLin
		for _, p := range gx {
			for _, q := range gy {
				l := p.L.add(q.L, -1)
				if op == token.GEQ {
					l = l.add(linConst(1), 1) // x >= y  ⇔  x - y + 1 > 0
				}
				g = append(g, GAlt{Guard: conj(p.Guard, q.Guard), L: l})
			}
		}
		// only input-dependent conditions (mention a len term)
		if !strings.Contains(g.String(), "len(") {
			continue
		}
		out = append(out, g)
	}
	return out
}

// ---------------------------------------------------------------- C08: sequence numbers

func ruleWalMonotone(c *Ctx, r *Reporter) {
	a := getWalAnchors(c, r)
	if !a.ok {
		return
	}
	r.Rule("monotone-stores", 6)
	isOld := func(v ssa.Value) bool { return isLoadOfField(v, a.nextSeq) }
	for _, fn := range c.KevoFns {
		AllInstrs(fn, false, func(_ *ssa.Function, ins ssa.Instruction) {
			st, ok := ins.(*ssa.Store)
			if !ok || fieldVarOf(st.Addr) != a.nextSeq {
				return
			}
			name := FnName(fn) + ":store(nextSequence)"
			if fa, ok := st.Addr.(*ssa.FieldAddr); ok {
				if _, isLit := fa.X.(*ssa.Alloc); isLit && fn.Signature.Recv() == nil {
					r.OK(name, c.InsPos(ins), "initialisation in a constructor")
					return
				}
			}
			v := st.Val
			// (a) old + k, k >= 1
			if bo, ok := v.(*ssa.BinOp); ok && bo.Op == token.ADD {
				if k, isK := constInt(bo.Y); isK && k >= 1 && isOld(bo.X) {
					r.OK(name, c.InsPos(ins), fmt.Sprintf("stores old + %d", k))
					return
				}
				if k, isK := constInt(bo.X); isK && k >= 1 && isOld(bo.Y) {
					r.OK(name, c.InsPos(ins), fmt.Sprintf("stores old + %d", k))
					return
				}
			}
			// (b) guarded by new > old, or (c) new = s + k guarded by s >= old / s > old
			larger := func(cand ssa.Value, strictNeeded bool) Fact {
				return func(cond ssa.Value) (bool, bool) {
					bo, ok := cond.(*ssa.BinOp)
					if !ok {
						return false, false
					}
					x, y, op := bo.X, bo.Y, bo.Op
					if isOld(x) && !isOld(y) {
						x, y = y, x
						op = flipOp(op)
					}
					if !sameValue(x, cand) || !isOld(y) {
						return false, false
					}
					switch op {
					case token.GTR:
						return true, false
					case token.GEQ:
						return !strictNeeded, false
					case token.LEQ:
						return false, true
					case token.LSS:
						return false, !strictNeeded
					}
					return false, false
				}
			}
			if GuardedBy(ins.Block(), larger(v, true)) {
				r.OK(name, c.InsPos(ins), "store guarded by new > old")
				return
			}
			if bo, ok := v.(*ssa.BinOp); ok && bo.Op == token.ADD {
				if k, isK := constInt(bo.Y); isK && k >= 1 && GuardedBy(ins.Block(), larger(bo.X, false)) {
					r.OK(name, c.InsPos(ins), fmt.Sprintf("stores s + %d guarded by s >= old", k))
					return
				}
				if k, isK := constInt(bo.X); isK && k >= 1 && GuardedBy(ins.Block(), larger(bo.Y, false)) {
					r.OK(name, c.InsPos(ins), fmt.Sprintf("stores %d + s guarded by s >= old", k))
					return
				}
			}
			r.Bad(name, c.InsPos(ins), "the sequence counter is assigned a value that is not old+k and not guarded by a comparison making it larger than the old value: sequence numbers can go backwards")
		})
	}

	r.Rule("every-append-advances", 2)
	for _, fn := range []*ssa.Function{a.appendF, a.appendBatch} {
		name := FnName(fn)
		sites := c.CallsIn(fn, a.writeSet(), false)
		exits := SuccessExits(fn, true)
		ok := true
		nEx := 0
		for _, e := range exits {
			ret := e.(*ssa.Return)
			after := false
			for _, w := range sites {
				if f, _ := Reach(fn, w, func(i ssa.Instruction) bool { return i == e }, nil); f != nil {
					after = true
				}
			}
			if !after {
				continue
			}
			nEx++
			seq := ReturnValue(ret, 0)
			if !isOld(seq) {
				ok = false
				r.Bad(name+":returned-seq", c.InsPos(e), "the sequence number returned is not the counter value read before the write")
				continue
			}
			// a store of seq + k dominates the exit
			adv := false
			AllInstrs(fn, false, func(_ *ssa.Function, ins ssa.Instruction) {
				st, isSt := ins.(*ssa.Store)
				if !isSt || fieldVarOf(st.Addr) != a.nextSeq || !Dominates(ins, e) {
					return
				}
				if bo, isB := st.Val.(*ssa.BinOp); isB && bo.Op == token.ADD {
					if k, isK := constInt(bo.Y); isK && k >= 1 && isOld(bo.X) {
						adv = true
					}
				}
			})
			if !adv {
				ok = false
				r.Bad(name+":advance", c.InsPos(e), "a success exit after a record write is not dominated by a store that advances the counter past the number it returns: the next write would reuse the number")
			}
			// the record is written with that number
			for _, w := range sites {
				args := w.Common().Args
				var sarg ssa.Value
				switch w.Common().StaticCallee() {
				case a.writeRecord:
					sarg = args[3]
				case a.writeFrag:
					sarg = args[2]
				}
				if sarg != nil && !(isOld(sarg) || sameValue(sarg, seq)) {
					ok = false
					r.Bad(name+":record-seq", c.InsPos(w), "the record is written with a sequence number other than the one assigned and returned")
				}
			}
		}
		if nEx == 0 {
			r.Undecided(name, c.FnPos(fn), "no success exit after a record write")
		} else if ok {
			r.OK(name, c.FnPos(fn), "returns the counter value read before the write, writes the record with it, and advances the counter past it before every success exit")
		}
	}

	// ErrWALRotating (the retry signal) is returned before any effect
	r.Rule("rotating-means-no-effect", 5)
	for _, fn := range a.appendFns {
		name := FnName(fn)
		n := 0
		ok := true
		for _, ret := range Returns(fn) {
			if !returnsGlobalErr(ret, a.errRotating) {
				continue
			}
			n++
			AllInstrs(fn, false, func(_ *ssa.Function, ins ssa.Instruction) {
				eff := false
				if st, isSt := ins.(*ssa.Store); isSt && fieldVarOf(st.Addr) == a.nextSeq {
					eff = true
				}
				if c.CallMay(ins, a.writeSet()) {
					eff = true
				}
				if !eff {
					return
				}
				if f, _ := Reach(fn, ins, func(i ssa.Instruction) bool { return i == ssa.Instruction(ret) }, nil); f != nil {
					ok = false
					r.Bad(name+":rotating-after-effect", c.InsPos(ret), "ErrWALRotating (which makes the caller retry the whole operation) can be returned after a sequence number was consumed or a record written: the retry applies the operation twice")
				}
			})
		}
		if n == 0 {
			r.Info(name, c.FnPos(fn), "does not return ErrWALRotating directly")
		}
		if ok {
			r.OK(name, c.FnPos(fn), fmt.Sprintf("%d direct ErrWALRotating exit(s), all before any effect", n))
		}
	}
}

// preEffectSentinel: in every Append* entry point, each direct return of the sentinel g happens before any effect
// (no store to the counter and no record write can reach it). Such an error is safe to retry on.
func preEffectSentinel(c *Ctx, a *walAnchors, g *ssa.Global) bool {
	if g == nil {
		return false
	}
	for _, fn := range a.appendFns {
		for _, ret := range Returns(fn) {
			if !returnsGlobalErr(ret, g) {
				continue
			}
			bad := false
			AllInstrs(fn, false, func(_ *ssa.Function, ins ssa.Instruction) {
				eff := false
				if st, isSt := ins.(*ssa.Store); isSt && fieldVarOf(st.Addr) == a.nextSeq {
					eff = true
				}
				if c.CallMay(ins, a.writeSet()) {
					eff = true
				}
				if eff {
					if f, _ := Reach(fn, ins, func(i ssa.Instruction) bool { return i == ssa.Instruction(ret) }, nil); f != nil {
						bad = true
					}
				}
			})
			if bad {
				return false
			}
		}
	}
	return true
}
