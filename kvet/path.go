package main

import (
	"fmt"
	"go/constant"
	"go/token"
	"go/types"
	"sort"
	"strings"

	"golang.org/x/tools/go/ssa"
)

func instrIndex(ins ssa.Instruction) int {
	b := ins.Block()
	for i, x := range b.Instrs {
		if x == ins {
			return i
		}
	}
	return -1
}

// Dominates reports whether every path from the function entry to b executes a first.
func Dominates(a, b ssa.Instruction) bool {
	if a.Parent() != b.Parent() {
		return false
	}
	if a.Block() == b.Block() {
		return instrIndex(a) < instrIndex(b)
	}
	return a.Block().Dominates(b.Block())
}

// Reach searches forward from 'from' (exclusive; nil = function entry of fn) for an instruction
// satisfying want, never passing through an instruction satisfying stop. It returns the instruction
// found and the block path that leads to it.
func Reach(fn *ssa.Function, from ssa.Instruction, want, stop func(ssa.Instruction) bool) (ssa.Instruction, []*ssa.BasicBlock) {
	return ReachE(fn, from, want, stop, nil)
}

// ReachE is Reach with an edge filter: edges for which edgeOK returns false are not followed.
// The search is sensitive to boolean phis of constants: when a block ends in `if phi` and phi (defined in the same
// block) has a constant edge for the predecessor the path came from, only the matching successor is followed.
func ReachE(fn *ssa.Function, from ssa.Instruction, want, stop func(ssa.Instruction) bool, edgeOK func(b *ssa.BasicBlock, succ int) bool) (ssa.Instruction, []*ssa.BasicBlock) {
	return reachImpl(fn, from, nil, want, stop, edgeOK)
}

// ReachBlock starts the search at the first instruction of block start.
func ReachBlock(start *ssa.BasicBlock, want, stop func(ssa.Instruction) bool, edgeOK func(b *ssa.BasicBlock, succ int) bool) (ssa.Instruction, []*ssa.BasicBlock) {
	return reachImpl(start.Parent(), nil, start, want, stop, edgeOK)
}

func reachImpl(fn *ssa.Function, from ssa.Instruction, startBlock *ssa.BasicBlock, want, stop func(ssa.Instruction) bool, edgeOK func(b *ssa.BasicBlock, succ int) bool) (ssa.Instruction, []*ssa.BasicBlock) {
	if fn == nil || len(fn.Blocks) == 0 {
		return nil, nil
	}
	type item struct {
		b    *ssa.BasicBlock
		idx  int
		prev *item
	}
	type vkey struct{ b, from *ssa.BasicBlock }
	visited := map[vkey]bool{}
	var queue []*item
	if startBlock != nil {
		queue = append(queue, &item{startBlock, 0, nil})
	} else if from == nil {
		queue = append(queue, &item{fn.Blocks[0], 0, nil})
		visited[vkey{fn.Blocks[0], nil}] = true
	} else {
		queue = append(queue, &item{from.Block(), instrIndex(from) + 1, nil})
	}
	for len(queue) > 0 {
		it := queue[0]
		queue = queue[1:]
		blocked := false
		for i := it.idx; i < len(it.b.Instrs); i++ {
			ins := it.b.Instrs[i]
			if want(ins) {
				var path []*ssa.BasicBlock
				for p := it; p != nil; p = p.prev {
					path = append([]*ssa.BasicBlock{p.b}, path...)
				}
				return ins, path
			}
			if stop != nil && stop(ins) {
				blocked = true
				break
			}
		}
		if blocked {
			continue
		}
		forced := -1
		if it.prev != nil && it.idx == 0 && len(it.b.Instrs) > 0 {
			if iff, ok := it.b.Instrs[len(it.b.Instrs)-1].(*ssa.If); ok {
				forced = phiForcedSucc(iff.Cond, it.b, it.prev.b)
			}
		}
		for si, s := range it.b.Succs {
			if forced >= 0 && si != forced {
				continue
			}
			if edgeOK != nil && !edgeOK(it.b, si) {
				continue
			}
			k := vkey{s, it.b}
			if !visited[k] {
				visited[k] = true
				queue = append(queue, &item{s, 0, it})
			}
		}
	}
	return nil, nil
}

// phiForcedSucc: cond is a phi (or its negation) defined in block b with a constant bool on the edge from pred:
// returns the successor index that must be taken, or -1.
func phiForcedSucc(cond ssa.Value, b, pred *ssa.BasicBlock) int {
	neg := false
	for {
		u, ok := cond.(*ssa.UnOp)
		if !ok || u.Op != token.NOT {
			break
		}
		neg = !neg
		cond = u.X
	}
	phi, ok := cond.(*ssa.Phi)
	if !ok || phi.Block() != b {
		return -1
	}
	for i, p := range b.Preds {
		if p != pred {
			continue
		}
		k, ok := phi.Edges[i].(*ssa.Const)
		if !ok || k.Value == nil {
			return -1
		}
		if k.Value.Kind() != constant.Bool {
			return -1
		}
		v := constant.BoolVal(k.Value)
		if neg {
			v = !v
		}
		if v {
			return 0
		}
		return 1
	}
	return -1
}

// PruneFactEdges returns an edge filter that refuses the edges on which fact holds.
func PruneFactEdges(fact Fact) func(b *ssa.BasicBlock, succ int) bool {
	fact = withNot(fact)
	return func(b *ssa.BasicBlock, succ int) bool {
		if len(b.Instrs) == 0 {
			return true
		}
		iff, ok := b.Instrs[len(b.Instrs)-1].(*ssa.If)
		if !ok {
			return true
		}
		t, f := fact(iff.Cond)
		if (succ == 0 && t) || (succ == 1 && f) {
			return false
		}
		return true
	}
}

// MustPassE is MustPass with an edge filter.
func MustPassE(fn *ssa.Function, exits []ssa.Instruction, target func(ssa.Instruction) bool, edgeOK func(b *ssa.BasicBlock, succ int) bool) (ssa.Instruction, []*ssa.BasicBlock) {
	ex := map[ssa.Instruction]bool{}
	for _, e := range exits {
		ex[e] = true
	}
	return ReachE(fn, nil, func(i ssa.Instruction) bool { return ex[i] }, target, edgeOK)
}

// PathString renders a block path with source lines.
func (c *Ctx) PathString(path []*ssa.BasicBlock) []string {
	var out []string
	last := ""
	for _, b := range path {
		p := c.blockPos(b)
		if p != "-" && p != last {
			out = append(out, p)
			last = p
		}
	}
	if len(out) > 12 {
		out = append(out[:6], append([]string{"..."}, out[len(out)-5:]...)...)
	}
	return out
}

func (c *Ctx) blockPos(b *ssa.BasicBlock) string {
	for _, ins := range b.Instrs {
		if ins.Pos() != token.NoPos {
			return c.Pos(ins.Pos())
		}
	}
	return "-"
}

func (c *Ctx) InsPos(ins ssa.Instruction) string {
	if ins == nil {
		return "-"
	}
	if ins.Pos() != token.NoPos {
		return c.Pos(ins.Pos())
	}
	if v, ok := ins.(ssa.Value); ok {
		_ = v
	}
	return c.blockPos(ins.Block())
}

// ---------------------------------------------------------------- exits

type ExitKind int

const (
	ExitSuccess ExitKind = iota
	ExitFailure
	ExitMaybe
)

func isErrorType(t types.Type) bool {
	n, ok := t.(*types.Named)
	return ok && n.Obj().Pkg() == nil && n.Obj().Name() == "error"
}

// errResultIndex returns the index of the (last) error-typed result of fn, or -1.
func errResultIndex(fn *ssa.Function) int {
	res := fn.Signature.Results()
	for i := res.Len() - 1; i >= 0; i-- {
		if isErrorType(res.At(i).Type()) {
			return i
		}
	}
	return -1
}

// Returns lists the Return instructions of fn.
func Returns(fn *ssa.Function) []*ssa.Return {
	var out []*ssa.Return
	for _, b := range fn.Blocks {
		if len(b.Instrs) == 0 || b == fn.Recover {
			continue
		}
		if r, ok := b.Instrs[len(b.Instrs)-1].(*ssa.Return); ok {
			out = append(out, r)
		}
	}
	return out
}

// edgeDominates: is block b only reachable through successor #succ of the If ending block ib?
func edgeDominates(ib *ssa.BasicBlock, succ int, b *ssa.BasicBlock) bool {
	s := ib.Succs[succ]
	if len(s.Preds) != 1 {
		return false
	}
	return s == b || s.Dominates(b)
}

// nilTest recognises cond as (v != nil) or (v == nil); returns v and whether the TRUE edge means non-nil.
func nilTest(cond ssa.Value) (ssa.Value, bool, bool) {
	bo, ok := cond.(*ssa.BinOp)
	if !ok || (bo.Op != token.NEQ && bo.Op != token.EQL) {
		return nil, false, false
	}
	var v ssa.Value
	if isNilConst(bo.Y) {
		v = bo.X
	} else if isNilConst(bo.X) {
		v = bo.Y
	} else {
		return nil, false, false
	}
	return v, bo.Op == token.NEQ, true
}

func isNilConst(v ssa.Value) bool {
	k, ok := v.(*ssa.Const)
	return ok && k.Value == nil
}

// knownNilness: at block b, is v known non-nil (+1), nil (-1) or unknown (0) from dominating nil tests?
func knownNilness(v ssa.Value, b *ssa.BasicBlock) int {
	fn := b.Parent()
	for _, ib := range fn.Blocks {
		if len(ib.Instrs) == 0 {
			continue
		}
		iff, ok := ib.Instrs[len(ib.Instrs)-1].(*ssa.If)
		if !ok {
			continue
		}
		tv, trueIsNonNil, ok := nilTest(iff.Cond)
		if !ok || !sameValue(tv, v) {
			continue
		}
		if edgeDominates(ib, 0, b) {
			if trueIsNonNil {
				return +1
			}
			return -1
		}
		if edgeDominates(ib, 1, b) {
			if trueIsNonNil {
				return -1
			}
			return +1
		}
	}
	return 0
}

// sameValue: SSA identity, looking through ChangeInterface/ChangeType and loads of the same single-store cell.
func sameValue(a, b ssa.Value) bool {
	a, b = stripConv(a), stripConv(b)
	if a == b {
		return true
	}
	// the same pure arithmetic written twice (s+1 in the test and again in the assignment)
	if ba, ok := a.(*ssa.BinOp); ok {
		if bb, ok := b.(*ssa.BinOp); ok && ba.Op == bb.Op {
			switch ba.Op {
			case token.ADD, token.SUB, token.MUL:
				if sameOperand(ba.X, bb.X) && sameOperand(ba.Y, bb.Y) {
					return true
				}
				if ba.Op != token.SUB && sameOperand(ba.X, bb.Y) && sameOperand(ba.Y, bb.X) {
					return true
				}
			}
		}
	}
	// loads of the same local cell (named results / captured variables)
	la, oka := a.(*ssa.UnOp)
	lb, okb := b.(*ssa.UnOp)
	if oka && okb && la.Op == token.MUL && lb.Op == token.MUL && la.X == lb.X {
		if _, isAlloc := la.X.(*ssa.Alloc); isAlloc {
			return true
		}
	}
	return false
}

func stripConv(v ssa.Value) ssa.Value {
	for {
		switch x := v.(type) {
		case *ssa.ChangeInterface:
			v = x.X
		case *ssa.ChangeType:
			v = x.X
		default:
			return v
		}
	}
}

// ClassifyErrValue decides whether an error value at block b is nil, non-nil or unknown.
func ClassifyErrValue(v ssa.Value, b *ssa.BasicBlock, depth int) ExitKind {
	if depth > 6 {
		return ExitMaybe
	}
	v = stripConv(v)
	switch x := v.(type) {
	case *ssa.Const:
		if x.Value == nil {
			return ExitSuccess
		}
	case *ssa.MakeInterface:
		return ExitFailure
	case *ssa.Call:
		if f := x.Call.StaticCallee(); f != nil {
			switch f.String() {
			case "fmt.Errorf", "errors.New":
				return ExitFailure
			}
			if len(f.Blocks) > 0 && strings.HasPrefix(f.String(), "(") == (f.Signature.Recv() != nil) && f.Pkg != nil && strings.HasPrefix(f.Pkg.Pkg.Path(), modPath) && alwaysNilErr(f) {
				return ExitSuccess // a helper every feasible return of which yields nil
			}
		}
	case *ssa.UnOp:
		if x.Op == token.MUL {
			if g, ok := x.X.(*ssa.Global); ok && strings.HasPrefix(g.Name(), "Err") {
				return ExitFailure
			}
			if al, ok := x.X.(*ssa.Alloc); ok {
				// named result / spilled local: find the last store in this block before the load,
				// else a unique store in the function
				if st := lastStoreBefore(al, x); st != nil {
					return ClassifyErrValue(st.Val, st.Block(), depth+1)
				}
			}
		}
	case *ssa.Phi:
		kind := ExitKind(-1)
		for i, e := range x.Edges {
			k := ClassifyErrValue(e, x.Block().Preds[i], depth+1)
			if kind == -1 {
				kind = k
			} else if kind != k {
				return ExitMaybe
			}
		}
		if kind == ExitSuccess || kind == ExitFailure {
			return kind
		}
		// otherwise a dominating nil test of the phi itself may still decide
	}
	switch knownNilness(v, b) {
	case +1:
		return ExitFailure
	case -1:
		return ExitSuccess
	}
	return ExitMaybe
}

// lastStoreBefore finds the store to cell that reaches load: the nearest preceding store in the same block,
// or else the unique store to the cell in the function (ignoring the zero-initialisation).
func lastStoreBefore(cell *ssa.Alloc, load ssa.Instruction) *ssa.Store {
	b := load.Block()
	idx := instrIndex(load)
	for i := idx - 1; i >= 0; i-- {
		if st, ok := b.Instrs[i].(*ssa.Store); ok && st.Addr == cell {
			return st
		}
	}
	var only *ssa.Store
	n := 0
	for _, ref := range *cell.Referrers() {
		if st, ok := ref.(*ssa.Store); ok && st.Addr == cell {
			only = st
			n++
		}
	}
	if n == 1 && Dominates(only, load) {
		return only
	}
	// walk single-predecessor chain backwards
	cur := b
	for len(cur.Preds) == 1 {
		cur = cur.Preds[0]
		for i := len(cur.Instrs) - 1; i >= 0; i-- {
			if st, ok := cur.Instrs[i].(*ssa.Store); ok && st.Addr == cell {
				return st
			}
		}
	}
	return nil
}

// ClassifyReturn classifies a return by its error result.
func ClassifyReturn(ret *ssa.Return) ExitKind {
	k := errResultIndex(ret.Parent())
	if k < 0 || k >= len(ret.Results) {
		return ExitSuccess
	}
	return ClassifyErrValue(ReturnValue(ret, k), ret.Block(), 0)
}

// ReturnValue resolves result #i of a return through the defer-spill idiom
// (*cell = v; rundefers; t = *cell; return t) to the value stored in the same block.
func ReturnValue(ret *ssa.Return, i int) ssa.Value {
	v := ret.Results[i]
	if u, ok := v.(*ssa.UnOp); ok && u.Op == token.MUL {
		if al, ok := u.X.(*ssa.Alloc); ok {
			if st := lastStoreBefore(al, u); st != nil {
				return st.Val
			}
		}
	}
	return v
}

// SuccessExits returns the returns that are (or may be) success exits.
func SuccessExits(fn *ssa.Function, includeMaybe bool) []ssa.Instruction {
	var out []ssa.Instruction
	for _, r := range Returns(fn) {
		switch ClassifyReturn(r) {
		case ExitSuccess:
			out = append(out, r)
		case ExitMaybe:
			if includeMaybe {
				out = append(out, r)
			}
		}
	}
	return out
}

// ---------------------------------------------------------------- calls

type FnSet map[*ssa.Function]bool

func NewFnSet(fns ...*ssa.Function) FnSet {
	s := FnSet{}
	for _, f := range fns {
		if f != nil {
			s[f] = true
		}
	}
	return s
}

func (s FnSet) Names() []string {
	var out []string
	for f := range s {
		out = append(out, FnName(f))
	}
	sort.Strings(out)
	return out
}

// CallMay: ins is a call (not go/defer unless allowed) that may invoke a member of set.
func (c *Ctx) CallMay(ins ssa.Instruction, set FnSet) bool {
	ci, ok := ins.(ssa.CallInstruction)
	if !ok {
		return false
	}
	for _, f := range c.Callees(ci) {
		if set[f] {
			return true
		}
	}
	return false
}

// CallMust: every resolved callee of ins is in set (and there is at least one).
func (c *Ctx) CallMust(ins ssa.Instruction, set FnSet) bool {
	ci, ok := ins.(ssa.CallInstruction)
	if !ok {
		return false
	}
	cs := c.Callees(ci)
	if len(cs) == 0 {
		return false
	}
	for _, f := range cs {
		if !set[f] {
			return false
		}
	}
	return true
}

func isGo(ins ssa.Instruction) bool    { _, ok := ins.(*ssa.Go); return ok }
func isDefer(ins ssa.Instruction) bool { _, ok := ins.(*ssa.Defer); return ok }

// CallsIn lists the call instructions of fn (optionally with closures) that may call a member of set.
func (c *Ctx) CallsIn(fn *ssa.Function, set FnSet, withClosures bool) []ssa.CallInstruction {
	var out []ssa.CallInstruction
	AllInstrs(fn, withClosures, func(_ *ssa.Function, ins ssa.Instruction) {
		if ci, ok := ins.(ssa.CallInstruction); ok && c.CallMay(ins, set) {
			out = append(out, ci)
		}
	})
	return out
}

// MustPass checks that every path from entry of fn to one of exits executes a 'target' instruction.
// Returns nil if it holds, otherwise the offending exit and the path.
func MustPass(fn *ssa.Function, exits []ssa.Instruction, target func(ssa.Instruction) bool) (ssa.Instruction, []*ssa.BasicBlock) {
	ex := map[ssa.Instruction]bool{}
	for _, e := range exits {
		ex[e] = true
	}
	return Reach(fn, nil, func(i ssa.Instruction) bool { return ex[i] }, target)
}

// MustSet computes the set of kevo functions all of whose success paths execute a call that must invoke a
// member of the set (closure of seeds under "wrapper" relation). successOnly: only success exits count.
func (c *Ctx) MustSet(seeds FnSet, successOnly bool, maxRounds int) FnSet {
	set := FnSet{}
	for f := range seeds {
		set[f] = true
	}
	for round := 0; round < maxRounds; round++ {
		changed := false
		for _, fn := range c.KevoFns {
			if set[fn] || len(fn.Blocks) == 0 {
				continue
			}
			var exits []ssa.Instruction
			if successOnly {
				exits = SuccessExits(fn, true)
			} else {
				for _, r := range Returns(fn) {
					exits = append(exits, r)
				}
			}
			if len(exits) == 0 {
				continue
			}
			bad, _ := MustPass(fn, exits, func(i ssa.Instruction) bool {
				return !isGo(i) && c.CallMust(i, set)
			})
			if bad == nil {
				set[fn] = true
				changed = true
			}
		}
		if !changed {
			break
		}
	}
	return set
}

// MayReachPath finds a call chain from fn to any member of targets (depth-bounded), following the call graph
// through kevo functions (and one step into non-kevo targets). Go statements are followed only if followGo.
func (c *Ctx) MayReachPath(fn *ssa.Function, targets func(*ssa.Function) bool, maxDepth int, followGo bool) []string {
	type frame struct {
		fn   *ssa.Function
		path []string
	}
	seen := map[*ssa.Function]bool{fn: true}
	queue := []frame{{fn, []string{FnName(fn)}}}
	for len(queue) > 0 {
		fr := queue[0]
		queue = queue[1:]
		if len(fr.path) > maxDepth {
			continue
		}
		node := c.CG.Nodes[fr.fn]
		if node == nil {
			continue
		}
		// deterministic order
		edges := append([]*callgraphEdge(nil), wrapEdges(node.Out)...)
		sort.Slice(edges, func(i, j int) bool { return edges[i].callee.String() < edges[j].callee.String() })
		for _, e := range edges {
			if !followGo && isGo(e.site) {
				continue
			}
			callee := e.callee
			step := fmt.Sprintf("%s (%s)", FnName(callee), c.InsPos(e.site))
			if targets(callee) {
				return append(append([]string{}, fr.path...), step)
			}
			if seen[callee] || !c.InKevo(callee) {
				continue
			}
			seen[callee] = true
			queue = append(queue, frame{callee, append(append([]string{}, fr.path...), step)})
		}
	}
	return nil
}

// resolveLoad: a load of a local/heap cell is replaced by the value of the store that reaches it (same block or a
// single-predecessor chain), when that can be determined.
func resolveLoad(v ssa.Value) ssa.Value {
	for i := 0; i < 4; i++ {
		u, ok := v.(*ssa.UnOp)
		if !ok || u.Op != token.MUL {
			return v
		}
		al, ok := u.X.(*ssa.Alloc)
		if !ok {
			return v
		}
		st := lastStoreBefore(al, u)
		if st == nil {
			return v
		}
		v = stripConv(st.Val)
	}
	return v
}

// sameOperand: identical SSA value, equal constants, or (recursively) the same pure arithmetic.
func sameOperand(a, b ssa.Value) bool {
	if ka, ok := a.(*ssa.Const); ok {
		if kb, ok := b.(*ssa.Const); ok {
			return ka.Value != nil && kb.Value != nil && ka.Value.ExactString() == kb.Value.ExactString() && types.Identical(ka.Type(), kb.Type())
		}
		return false
	}
	return sameValue(a, b)
}
