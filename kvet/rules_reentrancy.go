package main

import (
	"fmt"
	"sort"

	"golang.org/x/tools/go/ssa"
)

// acquiresOnReceiver: lock ids that fn acquires on ITS OWN receiver (directly or through methods called on the same
// receiver, depth-bounded). Used for self-deadlock detection.
func (c *Ctx) acquiresOnReceiver(fn *ssa.Function, depth int, seen map[*ssa.Function]bool) map[string]string {
	out := map[string]string{}
	if fn == nil || depth > 4 || seen[fn] || len(fn.Params) == 0 || fn.Signature.Recv() == nil {
		return out
	}
	seen[fn] = true
	recv := fn.Params[0]
	AllInstrs(fn, false, func(_ *ssa.Function, ins ssa.Instruction) {
		if isGo(ins) || isDefer(ins) {
			// a deferred Unlock is not an acquisition; deferred/go calls to methods are ignored here
			return
		}
		if call, ok := ins.(*ssa.Call); ok {
			if op, ok := lockOpOfCommon(call.Common()); ok && op.Acquire {
				// receiver-relative: the mutex is a field of recv
				if fa, ok := lockBase(call.Common()).(*ssa.FieldAddr); ok && fa.X == ssa.Value(recv) {
					if old, has := out[op.ID]; !has || old == "R" {
						out[op.ID] = op.Mode
					}
				}
				return
			}
			// method call on the same receiver
			cc := call.Common()
			if !cc.IsInvoke() && len(cc.Args) > 0 && cc.Args[0] == ssa.Value(recv) {
				if callee := cc.StaticCallee(); callee != nil && c.InKevo(callee) {
					for id, m := range c.acquiresOnReceiver(callee, depth+1, seen) {
						if old, has := out[id]; !has || old == "R" {
							out[id] = m
						}
					}
				}
			}
		}
	})
	delete(seen, fn)
	return out
}

func lockBase(cc *ssa.CallCommon) ssa.Value {
	if cc.IsInvoke() {
		return cc.Value
	}
	if len(cc.Args) == 0 {
		return nil
	}
	return cc.Args[0]
}

// checkNoReentrancy: no method calls, while holding lock L of its receiver, a method on the same receiver that acquires L
// (sync.Mutex / RWMutex are not reentrant; recursive RLock deadlocks when a writer waits in between).
func checkNoReentrancy(c *Ctx, r *Reporter, scope func(*ssa.Function) bool) {
	li := c.Locks()
	nChecked := 0
	for _, fn := range c.KevoFns {
		if !scope(fn) || fn.Signature.Recv() == nil || len(fn.Params) == 0 || fn.Parent() != nil {
			continue
		}
		recv := fn.Params[0]
		locksOwn := false
		AllInstrs(fn, false, func(_ *ssa.Function, ins ssa.Instruction) {
			if call, ok := ins.(*ssa.Call); ok {
				if op, ok := lockOpOfCommon(call.Common()); ok && op.Acquire {
					if fa, ok := lockBase(call.Common()).(*ssa.FieldAddr); ok && fa.X == ssa.Value(recv) {
						locksOwn = true
					}
				}
			}
		})
		if !locksOwn {
			continue
		}
		nChecked++
		bad := false
		AllInstrs(fn, false, func(_ *ssa.Function, ins ssa.Instruction) {
			call, ok := ins.(*ssa.Call)
			if !ok {
				return
			}
			cc := call.Common()
			if cc.IsInvoke() || len(cc.Args) == 0 || cc.Args[0] != ssa.Value(recv) {
				return
			}
			callee := cc.StaticCallee()
			if callee == nil || !c.InKevo(callee) {
				return
			}
			held := li.HeldAt(ins)
			if held == nil {
				return
			}
			acq := c.acquiresOnReceiver(callee, 0, map[*ssa.Function]bool{})
			var ids []string
			for id := range acq {
				ids = append(ids, id)
			}
			sort.Strings(ids)
			for _, id := range ids {
				if hm, has := held[id]; has {
					// only locks of this receiver's own fields count (held set is by type; recv-relative acquisition checked above)
					bad = true
					r.Bad(FnName(fn)+"→"+FnName(callee), c.InsPos(ins),
						fmt.Sprintf("calls %s on the same receiver while holding %s:%s; the callee acquires %s:%s again (non-reentrant: self-deadlock / recursive read lock)", FnName(callee), id, hm, id, acq[id]))
				}
			}
		})
		if !bad {
			r.OK(FnName(fn), c.FnPos(fn), "no call on the same receiver re-acquires a lock held at the call site")
		}
	}
	if nChecked == 0 {
		r.Undecided("scope", "-", "no lock-taking method found in scope")
	}
}
