package main

import (
	"fmt"
	"go/constant"
	"go/token"
	"go/types"
	"sort"
	"strings"

	"golang.org/x/tools/go/ssa"
)

func init() {
	register(&PropertyDef{
		ID: "C13",
		Explanation: "Delivery schedules are not decided. Decided is the replica-side cursor discipline that every schedule argument rests on: " +
			"(1) in WALBatchApplier.ApplyEntries the apply callback runs only behind first == expectedNextSeq (an equality, so duplicates and batches from the past are refused as well as gaps) and, for every later element, behind seq[i] == seq[i-1]+1; " +
			"the cursor fields are written only after the loop has completed, to last / last+1, never on a failing exit, and never for an empty batch; " +
			"(2) the cursor has no other writer than the constructor, ApplyEntries and Reset, and Reset is only called with the applier's own applied position; the acknowledged positions on both sides only move forward (>-guarded stores); " +
			"(3) the applied sequence the replica reports is only ever assigned from ApplyEntries' result or GetMaxApplied(); " +
			"(4) the replication entry encoding: SerializeWALEntry and DeserializeWALEntry agree field by field (offset, width, byte order, type guard) and the decoder stores every decoded field into the entry field the encoder took it from; " +
			"(5) a stream response claims Compressed only for payloads that went through Compress; Compress and Decompress handle the same codecs with inverse library calls; (6) EngineApplier writes through the *Internal entry points when the engine is read-only and, per entry type (P-ORD walk), performs the operation the primary performed with the entry's own key and value. " +
			"Added after blind round 5: no encoder field value is narrowed below its field width; the decoder's minimum length is not above the encoder's smallest payload; every non-failing exit of EngineApplier.Apply returns the result of the mode-specific apply (no 'seen already' shortcut). " +
			"Added after blind round 7: applied-prefix-is-recorded: on every path from a successful apply callback to a failing exit of ApplyEntries the applier's position has been advanced — violated on this tree (open finding with demo: the prefix of a failed batch is applied again by the retry). " +
			"Added after blind round 8: an apply function that ends in a call of the engine returns that call's error (directly or after a check): a storage failure on the replica may not be turned into 'applied'. " +
			"Added after blind round 9: NewWALBatchApplier stores startSeq+1 to expectedNextSeq (a resumed applier that expects 1 re-applies the whole log on top of its state). " +
			"Added after blind round 10: no try-lock fallbacks; a wrapper around the entry applier advances a position of its own only behind the wrapped Apply's success.",
		NotDecided: "all delivery schedules (reordering, duplication, overlap of push and poll, reconnects); equality of replica state with a primary prefix; the primary's choice of what to send.",
		Rules:      []func(*Ctx, *Reporter){ruleReplCursor, ruleReplCursorWriters, ruleReplReported, ruleReplEntryCodec, ruleReplCompressionFlag, ruleReplApplyBypass, ruleReplCompressionSiblings, ruleReplApplierWiring, ruleApplierAlwaysApplies, ruleAppliedPrefixRecorded, ruleApplierPropagatesErrors, ruleApplierStartsBehindItsPosition, ruleNoTryLockFallbacks, ruleApplierWrappersRecordAfterApply},
	})
}

// seqOfElem: v = (*slice[idx]).SequenceNumber  -> (slice, idx)
func seqOfElem(v ssa.Value, seqField string) (ssa.Value, ssa.Value, bool) {
	ld, ok := v.(*ssa.UnOp)
	if !ok || ld.Op != token.MUL {
		return nil, nil, false
	}
	fa, ok := ld.X.(*ssa.FieldAddr)
	if !ok || fieldName(fa) != seqField {
		return nil, nil, false
	}
	el, ok := fa.X.(*ssa.UnOp)
	if !ok || el.Op != token.MUL {
		return nil, nil, false
	}
	ia, ok := el.X.(*ssa.IndexAddr)
	if !ok {
		return nil, nil, false
	}
	return ia.X, ia.Index, true
}

func isFieldLoad(v ssa.Value, recv ssa.Value, name string) bool {
	ld, ok := v.(*ssa.UnOp)
	if !ok || ld.Op != token.MUL {
		return false
	}
	fa, ok := ld.X.(*ssa.FieldAddr)
	return ok && fieldName(fa) == name && (recv == nil || fa.X == recv)
}

func ruleReplCursor(c *Ctx, r *Reporter) {
	r.Rule("cursor-discipline", 6)
	fn := c.Func("pkg/replication", "WALBatchApplier", "ApplyEntries")
	if fn == nil || len(fn.Params) < 3 {
		r.Unresolved("replication.WALBatchApplier.ApplyEntries", "not found")
		return
	}
	recv, entries, applyFn := ssa.Value(fn.Params[0]), ssa.Value(fn.Params[1]), ssa.Value(fn.Params[2])
	name := FnName(fn)
	// apply calls
	var applies []*ssa.Call
	AllInstrs(fn, false, func(_ *ssa.Function, ins ssa.Instruction) {
		if call, ok := ins.(*ssa.Call); ok && call.Call.Value == applyFn {
			applies = append(applies, call)
		}
	})
	if len(applies) == 0 {
		r.Undecided(name+":apply", c.FnPos(fn), "no call of the apply callback found")
		return
	}
	// (a) gap test: entries[0].SequenceNumber == a.expectedNextSeq
	gapFact := func(cond ssa.Value) (bool, bool) {
		bo, ok := cond.(*ssa.BinOp)
		if !ok || (bo.Op != token.EQL && bo.Op != token.NEQ) {
			return false, false
		}
		match := func(x, y ssa.Value) bool {
			sl, idx, ok := seqOfElem(x, "SequenceNumber")
			if !ok || sl != entries {
				return false
			}
			if k, ok := constInt(idx); !ok || k != 0 {
				return false
			}
			return isFieldLoad(y, recv, "expectedNextSeq")
		}
		if match(bo.X, bo.Y) || match(bo.Y, bo.X) {
			return bo.Op == token.EQL, bo.Op == token.NEQ
		}
		return false, false
	}
	for i, call := range applies {
		r.Check(GuardedBy(call.Block(), gapFact), fmt.Sprintf("%s:gap-test-guards-apply#%d", name, i), c.InsPos(call),
			"the apply callback runs only behind entries[0].SequenceNumber == expectedNextSeq",
			"the apply callback can run without the equality test first == expectedNextSeq: a duplicate, an older or a later batch would be applied")
	}
	// non-empty guard
	nonEmpty := func(cond ssa.Value) (bool, bool) {
		e, ne := emptinessFact(func(v ssa.Value) bool { return v == entries })(cond)
		return ne, e
	}
	// (b) contiguity inside the batch: within an iteration every path to apply passes (index == 0) or (cur == prev+1)
	var loop *GenericLoop
	for _, l := range GenericLoops(fn) {
		if l.Contains(applies[0].Block()) && (loop == nil || loop.Contains(l.Header)) {
			loop = l
		}
	}
	if loop == nil {
		r.Undecided(name+":contiguity-test-guards-apply", c.FnPos(fn), "the apply callback is not called inside a loop")
	} else {
		tab := applyLoopTable(fn, loop, entries, applies)
		want := map[string]string{"first": "applied", "d+1": "applied", "d+2": "refused", "d+3": "refused", "d-1": "refused", "d-2": "refused"}
		var ks []string
		for k := range want {
			ks = append(ks, k)
		}
		sort.Strings(ks)
		for _, k := range ks {
			got := tab[k]
			cons := fmt.Sprintf("%s:contiguity-table[%s]", name, k)
			switch {
			case strings.HasPrefix(got, "undecided"):
				r.Undecided(cons, c.FnPos(fn), got)
			case got == want[k]:
				r.OK(cons, c.FnPos(fn), map[bool]string{true: "the first element", false: "an element with seq = previous" + strings.TrimPrefix(k, "d")}[k == "first"]+": "+got)
			default:
				r.Bad(cons, c.FnPos(fn), fmt.Sprintf("an element whose sequence is previous%s is %s (must be %s): entries would be skipped, re-applied out of order, or a contiguous batch refused", strings.TrimPrefix(k, "d"), got, want[k]))
			}
		}
		r.Info(name+":contiguity-table[d+0]", c.FnPos(fn), "an element with the same sequence as its predecessor is "+tab["d+0"]+" (see C14/producer-consumer-sequence-contract)")
	}
	// (c) cursor stores: after the loop only, last / last+1, behind the non-empty test
	type cst struct {
		st    *ssa.Store
		field string
	}
	var stores []cst
	AllInstrs(fn, true, func(_ *ssa.Function, ins ssa.Instruction) {
		if st, ok := ins.(*ssa.Store); ok {
			if fa, ok := st.Addr.(*ssa.FieldAddr); ok {
				if n := fieldName(fa); n == "maxAppliedSeq" || n == "expectedNextSeq" {
					if fv := fieldVarOf(fa); fv != nil && fv == c.Field("pkg/replication", "WALBatchApplier", n) {
						stores = append(stores, cst{st, n})
					}
				}
			}
		}
	})
	// the value carried out of the loop: a header phi whose back-edge value is the current element's sequence, assigned behind apply OK
	var lastPhi *ssa.Phi
	if loop != nil {
		for _, ins := range loop.Header.Instrs {
			phi, ok := ins.(*ssa.Phi)
			if !ok {
				break
			}
			okAll, some := true, false
			for i, e := range phi.Edges {
				if !loop.Contains(loop.Header.Preds[i]) {
					continue
				}
				if e == ssa.Value(phi) {
					continue // iteration that applied nothing keeps the value
				}
				some = true
				sl, idx, ok := seqOfElem(e, "SequenceNumber")
				if !ok || sl != entries || !isLoopIndex(idx, loop) {
					okAll = false
					continue
				}
				// the back edge is only taken after every apply call of the iteration returned nil
				for _, call := range applies {
					if !GuardedBy(loop.Header.Preds[i], callOKFact(c, func(x *ssa.Call) bool { return x == call })) {
						okAll = false
					}
				}
			}
			if some && okAll {
				lastPhi = phi
			}
		}
	}
	r.Check(lastPhi != nil, name+":last-applied-tracks-successful-apply", c.FnPos(fn),
		"the loop carries the sequence of the element just applied, updated only behind a nil result of the apply callback",
		"no loop-carried 'last applied' value that is updated only after a successful apply")
	if len(stores) < 2 {
		r.Undecided(name+":cursor-stores", c.FnPos(fn), fmt.Sprintf("expected stores to maxAppliedSeq and expectedNextSeq, found %d", len(stores)))
	}
	for _, s := range stores {
		b := s.st.Block()
		cons := fmt.Sprintf("%s:store-%s", name, s.field)
		if s.st.Parent() != fn {
			r.Bad(cons, c.InsPos(s.st), "the cursor is written from a closure")
			continue
		}
		if loop != nil && loop.Contains(b) {
			r.Bad(cons, c.InsPos(s.st), "the cursor is written inside the apply loop: an exit from the loop (apply or decode failure) leaves a cursor that does not describe a fully applied batch")
			continue
		}
		afterLoop := loop == nil
		if loop != nil {
			for _, ex := range loopExits(loop) {
				if ex == b || ex.Dominates(b) {
					afterLoop = true
				}
			}
		}
		if !afterLoop {
			r.Bad(cons, c.InsPos(s.st), "the cursor is written on a path that did not complete the apply loop")
			continue
		}
		if !GuardedBy(b, nonEmpty) {
			r.Bad(cons, c.InsPos(s.st), "the cursor is written without the len(entries) != 0 test: an empty batch would reset it")
			continue
		}
		okVal := false
		switch s.field {
		case "maxAppliedSeq":
			okVal = lastPhi != nil && s.st.Val == ssa.Value(lastPhi)
		case "expectedNextSeq":
			if add, ok := s.st.Val.(*ssa.BinOp); ok && add.Op == token.ADD {
				if k, isK := constInt(add.Y); isK && k == 1 {
					okVal = (lastPhi != nil && add.X == ssa.Value(lastPhi)) || isFieldLoad(add.X, recv, "maxAppliedSeq")
				}
			}
		}
		r.Check(okVal, cons, c.InsPos(s.st),
			map[string]string{"maxAppliedSeq": "stored after the loop: the last applied sequence", "expectedNextSeq": "stored after the loop: last applied + 1"}[s.field],
			"the value stored is not "+map[string]string{"maxAppliedSeq": "the last applied sequence", "expectedNextSeq": "last applied + 1"}[s.field])
	}
	// (d) what the caller is told: every return's first result is a.maxAppliedSeq
	for i, ret := range Returns(fn) {
		v := ReturnValue(ret, 0)
		r.Check(isFieldLoad(v, recv, "maxAppliedSeq"), fmt.Sprintf("%s:returns-cursor#%d", name, i), c.InsPos(ret),
			"returns maxAppliedSeq", "a return reports something else than maxAppliedSeq as the applied position ("+Path(v)+")")
	}
}

// isLoopIndex: v is the induction value of the loop (the range index: phi or phi+1 of a header phi).
func isLoopIndex(v ssa.Value, l *GenericLoop) bool {
	if phi, ok := v.(*ssa.Phi); ok && phi.Block() == l.Header {
		return isIntType(phi.Type())
	}
	if bo, ok := v.(*ssa.BinOp); ok && bo.Op == token.ADD && bo.Block() == l.Header {
		if phi, ok := bo.X.(*ssa.Phi); ok && phi.Block() == l.Header && phi.Comment == "rangeindex" {
			k, isK := constInt(bo.Y)
			return isK && k == 1
		}
	}
	return false
}

// loopExits: blocks outside the loop that are successors of loop blocks.
func loopExits(l *GenericLoop) []*ssa.BasicBlock {
	seen := map[*ssa.BasicBlock]bool{}
	var out []*ssa.BasicBlock
	for _, b := range l.Header.Parent().Blocks {
		if !l.Contains(b) {
			continue
		}
		for _, s := range b.Succs {
			if !l.Contains(s) && !seen[s] {
				seen[s] = true
				out = append(out, s)
			}
		}
	}
	// only the exit taken when the loop condition fails (successor of the header) counts as "loop completed"
	var done []*ssa.BasicBlock
	for _, s := range l.Header.Succs {
		if !l.Contains(s) {
			done = append(done, s)
		}
	}
	if len(done) > 0 {
		return done
	}
	return out
}

func ruleReplCursorWriters(c *Ctx, r *Reporter) {
	r.Rule("cursor-writers", 4)
	allowed := map[string]map[string]bool{
		"maxAppliedSeq":   {"replication.NewWALBatchApplier": true, "replication.WALBatchApplier.ApplyEntries": true, "replication.WALBatchApplier.Reset": true},
		"expectedNextSeq": {"replication.NewWALBatchApplier": true, "replication.WALBatchApplier.ApplyEntries": true, "replication.WALBatchApplier.Reset": true},
		"lastAckSeq":      {"replication.NewWALBatchApplier": true, "replication.WALBatchApplier.AcknowledgeUpTo": true, "replication.WALBatchApplier.Reset": true},
	}
	for _, f := range []string{"maxAppliedSeq", "expectedNextSeq", "lastAckSeq"} {
		fv := c.Field("pkg/replication", "WALBatchApplier", f)
		if fv == nil {
			r.Unresolved("replication.WALBatchApplier."+f, "field not found")
			continue
		}
		writers := map[string]string{}
		for _, fn := range c.KevoFns {
			if !c.InKevo(fn) {
				continue
			}
			AllInstrs(fn, false, func(_ *ssa.Function, ins ssa.Instruction) {
				st, ok := ins.(*ssa.Store)
				if !ok {
					return
				}
				if fa, ok := st.Addr.(*ssa.FieldAddr); ok && fieldVarOf(fa) == fv {
					writers[FnName(topParent(fn))] = c.InsPos(ins)
				}
			})
		}
		var bad []string
		for w := range writers {
			if !allowed[f][w] {
				bad = append(bad, w+" ("+writers[w]+")")
			}
		}
		sort.Strings(bad)
		r.Check(len(bad) == 0 && len(writers) > 0, "replication.WALBatchApplier."+f+":writers", "", fmt.Sprintf("%d writers, all in the cursor API", len(writers)),
			"the cursor field is written outside the constructor/ApplyEntries/AcknowledgeUpTo/Reset: "+strings.Join(bad, ", "))
	}
	// Reset: callers may only pass the applier's own applied position
	reset := c.Func("pkg/replication", "WALBatchApplier", "Reset")
	if reset == nil {
		r.Unresolved("replication.WALBatchApplier.Reset", "not found")
	} else {
		n := 0
		for _, e := range c.Callers(reset) {
			caller := e.Caller.Func
			if !c.InKevo(caller) || e.Site == nil {
				continue
			}
			n++
			args := e.Site.Common().Args
			ok := false
			if len(args) == 2 {
				if call, isCall := args[1].(*ssa.Call); isCall {
					if f := call.Call.StaticCallee(); f != nil && f.Name() == "GetMaxApplied" && len(call.Call.Args) == 1 && sameValue(call.Call.Args[0], args[0]) {
						ok = true
					}
				}
			}
			r.Check(ok, "replication.WALBatchApplier.Reset<-"+FnName(topParent(caller)), c.InsPos(e.Site),
				"Reset is called with the applier's own GetMaxApplied()",
				"Reset moves the replica cursor to a position other than what has been applied ("+Path(args[len(args)-1])+"): entries are re-applied or skipped after it")
		}
		if n == 0 {
			r.OK("replication.WALBatchApplier.Reset:callers", c.FnPos(reset), "no live caller")
		}
	}
	// forward-only acknowledged positions on both sides
	for _, t := range []struct{ pkg, typ, fn, field, holder string }{
		{"pkg/replication", "WALBatchApplier", "AcknowledgeUpTo", "lastAckSeq", "WALBatchApplier"},
		{"pkg/replication", "Primary", "updateSessionAck", "LastAckSequence", "ReplicaSession"},
	} {
		fn := c.Func(t.pkg, t.typ, t.fn)
		fv := c.Field(t.pkg, t.holder, t.field)
		cons := "replication." + t.typ + "." + t.fn + ":forward-only"
		if fn == nil || fv == nil {
			r.Unresolved(cons, "not found")
			continue
		}
		found := false
		AllInstrs(fn, false, func(_ *ssa.Function, ins ssa.Instruction) {
			st, ok := ins.(*ssa.Store)
			if !ok {
				return
			}
			fa, ok := st.Addr.(*ssa.FieldAddr)
			if !ok || fieldVarOf(fa) != fv {
				return
			}
			found = true
			newer := func(cond ssa.Value) (bool, bool) {
				bo, ok := cond.(*ssa.BinOp)
				if !ok {
					return false, false
				}
				isOld := func(v ssa.Value) bool { return isLoadOfField(v, fv) }
				switch {
				case bo.Op == token.GTR && bo.X == st.Val && isOld(bo.Y), bo.Op == token.LSS && isOld(bo.X) && bo.Y == st.Val:
					return true, false
				case bo.Op == token.LEQ && bo.X == st.Val && isOld(bo.Y), bo.Op == token.GEQ && isOld(bo.X) && bo.Y == st.Val:
					return false, true
				}
				return false, false
			}
			r.Check(GuardedBy(st.Block(), newer), cons, c.InsPos(st), "stored only behind new > old", "the acknowledged position can move backwards (store not guarded by new > old)")
		})
		if !found {
			r.Undecided(cons, c.FnPos(fn), "no store to "+t.field+" found")
		}
	}
}

func ruleReplReported(c *Ctx, r *Reporter) {
	r.Rule("reported-le-applied", 3)
	fv := c.Field("pkg/replication", "Replica", "lastAppliedSeq")
	get := c.Func("pkg/replication", "Replica", "GetLastAppliedSequence")
	apply := c.Func("pkg/replication", "WALBatchApplier", "ApplyEntries")
	if fv == nil || get == nil || apply == nil {
		r.Unresolved("replication.Replica.lastAppliedSeq / GetLastAppliedSequence", "not found")
		return
	}
	// getter returns the field
	for i, ret := range Returns(get) {
		v := ReturnValue(ret, 0)
		r.Check(isLoadOfField(v, fv), fmt.Sprintf("%s:returns-field#%d", FnName(get), i), c.InsPos(ret), "returns Replica.lastAppliedSeq", "the reported applied sequence is not Replica.lastAppliedSeq ("+Path(v)+")")
	}
	for _, fn := range c.KevoFns {
		if !c.InKevo(fn) {
			continue
		}
		AllInstrs(fn, false, func(_ *ssa.Function, ins ssa.Instruction) {
			st, ok := ins.(*ssa.Store)
			if !ok {
				return
			}
			fa, ok := st.Addr.(*ssa.FieldAddr)
			if !ok || fieldVarOf(fa) != fv {
				return
			}
			cons := FnName(topParent(fn)) + ":store-lastAppliedSeq"
			v := resolveLoad(st.Val)
			switch x := v.(type) {
			case *ssa.Parameter:
				if strings.HasPrefix(fn.Name(), "New") {
					r.OK(cons, c.InsPos(st), "constructor: the position the caller starts from (also seeds the applier)")
					return
				}
			case *ssa.Extract:
				if call, ok := x.Tuple.(*ssa.Call); ok && x.Index == 0 && call.Call.StaticCallee() == apply {
					// only behind err == nil of that call
					r.Check(GuardedBy(st.Block(), callOKFact(c, func(x *ssa.Call) bool { return x == call })), cons, c.InsPos(st), "assigned from ApplyEntries' result behind err == nil", "assigned from ApplyEntries' result without checking its error")
					return
				}
			case *ssa.Call:
				if f := x.Call.StaticCallee(); f != nil && f.Name() == "GetMaxApplied" && recvTypeName(f) == "replication.WALBatchApplier" {
					r.OK(cons, c.InsPos(st), "assigned from WALBatchApplier.GetMaxApplied()")
					return
				}
			}
			r.Bad(cons, c.InsPos(st), "the reported applied sequence is assigned from something else than the applier's position ("+Path(st.Val)+"): it can exceed what has been applied or go backwards")
		})
	}
}

func ruleReplEntryCodec(c *Ctx, r *Reporter) {
	r.Rule("entry-codec-agreement", 2)
	enc := c.Func("pkg/replication", "", "SerializeWALEntry")
	dec := c.Func("pkg/replication", "", "DeserializeWALEntry")
	if enc == nil || dec == nil {
		r.Unresolved("replication.SerializeWALEntry / DeserializeWALEntry", "not found")
		return
	}
	var payload ssa.Value
	AllInstrs(enc, false, func(_ *ssa.Function, ins ssa.Instruction) {
		if mk, ok := ins.(*ssa.MakeSlice); ok {
			if bt, ok := mk.Type().Underlying().(interface {
				Elem() interface{ String() string }
			}); ok {
				_ = bt
			}
			if _, isK := mk.Len.(*ssa.Const); !isK && strings.HasSuffix(mk.Type().String(), "[]byte") {
				payload = mk
			}
		}
	})
	if payload == nil {
		r.Undecided("replication.entry-codec", c.FnPos(enc), "payload buffer not found in the encoder")
		return
	}
	typeGuard := func(cond ssa.Value, lx *LinX) string {
		bo, ok := cond.(*ssa.BinOp)
		if !ok || (bo.Op != token.EQL && bo.Op != token.NEQ) {
			return ""
		}
		if k, isK := constInt(bo.Y); isK && k == 2 { // OpTypeDelete
			if bt := bo.X.Type().String(); bt == "uint8" || bt == "byte" {
				return lx.Lin(bo.X).String() + " " + bo.Op.String() + " 2"
			}
		}
		return ""
	}
	ef := ExtractOffsetEncoder(enc, func(v ssa.Value) bool { return v == payload }, typeGuard)
	df := ExtractOffsetDecoder(dec, isParamNamed(dec, "payload"), typeGuard)
	diffs, rendered := CompareCodec(ef, df)
	r.Notes = append(r.Notes, "C13 entry codec: "+strings.Join(rendered, " ; "))
	for _, f := range append(append([]CField{}, ef...), df...) {
		if f.Order == "?" {
			diffs = append(diffs, "unrecognised shift idiom at "+c.InsPos(f.Ins))
		}
	}
	// a value narrowed below the width of its field is written truncated (length prefixes wrap)
	for i, f := range ef {
		w := 0
		fmt.Sscanf(f.Width, "%d", &w)
		if f.val == nil || w == 0 {
			continue
		}
		if bits := minConvBits(f.val, 0); bits < 8*w {
			diffs = append(diffs, fmt.Sprintf("field %d: the value is narrowed to %d bits before it is written into a %d-byte field (lengths of %d or more wrap)", i, bits, w, 1<<uint(bits)))
		}
	}
	// the decoder's minimum-length precondition must not exceed the smallest payload the encoder produces
	minEnc := int64(-1)
	if mk, ok := payload.(*ssa.MakeSlice); ok {
		var lx LinX
		for _, alt := range lx.Lin(mk.Len) {
			if minEnc < 0 || alt.L.K < minEnc {
				minEnc = alt.L.K
			}
		}
	}
	for _, b := range dec.Blocks {
		if len(b.Instrs) == 0 {
			continue
		}
		iff, ok := b.Instrs[len(b.Instrs)-1].(*ssa.If)
		if !ok {
			continue
		}
		bo, ok := iff.Cond.(*ssa.BinOp)
		if !ok || bo.Op != token.LSS {
			continue
		}
		call, ok := bo.X.(*ssa.Call)
		if !ok {
			continue
		}
		if bi, isB := call.Call.Value.(*ssa.Builtin); !isB || bi.Name() != "len" || !isParamNamed(dec, "payload")(call.Call.Args[0]) {
			continue
		}
		if k, isK := constInt(bo.Y); isK && minEnc >= 0 && k > minEnc {
			diffs = append(diffs, fmt.Sprintf("the decoder rejects payloads shorter than %d bytes, the encoder produces payloads from %d bytes (a delete of a short key)", k, minEnc))
		}
	}
	r.Check(len(diffs) == 0 && len(ef) >= 6, "replication.entry-codec", c.FnPos(dec), fmt.Sprintf("%d fields agree: %s", len(ef), strings.Join(rendered, " ; ")),
		"replication entry layout differs between SerializeWALEntry and DeserializeWALEntry: "+strings.Join(diffs, "; "))
	if len(ef) != len(df) || len(ef) < 6 {
		return
	}
	// field binding: what the encoder took from entry.X the decoder stores into Entry.X
	want := map[string]int{} // entry field -> codec field index
	for i, f := range ef {
		v := f.Val
		switch {
		case strings.HasPrefix(v, "len("):
		case strings.HasPrefix(v, "param:entry."):
			want[strings.TrimPrefix(v, "param:entry.")] = i
		}
	}
	got := map[string]int{}
	AllInstrs(dec, false, func(_ *ssa.Function, ins ssa.Instruction) {
		st, ok := ins.(*ssa.Store)
		if !ok {
			return
		}
		fa, ok := st.Addr.(*ssa.FieldAddr)
		if !ok {
			return
		}
		if n, ok := fa.X.Type().Underlying().(interface {
			Elem() interface{ String() string }
		}); ok {
			_ = n
		}
		if !strings.HasSuffix(fa.X.Type().String(), "wal.Entry") {
			return
		}
		if isNilConst(st.Val) {
			return
		}
		for i, f := range df {
			if f.val == st.Val || stripNumConv(st.Val) == f.val {
				got[fieldName(fa)] = i
			}
		}
	})
	var bad []string
	for _, k := range []string{"Type", "SequenceNumber", "Key", "Value"} {
		w, okW := want[k]
		g, okG := got[k]
		if !okW || !okG || w != g {
			bad = append(bad, fmt.Sprintf("%s: encoder field %v(%v), decoder field %v(%v)", k, w, okW, g, okG))
		}
	}
	r.Check(len(bad) == 0, "replication.entry-codec:field-binding", c.FnPos(dec), "Type, SequenceNumber, Key and Value are stored from the codec field the encoder filled from the same entry field",
		"the decoder fills an entry field from a different codec field than the encoder wrote it to: "+strings.Join(bad, "; "))
}

func ruleReplCompressionFlag(c *Ctx, r *Reporter) {
	r.Rule("compression-flag-truthful", 4)
	n := c.Named("proto/kevo/replication", "WALStreamResponse")
	if n == nil {
		r.Unresolved("replication_proto.WALStreamResponse", "not found")
		return
	}
	fv := c.Field("proto/kevo/replication", "WALStreamResponse", "Compressed")
	compress := c.Func("pkg/replication", "CompressionManager", "Compress")
	if fv == nil || compress == nil {
		r.Unresolved("WALStreamResponse.Compressed / CompressionManager.Compress", "not found")
		return
	}
	for _, fn := range c.KevoFns {
		if !c.InKevo(fn) || pkgOf(fn) != "pkg/replication" {
			continue
		}
		i := 0
		AllInstrs(fn, false, func(_ *ssa.Function, ins ssa.Instruction) {
			st, ok := ins.(*ssa.Store)
			if !ok {
				return
			}
			fa, ok := st.Addr.(*ssa.FieldAddr)
			if !ok || fieldVarOf(fa) != fv {
				return
			}
			cons := fmt.Sprintf("%s:Compressed#%d", FnName(topParent(fn)), i)
			i++
			if b, isK := constBool(st.Val); isK && !b {
				r.OK(cons, c.InsPos(st), "constant false")
				return
			}
			if isLoadOfField(st.Val, fv) {
				r.OK(cons, c.InsPos(st), "copied from another response (with its entries)")
				return
			}
			// may be true: the function must compress the payloads it ships
			calls := c.CallsIn(fn, NewFnSet(compress), false)
			r.Check(len(calls) > 0, cons, c.InsPos(st), "may be true; the function compresses the payloads", "the response can claim Compressed although the payloads never go through Compress: the replica fails to decompress and drops the batch")
		})
	}
}

func ruleReplApplyBypass(c *Ctx, r *Reporter) {
	r.Rule("apply-bypass-only", 2)
	fn := c.Func("pkg/replication", "EngineApplier", "applyInReadOnlyMode")
	if fn == nil {
		r.Unresolved("replication.EngineApplier.applyInReadOnlyMode", "not found")
		return
	}
	// Put and Delete arms try the *Internal interface first: a TypeAssert to an interface with PutInternal/DeleteInternal exists and its ok-edge returns the call's result
	for _, m := range []string{"PutInternal", "DeleteInternal"} {
		found := false
		AllInstrs(fn, false, func(_ *ssa.Function, ins ssa.Instruction) {
			call, ok := ins.(*ssa.Call)
			if !ok || !call.Call.IsInvoke() || call.Call.Method.Name() != m {
				return
			}
			found = true
		})
		r.Check(found, "replication.EngineApplier.applyInReadOnlyMode:"+m, c.FnPos(fn), "the read-only arm applies through "+m, "the read-only arm no longer applies through "+m)
	}
}

// applyLoopTable: decision table of one iteration of the apply loop under the order-abstract evaluator. Scenarios: the first
// element; a later element whose sequence is previous+d for d in -2..3. Every fallible step of the iteration succeeds.
// Outcome: "applied" (the callback ran and the loop continues), "refused" (the function returned without calling it),
// "skipped" (the loop continues without calling it), or "undecided: ...".
func applyLoopTable(fn *ssa.Function, loop *GenericLoop, entries ssa.Value, applies []*ssa.Call) map[string]string {
	out := map[string]string{}
	isApply := func(ins ssa.Instruction) bool {
		for _, a := range applies {
			if ins == ssa.Instruction(a) {
				return true
			}
		}
		return false
	}
	run := func(idx int64, delta int64) string {
		zero := int64(0)
		sc := &Scenario{Terms: map[string]int64{}, Bools: map[string]bool{}, Vals: map[ssa.Value]int64{}, BoolVals: map[ssa.Value]bool{}, DefaultInt: &zero}
		for _, b := range fn.Blocks {
			if !loop.Contains(b) {
				continue
			}
			for _, ins := range b.Instrs {
				v, ok := ins.(ssa.Value)
				if !ok {
					continue
				}
				if isLoopIndex(v, loop) {
					if _, isPhi := v.(*ssa.Phi); !isPhi {
						sc.Vals[v] = idx
					}
				}
				if sl, ix, ok := seqOfElem(v, "SequenceNumber"); ok && sl == entries {
					if isLoopIndex(ix, loop) {
						sc.Vals[v] = 100 + delta
					} else if sub, ok := ix.(*ssa.BinOp); ok && sub.Op == token.SUB && isLoopIndex(sub.X, loop) {
						sc.Vals[v] = 100
					}
				}
				if isErrorType(v.Type()) {
					sc.Vals[v] = NilRank
				}
			}
		}
		// the loop bound
		for _, ins := range fn.Blocks[0].Instrs {
			_ = ins
		}
		AllInstrs(fn, false, func(_ *ssa.Function, ins ssa.Instruction) {
			if call, ok := ins.(*ssa.Call); ok {
				if b, isB := call.Call.Value.(*ssa.Builtin); isB && b.Name() == "len" && call.Call.Args[0] == entries {
					sc.Vals[call] = 50
				}
			}
		})
		// range loops: the index phi itself (idx-1) for phi+1 forms
		for _, ins := range loop.Header.Instrs {
			if phi, ok := ins.(*ssa.Phi); ok && isLoopIndex(phi, loop) {
				if phi.Comment == "rangeindex" {
					sc.Vals[phi] = idx - 1
				} else {
					sc.Vals[phi] = idx
				}
			}
		}
		res := EvalLoopIter(loop, sc)
		if res.Err != "" {
			return "undecided: " + res.Err
		}
		applied := false
		for _, e := range res.Effects {
			if e.Kind == "call" && isApply(e.Ins) {
				applied = true
			}
		}
		if res.Exited != nil && res.From != loop.Header {
			// left the loop from inside the body: follow the path to its return
			tail := EvalPath(res.Exited, res.From, sc, nil)
			if tail.Err != "" {
				return "undecided: " + tail.Err
			}
			for _, e := range tail.Effects {
				if e.Kind == "call" && isApply(e.Ins) {
					applied = true
				}
			}
			if tail.Ret != nil && !applied {
				return "refused"
			}
			if tail.Ret != nil {
				return "applied, then returned"
			}
		}
		switch {
		case applied && res.Reached == loop.Header:
			return "applied"
		case applied:
			return "applied, then left the loop"
		case res.Ret != nil:
			return "refused"
		case res.Reached == loop.Header:
			return "skipped"
		}
		return "undecided: left the loop without returning"
	}
	out["first"] = run(0, 0)
	for d := int64(-2); d <= 3; d++ {
		out[fmt.Sprintf("d%+d", d)] = run(1, d)
	}
	return out
}

// ---------------------------------------------------------------- compression siblings, applier wiring

// ruleReplCompressionSiblings: Compress and Decompress handle the same codec set with inverse library calls.
func ruleReplCompressionSiblings(c *Ctx, r *Reporter) {
	r.Rule("compression-siblings", 3)
	comp := c.Func("pkg/replication", "CompressionManager", "Compress")
	deco := c.Func("pkg/replication", "CompressionManager", "Decompress")
	if comp == nil || deco == nil || len(comp.Params) < 3 || len(deco.Params) < 3 {
		r.Unresolved("replication.CompressionManager.Compress / Decompress", "not found")
		return
	}
	inverse := map[string]string{"": "", "EncodeAll": "DecodeAll", "Encode": "Decode"}
	libCall := func(fn *ssa.Function, codec int64) (string, string) {
		one := int64(1)
		sc := &Scenario{Terms: map[string]int64{}, Bools: map[string]bool{}, Vals: map[ssa.Value]int64{fn.Params[2]: codec}, BoolVals: map[ssa.Value]bool{}, DefaultInt: &one}
		AllInstrs(fn, false, func(_ *ssa.Function, ins ssa.Instruction) {
			if ex, ok := ins.(*ssa.Extract); ok && isErrorType(ex.Type()) {
				sc.Vals[ex] = NilRank // library calls succeed
			}
		})
		res := EvalPath(fn.Blocks[0], nil, sc, nil)
		if res.Err != "" {
			return "", "undecided: " + res.Err
		}
		name := ""
		for _, e := range res.Effects {
			if e.Kind != "call" {
				continue
			}
			call, ok := e.Ins.(*ssa.Call)
			if !ok {
				continue
			}
			if f := call.Call.StaticCallee(); f != nil && f.Pkg != nil && !strings.HasPrefix(f.Pkg.Pkg.Path(), modPath) {
				p := f.Pkg.Pkg.Path()
				if strings.Contains(p, "zstd") || strings.Contains(p, "snappy") {
					name = f.Name()
				}
			}
		}
		ret := "data"
		if res.Ret != nil && len(res.RetVals) == 2 && res.RetVals[1].Kind == "int" && res.RetVals[1].I != NilRank {
			ret = "error"
		} else if res.Ret != nil && len(res.RetPaths) == 2 && !strings.HasPrefix(res.RetPaths[1], "nil") && res.RetVals[1].Kind != "int" {
			ret = "error"
		}
		return name, ret
	}
	// results are fresh memory: no destination buffer other than nil is handed to the library, nothing of the result is kept
	// in the manager (the replica decompresses every entry of a batch before it applies the first one)
	for _, fn := range []*ssa.Function{comp, deco} {
		var bad []string
		AllInstrs(fn, false, func(_ *ssa.Function, ins ssa.Instruction) {
			switch x := ins.(type) {
			case *ssa.Call:
				f := x.Call.StaticCallee()
				if f == nil || f.Pkg == nil || strings.HasPrefix(f.Pkg.Pkg.Path(), modPath) {
					return
				}
				pth := f.Pkg.Pkg.Path()
				if !strings.Contains(pth, "zstd") && !strings.Contains(pth, "snappy") {
					return
				}
				for _, a := range x.Call.Args {
					if a.Type().String() != "[]byte" || a == ssa.Value(fn.Params[1]) || isNilConst(a) {
						continue
					}
					bad = append(bad, "a destination buffer ("+Path(a)+") is handed to "+f.Name()+" at "+c.InsPos(ins))
				}
			case *ssa.Store:
				if fa, ok := x.Addr.(*ssa.FieldAddr); ok && fa.X == ssa.Value(fn.Params[0]) && x.Val.Type().String() == "[]byte" {
					bad = append(bad, "a byte slice is kept in the manager ("+fieldName(fa)+") at "+c.InsPos(ins))
				}
			}
		})
		r.Check(len(bad) == 0, FnName(fn)+":fresh-result", c.FnPos(fn), "the result is freshly allocated by the library (nil destination, nothing retained)",
			"the result can share memory with the manager's state or with an earlier result: "+strings.Join(bad, "; ")+" — the replica decompresses all entries of a batch before applying them, so earlier payloads are overwritten by later ones")
	}
	codecs := map[int64]string{0: "NONE", 1: "ZSTD", 2: "SNAPPY", 7: "unknown"}
	for _, k := range []int64{0, 1, 2, 7} {
		cn, cr := libCall(comp, k)
		dn, dr := libCall(deco, k)
		cons := "replication.CompressionManager:codec[" + codecs[k] + "]"
		if strings.HasPrefix(cr, "undecided") || strings.HasPrefix(dr, "undecided") {
			r.Undecided(cons, c.FnPos(comp), cr+" / "+dr)
			continue
		}
		want, known := inverse[cn]
		ok := known && dn == want && cr == dr
		if k == 7 {
			ok = cn == "" && dn == "" && cr == "error" && dr == "error"
		}
		r.Check(ok, cons, c.FnPos(deco), fmt.Sprintf("Compress: %s→%s, Decompress: %s→%s", orDash(cn), cr, orDash(dn), dr),
			fmt.Sprintf("Compress handles codec %s with %s (→%s) but Decompress with %s (→%s): not inverse operations", codecs[k], orDash(cn), cr, orDash(dn), dr))
	}
}

func orDash(s string) string {
	if s == "" {
		return "identity"
	}
	return s
}

// ruleReplApplierWiring: per entry type, which engine operation the applier performs and with which arguments.
func ruleReplApplierWiring(c *Ctx, r *Reporter) {
	r.Rule("applier-wiring", 10)
	put, del, merge := int64(1), int64(2), int64(3)
	for _, k := range []struct {
		n string
		v *int64
	}{{"OpTypePut", &put}, {"OpTypeDelete", &del}, {"OpTypeMerge", &merge}} {
		if kc := c.Const("pkg/wal", k.n); kc != nil {
			if v, ok := constantInt(kc); ok {
				*k.v = v
			}
		} else {
			r.Unresolved("wal."+k.n, "constant not found")
			return
		}
	}
	type row struct {
		typ    int64
		name   string
		assert bool
		want   string
	}
	for _, fnName := range []string{"applyInReadOnlyMode", "applyInNormalMode"} {
		fn := c.Func("pkg/replication", "EngineApplier", fnName)
		if fn == nil || len(fn.Params) < 2 {
			r.Unresolved("replication.EngineApplier."+fnName, "not found")
			continue
		}
		entry := fn.Params[1]
		rows := []row{
			{put, "put", true, "PutInternal(Key,Value)"}, {del, "delete", true, "DeleteInternal(Key)"}, {merge, "merge", true, "Put(Key,Value)"},
			{put, "put/no-bypass", false, "Put(Key,Value)"}, {del, "delete/no-bypass", false, "Delete(Key)"}, {99, "unknown", true, "error"},
		}
		if fnName == "applyInNormalMode" {
			rows = []row{{put, "put", true, "Put(Key,Value)"}, {del, "delete", true, "Delete(Key)"}, {merge, "merge", true, "Put(Key,Value)"}, {99, "unknown", true, "error"}}
		}
		for _, rw := range rows {
			one := int64(1)
			sc := &Scenario{Terms: map[string]int64{}, Bools: map[string]bool{}, Vals: map[ssa.Value]int64{}, BoolVals: map[ssa.Value]bool{}, DefaultInt: &one}
			AllInstrs(fn, false, func(_ *ssa.Function, ins ssa.Instruction) {
				v, ok := ins.(ssa.Value)
				if !ok {
					return
				}
				if ld, ok := ins.(*ssa.UnOp); ok && ld.Op == token.MUL {
					if fa, ok := ld.X.(*ssa.FieldAddr); ok && fa.X == ssa.Value(entry) && fieldName(fa) == "Type" {
						sc.Vals[v] = rw.typ
					}
				}
				if ex, ok := ins.(*ssa.Extract); ok {
					if _, isTA := ex.Tuple.(*ssa.TypeAssert); isTA && ex.Index == 1 {
						// the *Internal interfaces are present iff rw.assert; SetReadOnly is always there
						ta := ex.Tuple.(*ssa.TypeAssert)
						has := strings.Contains(ta.AssertedType.String(), "Internal")
						if has {
							sc.BoolVals[v] = rw.assert
						} else {
							sc.BoolVals[v] = true
						}
					}
				}
			})
			res := EvalPath(fn.Blocks[0], nil, sc, nil)
			cons := fmt.Sprintf("replication.EngineApplier.%s[%s]", fnName, rw.name)
			if res.Err != "" {
				r.Undecided(cons, c.FnPos(fn), res.Err)
				continue
			}
			var got []string
			for _, e := range res.Effects {
				call, ok := e.Ins.(*ssa.Call)
				if !ok || !call.Call.IsInvoke() {
					continue
				}
				m := call.Call.Method.Name()
				switch m {
				case "Put", "Delete", "PutInternal", "DeleteInternal", "ApplyBatch", "Get":
					var as []string
					for _, a := range call.Call.Args {
						f := ""
						if ld, ok := a.(*ssa.UnOp); ok && ld.Op == token.MUL {
							if fa, ok := ld.X.(*ssa.FieldAddr); ok && fa.X == ssa.Value(entry) {
								f = fieldName(fa)
							}
						}
						if f == "" {
							f = "?" + Path(a)
						}
						as = append(as, f)
					}
					got = append(got, m+"("+strings.Join(as, ",")+")")
				}
			}
			g := strings.Join(got, " ")
			if g == "" && res.Ret != nil {
				v := ReturnValue(res.Ret, 0)
				if !isNilConst(v) {
					g = "error"
				}
			}
			r.Check(g == rw.want, cons, c.FnPos(fn), g, fmt.Sprintf("a replicated %s entry is applied as [%s], the primary performed [%s]", rw.name, g, rw.want))
		}
	}
}

func constantInt(k *types.Const) (int64, bool) {
	return constant.Int64Val(constant.ToInt(k.Val()))
}

// minConvBits: the narrowest integer type a value passes through on its way (conversion chain), in bits.
func minConvBits(v ssa.Value, d int) int {
	bits := 64
	for i := 0; i < 8 && v != nil; i++ {
		cv, ok := v.(*ssa.Convert)
		if !ok {
			break
		}
		if b, ok := cv.Type().Underlying().(*types.Basic); ok {
			switch b.Kind() {
			case types.Uint8, types.Int8:
				if bits > 8 {
					bits = 8
				}
			case types.Uint16, types.Int16:
				if bits > 16 {
					bits = 16
				}
			case types.Uint32, types.Int32:
				if bits > 32 {
					bits = 32
				}
			}
		}
		v = cv.X
	}
	return bits
}

// emptinessFact: for conditions comparing len(<slice>) with 0 or 1 in any operand order, reports (slice is EMPTY on the
// true edge, slice is EMPTY on the false edge); the other edge then means non-empty.
func emptinessFact(isSlice func(ssa.Value) bool) Fact {
	return func(cond ssa.Value) (bool, bool) {
		bo, ok := cond.(*ssa.BinOp)
		if !ok {
			return false, false
		}
		x, y, op := bo.X, bo.Y, bo.Op
		if _, isK := constInt(x); isK {
			x, y = y, x
			op = flipOp(op)
		}
		la := lenArgOf(x)
		k, isK := constInt(y)
		if la == nil || !isK || !isSlice(la) {
			return false, false
		}
		switch {
		case op == token.EQL && k == 0, op == token.LSS && k == 1, op == token.LEQ && k == 0:
			return true, false
		case op == token.NEQ && k == 0, op == token.GTR && k == 0, op == token.GEQ && k == 1:
			return false, true
		}
		return false, false
	}
}
