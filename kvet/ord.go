package main

import (
	"fmt"
	"go/constant"
	"go/token"
	"go/types"
	"strings"

	"golang.org/x/tools/go/ssa"
)

// P-ORD: order-abstract interpretation of comparison-only code. A Scenario assigns abstract integers (ranks) to the
// canonical access paths the code compares; the evaluator walks one path of a loop-free SSA region, deciding every
// branch from the scenario, and records what the code returns / stores / calls. Rules enumerate the finite set of
// scenarios (orderings) and compare the resulting decision table with the specification. No kevo code is executed:
// the walk is over the SSA graph with values from a finite abstract domain.

const NilRank = int64(-1) << 40

type AV struct {
	Kind string // "int", "bool", "unknown"
	I    int64
	B    bool
	Term string
}

func (a AV) String() string {
	switch a.Kind {
	case "int":
		if a.I == NilRank {
			return "nil"
		}
		return fmt.Sprint(a.I)
	case "bool":
		return fmt.Sprint(a.B)
	}
	return "?" + a.Term
}

type Scenario struct {
	Terms      map[string]int64    // path -> rank / integer value; NilRank = nil
	Bools      map[string]bool     // path of bool-valued call or field -> value
	DefaultInt *int64              // if set: value of integer-typed terms the scenario does not mention (counters irrelevant to the table)
	MaxVisits  int                 // how often a block may be revisited (loops with concrete induction values); default 1
	Vals       map[ssa.Value]int64 // values keyed by SSA identity (call results, decoded fields); take precedence over Terms
	BoolVals   map[ssa.Value]bool
}

type Effect struct {
	Ins  ssa.Instruction
	Kind string // "store", "call", "mapupdate"
	What string // store: address path; call: callee name
	Val  string // store: value path
}

type EvalResult struct {
	Exited   *ssa.BasicBlock // first block outside the allowed region, when the walk left it
	Ret      *ssa.Return
	RetVals  []AV
	RetPaths []string
	Reached  *ssa.BasicBlock // the 'until' block, when reached
	From     *ssa.BasicBlock // predecessor through which 'until' was reached
	Effects  []Effect
	Err      string
	phi      map[*ssa.Phi]ssa.Value
}

// HasCall: an effect calling a function whose name contains s.
func (r *EvalResult) HasCall(s string) bool {
	for _, e := range r.Effects {
		if e.Kind == "call" && strings.Contains(e.What, s) {
			return true
		}
	}
	return false
}

// StoreTo: the value path stored to an address whose path ends with suffix ("" if none).
func (r *EvalResult) StoreTo(suffix string) (string, bool) {
	val, ok := "", false
	for _, e := range r.Effects {
		if e.Kind == "store" && strings.HasSuffix(e.What, suffix) {
			val, ok = e.Val, true
		}
	}
	return val, ok
}

// PhiNext: the value flowing into phi (of the reached block) along the path taken.
func (r *EvalResult) PhiNext(phi *ssa.Phi) ssa.Value {
	if r.Reached == nil || phi.Block() != r.Reached {
		return nil
	}
	for i, p := range r.Reached.Preds {
		if p == r.From {
			v := phi.Edges[i]
			for j := 0; j < 8; j++ {
				if ph, ok := v.(*ssa.Phi); ok {
					if rv, ok := r.phi[ph]; ok {
						v = rv
						continue
					}
				}
				break
			}
			return v
		}
	}
	return nil
}

type evaluator struct {
	sc      *Scenario
	phi     map[*ssa.Phi]ssa.Value
	phiVal  map[*ssa.Phi]AV           // concrete values of phis decided on this path (loops with concrete induction)
	bind    map[*ssa.Parameter]string // parameter -> path of the actual argument (inlined callee evaluation)
	depth   int
	allowed func(*ssa.BasicBlock) bool
}

func (ev *evaluator) maxVisits() int {
	if ev.sc != nil && ev.sc.MaxVisits > 0 {
		return ev.sc.MaxVisits
	}
	return 1
}

func (ev *evaluator) pathOf(v ssa.Value) string {
	// resolve phis decided on this path
	for i := 0; i < 8; i++ {
		if ph, ok := v.(*ssa.Phi); ok {
			if rv, ok := ev.phi[ph]; ok {
				v = rv
				continue
			}
		}
		break
	}
	return ev.pathD(v, 0)
}

// pathD is Path with path-resolved phis.
func (ev *evaluator) pathD(v ssa.Value, d int) string {
	if d > 8 || v == nil {
		return "?"
	}
	if ph, ok := v.(*ssa.Phi); ok {
		if rv, ok := ev.phi[ph]; ok {
			return ev.pathD(rv, d+1)
		}
		if ph.Comment != "" {
			return "phi:" + ph.Comment
		}
		return "phi:" + ph.Name()
	}
	if pa, ok := v.(*ssa.Parameter); ok {
		if b, ok := ev.bind[pa]; ok {
			return b
		}
	}
	switch x := v.(type) {
	case *ssa.UnOp:
		if x.Op == token.MUL {
			switch a := x.X.(type) {
			case *ssa.FieldAddr:
				if al, ok := a.X.(*ssa.Alloc); ok {
					if val := singleStore(al); val != nil {
						return ev.pathD(val, d+1) + "." + fieldName(a)
					}
				}
				return ev.pathD(a.X, d+1) + "." + fieldName(a)
			case *ssa.IndexAddr:
				return ev.pathD(a.X, d+1) + "[" + ev.idxString(a.Index) + "]"
			case *ssa.Alloc:
				if val := singleStore(a); val != nil {
					return ev.pathD(val, d+1)
				}
			}
		}
	case *ssa.Call:
		name := ""
		if f := x.Call.StaticCallee(); f != nil {
			name = f.Name()
		} else if b, ok := x.Call.Value.(*ssa.Builtin); ok {
			name = b.Name()
		} else if x.Call.IsInvoke() {
			name = x.Call.Method.Name()
			return name + "(" + ev.pathD(x.Call.Value, d+1) + ")"
		}
		if name != "" {
			var args []string
			for _, a := range x.Call.Args {
				args = append(args, ev.pathD(a, d+1))
			}
			return name + "(" + strings.Join(args, ",") + ")"
		}
	case *ssa.Extract:
		return ev.pathD(x.Tuple, d+1) + "#" + fmt.Sprint(x.Index)
	case *ssa.Convert:
		return ev.pathD(x.X, d+1)
	case *ssa.ChangeType:
		return ev.pathD(x.X, d+1)
	case *ssa.MakeInterface:
		return ev.pathD(x.X, d+1)
	case *ssa.Slice:
		return ev.pathD(x.X, d+1) + "[:]"
	case *ssa.FieldAddr:
		return "&" + ev.pathD(x.X, d+1) + "." + fieldName(x)
	case *ssa.IndexAddr:
		return "&" + ev.pathD(x.X, d+1) + "[" + ev.idxString(x.Index) + "]"
	}
	return Path(v)
}

func (ev *evaluator) idxString(v ssa.Value) string {
	if k, ok := constInt(v); ok {
		return fmt.Sprint(k)
	}
	if pa, ok := v.(*ssa.Parameter); ok {
		return "$" + pa.Name()
	}
	return "*"
}

func (ev *evaluator) eval(v ssa.Value, d int) AV {
	if d > 12 {
		return AV{Kind: "unknown", Term: "deep"}
	}
	if ev.sc != nil {
		if i, ok := ev.sc.Vals[v]; ok {
			return AV{Kind: "int", I: i}
		}
		if b, ok := ev.sc.BoolVals[v]; ok {
			return AV{Kind: "bool", B: b}
		}
	}
	switch x := v.(type) {
	case *ssa.Const:
		if x.Value == nil {
			return AV{Kind: "int", I: NilRank}
		}
		switch x.Value.Kind() {
		case constant.Bool:
			return AV{Kind: "bool", B: constant.BoolVal(x.Value)}
		case constant.Int:
			if i, ok := constant.Int64Val(x.Value); ok {
				return AV{Kind: "int", I: i}
			}
		case constant.Float:
			f, _ := constant.Float64Val(x.Value)
			return AV{Kind: "int", I: int64(f)}
		}
	case *ssa.Phi:
		if av, ok := ev.phiVal[x]; ok {
			return av
		}
		if rv, ok := ev.phi[x]; ok {
			return ev.eval(rv, d+1)
		}
	case *ssa.Convert:
		return ev.eval(x.X, d+1)
	case *ssa.ChangeType:
		return ev.eval(x.X, d+1)
	case *ssa.UnOp:
		if x.Op == token.NOT {
			a := ev.eval(x.X, d+1)
			if a.Kind == "bool" {
				return AV{Kind: "bool", B: !a.B}
			}
			return a
		}
		if x.Op == token.SUB {
			a := ev.eval(x.X, d+1)
			if a.Kind == "int" {
				return AV{Kind: "int", I: -a.I}
			}
		}
	case *ssa.BinOp:
		a, b := ev.eval(x.X, d+1), ev.eval(x.Y, d+1)
		if a.Kind == "int" && b.Kind == "int" {
			switch x.Op {
			case token.ADD:
				return AV{Kind: "int", I: a.I + b.I}
			case token.SUB:
				return AV{Kind: "int", I: a.I - b.I}
			case token.EQL:
				return AV{Kind: "bool", B: a.I == b.I}
			case token.NEQ:
				return AV{Kind: "bool", B: a.I != b.I}
			case token.LSS:
				return AV{Kind: "bool", B: a.I < b.I}
			case token.LEQ:
				return AV{Kind: "bool", B: a.I <= b.I}
			case token.GTR:
				return AV{Kind: "bool", B: a.I > b.I}
			case token.GEQ:
				return AV{Kind: "bool", B: a.I >= b.I}
			}
		}
		if a.Kind == "bool" && b.Kind == "bool" {
			switch x.Op {
			case token.EQL:
				return AV{Kind: "bool", B: a.B == b.B}
			case token.NEQ:
				return AV{Kind: "bool", B: a.B != b.B}
			}
		}
		if a.Kind == "unknown" {
			return a
		}
		return b
	case *ssa.Call:
		if f := x.Call.StaticCallee(); f != nil {
			switch f.String() {
			case "bytes.Compare":
				a, b := ev.eval(x.Call.Args[0], d+1), ev.eval(x.Call.Args[1], d+1)
				if a.Kind == "int" && b.Kind == "int" {
					switch {
					case a.I < b.I:
						return AV{Kind: "int", I: -1}
					case a.I > b.I:
						return AV{Kind: "int", I: 1}
					}
					return AV{Kind: "int", I: 0}
				}
				if a.Kind == "unknown" {
					return a
				}
				return b
			case "bytes.Equal":
				a, b := ev.eval(x.Call.Args[0], d+1), ev.eval(x.Call.Args[1], d+1)
				if a.Kind == "int" && b.Kind == "int" {
					return AV{Kind: "bool", B: a.I == b.I}
				}
				if a.Kind == "unknown" {
					return a
				}
				return b
			}
		}
		if f := x.Call.StaticCallee(); f != nil && ev.depth < 3 && len(f.Blocks) > 0 && len(f.Blocks) <= 8 && strings.Contains(f.String(), modPath) {
			// a scenario value for the call itself takes precedence
			pc := ev.pathOf(v)
			if _, ok := ev.sc.Terms[pc]; !ok {
				if _, ok2 := ev.sc.Bools[pc]; !ok2 {
					bind := map[*ssa.Parameter]string{}
					for i, pa := range f.Params {
						if i < len(x.Call.Args) {
							bind[pa] = ev.pathOf(x.Call.Args[i])
						}
					}
					sub := evalFrom(f.Blocks[0], nil, ev.sc, nil, bind, ev.depth+1)
					if sub.Err == "" && sub.Ret != nil && len(sub.RetVals) >= 1 && sub.RetVals[0].Kind != "unknown" && pureEffects(sub) {
						return sub.RetVals[0]
					}
				}
			}
		}
		if b, ok := x.Call.Value.(*ssa.Builtin); ok && b.Name() == "len" {
			p := "len(" + ev.pathOf(x.Call.Args[0]) + ")"
			if i, ok := ev.sc.Terms[p]; ok {
				return AV{Kind: "int", I: i}
			}
			if r, ok := ev.sc.Terms[ev.pathOf(x.Call.Args[0])]; ok && r == NilRank {
				return AV{Kind: "int", I: 0}
			}
			if ev.sc.DefaultInt != nil {
				return AV{Kind: "int", I: *ev.sc.DefaultInt}
			}
			return AV{Kind: "unknown", Term: p}
		}
	}
	p := ev.pathOf(v)
	if i, ok := ev.sc.Terms[p]; ok {
		return AV{Kind: "int", I: i}
	}
	if b, ok := ev.sc.Bools[p]; ok {
		return AV{Kind: "bool", B: b}
	}
	if ev.sc.DefaultInt != nil {
		if bt, ok := v.Type().Underlying().(*types.Basic); ok && bt.Info()&types.IsInteger != 0 {
			return AV{Kind: "int", I: *ev.sc.DefaultInt}
		}
	}
	return AV{Kind: "unknown", Term: p}
}

// EvalPath walks from the start of block 'start' (entered from 'from', may be nil) under the scenario until a return,
// until the block 'until' is reached again, or until a branch cannot be decided.
func EvalPath(start, from *ssa.BasicBlock, sc *Scenario, until *ssa.BasicBlock) *EvalResult {
	return evalFrom(start, from, sc, until, nil, 0)
}

// EvalLoopIter evaluates one iteration of a loop from its header (loop phis stay symbolic: "phi:<name>").
// The result has Reached == header when the loop continues, Exited != nil when it is left, or Ret for a return.
func EvalLoopIter(l *GenericLoop, sc *Scenario) *EvalResult {
	ev := &evaluator{sc: sc, phi: map[*ssa.Phi]ssa.Value{}}
	ev.allowed = l.Contains
	return ev.run(l.Header, nil, l.Header)
}

// pureEffects: the inlined callee performed no store/map update.
func pureEffects(r *EvalResult) bool {
	for _, e := range r.Effects {
		if e.Kind == "store" || e.Kind == "mapupdate" {
			return false
		}
	}
	return true
}

func evalFrom(start, from *ssa.BasicBlock, sc *Scenario, until *ssa.BasicBlock, bind map[*ssa.Parameter]string, depth int) *EvalResult {
	ev := &evaluator{sc: sc, phi: map[*ssa.Phi]ssa.Value{}, bind: bind, depth: depth}
	return ev.run(start, from, until)
}

func (ev *evaluator) run(start, from, until *ssa.BasicBlock) *EvalResult {
	sc := ev.sc
	_ = sc
	res := &EvalResult{phi: ev.phi}
	b, prev := start, from
	visited := map[*ssa.BasicBlock]int{}
	for steps := 0; steps < 400; steps++ {
		if b == until && steps > 0 {
			res.Reached, res.From = b, prev
			return res
		}
		if ev.allowed != nil && !ev.allowed(b) {
			res.Exited, res.From = b, prev
			return res
		}
		visited[b]++
		if visited[b] > ev.maxVisits() {
			res.Err = "loop revisits block " + b.String() + " (" + b.Comment + ")"
			return res
		}
		// phis
		if prev != nil {
			idx := -1
			for i, p := range b.Preds {
				if p == prev {
					idx = i
				}
			}
			newVals := map[*ssa.Phi]ssa.Value{}
			newAVs := map[*ssa.Phi]AV{}
			for _, ins := range b.Instrs {
				ph, ok := ins.(*ssa.Phi)
				if !ok {
					break
				}
				if idx >= 0 {
					v := ph.Edges[idx]
					if av := ev.eval(v, 0); av.Kind != "unknown" {
						newAVs[ph] = av
					}
					// resolve through already-decided phis (parallel assignment semantics)
					if p2, ok := v.(*ssa.Phi); ok {
						if rv, ok := ev.phi[p2]; ok {
							v = rv
						}
					}
					newVals[ph] = v
				}
			}
			for k, v := range newVals {
				ev.phi[k] = v
				delete(ev.phiVal, k)
			}
			for k, av := range newAVs {
				if ev.phiVal == nil {
					ev.phiVal = map[*ssa.Phi]AV{}
				}
				ev.phiVal[k] = av
			}
		}
		for _, ins := range b.Instrs {
			switch x := ins.(type) {
			case *ssa.Store:
				res.Effects = append(res.Effects, Effect{Ins: ins, Kind: "store", What: ev.pathOf(x.Addr), Val: ev.pathOf(x.Val)})
			case *ssa.MapUpdate:
				res.Effects = append(res.Effects, Effect{Ins: ins, Kind: "mapupdate", What: ev.pathOf(x.Map)})
			case *ssa.Slice:
				lo := "0"
				if x.Low != nil {
					if k, ok := constInt(x.Low); ok {
						lo = fmt.Sprint(k)
					} else {
						lo = ev.pathOf(x.Low)
					}
				}
				res.Effects = append(res.Effects, Effect{Ins: ins, Kind: "slice", What: ev.pathOf(x.X), Val: lo})
			case *ssa.Call:
				name := ""
				if f := x.Call.StaticCallee(); f != nil {
					name = FnName(f)
				} else if x.Call.IsInvoke() {
					name = x.Call.Method.Name()
				} else if bi, ok := x.Call.Value.(*ssa.Builtin); ok {
					name = bi.Name()
				}
				res.Effects = append(res.Effects, Effect{Ins: ins, Kind: "call", What: name, Val: ev.pathOf(x)})
			case *ssa.Return:
				res.Ret = x
				for i := range x.Results {
					v := ReturnValue(x, i)
					res.RetVals = append(res.RetVals, ev.eval(v, 0))
					res.RetPaths = append(res.RetPaths, ev.pathOf(v))
				}
				return res
			case *ssa.If:
				c := ev.eval(x.Cond, 0)
				if c.Kind != "bool" {
					res.Err = "undetermined condition: " + ev.condString(x.Cond) + " [" + c.String() + "]"
					return res
				}
				prev = b
				if c.B {
					b = b.Succs[0]
				} else {
					b = b.Succs[1]
				}
			case *ssa.Jump:
				prev = b
				b = b.Succs[0]
			case *ssa.Panic:
				res.Err = "panic"
				return res
			}
		}
		if len(b.Instrs) == 0 {
			res.Err = "empty block"
			return res
		}
	}
	res.Err = "step limit"
	return res
}

func (ev *evaluator) condString(cond ssa.Value) string {
	switch x := cond.(type) {
	case *ssa.BinOp:
		return ev.pathOf(x.X) + " " + x.Op.String() + " " + ev.pathOf(x.Y)
	case *ssa.UnOp:
		if x.Op == token.NOT {
			return "!" + ev.condString(x.X)
		}
	}
	return ev.pathOf(cond)
}

func sign(i int64) int64 {
	switch {
	case i < 0:
		return -1
	case i > 0:
		return 1
	}
	return 0
}
