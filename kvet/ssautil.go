package main

import (
	"go/constant"
	"go/token"
	"go/types"
	"strings"

	"golang.org/x/tools/go/ssa"
)

// fieldVarOf returns the struct field object addressed/selected by v (FieldAddr, Field, or a load of a FieldAddr).
func fieldVarOf(v ssa.Value) *types.Var {
	switch x := v.(type) {
	case *ssa.FieldAddr:
		t := x.X.Type().Underlying()
		if p, ok := t.(*types.Pointer); ok {
			t = p.Elem().Underlying()
		}
		if st, ok := t.(*types.Struct); ok && x.Field < st.NumFields() {
			return st.Field(x.Field)
		}
	case *ssa.Field:
		if st, ok := x.X.Type().Underlying().(*types.Struct); ok && x.Field < st.NumFields() {
			return st.Field(x.Field)
		}
	case *ssa.UnOp:
		if x.Op == token.MUL {
			return fieldVarOf(x.X)
		}
	}
	return nil
}

// loadedField: v is a load (*FieldAddr) of field fv -> true
func isLoadOfField(v ssa.Value, fv *types.Var) bool {
	u, ok := v.(*ssa.UnOp)
	if !ok || u.Op != token.MUL {
		return false
	}
	return fieldVarOf(u.X) == fv && fv != nil
}

// atomicCall recognises ins as a call to a sync/atomic method or function; returns the method name (Load, Store,
// Swap, CompareAndSwap, Add, ...) and the address operand.
func atomicCall(ins ssa.Instruction) (string, ssa.Value, *ssa.CallCommon) {
	ci, ok := ins.(ssa.CallInstruction)
	if !ok {
		return "", nil, nil
	}
	cc := ci.Common()
	f := cc.StaticCallee()
	if f == nil || len(cc.Args) == 0 {
		return "", nil, nil
	}
	pk := ""
	if f.Pkg != nil {
		pk = f.Pkg.Pkg.Path()
	} else if o := f.Origin(); o != nil && o.Pkg != nil {
		pk = o.Pkg.Pkg.Path()
	}
	if pk != "sync/atomic" {
		return "", nil, nil
	}
	return f.Name(), cc.Args[0], cc
}

// Fact tells, for a branch condition, whether the fact of interest holds on the true edge and/or false edge.
type Fact func(cond ssa.Value) (onTrue, onFalse bool)

// withNot lifts a fact over the condition shapes the compiler produces for composite conditions: negation, and the
// boolean phi of short-circuit && / || (also the `case a && b:` arms of a tagless switch):
//
//	p = phi[false, ..., B]  (a && b):  p true  ⇒ every operand true   → the fact holds on the true edge if it holds on the true edge of any operand
//	p = phi[true, ..., B]   (a || b):  p false ⇒ every operand false  → the fact holds on the false edge if it holds on the false edge of any operand
func withNot(f Fact) Fact {
	var g Fact
	depth := 0
	g = func(cond ssa.Value) (bool, bool) {
		// loop-carried flags (`for grew := true; grew; {…}`) form cycles of boolean phis: they are not short-circuit
		// conditions; bound the recursion and leave phis of loop headers to the fact itself
		depth++
		defer func() { depth-- }()
		if depth > 12 {
			return false, false
		}
		if u, ok := cond.(*ssa.UnOp); ok && u.Op == token.NOT {
			t, fl := g(u.X)
			return fl, t
		}
		// a predicate helper of this module with one boolean result and one return (`if !isTableFile(entry)`): the
		// call's value is the helper's return expression; facts about shapes inside it (tests the helper makes on its
		// own operands) hold on the corresponding edge of the call. Facts that need the caller's values simply do not
		// match there.
		if call, ok := cond.(*ssa.Call); ok {
			if t, fl := f(cond); t || fl {
				return t, fl
			}
			if h := call.Call.StaticCallee(); h != nil && len(h.Blocks) > 0 && h.Pkg != nil && strings.HasPrefix(h.Pkg.Pkg.Path(), modPath) &&
				h.Signature.Results().Len() == 1 && h.Signature.Results().At(0).Type().String() == "bool" {
				if rets := Returns(h); len(rets) == 1 {
					return g(ReturnValue(rets[0], 0))
				}
			}
			return false, false
		}
		if phi, ok := cond.(*ssa.Phi); ok && len(phi.Edges) >= 2 && !isLoopHeader(phi.Block()) {
			if t, fl := f(cond); t || fl {
				return t, fl
			}
			nFalse, nTrue := 0, 0
			var operands []ssa.Value
			negated := map[int]bool{} // operand index -> the operand is the NEGATION of the recorded branch condition
			for i, e := range phi.Edges {
				if b, isK := constBool(e); isK {
					if b {
						nTrue++
					} else {
						nFalse++
					}
					// the operand that short-circuited: the condition of the predecessor's branch. The builder compiles
					// `!a && b` as a branch on a with swapped targets (no NOT instruction): the operand has the value b
					// on the edge taken, so it is the condition itself if (taken on true) == b, its negation otherwise
					p := phi.Block().Preds[i]
					if len(p.Instrs) > 0 {
						if iff, ok := p.Instrs[len(p.Instrs)-1].(*ssa.If); ok {
							takenOnTrue := len(p.Succs) == 2 && p.Succs[0] == phi.Block()
							if takenOnTrue != b {
								negated[len(operands)] = true
							}
							operands = append(operands, iff.Cond)
						}
					}
					continue
				}
				operands = append(operands, e)
			}
			eval := func(k int, o ssa.Value) (bool, bool) {
				t, fl := g(o)
				if negated[k] {
					return fl, t
				}
				return t, fl
			}
			switch {
			case nFalse > 0 && nTrue == 0: // conjunction: true ⇒ every operand true; false ⇒ some operand false
				allFalse := len(operands) > 0
				for k, o := range operands {
					if o == cond {
						continue
					}
					t, fl := eval(k, o)
					if t {
						return true, false
					}
					if !fl {
						allFalse = false
					}
				}
				if allFalse {
					return false, true // the fact holds whichever operand was false
				}
			case nTrue > 0 && nFalse == 0: // disjunction: false ⇒ every operand false; true ⇒ some operand true
				allTrue := len(operands) > 0
				for k, o := range operands {
					if o == cond {
						continue
					}
					t, fl := eval(k, o)
					if fl {
						return false, true
					}
					if !t {
						allTrue = false
					}
				}
				if allTrue {
					return true, false // the fact holds whichever operand was true
				}
			}
			return false, false
		}
		return f(cond)
	}
	return g
}

// GuardedBy: is the block b only reachable through an edge on which fact holds?
func GuardedBy(b *ssa.BasicBlock, fact Fact) bool {
	fact = withNot(fact)
	fn := b.Parent()
	// edges on which the fact is established
	type edge struct {
		from *ssa.BasicBlock
		succ int
	}
	factEdge := map[edge]bool{}
	any := false
	for _, ib := range fn.Blocks {
		if len(ib.Instrs) == 0 {
			continue
		}
		iff, ok := ib.Instrs[len(ib.Instrs)-1].(*ssa.If)
		if !ok {
			continue
		}
		t, f := fact(iff.Cond)
		if t {
			factEdge[edge{ib, 0}] = true
			any = true
		}
		if f {
			factEdge[edge{ib, 1}] = true
			any = true
		}
	}
	if !any || len(fn.Blocks) == 0 {
		return false
	}
	// b is guarded iff it is unreachable from the entry once the fact edges are removed (every path to b takes one of them:
	// this also covers `if a || b {…}`, whose then-block has two incoming fact edges and no single dominating one)
	if b == fn.Blocks[0] {
		return false
	}
	seen := map[*ssa.BasicBlock]bool{fn.Blocks[0]: true}
	work := []*ssa.BasicBlock{fn.Blocks[0]}
	for len(work) > 0 {
		x := work[len(work)-1]
		work = work[:len(work)-1]
		for i, sx := range x.Succs {
			if factEdge[edge{x, i}] || seen[sx] {
				continue
			}
			if sx == b {
				return false
			}
			seen[sx] = true
			work = append(work, sx)
		}
	}
	// unreachable without a fact edge; make sure it is reachable at all (dead blocks are not "guarded")
	return true
}

// FactBlocks returns the set of blocks of fn on which the fact is known to hold.
func FactBlocks(fn *ssa.Function, fact Fact) map[*ssa.BasicBlock]bool {
	out := map[*ssa.BasicBlock]bool{}
	for _, b := range fn.Blocks {
		if GuardedBy(b, fact) {
			out[b] = true
		}
	}
	return out
}

func constInt(v ssa.Value) (int64, bool) {
	k, ok := v.(*ssa.Const)
	if !ok || k.Value == nil {
		return 0, false
	}
	if k.Value.Kind() == constant.Int {
		i, ok := constant.Int64Val(k.Value)
		return i, ok
	}
	return 0, false
}

func constBool(v ssa.Value) (bool, bool) {
	k, ok := v.(*ssa.Const)
	if !ok || k.Value == nil || k.Value.Kind() != constant.Bool {
		return false, false
	}
	return constant.BoolVal(k.Value), true
}

func constString(v ssa.Value) (string, bool) {
	k, ok := v.(*ssa.Const)
	if !ok || k.Value == nil || k.Value.Kind() != constant.String {
		return "", false
	}
	return constant.StringVal(k.Value), true
}

// globalLoad: v is a load of package-level variable; returns it.
func globalLoad(v ssa.Value) *ssa.Global {
	u, ok := stripConv(v).(*ssa.UnOp)
	if !ok || u.Op != token.MUL {
		return nil
	}
	g, _ := u.X.(*ssa.Global)
	return g
}

// returnsGlobalErr: does ret return (as its error result) the sentinel global g, possibly wrapped by fmt.Errorf("%w")?
func returnsGlobalErr(ret *ssa.Return, g *ssa.Global) bool {
	k := errResultIndex(ret.Parent())
	if k < 0 || k >= len(ret.Results) {
		return false
	}
	return valueMentionsGlobal(ReturnValue(ret, k), g, 0)
}

func valueMentionsGlobal(v ssa.Value, g *ssa.Global, depth int) bool {
	if depth > 5 || v == nil {
		return false
	}
	v = stripConv(v)
	if gl := globalLoad(v); gl != nil && gl == g {
		return true
	}
	switch x := v.(type) {
	case *ssa.Call:
		if f := x.Call.StaticCallee(); f != nil && f.String() == "fmt.Errorf" {
			for _, a := range x.Call.Args {
				if valueMentionsGlobal(a, g, depth+1) {
					return true
				}
			}
		}
	case *ssa.Slice:
		return valueMentionsGlobal(x.X, g, depth+1)
	case *ssa.Alloc:
		// varargs array: look at stores into its elements
		for _, ref := range *x.Referrers() {
			if ia, ok := ref.(*ssa.IndexAddr); ok {
				for _, r2 := range *ia.Referrers() {
					if st, ok := r2.(*ssa.Store); ok && valueMentionsGlobal(st.Val, g, depth+1) {
						return true
					}
				}
			}
		}
	case *ssa.MakeInterface:
		return valueMentionsGlobal(x.X, g, depth+1)
	case *ssa.Phi:
		for _, e := range x.Edges {
			if valueMentionsGlobal(e, g, depth+1) {
				return true
			}
		}
	}
	return false
}

// methodName of a call (static or invoke).
func calleeName(cc *ssa.CallCommon) string {
	if cc.IsInvoke() {
		return cc.Method.Name()
	}
	if f := cc.StaticCallee(); f != nil {
		return f.Name()
	}
	return ""
}

// recvTypeName returns "pkg.Type" of the receiver of fn (without pointer), or "".
func recvTypeName(fn *ssa.Function) string {
	if fn == nil || fn.Signature.Recv() == nil {
		return ""
	}
	t := fn.Signature.Recv().Type()
	if p, ok := t.(*types.Pointer); ok {
		t = p.Elem()
	}
	if n, ok := t.(*types.Named); ok && n.Obj().Pkg() != nil {
		return n.Obj().Pkg().Name() + "." + n.Obj().Name()
	}
	return ""
}

func topParent(fn *ssa.Function) *ssa.Function {
	for fn.Parent() != nil {
		fn = fn.Parent()
	}
	return fn
}

func pkgOf(fn *ssa.Function) string {
	fn = topParent(fn)
	if fn.Pkg != nil {
		return strings.TrimPrefix(strings.TrimPrefix(fn.Pkg.Pkg.Path(), modPath), "/")
	}
	return ""
}

// exportedMethods lists the exported methods of *T (pointer receiver method set) as SSA functions.
func (c *Ctx) exportedMethods(short, typ string) []*ssa.Function {
	n := c.Named(short, typ)
	if n == nil {
		return nil
	}
	var out []*ssa.Function
	ms := types.NewMethodSet(types.NewPointer(n))
	for i := 0; i < ms.Len(); i++ {
		sel := ms.At(i)
		if !sel.Obj().Exported() {
			continue
		}
		if f := c.Prog.MethodValue(sel); f != nil {
			// unwrap promoted-method wrappers to report the declared function when possible
			out = append(out, f)
		}
	}
	return out
}

// ReachSet computes the set of kevo functions from which some target is reachable in the call graph
// (backward closure). Go statements are followed unless noGo.
func (c *Ctx) ReachSet(targets FnSet, noGo bool) FnSet {
	set := FnSet{}
	var work []*ssa.Function
	for f := range targets {
		set[f] = true
		work = append(work, f)
	}
	for len(work) > 0 {
		f := work[0]
		work = work[1:]
		for _, e := range c.Callers(f) {
			if e.Site == nil {
				continue
			}
			if noGo && isGo(e.Site) {
				continue
			}
			caller := e.Caller.Func
			if !c.InKevo(caller) || set[caller] {
				continue
			}
			set[caller] = true
			work = append(work, caller)
		}
	}
	return set
}

// isLoopHeader: b dominates one of its predecessors.
func isLoopHeader(b *ssa.BasicBlock) bool {
	for _, p := range b.Preds {
		if b.Dominates(p) {
			return true
		}
	}
	return false
}
