package main

import (
	"fmt"
	"go/token"
	"go/types"
	"os"
	"sort"
	"strings"

	"golang.org/x/tools/go/callgraph"
	"golang.org/x/tools/go/callgraph/cha"
	"golang.org/x/tools/go/callgraph/vta"
	"golang.org/x/tools/go/packages"
	"golang.org/x/tools/go/ssa"
	"golang.org/x/tools/go/ssa/ssautil"
)

const modPath = "github.com/KevoDB/kevo"

// Ctx is the resolved program: packages, SSA, call graph.
type Ctx struct {
	Repo    string
	Fset    *token.FileSet
	Pkgs    []*packages.Package
	PkgBy   map[string]*packages.Package
	Prog    *ssa.Program
	SSAPkg  map[string]*ssa.Package
	CG      *callgraph.Graph
	CHA     *callgraph.Graph
	AllFns  map[*ssa.Function]bool
	KevoFns []*ssa.Function // functions (incl. closures) defined in the kevo module, sorted by name

	NumPkgs  int
	lockInfo *LockInfo
	ctorOnly map[*ssa.Function]bool
	fieldAcc map[string][]FieldAccess
	blocking map[*ssa.Function][]string
	NumFns   int
}

// Load type-checks /repo ./... and builds SSA + VTA call graph.
func Load(repo string, tags string, extraDirs ...string) (*Ctx, error) {
	os.Unsetenv("GOWORK")
	cfg := &packages.Config{
		Mode:  packages.LoadAllSyntax,
		Dir:   repo,
		Tests: false,
		Env:   append(os.Environ(), "GOFLAGS=-mod=mod", "GOPROXY=off", "GOWORK=off"),
	}
	if tags != "" {
		cfg.BuildFlags = []string{"-tags=" + tags}
	}
	pkgs, err := packages.Load(cfg, "./...")
	if err != nil {
		return nil, fmt.Errorf("packages.Load: %w", err)
	}
	if len(pkgs) == 0 {
		return nil, fmt.Errorf("no packages loaded from %s", repo)
	}
	var errs []string
	packages.Visit(pkgs, nil, func(p *packages.Package) {
		for _, e := range p.Errors {
			errs = append(errs, e.Error())
		}
	})
	if len(errs) > 0 {
		if len(errs) > 10 {
			errs = errs[:10]
		}
		return nil, fmt.Errorf("type/load errors:\n  %s", strings.Join(errs, "\n  "))
	}
	c := &Ctx{Repo: repo, Fset: pkgs[0].Fset, Pkgs: pkgs, PkgBy: map[string]*packages.Package{}, SSAPkg: map[string]*ssa.Package{}}
	for _, p := range pkgs {
		c.PkgBy[p.PkgPath] = p
	}
	c.NumPkgs = len(pkgs)
	prog, ssapkgs := ssautil.AllPackages(pkgs, ssa.InstantiateGenerics)
	prog.Build()
	c.Prog = prog
	for i, p := range pkgs {
		if ssapkgs[i] != nil {
			c.SSAPkg[p.PkgPath] = ssapkgs[i]
		}
	}
	c.AllFns = ssautil.AllFunctions(prog)
	c.CHA = cha.CallGraph(prog)
	c.CG = vta.CallGraph(c.AllFns, c.CHA)
	for fn := range c.AllFns {
		if c.InKevo(fn) {
			c.KevoFns = append(c.KevoFns, fn)
		}
	}
	sort.Slice(c.KevoFns, func(i, j int) bool { return c.KevoFns[i].String() < c.KevoFns[j].String() })
	c.NumFns = len(c.KevoFns)
	return c, nil
}

// InKevo reports whether fn (or its enclosing function, for closures) is defined in the kevo module.
func (c *Ctx) InKevo(fn *ssa.Function) bool {
	for fn.Parent() != nil {
		fn = fn.Parent()
	}
	if fn.Pkg == nil {
		// wrappers / instantiations: use the receiver's or origin's package
		if o := fn.Origin(); o != nil && o.Pkg != nil {
			return strings.HasPrefix(o.Pkg.Pkg.Path(), modPath)
		}
		return false
	}
	return strings.HasPrefix(fn.Pkg.Pkg.Path(), modPath) && fn.Synthetic == ""
}

func pkgPath(short string) string {
	if short == "" {
		return modPath
	}
	return modPath + "/" + short
}

// TypesPkg returns the types.Package for a module-relative path like "pkg/wal".
func (c *Ctx) TypesPkg(short string) *types.Package {
	p := c.PkgBy[pkgPath(short)]
	if p == nil {
		return nil
	}
	return p.Types
}

// Named returns the named type pkg.Name.
func (c *Ctx) Named(short, name string) *types.Named {
	tp := c.TypesPkg(short)
	if tp == nil {
		return nil
	}
	o := tp.Scope().Lookup(name)
	if o == nil {
		return nil
	}
	n, _ := o.Type().(*types.Named)
	return n
}

// Func resolves a package-level function ("pkg/wal", "", "NewWAL") or a method ("pkg/wal", "WAL", "Append").
func (c *Ctx) Func(short, typ, name string) *ssa.Function {
	tp := c.TypesPkg(short)
	if tp == nil {
		return nil
	}
	if typ == "" {
		o, _ := tp.Scope().Lookup(name).(*types.Func)
		if o == nil {
			return nil
		}
		return c.Prog.FuncValue(o)
	}
	n := c.Named(short, typ)
	if n == nil {
		return nil
	}
	for i := 0; i < n.NumMethods(); i++ {
		m := n.Method(i)
		if m.Name() == name {
			return c.Prog.FuncValue(m)
		}
	}
	return nil
}

// Field resolves a struct field object.
func (c *Ctx) Field(short, typ, name string) *types.Var {
	n := c.Named(short, typ)
	if n == nil {
		return nil
	}
	st, _ := n.Underlying().(*types.Struct)
	if st == nil {
		return nil
	}
	for i := 0; i < st.NumFields(); i++ {
		if st.Field(i).Name() == name {
			return st.Field(i)
		}
	}
	return nil
}

// Const resolves a package-level constant.
func (c *Ctx) Const(short, name string) *types.Const {
	tp := c.TypesPkg(short)
	if tp == nil {
		return nil
	}
	k, _ := tp.Scope().Lookup(name).(*types.Const)
	return k
}

// Global resolves a package-level variable.
func (c *Ctx) Global(short, name string) *ssa.Global {
	p := c.SSAPkg[pkgPath(short)]
	if p == nil {
		return nil
	}
	g, _ := p.Members[name].(*ssa.Global)
	return g
}

// Pos renders a position relative to the repo.
func (c *Ctx) Pos(p token.Pos) string {
	if !p.IsValid() {
		return "-"
	}
	pos := c.Fset.Position(p)
	f := strings.TrimPrefix(pos.Filename, c.Repo+"/")
	return fmt.Sprintf("%s:%d", f, pos.Line)
}

// FnName is a short qualified name: storage.Manager.Put, wal.NewWAL, storage.Manager.Put$1
func FnName(fn *ssa.Function) string {
	if fn == nil {
		return "<nil>"
	}
	if fn.Parent() != nil {
		return FnName(fn.Parent()) + "$" + strings.TrimPrefix(fn.Name(), fn.Parent().Name()+"$")
	}
	recv := fn.Signature.Recv()
	pk := ""
	if fn.Pkg != nil {
		pk = fn.Pkg.Pkg.Name()
	} else if o := fn.Origin(); o != nil && o.Pkg != nil {
		pk = o.Pkg.Pkg.Name()
	} else if fn.Object() != nil && fn.Object().Pkg() != nil {
		pk = fn.Object().Pkg().Name()
	}
	if recv != nil {
		t := recv.Type()
		if p, ok := t.(*types.Pointer); ok {
			t = p.Elem()
		}
		if n, ok := t.(*types.Named); ok {
			if n.Obj().Pkg() != nil {
				pk = n.Obj().Pkg().Name()
			}
			return pk + "." + n.Obj().Name() + "." + fn.Name()
		}
	}
	return pk + "." + fn.Name()
}

// FnPos returns the position of a function's declaration.
func (c *Ctx) FnPos(fn *ssa.Function) string {
	if fn == nil {
		return "-"
	}
	return c.Pos(fn.Pos())
}

// Callees returns the functions a call instruction may invoke (static callee or call-graph edges).
func (c *Ctx) Callees(site ssa.CallInstruction) []*ssa.Function {
	if f := site.Common().StaticCallee(); f != nil {
		return []*ssa.Function{f}
	}
	node := c.CG.Nodes[site.Parent()]
	var out []*ssa.Function
	seen := map[*ssa.Function]bool{}
	if node != nil {
		for _, e := range node.Out {
			if e.Site == site && !seen[e.Callee.Func] {
				seen[e.Callee.Func] = true
				out = append(out, e.Callee.Func)
			}
		}
	}
	sort.Slice(out, func(i, j int) bool { return out[i].String() < out[j].String() })
	return out
}

// Callers returns the call sites of fn in the (VTA) call graph.
func (c *Ctx) Callers(fn *ssa.Function) []*callgraph.Edge {
	n := c.CG.Nodes[fn]
	if n == nil {
		return nil
	}
	return n.In
}

// AllInstrs calls f for every instruction of fn and its nested closures.
func AllInstrs(fn *ssa.Function, withClosures bool, f func(fn *ssa.Function, ins ssa.Instruction)) {
	if fn == nil {
		return
	}
	for _, b := range fn.Blocks {
		for _, ins := range b.Instrs {
			f(fn, ins)
		}
	}
	if withClosures {
		for _, a := range fn.AnonFuncs {
			AllInstrs(a, true, f)
		}
	}
}
