package main

import (
	"fmt"
	"go/token"
	"go/types"
	"sort"
	"strings"

	"golang.org/x/tools/go/ssa"
)

// FieldAccess is one access to a struct field.
type FieldAccess struct {
	Fn    *ssa.Function
	Ins   ssa.Instruction
	Write bool
	Held  LockSet
}

func fieldKey(fv *types.Var, owner string) string { return owner + "." + fv.Name() }

// ownerOfFieldAddr renders pkg.Type for the struct a FieldAddr selects from.
func ownerOfFieldAddr(fa *ssa.FieldAddr) string {
	id := fieldOwner(fa.X.Type(), fa.Field)
	if i := strings.LastIndex(id, "."); i >= 0 {
		return id[:i]
	}
	return id
}

// isSyncType: mutexes, atomics, wait groups, channels are not data fields.
func isSyncType(t types.Type) bool {
	s := t.String()
	return strings.HasPrefix(s, "sync.") || strings.HasPrefix(s, "sync/atomic.") || strings.HasPrefix(s, "chan ") || strings.HasPrefix(s, "*sync.")
}

// classifyAccess: is the FieldAddr used for a write (store to it, or content mutation of the map/slice loaded from it)?
func classifyAccess(fa *ssa.FieldAddr) (read, write, atomicUse bool) {
	if fa.Referrers() == nil {
		return
	}
	for _, ref := range *fa.Referrers() {
		switch x := ref.(type) {
		case *ssa.Store:
			if x.Addr == ssa.Value(fa) {
				write = true
			} else {
				read = true
			}
		case *ssa.UnOp:
			if x.Op == token.MUL {
				read = true
				if x.Referrers() != nil {
					for _, r2 := range *x.Referrers() {
						switch y := r2.(type) {
						case *ssa.MapUpdate:
							if y.Map == ssa.Value(x) {
								write = true
							}
						case *ssa.Call:
							if b, ok := y.Call.Value.(*ssa.Builtin); ok && (b.Name() == "delete" || b.Name() == "clear") && len(y.Call.Args) > 0 && y.Call.Args[0] == ssa.Value(x) {
								write = true
							}
						case *ssa.IndexAddr:
							if y.X == ssa.Value(x) && y.Referrers() != nil {
								for _, r3 := range *y.Referrers() {
									if st, ok := r3.(*ssa.Store); ok && st.Addr == ssa.Value(y) {
										write = true
									}
								}
							}
						}
					}
				}
			}
		case ssa.CallInstruction:
			// address passed to a function: atomic.* or method with pointer receiver
			if f := x.Common().StaticCallee(); f != nil {
				pk := ""
				if f.Pkg != nil {
					pk = f.Pkg.Pkg.Path()
				}
				if pk == "sync/atomic" {
					atomicUse = true
					continue
				}
			}
			read = true
		case *ssa.Convert, *ssa.ChangeType:
			// unsafe casts (storage.Manager.wal): treated as atomic use
			atomicUse = true
		default:
			read = true
		}
	}
	return
}

// AllFieldAccesses enumerates accesses to non-sync struct fields of kevo types in kevo functions.
func (c *Ctx) AllFieldAccesses() map[string][]FieldAccess {
	if c.fieldAcc != nil {
		return c.fieldAcc
	}
	li := c.Locks()
	out := map[string][]FieldAccess{}
	for _, fn := range c.KevoFns {
		AllInstrs(fn, false, func(_ *ssa.Function, ins ssa.Instruction) {
			fa, ok := ins.(*ssa.FieldAddr)
			if !ok {
				return
			}
			fv := fieldVarOf(fa)
			if fv == nil || fv.Pkg() == nil || !strings.HasPrefix(fv.Pkg().Path(), modPath) || isSyncType(fv.Type()) {
				return
			}
			if _, lit := fa.X.(*ssa.Alloc); lit {
				return // composite literal / local struct
			}
			rd, wr, at := classifyAccess(fa)
			if at && !rd && !wr {
				return
			}
			if !rd && !wr {
				return
			}
			key := fieldKey(fv, ownerOfFieldAddr(fa))
			out[key] = append(out[key], FieldAccess{Fn: fn, Ins: ins, Write: wr, Held: li.HeldAt(ins)})
		})
	}
	c.fieldAcc = out
	return out
}

// DumpGuardStats prints, per field, how often each lock is held at its accesses (used once to build the frozen table).
func DumpGuardStats(c *Ctx) {
	acc := c.AllFieldAccesses()
	ctor := c.CtorOnly()
	var keys []string
	for k := range acc {
		keys = append(keys, k)
	}
	sort.Strings(keys)
	for _, k := range keys {
		as := acc[k]
		total := 0
		counts := map[string]int{}
		writes := 0
		for _, a := range as {
			if ctor[topParent(a.Fn)] {
				continue
			}
			total++
			if a.Write {
				writes++
			}
			for id := range a.Held {
				counts[id]++
			}
		}
		if total < 2 || len(counts) == 0 {
			continue
		}
		var parts []string
		for id, n := range counts {
			parts = append(parts, fmt.Sprintf("%s=%d", id, n))
		}
		sort.Strings(parts)
		fmt.Printf("%-60s total=%d writes=%d  %s\n", k, total, writes, strings.Join(parts, " "))
	}
}
