package main

import (
	"fmt"
	"go/constant"
	"go/token"
	"go/types"
	"sort"
	"strings"
	"time"

	"golang.org/x/tools/go/ssa"
)

// Rules added after the sixth blind mutation round.

// ruleBufferViewsFollowMap: the transaction buffer's only source of truth is the operations map. Any other field of
// Buffer that is read somewhere is state derived from the map (a cached view); every function that updates or replaces
// the map must then store to that field as well (invalidate or rebuild it), otherwise a scan or the commit batch is
// built from operations that were superseded. Today the buffer has no derived state: Operations() builds its view on
// every call.
func ruleBufferViewsFollowMap(c *Ctx, r *Reporter) {
	r.Rule("buffer-views-follow-the-map", 1)
	opsF := c.Field("pkg/transaction", "Buffer", "operations")
	named := c.Named("pkg/transaction", "Buffer")
	if opsF == nil || named == nil {
		r.Unresolved("transaction.Buffer.operations", "not found")
		return
	}
	st, ok := named.Underlying().(*types.Struct)
	if !ok {
		r.Unresolved("transaction.Buffer", "not a struct")
		return
	}
	isLit := func(addr ssa.Value) bool {
		if fa, ok := addr.(*ssa.FieldAddr); ok {
			_, lit := fa.X.(*ssa.Alloc)
			return lit
		}
		return false
	}
	mutators := map[*ssa.Function]ssa.Instruction{}
	stores := map[*types.Var]map[*ssa.Function]bool{}
	loads := map[*types.Var]ssa.Instruction{}
	for _, fn := range c.KevoFns {
		if pkgOf(fn) != "pkg/transaction" {
			continue
		}
		top := topParent(fn)
		AllInstrs(fn, false, func(_ *ssa.Function, ins ssa.Instruction) {
			switch x := ins.(type) {
			case *ssa.MapUpdate:
				if isLoadOfField(x.Map, opsF) {
					mutators[top] = ins
				}
			case *ssa.Call:
				if b, ok := x.Call.Value.(*ssa.Builtin); ok && (b.Name() == "delete" || b.Name() == "clear") && len(x.Call.Args) > 0 && isLoadOfField(x.Call.Args[0], opsF) {
					mutators[top] = ins
				}
			case *ssa.Store:
				fv := fieldVarOf(x.Addr)
				if fv == nil || isLit(x.Addr) {
					return
				}
				if fv == opsF {
					mutators[top] = ins
				}
				if stores[fv] == nil {
					stores[fv] = map[*ssa.Function]bool{}
				}
				stores[fv][top] = true
			case *ssa.UnOp:
				if x.Op == token.MUL {
					if fv := fieldVarOf(x.X); fv != nil {
						if _, seen := loads[fv]; !seen {
							loads[fv] = ins
						}
					}
				}
			}
		})
	}
	if len(mutators) == 0 {
		r.Bad("transaction.Buffer.operations", c.Pos(opsF.Pos()), "no function updates the operations map: buffered writes are not recorded")
		return
	}
	var muts []*ssa.Function
	for m := range mutators {
		muts = append(muts, m)
	}
	sort.Slice(muts, func(i, j int) bool { return FnName(muts[i]) < FnName(muts[j]) })
	derived := 0
	for i := 0; i < st.NumFields(); i++ {
		f := st.Field(i)
		if f == opsF || strings.HasPrefix(f.Type().String(), "sync.") || strings.HasPrefix(f.Type().String(), "sync/atomic.") {
			continue
		}
		ld, isRead := loads[f]
		if !isRead {
			continue
		}
		derived++
		for _, m := range muts {
			r.Check(stores[f][m], "transaction.Buffer."+f.Name()+"~"+FnName(m), c.InsPos(mutators[m]),
				"the function that updates the operations map also stores the derived field",
				"Buffer."+f.Name()+" is read (at "+c.InsPos(ld)+") as state kept beside the operations map, but "+FnName(m)+" updates the map without storing to it: a view built before the update keeps the superseded operation (a scan in the transaction and the commit batch would use it)")
		}
	}
	if derived == 0 {
		var names []string
		for _, m := range muts {
			names = append(names, FnName(m))
		}
		r.OK("transaction.Buffer:no-derived-state", c.Pos(opsF.Pos()), "the buffer keeps no state beside the operations map (updated by "+strings.Join(names, ", ")+"); every view is built from the map when asked for")
	}
}

// ruleCompositePositionsEveryChild: Seek/SeekToFirst/SeekToLast of the merging iterator position EVERY child before
// anything is selected: Next() advances only children that are valid, so a child that was not positioned never
// contributes its keys to the rest of the scan. The positioning call sits in a loop over h.iterators that has no exit
// other than exhaustion and executes the call on every iteration, and every exit of the method passes that loop.
func ruleCompositePositionsEveryChild(c *Ctx, r *Reporter) {
	r.Rule("merge-positions-every-child", 3)
	itersF := c.Field("pkg/common/iterator/composite", "HierarchicalIterator", "iterators")
	if itersF == nil {
		r.Unresolved("composite.HierarchicalIterator.iterators", "not found")
		return
	}
	for _, mn := range []string{"Seek", "SeekToFirst", "SeekToLast"} {
		fn := c.Func("pkg/common/iterator/composite", "HierarchicalIterator", mn)
		cons := "composite.HierarchicalIterator." + mn
		if fn == nil {
			r.Unresolved(cons, "not found")
			continue
		}
		// positioning sites: child.<mn>(...) in the method itself, or a call of a closure/helper that does exactly that
		// with the child it is handed
		type site struct {
			call  *ssa.Call
			child ssa.Value
		}
		var sites []site
		AllInstrs(fn, false, func(_ *ssa.Function, ins ssa.Instruction) {
			call, ok := ins.(*ssa.Call)
			if !ok {
				return
			}
			if call.Call.IsInvoke() && call.Call.Method.Name() == mn {
				sites = append(sites, site{call, call.Call.Value})
				return
			}
			g := call.Call.StaticCallee()
			if g == nil || len(g.Blocks) == 0 || !c.InKevo(topParent(g)) {
				return
			}
			for i, p := range g.Params {
				var inner *ssa.Call
				AllInstrs(g, false, func(_ *ssa.Function, x ssa.Instruction) {
					if ic, ok := x.(*ssa.Call); ok && ic.Call.IsInvoke() && ic.Call.Method.Name() == mn && ic.Call.Value == ssa.Value(p) {
						inner = ic
					}
				})
				if inner == nil {
					continue
				}
				var rets []ssa.Instruction
				for _, ret := range Returns(g) {
					rets = append(rets, ret)
				}
				if bad, _ := MustPass(g, rets, func(x ssa.Instruction) bool { return x == ssa.Instruction(inner) }); bad != nil {
					continue
				}
				ai := i - (len(g.Params) - len(call.Call.Args))
				if ai >= 0 && ai < len(call.Call.Args) {
					sites = append(sites, site{call, call.Call.Args[ai]})
				}
			}
		})
		if len(sites) == 0 {
			r.Bad(cons, c.FnPos(fn), "the method does not position its children with their own "+mn)
			continue
		}
		var calls []*ssa.Call
		okAny := false
		why := ""
		for _, st := range sites {
			call := st.call
			calls = append(calls, call)
			var loop *GenericLoop
			for _, l := range GenericLoops(fn) {
				if l.Contains(call.Block()) && (loop == nil || loop.Contains(l.Header)) {
					loop = l
				}
			}
			if loop == nil {
				why = "the positioning call is not in a loop over the children"
				continue
			}
			// the loop walks all of h.iterators and the positioned value is the element of this iteration
			overChildren := false
			for _, w := range walksOverField(fn, itersF) {
				if w.Loop.Header != loop.Header || w.Dir == "?" || !walkCoversAll(w, itersF) {
					continue
				}
				for _, ia := range w.IndexAddr {
					if ld, ok := st.child.(*ssa.UnOp); ok && ld.Op == token.MUL && ld.X == ssa.Value(ia) {
						overChildren = true
					}
				}
			}
			if !overChildren {
				why = "the loop around the positioning call does not walk all of h.iterators (or positions something other than the element of the iteration)"
				continue
			}
			// no exit but exhaustion
			early := false
			for _, b := range fn.Blocks {
				if !loop.Contains(b) || b == loop.Header {
					continue
				}
				for _, s := range b.Succs {
					if !loop.Contains(s) {
						early = true
					}
				}
				if len(b.Succs) == 0 {
					early = true
				}
			}
			if early {
				why = "the loop that positions the children can be left before the last child (break/return inside it): the remaining, older sources stay unpositioned and Next() skips them for the rest of the scan"
				continue
			}
			// every iteration executes the call
			var body *ssa.BasicBlock
			for _, s := range loop.Header.Succs {
				if loop.Contains(s) {
					body = s
				}
			}
			if body == nil {
				continue
			}
			first := loop.Header.Instrs[0]
			if hit, _ := ReachBlock(body, func(i ssa.Instruction) bool { return i == first }, func(i ssa.Instruction) bool { return i == ssa.Instruction(call) }, nil); hit != nil {
				why = "an iteration of the positioning loop can skip the call: that child stays unpositioned"
				continue
			}
			// every exit of the method has been through the loop (an empty child list is the only excuse)
			empty := func(cond ssa.Value) (bool, bool) {
				bo, ok := cond.(*ssa.BinOp)
				if !ok {
					return false, false
				}
				x, y, op := bo.X, bo.Y, bo.Op
				if _, isK := constInt(x); isK {
					x, y = y, x
					switch op {
					case token.LSS:
						op = token.GTR
					case token.GTR:
						op = token.LSS
					case token.LEQ:
						op = token.GEQ
					case token.GEQ:
						op = token.LEQ
					}
				}
				la := lenArgOf(x)
				k, isK := constInt(y)
				if la == nil || !isK || !isLoadOfField(la, itersF) {
					return false, false
				}
				switch {
				case op == token.EQL && k == 0, op == token.LSS && k == 1, op == token.LEQ && k == 0:
					return true, false
				case op == token.NEQ && k == 0, op == token.GTR && k == 0, op == token.GEQ && k == 1:
					return false, true
				}
				return false, false
			}
			var rets []ssa.Instruction
			for _, ret := range Returns(fn) {
				rets = append(rets, ret)
			}
			if bad, _ := MustPassE(fn, rets, func(i ssa.Instruction) bool { return i.Block() == loop.Header }, PruneFactEdges(empty)); bad != nil {
				why = "an exit of the method (" + c.InsPos(bad) + ") is reachable without the positioning loop having run"
				continue
			}
			okAny = true
		}
		r.Check(okAny, cons, c.InsPos(calls[0]), "every child is positioned (loop over h.iterators without early exit, call on every iteration, passed by every exit)", why)
	}
}

// ruleMemSeekToLastNewest: the skip list orders the versions of one key newest first, so the LAST node of a forward scan
// is the OLDEST version of the greatest key. IteratorAdapter.SeekToLast therefore re-seeks to the last key it saw (Seek
// lands on the first node of the key: its newest visible version). Reviewed form: a scan loop calling Iterator.Next,
// followed on every path (except a nil last key) by Iterator.Seek(<key read in the loop>), with no repositioning after
// it and no whole-struct store into the wrapped iterator.
func ruleMemSeekToLastNewest(c *Ctx, r *Reporter) {
	r.Rule("seek-to-last-lands-on-newest-version", 1)
	fn := c.Func("pkg/memtable", "IteratorAdapter", "SeekToLast")
	next := c.Func("pkg/memtable", "Iterator", "Next")
	seek := c.Func("pkg/memtable", "Iterator", "Seek")
	key := c.Func("pkg/memtable", "Iterator", "Key")
	first := c.Func("pkg/memtable", "Iterator", "SeekToFirst")
	iterF := c.Field("pkg/memtable", "IteratorAdapter", "iter")
	cons := "memtable.IteratorAdapter.SeekToLast"
	if fn == nil || next == nil || seek == nil || key == nil || iterF == nil {
		r.Unresolved(cons+" / memtable.Iterator.{Next,Seek,Key}", "not found")
		return
	}
	var loop *GenericLoop
	var seeks []*ssa.Call
	var wholeStore ssa.Instruction
	AllInstrs(fn, false, func(_ *ssa.Function, ins ssa.Instruction) {
		switch x := ins.(type) {
		case *ssa.Call:
			switch x.Call.StaticCallee() {
			case next:
				for _, l := range GenericLoops(fn) {
					if l.Contains(x.Block()) {
						loop = l
					}
				}
			case seek:
				seeks = append(seeks, x)
			}
		case *ssa.Store:
			if isLoadOfField(x.Addr, iterF) {
				wholeStore = ins
			}
		}
	})
	if wholeStore != nil {
		r.Bad(cons, c.InsPos(wholeStore), "the wrapped iterator is overwritten with a saved copy of its state: the position restored is a node of the forward scan, i.e. the oldest version of the key, not its newest")
		return
	}
	if loop == nil {
		r.Bad(cons, c.FnPos(fn), "not the reviewed form: no forward scan (loop calling Iterator.Next) found; how the last key's newest version is reached has not been confirmed")
		return
	}
	inLoopKey := func(v ssa.Value) bool {
		call, ok := v.(*ssa.Call)
		return ok && call.Call.StaticCallee() == key && loop.Contains(call.Block())
	}
	var final *ssa.Call
	for _, s := range seeks {
		if loop.Contains(s.Block()) || len(s.Call.Args) < 2 {
			continue
		}
		if flowsFromPred(s.Call.Args[1], inLoopKey, 0, map[ssa.Value]bool{}) {
			final = s
		}
	}
	if final == nil {
		r.Bad(cons, c.FnPos(fn), "after the forward scan the iterator is not re-positioned with Seek(<last key seen>): it is left on (or restored to) the last node of the scan, which is the OLDEST version of the greatest key — an overwritten value or a deleted key re-appears at the end of a reverse positioning")
		return
	}
	arg := final.Call.Args[1]
	argNil := func(cond ssa.Value) (bool, bool) {
		v, trueNonNil, ok := nilTest(cond)
		if !ok || v != arg {
			return false, false
		}
		return !trueNonNil, trueNonNil
	}
	okPaths := true
	var badPos ssa.Instruction
	for _, s := range loop.Header.Succs {
		if loop.Contains(s) {
			continue
		}
		if hit, _ := ReachBlock(s, func(i ssa.Instruction) bool { _, isRet := i.(*ssa.Return); return isRet }, func(i ssa.Instruction) bool { return i == ssa.Instruction(final) }, PruneFactEdges(argNil)); hit != nil {
			okPaths = false
			badPos = hit
		}
	}
	if !okPaths {
		r.Bad(cons, c.InsPos(badPos), "an exit after the forward scan does not pass the re-positioning Seek(<last key>): the iterator is left exhausted or on the oldest version")
		return
	}
	// nothing moves the iterator after the final Seek
	moved, _ := Reach(fn, final, func(i ssa.Instruction) bool {
		if i == ssa.Instruction(final) {
			return false
		}
		if call, ok := i.(*ssa.Call); ok {
			switch call.Call.StaticCallee() {
			case next, seek, first:
				return true
			}
		}
		return false
	}, nil)
	r.Check(moved == nil, cons, c.InsPos(final), "forward scan, then Seek(<last key seen>) on every exit, nothing moves the iterator afterwards", "the iterator is moved again after the re-positioning Seek")
}

// ruleRecoveryLimitsAreConfigured: recovery must accept every log the running engine (bounded only by the configured
// limits) can have produced. DefaultRecoveryOptions copies MaxMemTables and MemTableSize from the like-named Config
// fields unchanged and excludes no sequence number; nobody else writes RecoveryOptions fields (a smaller bound makes
// recovery refuse a healthy log, and the caller then moves every log file aside — see the C10 finding).
func ruleRecoveryLimitsAreConfigured(c *Ctx, r *Reporter) {
	r.Rule("recovery-limits-are-the-configured-limits", 3)
	fn := c.Func("pkg/memtable", "", "DefaultRecoveryOptions")
	named := c.Named("pkg/memtable", "RecoveryOptions")
	if fn == nil || named == nil {
		r.Unresolved("memtable.DefaultRecoveryOptions / RecoveryOptions", "not found")
		return
	}
	want := map[string]string{"MaxMemTables": "MaxMemTables", "MemTableSize": "MemTableSize"}
	seen := map[string]bool{}
	for _, f := range c.KevoFns {
		AllInstrs(f, false, func(_ *ssa.Function, ins ssa.Instruction) {
			st, ok := ins.(*ssa.Store)
			if !ok {
				return
			}
			fa, ok := st.Addr.(*ssa.FieldAddr)
			if !ok {
				return
			}
			pt, ok := fa.X.Type().Underlying().(*types.Pointer)
			if !ok || !types.Identical(pt.Elem(), named) {
				return
			}
			fname := fieldName(fa)
			cons := "memtable.RecoveryOptions." + fname
			if topParent(f) != fn {
				r.Bad(cons+"@"+FnName(topParent(f)), c.InsPos(ins), "a recovery limit is changed outside DefaultRecoveryOptions: recovery may refuse (or ignore part of) a log the engine wrote within its configured limits")
				return
			}
			seen[fname] = true
			v := stripNumConv(st.Val)
			switch fname {
			case "MaxSequenceNumber":
				k, isK := v.(*ssa.Const)
				r.Check(isK && k.Value != nil && k.Uint64() == ^uint64(0), cons, c.InsPos(ins), "no sequence number is excluded from recovery", "recovery ignores entries above a sequence bound that is not the maximum: acknowledged writes would be dropped")
			default:
				cf, isWanted := want[fname]
				if !isWanted {
					r.Info(cons, c.InsPos(ins), "other recovery option")
					return
				}
				ok := false
				if ld, isLd := v.(*ssa.UnOp); isLd && ld.Op == token.MUL {
					if cfa, isFA := ld.X.(*ssa.FieldAddr); isFA && fieldName(cfa) == cf && strings.HasSuffix(cfa.X.Type().String(), "config.Config") {
						ok = true
					}
				}
				r.Check(ok, cons, c.InsPos(ins), "copied unchanged from Config."+cf, "the recovery limit is not the configured Config."+cf+" itself ("+Path(st.Val)+"): a log the running engine produced within its limits can exceed it, recovery fails and the caller moves every log file aside")
			}
		})
	}
	for _, fname := range []string{"MaxMemTables", "MemTableSize", "MaxSequenceNumber"} {
		if !seen[fname] {
			r.Bad("memtable.RecoveryOptions."+fname, c.FnPos(fn), "DefaultRecoveryOptions does not set the field: a zero limit refuses every log")
		}
	}
}

// walkCoversAll: the index walk visits every element of the field's slice: a range loop does; a three-clause loop must
// be bounded by the slice's own length (asc: i < len(s); desc: i >= 0 / n > 0 — the start is checked by IndexWalks).
func walkCoversAll(w *IndexWalk, fv *types.Var) bool {
	return walkCoversAllOf(w, func(v ssa.Value) bool { return isLoadOfField(v, fv) })
}

// walkCoversAllOf: as walkCoversAll, for a slice recognised by isSlice (a parameter, say).
func walkCoversAllOf(w *IndexWalk, isSlice func(ssa.Value) bool) bool {
	h := w.Loop.Header
	if h.Comment == "rangeindex.loop" {
		return true
	}
	if len(h.Instrs) == 0 {
		return false
	}
	iff, ok := h.Instrs[len(h.Instrs)-1].(*ssa.If)
	if !ok {
		return false
	}
	bo, ok := iff.Cond.(*ssa.BinOp)
	if !ok {
		return false
	}
	x, y, op := bo.X, bo.Y, bo.Op
	isLenOf := func(v ssa.Value) bool { la := lenArgOf(v); return la != nil && isSlice(la) }
	if w.Dir == "asc" {
		if isLenOf(x) {
			x, y = y, x
			if op == token.GTR {
				op = token.LSS
			}
		}
		_, isPhi := x.(*ssa.Phi)
		return isPhi && op == token.LSS && isLenOf(y)
	}
	// desc
	if k, isK := constInt(x); isK {
		_ = k
		x, y = y, x
		switch op {
		case token.LEQ:
			op = token.GEQ
		case token.LSS:
			op = token.GTR
		}
	}
	ph, isPhi := x.(*ssa.Phi)
	k, isK := constInt(y)
	if !isPhi || !isK {
		return false
	}
	// plain form s[i] (i runs len-1 .. 0): i >= 0 / i > -1; countdown form s[n-1] (n runs len .. 1): n > 0 / n >= 1
	plain := false
	for _, ia := range w.IndexAddr {
		if ia.Index == ssa.Value(ph) {
			plain = true
		}
	}
	if plain {
		return (op == token.GEQ && k == 0) || (op == token.GTR && k == -1)
	}
	return (op == token.GTR && k == 0) || (op == token.GEQ && k == 1)
}

// ruleBatchFrame (C03, crash clause): a batch is logged as one ordinary record per operation. For recovery to refuse a
// batch that was only partly written (a torn or short final write ends the file inside the batch, possibly exactly on a
// record boundary) the log must say where a batch ends: either a record written before the per-entry loop that carries
// the number of entries, or a record written after the loop (a commit marker). Neither exists on this tree: replay
// applies record by record and a stop inside the final write recovers a strict subset of the transaction
// (findings_demos/C03_torn_batch_demo_test.go). Recorded as an open finding; the rule discharges once a frame exists.
func ruleBatchFrame(c *Ctx, r *Reporter) {
	r.Rule("batch-is-recognisable-at-replay", 2)
	a := getWalAnchors(c, r)
	if !a.ok {
		return
	}
	writers := a.writeSet()
	for _, fn := range a.appendFns {
		if !strings.HasPrefix(fn.Name(), "AppendBatch") {
			continue
		}
		var entries *ssa.Parameter
		for _, p := range fn.Params {
			if _, isSlice := p.Type().Underlying().(*types.Slice); isSlice {
				entries = p
			}
		}
		framed := false
		var firstLoopWrite ssa.Instruction
		loops := GenericLoops(fn)
		inLoop := func(call *ssa.Call) bool {
			for _, l := range loops {
				if l.Contains(call.Block()) {
					return true
				}
			}
			return false
		}
		AllInstrs(fn, false, func(_ *ssa.Function, ins ssa.Instruction) {
			if call, ok := ins.(*ssa.Call); ok && writers[call.Call.StaticCallee()] && inLoop(call) && firstLoopWrite == nil {
				firstLoopWrite = ins
			}
		})
		AllInstrs(fn, false, func(_ *ssa.Function, ins ssa.Instruction) {
			call, ok := ins.(*ssa.Call)
			if !ok || !writers[call.Call.StaticCallee()] || inLoop(call) {
				return
			}
			// a record outside the per-entry loop: a header carrying the count, or a marker behind the loop
			for _, arg := range call.Call.Args {
				if entries != nil && flowsFromPred(arg, func(v ssa.Value) bool { la := lenArgOf(v); return la != nil && la == ssa.Value(entries) }, 0, map[ssa.Value]bool{}) {
					framed = true
				}
			}
			for _, l := range loops {
				for _, ex := range loopExits(l) {
					if firstLoopWrite != nil && l.Contains(firstLoopWrite.Block()) && (ex == call.Block() || ex.Dominates(call.Block())) {
						framed = true
					}
				}
			}
		})
		pos := c.FnPos(fn)
		if firstLoopWrite != nil {
			pos = c.InsPos(firstLoopWrite)
		}
		r.Check(framed, FnName(fn)+":batch-frame", pos, "the batch is delimited in the log (count header or commit marker)",
			"the records of a batch are written one per operation with nothing that marks the batch's size or end: replay applies record by record, so a process stop inside the final log write (torn record, or a short write ending on a record boundary) recovers a strict subset of a committed transaction")
	}
}

// ruleExplicitSeqBelowCounter: the Append*WithSequence variants stamp a caller-given number s. Afterwards the counter
// must be beyond s (GetEntriesFrom answers "nothing" for from >= nextSequence, and the next automatic append takes the
// counter value): the conditional update `if s+j OP old { next = s+k }` must leave old > s on the branch that skips the
// store: OP is >= with j >= 0, or > with j >= 1; k >= 1.
func ruleExplicitSeqBelowCounter(c *Ctx, r *Reporter) {
	r.Rule("explicit-sequence-stays-below-the-counter", 2)
	a := getWalAnchors(c, r)
	if !a.ok {
		return
	}
	isOld := func(v ssa.Value) bool { return isLoadOfField(v, a.nextSeq) }
	split := func(v ssa.Value) (ssa.Value, int64) {
		k := int64(0)
		for i := 0; i < 4; i++ {
			bo, ok := v.(*ssa.BinOp)
			if !ok || bo.Op != token.ADD {
				break
			}
			if kk, isK := constInt(bo.Y); isK {
				v, k = bo.X, k+kk
				continue
			}
			if kk, isK := constInt(bo.X); isK {
				v, k = bo.Y, k+kk
				continue
			}
			break
		}
		return v, k
	}
	for _, fn := range a.appendFns {
		if !strings.HasSuffix(fn.Name(), "WithSequence") {
			continue
		}
		name := FnName(fn)
		var s *ssa.Parameter
		for _, p := range fn.Params {
			if b, ok := p.Type().Underlying().(*types.Basic); ok && b.Kind() == types.Uint64 {
				s = p
			}
		}
		if s == nil {
			r.Undecided(name, c.FnPos(fn), "no uint64 sequence parameter")
			continue
		}
		var stores []*ssa.Store
		AllInstrs(fn, false, func(_ *ssa.Function, ins ssa.Instruction) {
			if st, ok := ins.(*ssa.Store); ok && fieldVarOf(st.Addr) == a.nextSeq {
				stores = append(stores, st)
			}
		})
		if len(stores) == 0 {
			r.Bad(name+":counter-update", c.FnPos(fn), "the counter is never moved past an explicitly given sequence number: the next automatic append (and GetEntriesFrom's upper bound) would collide with it")
			continue
		}
		okAny := false
		why := "no store of s+k (k >= 1) under a guard that leaves the counter beyond s when the store is skipped"
		var pos ssa.Instruction = stores[0]
		for _, st := range stores {
			base, k := split(st.Val)
			if base != ssa.Value(s) || k < 1 {
				continue
			}
			// the controlling test: nearest dominating If whose taken edge leads to the store
			for b := st.Block().Idom(); b != nil; b = b.Idom() {
				iff, ok := b.Instrs[len(b.Instrs)-1].(*ssa.If)
				if !ok {
					continue
				}
				bo, ok := iff.Cond.(*ssa.BinOp)
				if !ok {
					continue
				}
				x, y, op := bo.X, bo.Y, bo.Op
				if isOld(x) {
					x, y = y, x
					op = flipOp(op)
				}
				xb, j := split(x)
				if !isOld(y) || xb != ssa.Value(s) {
					continue
				}
				taken := -1
				for i := range b.Succs {
					if edgeDominates(b, i, st.Block()) {
						taken = i
					}
				}
				if taken < 0 {
					continue
				}
				if taken == 1 { // the store sits on the false edge: negate
					switch op {
					case token.LSS:
						op = token.GEQ
					case token.LEQ:
						op = token.GTR
					case token.GEQ:
						op = token.LSS
					case token.GTR:
						op = token.LEQ
					}
				}
				pos = iff
				switch {
				case op == token.GEQ && j >= 0, op == token.GTR && j >= 1:
					// and every success exit lies behind the test
					all := true
					for _, e := range SuccessExits(fn, true) {
						after := false
						for _, w := range c.CallsIn(fn, a.writeSet(), false) {
							if f, _ := Reach(fn, w, func(i ssa.Instruction) bool { return i == e }, nil); f != nil {
								after = true
							}
						}
						if after && !b.Dominates(e.Block()) {
							all = false
						}
					}
					if all {
						okAny = true
					} else {
						why = "a success exit is not behind the counter update"
					}
				default:
					why = fmt.Sprintf("the update is skipped when s%+d %s old is false, which includes s == old-%d: the counter then equals (or is below) a sequence number that was just stored; GetEntriesFrom(s) answers nothing and the next automatic append reuses the number", j, op, j)
				}
				break
			}
		}
		r.Check(okAny, name+":counter-update", c.InsPos(pos), "the counter is beyond the explicit sequence number on both branches of the update", why)
	}
}

// ruleFlushKeepsNewest: flushMemTable collects one entry per key while walking the memtable (versions of a key arrive
// newest first). The collected entry of a key may be replaced only by a version with a GREATER sequence number: every
// store into an element of the collected slice (other than the append of a new key) is guarded by
// incoming.SequenceNumber() > collected.seqNum. Any wider condition lets an older version (e.g. an older tombstone)
// overwrite the newest one in the SSTable.
func ruleFlushKeepsNewest(c *Ctx, r *Reporter) {
	r.Rule("flush-keeps-the-newest-version", 1)
	a := getStAnchors(c, r)
	if !a.ok {
		return
	}
	fn := a.flushMem
	name := FnName(fn)
	isIncomingSeq := func(v ssa.Value) bool {
		return flowsFromPred(v, func(x ssa.Value) bool {
			call, ok := x.(*ssa.Call)
			if !ok {
				return false
			}
			if call.Call.IsInvoke() {
				return call.Call.Method.Name() == "SequenceNumber"
			}
			f := call.Call.StaticCallee()
			return f != nil && f.Name() == "SequenceNumber"
		}, 0, map[ssa.Value]bool{})
	}
	elemOf := func(addr ssa.Value) *ssa.IndexAddr {
		for i := 0; i < 4 && addr != nil; i++ {
			switch x := addr.(type) {
			case *ssa.IndexAddr:
				if _, isSlice := x.X.Type().Underlying().(*types.Slice); isSlice {
					return x
				}
				return nil
			case *ssa.FieldAddr:
				addr = x.X
			default:
				return nil
			}
		}
		return nil
	}
	isCollectedSeq := func(v ssa.Value, slice types.Type) bool {
		ld, ok := v.(*ssa.UnOp)
		if !ok || ld.Op != token.MUL {
			return false
		}
		fa, ok := ld.X.(*ssa.FieldAddr)
		if !ok || !strings.Contains(strings.ToLower(fieldName(fa)), "seq") {
			return false
		}
		ia := elemOf(fa.X)
		return ia != nil && types.Identical(ia.X.Type(), slice)
	}
	n := 0
	AllInstrs(fn, false, func(_ *ssa.Function, ins ssa.Instruction) {
		st, ok := ins.(*ssa.Store)
		if !ok {
			return
		}
		ia := elemOf(st.Addr)
		if ia == nil {
			return
		}
		// only slices of a struct that carries a sequence number (the collected entries)
		et, ok := ia.X.Type().Underlying().(*types.Slice).Elem().Underlying().(*types.Struct)
		if !ok {
			return
		}
		hasSeq := false
		for i := 0; i < et.NumFields(); i++ {
			if strings.Contains(strings.ToLower(et.Field(i).Name()), "seq") {
				hasSeq = true
			}
		}
		if !hasSeq {
			return
		}
		// the element of an append (new backing array filled by the compiler) is not an overwrite
		if _, isAlloc := ia.X.(*ssa.Slice); isAlloc {
			if sl := ia.X.(*ssa.Slice); sl != nil {
				if _, fromAlloc := sl.X.(*ssa.Alloc); fromAlloc {
					return
				}
			}
		}
		n++
		newer := func(cond ssa.Value) (bool, bool) {
			bo, ok := cond.(*ssa.BinOp)
			if !ok {
				return false, false
			}
			x, y, op := bo.X, bo.Y, bo.Op
			if isCollectedSeq(x, ia.X.Type()) {
				x, y = y, x
				op = flipOp(op)
			}
			if !isIncomingSeq(x) || !isCollectedSeq(y, ia.X.Type()) {
				return false, false
			}
			switch op {
			case token.GTR:
				return true, false
			case token.LEQ:
				return false, true
			}
			return false, false
		}
		r.Check(GuardedBy(ins.Block(), newer), fmt.Sprintf("%s:overwrite#%d", name, n), c.InsPos(ins),
			"the collected entry is replaced only by a version with a greater sequence number",
			"the entry collected for a key can be replaced on a path where the incoming version is NOT known to be newer (sequence number greater): an older version — for instance an older deletion marker — would reach the SSTable in place of the newest one, and the key reads differently after the flush")
	})
	if n == 0 {
		r.OK(name+":no-overwrite", c.FnPos(fn), "the first (newest) version collected for a key is never replaced")
	}
}

// ruleBlockChecksumCoverage: the block checksum must cover every byte of the block except itself — in particular the
// restart-point count, which steers how the block is decoded. Writer: after xxhash.Sum64(buffer.Bytes()) the only thing
// still written into the buffer is that checksum. Reader: the verified range is data[:len(data)-8].
func ruleBlockChecksumCoverage(c *Ctx, r *Reporter) {
	r.Rule("block-checksum-covers-the-whole-block", 2)
	finish := c.Func("pkg/sstable/block", "Builder", "Finish")
	newR := c.Func("pkg/sstable/block", "", "NewReader")
	if finish == nil || newR == nil {
		r.Unresolved("block.Builder.Finish / block.NewReader", "not found")
		return
	}
	isSum := func(v ssa.Value) *ssa.Call {
		call, ok := v.(*ssa.Call)
		if ok && strings.HasSuffix(staticName(call), "xxhash/v2.Sum64") {
			return call
		}
		return nil
	}
	// writer
	var sum *ssa.Call
	AllInstrs(finish, false, func(_ *ssa.Function, ins ssa.Instruction) {
		if v, ok := ins.(ssa.Value); ok {
			if s := isSum(v); s != nil {
				sum = s
			}
		}
	})
	if sum == nil {
		r.Bad("block.Builder.Finish:checksum-coverage", c.FnPos(finish), "no xxhash.Sum64 call found in the block writer")
	} else {
		var buf ssa.Value
		if bc, ok := sum.Call.Args[0].(*ssa.Call); ok && bc.Call.StaticCallee() != nil && bc.Call.StaticCallee().Name() == "Bytes" && len(bc.Call.Args) > 0 {
			buf = bc.Call.Args[0]
		}
		intoBuf := func(call *ssa.Call) (ssa.Value, bool) {
			f := call.Call.StaticCallee()
			if f == nil || buf == nil {
				return nil, false
			}
			if staticName(call) == "encoding/binary.Write" && len(call.Call.Args) == 3 {
				dst := call.Call.Args[0]
				if mi, ok := dst.(*ssa.MakeInterface); ok {
					dst = mi.X
				}
				if dst != buf {
					return nil, false
				}
				data := call.Call.Args[2]
				if mi, ok := data.(*ssa.MakeInterface); ok {
					data = mi.X
				}
				return data, true
			}
			if strings.HasPrefix(f.Name(), "Write") && len(call.Call.Args) >= 2 && call.Call.Args[0] == buf {
				return call.Call.Args[1], true
			}
			return nil, false
		}
		var later ssa.Instruction
		wroteSum := false
		if buf != nil {
			Reach(finish, sum, func(i ssa.Instruction) bool {
				call, ok := i.(*ssa.Call)
				if !ok {
					return false
				}
				data, ok := intoBuf(call)
				if !ok {
					return false
				}
				if data == ssa.Value(sum) || holdsOnly(data, sum) {
					wroteSum = true
					return false
				}
				if later == nil {
					later = i
				}
				return false
			}, nil)
		}
		switch {
		case buf == nil:
			r.Bad("block.Builder.Finish:checksum-coverage", c.InsPos(sum), "the checksum is not computed over the block buffer's bytes (buffer.Bytes())")
		case later != nil:
			r.Bad("block.Builder.Finish:checksum-coverage", c.InsPos(later), "bytes are written into the block after its checksum was computed: they are not covered by the checksum, an alteration of them (e.g. of the restart-point count) is accepted and the block is decoded from a wrong layout")
		default:
			r.Check(wroteSum, "block.Builder.Finish:checksum-coverage", c.InsPos(sum), "the checksum is computed last: only the checksum itself is written behind it", "the computed checksum is not written into the block")
		}
	}
	// reader
	var rsum *ssa.Call
	AllInstrs(newR, false, func(_ *ssa.Function, ins ssa.Instruction) {
		if v, ok := ins.(ssa.Value); ok {
			if s := isSum(v); s != nil {
				rsum = s
			}
		}
	})
	if rsum == nil {
		r.Bad("block.NewReader:checksum-coverage", c.FnPos(newR), "no xxhash.Sum64 call found in the block reader")
		return
	}
	okR := false
	got := Path(rsum.Call.Args[0])
	if sl, ok := rsum.Call.Args[0].(*ssa.Slice); ok {
		if p, isP := sl.X.(*ssa.Parameter); isP && (sl.Low == nil || func() bool { k, isK := constInt(sl.Low); return isK && k == 0 }()) && sl.High != nil {
			lx := &LinX{}
			h := normLin(lx.Lin(sl.High).String())
			want := normLin("-8 + len(param:" + p.Name() + ")")
			got = p.Name() + "[:" + h + "]"
			okR = h == want
		}
	}
	r.Check(okR, "block.NewReader:checksum-coverage", c.InsPos(rsum), "the verified range is everything except the 8 checksum bytes", "the reader verifies "+got+", not data[:len(data)-8]: bytes of the block outside that range (the restart-point count) can be altered without detection")
}

// ruleIteratorsOwnCursors: a block.Iterator is a cursor (position, current key); two table iterators sharing one move
// each other. Every value stored into a field of type *block.Iterator anywhere in pkg/sstable is nil or the result of a
// block.Reader.Iterator() call made on the spot, and that constructor returns a fresh allocation.
func ruleIteratorsOwnCursors(c *Ctx, r *Reporter) {
	r.Rule("iterators-own-their-cursors", 3)
	mk := c.Func("pkg/sstable/block", "Reader", "Iterator")
	bit := c.Named("pkg/sstable/block", "Iterator")
	if mk == nil || bit == nil {
		r.Unresolved("block.Reader.Iterator / block.Iterator", "not found")
		return
	}
	fresh := true
	for _, ret := range Returns(mk) {
		if len(ret.Results) != 1 {
			fresh = false
			continue
		}
		if al, ok := ret.Results[0].(*ssa.Alloc); !ok || !al.Heap {
			fresh = false
		}
	}
	r.Check(fresh, "block.Reader.Iterator", c.FnPos(mk), "returns a freshly allocated cursor on every call", "block.Reader.Iterator does not return a fresh allocation on every path: cursors would be shared between callers")
	want := types.NewPointer(bit)
	n := 0
	for _, fn := range c.KevoFns {
		if !strings.HasPrefix(pkgOf(fn), "pkg/sstable") {
			continue
		}
		AllInstrs(fn, false, func(_ *ssa.Function, ins ssa.Instruction) {
			st, ok := ins.(*ssa.Store)
			if !ok {
				return
			}
			fa, ok := st.Addr.(*ssa.FieldAddr)
			if !ok || !types.Identical(deref(fa.Type()), want) {
				return
			}
			n++
			owner := "?"
			if pt, ok := fa.X.Type().Underlying().(*types.Pointer); ok {
				if nm, ok := pt.Elem().(*types.Named); ok {
					owner = nm.Obj().Pkg().Name() + "." + nm.Obj().Name()
				}
			}
			cons := fmt.Sprintf("%s.%s@%s", owner, fieldName(fa), FnName(topParent(fn)))
			v := st.Val
			if isNilConst(v) {
				r.OK(cons, c.InsPos(ins), "reset to nil")
				return
			}
			call, isCall := v.(*ssa.Call)
			r.Check(isCall && call.Call.StaticCallee() == mk, cons, c.InsPos(ins), "a cursor made for this iterator by block.Reader.Iterator()",
				"the block cursor stored here ("+Path(v)+") is not created on the spot by block.Reader.Iterator(): if it is kept anywhere else (a Reader field, a cache) several table iterators move one shared cursor and scans skip or repeat whole blocks")
		})
	}
	if n == 0 {
		r.Undecided("sstable:cursor-fields", "-", "no store to a *block.Iterator field found")
	}
}

// ruleLogExistsBeforeRecovery: recovery hands the highest replayed sequence number to the current log
// (UpdateNextSequence, skipped when there is no log). NewManager must therefore have a log — reused or new — in
// Manager.wal before it calls recoverFromWAL: otherwise a log created afterwards starts numbering at 1 and writes
// acknowledged after a recovery lose against the recovered, higher-numbered versions.
func ruleLogExistsBeforeRecovery(c *Ctx, r *Reporter) {
	r.Rule("log-exists-before-recovery", 1)
	a := getStAnchors(c, r)
	if !a.ok {
		return
	}
	nm := c.Func("pkg/engine/storage", "", "NewManager")
	rec := c.Func("pkg/engine/storage", "Manager", "recoverFromWAL")
	if nm == nil || rec == nil || a.walField == nil {
		r.Unresolved("storage.NewManager / Manager.recoverFromWAL / Manager.wal", "not found")
		return
	}
	var call *ssa.Call
	var stores []*ssa.Store
	AllInstrs(nm, false, func(_ *ssa.Function, ins ssa.Instruction) {
		switch x := ins.(type) {
		case *ssa.Call:
			if x.Call.StaticCallee() == rec {
				call = x
			}
		case *ssa.Store:
			if fieldVarOf(x.Addr) == a.walField {
				stores = append(stores, x)
			}
		}
	})
	if call == nil {
		r.Undecided("storage.NewManager:recovery", c.FnPos(nm), "no call of recoverFromWAL found in NewManager")
		return
	}
	ok := false
	for _, st := range stores {
		if Dominates(st, call) && valueNonNil(st.Val, st.Block(), 0) {
			ok = true
		}
	}
	late := ""
	for _, st := range stores {
		if !Dominates(st, call) {
			late = " (Manager.wal is assigned at " + c.InsPos(st) + ", after recovery)"
		}
	}
	r.Check(ok, "storage.NewManager:wal-before-recovery", c.InsPos(call), "Manager.wal holds a log (reused or newly created) before recoverFromWAL runs",
		"recoverFromWAL can run while Manager.wal is still nil"+late+": the replayed maximum sequence number is handed to nobody, the log created afterwards starts numbering at 1, and an overwrite or delete acknowledged after the recovery loses against the recovered version with the higher number")
}

// ruleSelectionTakesOldest: level-0 files overlap, so a file may move to a deeper level only together with (or after)
// every older file: the selection functions of the tiered strategy sort a copy of the level "oldest first" and take a
// prefix. The storage manager restarts its file numbers at every open, so age is the creation time; the file number
// only breaks ties. The comparator handed to sort.Slice is evaluated on the nine rows (timestamp <,=,> x number <,=,>),
// each with the other fields of the two files skewed both ways (the order must not depend on them).
func ruleSelectionTakesOldest(c *Ctx, r *Reporter) {
	r.Rule("selection-takes-the-oldest", 3)
	info := c.Named("pkg/compaction", "SSTableInfo")
	if info == nil {
		r.Unresolved("compaction.SSTableInfo", "not found")
		return
	}
	for _, mn := range []string{"selectL0Compaction", "selectPromotionCompaction", "selectOverlappingCompaction"} {
		fn := c.Func("pkg/compaction", "TieredCompactionStrategy", mn)
		cons := "compaction.TieredCompactionStrategy." + mn
		if fn == nil {
			r.Unresolved(cons, "not found")
			continue
		}
		var less *ssa.Function
		var pos ssa.Instruction
		AllInstrs(fn, false, func(_ *ssa.Function, ins ssa.Instruction) {
			call, ok := ins.(*ssa.Call)
			if !ok || (staticName(call) != "sort.Slice" && staticName(call) != "sort.SliceStable") || len(call.Call.Args) < 2 {
				return
			}
			pos = ins
			switch x := call.Call.Args[1].(type) {
			case *ssa.MakeClosure:
				less, _ = x.Fn.(*ssa.Function)
			case *ssa.Call: // a helper that returns the comparator
				if h := x.Call.StaticCallee(); h != nil {
					for _, ret := range Returns(h) {
						if len(ret.Results) == 1 {
							if mc, ok := ret.Results[0].(*ssa.MakeClosure); ok {
								less, _ = mc.Fn.(*ssa.Function)
							}
						}
					}
				}
			case *ssa.Function:
				less = x
			}
		})
		if less == nil {
			// the copy-and-sort may live in a helper of the strategy (levelFilesOldestFirst(level)): look one level down
			AllInstrs(fn, false, func(_ *ssa.Function, ins ssa.Instruction) {
				call, ok := ins.(*ssa.Call)
				if !ok {
					return
				}
				h := call.Call.StaticCallee()
				if h == nil || h.Pkg != fn.Pkg || len(h.Blocks) == 0 || less != nil {
					return
				}
				AllInstrs(h, false, func(_ *ssa.Function, x ssa.Instruction) {
					hc, ok := x.(*ssa.Call)
					if !ok || (staticName(hc) != "sort.Slice" && staticName(hc) != "sort.SliceStable") || len(hc.Call.Args) < 2 {
						return
					}
					pos = ins
					switch y := hc.Call.Args[1].(type) {
					case *ssa.MakeClosure:
						less, _ = y.Fn.(*ssa.Function)
					case *ssa.Call:
						if h2 := y.Call.StaticCallee(); h2 != nil {
							for _, ret := range Returns(h2) {
								if len(ret.Results) == 1 {
									if mc, ok := ret.Results[0].(*ssa.MakeClosure); ok {
										less, _ = mc.Fn.(*ssa.Function)
									}
								}
							}
						}
					}
				})
			})
		}
		if less == nil || len(less.Params) != 2 {
			r.Bad(cons, c.FnPos(fn), "the files of the level are not sorted by a recognisable comparator before a subset is taken: which files leave the level first is not decided by age")
			continue
		}
		// the field loads of the comparator: which element (i or j) and which field
		type fl struct {
			side  int
			field string
		}
		loads := map[ssa.Value]fl{}
		AllInstrs(less, false, func(_ *ssa.Function, ins ssa.Instruction) {
			ld, ok := ins.(*ssa.UnOp)
			if !ok || ld.Op != token.MUL {
				return
			}
			fa, ok := ld.X.(*ssa.FieldAddr)
			if !ok {
				return
			}
			if pt, ok := fa.X.Type().Underlying().(*types.Pointer); !ok || !types.Identical(pt.Elem(), info) {
				return
			}
			el, ok := fa.X.(*ssa.UnOp)
			if !ok {
				return
			}
			ia, ok := el.X.(*ssa.IndexAddr)
			if !ok {
				return
			}
			for k, p := range less.Params {
				if ia.Index == ssa.Value(p) {
					loads[ld] = fl{k, fieldName(fa)}
				}
			}
		})
		bad := ""
		rows := 0
		for _, ts := range []int64{-1, 0, 1} {
			for _, sq := range []int64{-1, 0, 1} {
				want := ts < 0 || (ts == 0 && sq < 0)
				for _, skew := range []int64{-1, 1} {
					sc := &Scenario{Vals: map[ssa.Value]int64{}}
					for v, l := range loads {
						var val int64 = 100
						switch l.field {
						case "Timestamp":
							if l.side == 0 {
								val += ts
							}
						case "Sequence":
							if l.side == 0 {
								val += sq
							}
						default:
							if l.side == 0 {
								val += skew
							}
						}
						sc.Vals[v] = val
					}
					res := EvalPath(less.Blocks[0], nil, sc, nil)
					rows++
					if res.Err != "" || res.Ret == nil || len(res.RetVals) != 1 || res.RetVals[0].Kind != "bool" {
						bad = "comparator not decidable on row [timestamp" + rel(ts) + ",number" + rel(sq) + "]: " + res.Err
						continue
					}
					if res.RetVals[0].B != want {
						bad = fmt.Sprintf("on the row [timestamp%s, file number%s, other fields skewed %+d] the comparator answers %v; 'oldest first' requires %v (creation time decides — file numbers restart at every open — and the number only breaks ties; no other field may take part): a newer level-0 file can leave the level while an older one with an earlier version of the same key stays and shadows it", rel(ts), rel(sq), skew, res.RetVals[0].B, want)
					}
				}
			}
		}
		r.Check(bad == "", cons, c.InsPos(pos), fmt.Sprintf("the comparator orders by creation time, then file number (%d rows evaluated)", rows), bad)
	}
}

// ruleReportedSeqMonotone: Primary.lastSyncedSeq is what GetLastSequence / the node-info RPC report as the primary's
// position; it must never decrease. The log calls OnWALSync synchronously, in sequence order, under its own lock, so a
// plain assignment inside the callback is monotone. Anywhere else — in particular in a goroutine started from the
// callback, where assignments land in scheduling order — the store must be guarded by new > old.
func ruleReportedSeqMonotone(c *Ctx, r *Reporter) {
	r.Rule("reported-sequence-never-decreases", 1)
	fv := c.Field("pkg/replication", "Primary", "lastSyncedSeq")
	if fv == nil {
		r.Unresolved("replication.Primary.lastSyncedSeq", "not found")
		return
	}
	// closures started with go
	spawned := map[*ssa.Function]bool{}
	for _, fn := range c.KevoFns {
		AllInstrs(fn, false, func(_ *ssa.Function, ins ssa.Instruction) {
			g, ok := ins.(*ssa.Go)
			if !ok {
				return
			}
			if mc, ok := g.Call.Value.(*ssa.MakeClosure); ok {
				if f, ok := mc.Fn.(*ssa.Function); ok {
					spawned[f] = true
				}
			}
			if f := g.Call.StaticCallee(); f != nil {
				spawned[f] = true
			}
		})
	}
	n := 0
	for _, fn := range c.KevoFns {
		AllInstrs(fn, false, func(_ *ssa.Function, ins ssa.Instruction) {
			st, ok := ins.(*ssa.Store)
			if !ok || fieldVarOf(st.Addr) != fv {
				return
			}
			if fa, ok := st.Addr.(*ssa.FieldAddr); ok {
				if _, lit := fa.X.(*ssa.Alloc); lit {
					return
				}
			}
			n++
			cons := FnName(fn) + ":store(lastSyncedSeq)"
			larger := func(cond ssa.Value) (bool, bool) {
				bo, ok := cond.(*ssa.BinOp)
				if !ok {
					return false, false
				}
				x, y, op := bo.X, bo.Y, bo.Op
				if isLoadOfField(x, fv) {
					x, y = y, x
					op = flipOp(op)
				}
				if !sameValue(x, st.Val) || !isLoadOfField(y, fv) {
					return false, false
				}
				switch op {
				case token.GTR, token.GEQ:
					return true, false
				case token.LSS, token.LEQ:
					return false, true
				}
				return false, false
			}
			if GuardedBy(st.Block(), larger) {
				r.OK(cons, c.InsPos(ins), "guarded by new >= old")
				return
			}
			async := false
			for f := fn; f != nil; f = f.Parent() {
				if spawned[f] {
					async = true
				}
			}
			if async {
				r.Bad(cons, c.InsPos(ins), "the reported position is assigned without a new > old guard inside a goroutine: two log syncs close together are recorded in scheduling order, so the value reported by GetLastSequence / the node-info RPC can go back from N+1 to N and stay there")
				return
			}
			top := topParent(fn)
			r.Check(fn.Parent() == nil && top.Name() == "OnWALSync", cons, c.InsPos(ins), "plain assignment inside the synchronous OnWALSync callback (the log calls it in sequence order under its lock)",
				"the reported position is assigned outside the synchronous OnWALSync callback without a new > old guard: nothing orders this store with the callback's")
		})
	}
	if n == 0 {
		r.Undecided("replication.Primary.lastSyncedSeq", "-", "no store found")
	}
}

// ruleManifestEntriesValidated: Manifest.Save validates the CURRENT configuration but writes ALL entries, and
// LoadManifest takes the LAST entry for the current one. An entry may therefore join Manifest.Entries only behind a
// successful validation of its configuration: every store that grows the slice (append) outside the loader is on the
// success edge of a validator call.
func ruleManifestEntriesValidated(c *Ctx, r *Reporter) {
	r.Rule("entries-grow-only-with-validated-configs", 1)
	core, validators := configValidators(c)
	entries := c.Field("pkg/config", "Manifest", "Entries")
	if core == nil || entries == nil {
		r.Unresolved("config validator / config.Manifest.Entries", "not found")
		return
	}
	validated := callOKFact(c, func(call *ssa.Call) bool {
		for _, f := range c.Callees(call) {
			if validators[f] {
				return true
			}
		}
		return false
	})
	n := 0
	for _, fn := range c.KevoFns {
		if pkgOf(fn) != "pkg/config" {
			continue
		}
		AllInstrs(fn, false, func(_ *ssa.Function, ins ssa.Instruction) {
			st, ok := ins.(*ssa.Store)
			if !ok || fieldVarOf(st.Addr) != entries {
				return
			}
			call, isCall := st.Val.(*ssa.Call)
			if !isCall {
				return
			}
			if b, ok := call.Call.Value.(*ssa.Builtin); !ok || b.Name() != "append" {
				return
			}
			n++
			r.Check(GuardedBy(st.Block(), validated), FnName(fn)+":append(Entries)", c.InsPos(ins), "an entry is appended only behind a successful validation",
				"an entry joins Manifest.Entries on a path where its configuration has not been validated: Save validates only the current entry but writes them all, and the loader takes the last one for current — a rejected update reaches the disk and the database cannot be reopened")
		})
	}
	if n == 0 {
		r.Undecided("config.Manifest.Entries", "-", "no append to Manifest.Entries found")
	}
}

// ruleNodeInfoReadOnlyFromEngine: the node-information call must report the engine's actual mode (clients use it to
// decide where writes go). The read-only result of Manager.GetNodeInfo resolves, on every path, to the result of
// engine.IsReadOnly(); the constant false is accepted only where there is no engine (or no configuration) to ask; any other
// source — a constant true, the configured role — can disagree with what the engine does.
func ruleNodeInfoReadOnlyFromEngine(c *Ctx, r *Reporter) {
	r.Rule("node-info-reports-the-engine-mode", 1)
	fn := c.Func("pkg/replication", "Manager", "GetNodeInfo")
	engF := c.Field("pkg/replication", "Manager", "engine")
	cfgF := c.Field("pkg/replication", "Manager", "config")
	if fn == nil || engF == nil || cfgF == nil {
		r.Unresolved("replication.Manager.GetNodeInfo / Manager.engine / Manager.config", "not found")
		return
	}
	cons := "replication.Manager.GetNodeInfo:read-only"
	isModeCall := func(v ssa.Value) bool {
		call, ok := v.(*ssa.Call)
		if !ok {
			return false
		}
		if call.Call.IsInvoke() {
			return call.Call.Method.Name() == "IsReadOnly" && isLoadOfField(call.Call.Value, engF)
		}
		return false
	}
	noOne := func(cond ssa.Value) (bool, bool) { // "there is no engine / no configuration"
		v, trueNonNil, ok := nilTest(cond)
		if !ok || !(isLoadOfField(v, engF) || isLoadOfField(v, cfgF)) {
			return false, false
		}
		return !trueNonNil, trueNonNil
	}
	bad := ""
	nCalls := 0
	var visit func(v ssa.Value, at *ssa.BasicBlock, pred *ssa.BasicBlock, seen map[ssa.Value]bool)
	visit = func(v ssa.Value, at, pred *ssa.BasicBlock, seen map[ssa.Value]bool) {
		if seen[v] && pred == nil {
			return
		}
		seen[v] = true
		switch x := v.(type) {
		case *ssa.Phi:
			for i, e := range x.Edges {
				visit(e, x.Block(), x.Block().Preds[i], seen)
			}
		case *ssa.Const:
			if b, isB := constBool(x); isB && !b {
				// false: only where nobody can be asked
				okEdge := GuardedBy(at, noOne)
				if pred != nil {
					if len(pred.Instrs) > 0 {
						if iff, isIf := pred.Instrs[len(pred.Instrs)-1].(*ssa.If); isIf {
							t, f := noOne(iff.Cond)
							for i, s := range pred.Succs {
								if s == at && ((i == 0 && t) || (i == 1 && f)) {
									okEdge = true
								}
							}
						}
					}
					if GuardedBy(pred, noOne) {
						okEdge = true
					}
				}
				if !okEdge {
					bad = "the read-only result is the constant false on a path where an engine could have been asked"
				}
				return
			}
			bad = "the read-only result is the constant true on some path: it is reported without asking the engine, so a node whose engine accepts client writes (flag not forced, or setting it failed) still claims to be read-only"
		default:
			if isModeCall(v) {
				nCalls++
				return
			}
			bad = "the read-only result comes from " + Path(v) + ", not from engine.IsReadOnly()"
		}
	}
	for _, ret := range Returns(fn) {
		if len(ret.Results) < 5 {
			r.Undecided(cons, c.FnPos(fn), "unexpected result arity")
			return
		}
		visit(ReturnValue(ret, 4), ret.Block(), nil, map[ssa.Value]bool{})
	}
	if bad == "" && nCalls == 0 {
		bad = "engine.IsReadOnly() is never consulted"
	}
	r.Check(bad == "", cons, c.FnPos(fn), "resolves to engine.IsReadOnly() (false only without engine or configuration)", bad)
}

// ruleAccessorsReturnCopies: which API can hand out a mutable reference to stored bytes. The read accessors of the
// memtable (MemTable.Get, Iterator.Key, Iterator.Value) and of the transaction buffer (Buffer.Get) return nil or freshly
// allocated memory on every path — never the slice held by an entry / a buffered operation: a caller that writes into
// its result (scratch-buffer reuse) would otherwise rewrite a key inside the sorted structure, change an immutable
// table, or change the value a transaction is about to commit.
func ruleAccessorsReturnCopies(c *Ctx, r *Reporter) {
	var specs [][3]string
	switch r.Property {
	case "C03":
		specs = [][3]string{{"pkg/transaction", "Buffer", "Get"}}
	default:
		specs = [][3]string{{"pkg/memtable", "MemTable", "Get"}, {"pkg/memtable", "Iterator", "Key"}, {"pkg/memtable", "Iterator", "Value"}, {"pkg/transaction", "Buffer", "Get"}}
	}
	r.Rule("accessors-return-copies", len(specs))
	var fresh func(v ssa.Value, d int) bool
	fresh = func(v ssa.Value, d int) bool {
		if d > 4 {
			return false
		}
		if isFreshBytes(v, 0) {
			return true
		}
		switch x := v.(type) {
		case *ssa.Phi:
			for _, e := range x.Edges {
				if !fresh(e, d+1) {
					return false
				}
			}
			return true
		case *ssa.Call:
			// a copier helper of the module: every return is fresh
			h := x.Call.StaticCallee()
			if h == nil || len(h.Blocks) == 0 || !c.InKevo(h) {
				return false
			}
			n := 0
			for _, ret := range Returns(h) {
				if len(ret.Results) == 0 || !fresh(ReturnValue(ret, 0), d+1) {
					return false
				}
				n++
			}
			return n > 0
		}
		return false
	}
	for _, sp := range specs {
		fn := c.Func(sp[0], sp[1], sp[2])
		cons := strings.TrimPrefix(sp[0], "pkg/") + "." + sp[1] + "." + sp[2]
		if fn == nil {
			r.Unresolved(cons, "not found")
			continue
		}
		bad := ""
		var pos ssa.Instruction
		n := 0
		for _, ret := range Returns(fn) {
			if len(ret.Results) == 0 {
				continue
			}
			n++
			v := ReturnValue(ret, 0)
			if !fresh(v, 0) {
				bad = Path(v)
				pos = ret
			}
		}
		if n == 0 {
			r.Undecided(cons, c.FnPos(fn), "no return with a result")
			continue
		}
		if pos == nil {
			pos = Returns(fn)[0]
		}
		r.Check(bad == "", cons, c.InsPos(pos), fmt.Sprintf("every one of %d exits returns nil or freshly allocated bytes", n),
			"an exit returns "+bad+", memory that belongs to the stored entry / buffered operation: a caller writing into its result changes the stored key or value (an immutable table changes; a key rewritten in place breaks the sort order; a buffered value changes after it was captured)")
	}
}

// holdsOnly: data is arr[:] of a local 8-byte array whose only content is PutUint64(arr[:], sum).
func holdsOnly(data ssa.Value, sum *ssa.Call) bool {
	if fixedArraySliceLen(data) != 8 {
		return false
	}
	al := data.(*ssa.Slice).X.(*ssa.Alloc)
	filled := false
	for _, ref := range *al.Referrers() {
		sl, ok := ref.(*ssa.Slice)
		if !ok {
			continue
		}
		for _, use := range *sl.Referrers() {
			call, ok := use.(*ssa.Call)
			if !ok {
				continue
			}
			if strings.HasSuffix(staticName(call), "PutUint64") && len(call.Call.Args) == 3 && call.Call.Args[2] == ssa.Value(sum) {
				filled = true
			}
		}
	}
	return filled
}

// ruleCompactRangeClosed: CompactRange moves WHOLE files to the deepest level. A file left behind at a shallower level
// must not share a key with a moved file (its older version would shadow the newer one), so the selection has to be
// closed: the range the files are tested against grows to the keys of every selected file (FirstKey lowered only when
// the file's is smaller, LastKey raised only when it is greater) and the search repeats until a round adds nothing.
func ruleCompactRangeClosed(c *Ctx, r *Reporter) {
	r.Rule("compact-range-selection-is-closed", 1)
	fn := c.Func("pkg/compaction", "TieredCompactionStrategy", "CompactRange")
	ov := c.Func("pkg/compaction", "SSTableInfo", "Overlaps")
	cons := "compaction.TieredCompactionStrategy.CompactRange"
	if fn == nil || ov == nil {
		r.Unresolved(cons+" / SSTableInfo.Overlaps", "not found")
		return
	}
	var test *ssa.Call
	AllInstrs(fn, false, func(_ *ssa.Function, ins ssa.Instruction) {
		if call, ok := ins.(*ssa.Call); ok && call.Call.StaticCallee() == ov {
			test = call
		}
	})
	if test == nil || len(test.Call.Args) != 2 {
		r.Bad(cons, c.FnPos(fn), "the files to move are not selected by an overlap test against a range")
		return
	}
	rng := test.Call.Args[1] // the range object (files are the receivers)
	if _, isAlloc := rng.(*ssa.Alloc); !isAlloc {
		rng = test.Call.Args[0]
	}
	// (a) widening stores inside the loops of the test
	widened := map[string]bool{}
	badDir := ""
	AllInstrs(fn, false, func(_ *ssa.Function, ins ssa.Instruction) {
		st, ok := ins.(*ssa.Store)
		if !ok {
			return
		}
		fa, ok := st.Addr.(*ssa.FieldAddr)
		if !ok || fa.X != rng {
			return
		}
		inLoop := false
		for _, l := range GenericLoops(fn) {
			if l.Contains(st.Block()) && l.Contains(test.Block()) {
				inLoop = true
			}
		}
		if !inLoop {
			return
		}
		name := fieldName(fa)
		wantLess := name == "FirstKey"
		dir := func(cond ssa.Value) (bool, bool) {
			bo, ok := cond.(*ssa.BinOp)
			if !ok {
				return false, false
			}
			x, y, op := bo.X, bo.Y, bo.Op
			if k, isK := constInt(x); isK && k == 0 {
				x, y = y, x
				op = flipOp(op)
			}
			k, isK := constInt(y)
			cmp, isCall := x.(*ssa.Call)
			if !isK || k != 0 || !isCall || staticName(cmp) != "bytes.Compare" {
				return false, false
			}
			a, b := cmp.Call.Args[0], cmp.Call.Args[1]
			isCur := func(v ssa.Value) bool {
				ld, ok := v.(*ssa.UnOp)
				if !ok || ld.Op != token.MUL {
					return false
				}
				f2, ok := ld.X.(*ssa.FieldAddr)
				return ok && f2.X == rng && fieldName(f2) == name
			}
			switch {
			case sameFieldLoad(a, st.Val) && isCur(b):
			case sameFieldLoad(b, st.Val) && isCur(a):
				op = flipOp(op)
			default:
				return false, false
			}
			// now: Compare(new, current) op 0
			if wantLess {
				return op == token.LSS, op == token.GEQ
			}
			return op == token.GTR, op == token.LEQ
		}
		g1, g2 := GuardedBy(st.Block(), dir), GuardedBy(st.Block(), callTrueFact(test))
		if g1 && g2 {
			widened[name] = true
		} else {
			badDir = "the store to the range's " + name + " at " + c.InsPos(ins) + " is not guarded by the matching comparison (lower FirstKey only for a smaller key, raise LastKey only for a greater one) on the selected path"
		}
	})
	// (b) fixpoint: an enclosing loop continues on a flag that the selection path sets
	fix := false
	for _, l := range GenericLoops(fn) {
		if !l.Contains(test.Block()) || len(l.Header.Instrs) == 0 {
			continue
		}
		iff, ok := l.Header.Instrs[len(l.Header.Instrs)-1].(*ssa.If)
		if !ok {
			continue
		}
		ph, ok := iff.Cond.(*ssa.Phi)
		if !ok {
			continue
		}
		if flowsFromPred(ph, func(v ssa.Value) bool {
			k, isK := v.(*ssa.Const)
			if !isK {
				return false
			}
			b, isB := constBool(k)
			return isB && b
		}, 0, map[ssa.Value]bool{}) {
			fix = true
		}
	}
	// (c) every selection marks the round as productive: on the edges back to a loop head that come from the selected path
	// (behind Overlaps == true) the loop-carried flag is the constant true — whichever end of the range the file widened
	flagStale := false
	selected := callTrueFact(test)
	for _, l := range GenericLoops(fn) {
		if !l.Contains(test.Block()) {
			continue
		}
		for _, ins := range l.Header.Instrs {
			ph, ok := ins.(*ssa.Phi)
			if !ok {
				break
			}
			if b, isB := ph.Type().Underlying().(*types.Basic); !isB || b.Kind() != types.Bool {
				continue
			}
			for i, e := range ph.Edges {
				pred := l.Header.Preds[i]
				if !l.Header.Dominates(pred) || !GuardedBy(pred, selected) {
					continue
				}
				if b, isK := constBool(e); !isK || !b {
					flagStale = true
				}
			}
		}
	}
	switch {
	case badDir != "":
		r.Bad(cons, c.InsPos(test), badDir)
	case widened["FirstKey"] && widened["LastKey"] && fix && flagStale:
		r.Bad(cons, c.InsPos(test), "a file can be selected without the round being marked as productive (the flag that repeats the search is not set on every selection path): if the file widened the range on one side only, files of levels already scanned that overlap the new part stay behind — an older file that shares keys with a moved newer one keeps shadowing it")
	case !widened["FirstKey"] || !widened["LastKey"]:
		r.Bad(cons, c.InsPos(test), "files are selected by overlap with the requested range only; the range is not grown to the keys of the selected files: whole files move to the deepest level, so a file left behind that shares an out-of-range key with a moved newer file keeps shadowing the newer version (overwritten keys revert, deleted keys come back)")
	case !fix:
		r.Bad(cons, c.InsPos(test), "the range grows with the selected files but the search is not repeated until a round adds nothing: files of levels already scanned that overlap the grown range stay behind")
	default:
		r.OK(cons, c.InsPos(test), "the selection is closed: the range grows to every selected file's keys and the search repeats until nothing is added")
	}
}

// callTrueFact: the fact "this boolean call returned true".
func callTrueFact(call *ssa.Call) Fact {
	return func(cond ssa.Value) (bool, bool) {
		if cond == ssa.Value(call) {
			return true, false
		}
		if u, ok := cond.(*ssa.UnOp); ok && u.Op == token.NOT && u.X == ssa.Value(call) {
			return false, true
		}
		return false, false
	}
}

// ruleReplicaAcceptsWhatIsSent: the primary decides what goes into a message (catch-up batches are capped by entry
// count, not bytes); a replica that refuses a received batch because of its size refuses it again at every
// retransmission — its position never advances and nothing behind that point replicates. In the replica's receive
// functions no failing exit may be decided by a comparison on the size of the received payloads.
func ruleReplicaAcceptsWhatIsSent(c *Ctx, r *Reporter) {
	r.Rule("replica-accepts-what-the-primary-sends", 2)
	isPayloadLen := func(v ssa.Value) bool {
		la := lenArgOf(v)
		return la != nil && strings.Contains(Path(la), "Payload")
	}
	for _, mn := range []string{"processEntriesWithoutStateTransitions", "processEntries"} {
		fn := c.Func("pkg/replication", "Replica", mn)
		cons := "replication.Replica." + mn
		if fn == nil {
			r.Unresolved(cons, "not found")
			continue
		}
		sizeTest := func(cond ssa.Value) (bool, bool) {
			bo, ok := cond.(*ssa.BinOp)
			if !ok {
				return false, false
			}
			switch bo.Op {
			case token.LSS, token.GTR, token.LEQ, token.GEQ:
			default:
				return false, false
			}
			// an emptiness test (len(p) > 0) is not a size limit
			for _, o := range []ssa.Value{bo.X, bo.Y} {
				if k, isK := constInt(o); isK && k <= 1 {
					return false, false
				}
			}
			if flowsFromPred(bo.X, isPayloadLen, 0, map[ssa.Value]bool{}) || flowsFromPred(bo.Y, isPayloadLen, 0, map[ssa.Value]bool{}) {
				return true, true // either outcome of such a test is "decided by the payload size"
			}
			return false, false
		}
		var bad ssa.Instruction
		n := 0
		for _, ret := range Returns(fn) {
			if ClassifyReturn(ret) == ExitSuccess {
				continue
			}
			n++
			if GuardedBy(ret.Block(), sizeTest) {
				bad = ret
			}
		}
		if bad != nil {
			r.Bad(cons, c.InsPos(bad), "a received batch is refused on a comparison of its payload size: the primary will send the same batch again (it caps batches by entry count, not bytes), the replica refuses it again, and its position never advances — everything behind that point never replicates")
		} else {
			r.OK(cons, c.FnPos(fn), fmt.Sprintf("none of the %d failing exits is decided by the size of the received payloads", n))
		}
	}
}

// ruleErrorStateRetries: the replica's ERROR state is the only way back to CONNECTING. handleErrorState must not park:
// no plain channel receive outside its select, and every exit other than the select's cancellation arm passes
// SetState(StateConnecting). (A retry budget that blocks on ctx.Done() leaves a replica that was unreachable for a while
// permanently disconnected.)
func ruleErrorStateRetries(c *Ctx, r *Reporter) {
	r.Rule("error-state-always-retries", 1)
	fn := c.Func("pkg/replication", "Replica", "handleErrorState")
	kConn := c.Const("pkg/replication", "StateConnecting")
	cons := "replication.Replica.handleErrorState"
	if fn == nil || kConn == nil {
		r.Unresolved(cons+" / StateConnecting", "not found")
		return
	}
	want, _ := constantInt(kConn)
	var sel *ssa.Select
	var plain ssa.Instruction
	AllInstrs(fn, false, func(_ *ssa.Function, ins ssa.Instruction) {
		switch x := ins.(type) {
		case *ssa.Select:
			sel = x
		case *ssa.UnOp:
			if x.Op == token.ARROW {
				plain = ins
			}
		}
	})
	if plain != nil {
		r.Bad(cons, c.InsPos(plain), "a plain channel receive outside the back-off select: the state loop parks here (until the replica is stopped) instead of returning to CONNECTING — a replica whose primary was unreachable for a while never dials again")
		return
	}
	cancelArm := -1
	if sel != nil {
		for i, st := range sel.States {
			if st.Dir == types.RecvOnly && flowsFromPred(st.Chan, func(v ssa.Value) bool {
				call, ok := v.(*ssa.Call)
				return ok && call.Call.IsInvoke() && call.Call.Method.Name() == "Done"
			}, 0, map[ssa.Value]bool{}) {
				cancelArm = i
			}
		}
	}
	onCancel := func(cond ssa.Value) (bool, bool) {
		bo, ok := cond.(*ssa.BinOp)
		if !ok || bo.Op != token.EQL || sel == nil {
			return false, false
		}
		ex, ok := bo.X.(*ssa.Extract)
		k, isK := constInt(bo.Y)
		if !ok || !isK || ex.Tuple != ssa.Value(sel) || ex.Index != 0 {
			return false, false
		}
		return int(k) == cancelArm, false
	}
	isRetry := func(i ssa.Instruction) bool {
		call, ok := i.(*ssa.Call)
		if !ok || call.Call.StaticCallee() == nil || call.Call.StaticCallee().Name() != "SetState" || len(call.Call.Args) < 2 {
			return false
		}
		k, isK := constInt(call.Call.Args[len(call.Call.Args)-1])
		return isK && k == want
	}
	var exits []ssa.Instruction
	for _, ret := range Returns(fn) {
		if cancelArm >= 0 && GuardedBy(ret.Block(), onCancel) {
			continue
		}
		exits = append(exits, ret)
	}
	if len(exits) == 0 {
		r.Bad(cons, c.FnPos(fn), "no exit of the error state leads back to CONNECTING")
		return
	}
	badExit, path := MustPass(fn, exits, isRetry)
	if badExit != nil {
		r.Bad(cons, c.InsPos(badExit), "an exit of the error state (other than cancellation) does not pass SetState(StateConnecting): the replica stays in ERROR and never dials the primary again", c.PathString(path)...)
		return
	}
	r.OK(cons, c.FnPos(fn), fmt.Sprintf("%d exit(s) besides cancellation, all through SetState(StateConnecting); no plain receive", len(exits)))
}

// ruleNoSharedMapHandedOut (round 7): a map kept in a field of a struct that has its own mutex is shared state; a method
// that returns that very map hands every caller the same object, and callers do write into and range over result maps
// (the stats layers add keys to what they are given). Returned maps must be built for the caller (fresh, or a copy).
func ruleNoSharedMapHandedOut(c *Ctx, r *Reporter) {
	r.Rule("no-shared-map-handed-out", 5)
	hasMutex := func(t types.Type) bool {
		st, ok := deref(t).Underlying().(*types.Struct)
		if !ok {
			return false
		}
		for i := 0; i < st.NumFields(); i++ {
			if strings.HasPrefix(st.Field(i).Type().String(), "sync.") {
				return true
			}
		}
		return false
	}
	n := 0
	for _, fn := range c.KevoFns {
		p := pkgOf(fn)
		if !strings.HasPrefix(p, "pkg/") || strings.HasPrefix(p, "pkg/client") || fn.Parent() != nil {
			continue
		}
		res := fn.Signature.Results()
		for i := 0; i < res.Len(); i++ {
			if _, isMap := res.At(i).Type().Underlying().(*types.Map); !isMap {
				continue
			}
			n++
			bad := ""
			var pos ssa.Instruction
			for _, ret := range Returns(fn) {
				if i >= len(ret.Results) {
					continue
				}
				var visit func(v ssa.Value, d int)
				visit = func(v ssa.Value, d int) {
					if d > 6 || v == nil {
						return
					}
					switch x := v.(type) {
					case *ssa.Phi:
						for _, e := range x.Edges {
							visit(e, d+1)
						}
					case *ssa.UnOp:
						if x.Op == token.MUL {
							if fa, ok := x.X.(*ssa.FieldAddr); ok && hasMutex(fa.X.Type()) {
								bad = Path(v)
								pos = ret
							}
							if al, ok := x.X.(*ssa.Alloc); ok {
								if sv := singleStore(al); sv != nil {
									visit(sv, d+1)
								}
							}
						}
					}
				}
				visit(ReturnValue(ret, i), 0)
			}
			cons := FnName(fn) + ":result#" + fmt.Sprint(i)
			if bad != "" {
				r.Bad(cons, c.InsPos(pos), "the method returns the map kept in "+bad+" itself: every caller gets the same object, and callers add keys to and range over result maps without the owner's lock — concurrent calls end in 'concurrent map writes' / 'concurrent map iteration and map write'")
			} else {
				r.OK(cons, c.FnPos(fn), "the returned map is not a field of a lock-protected struct")
			}
		}
	}
	_ = n
}

// ruleFragmentsConcatenated (round 7): the reader rebuilds a fragmented entry by CONCATENATING the fragment payloads —
// fragment sizes are whatever the writer produced (the first fragment is 13 bytes plus the key chunk, not a full
// record). In processFragments every fragment is copied behind the previous one: either append(combined, frag...) in
// the loop, or copy(combined[off:], frag) with off starting at 0 and advancing by len(frag) of the same fragment.
func ruleFragmentsConcatenated(c *Ctx, r *Reporter) {
	r.Rule("fragments-are-concatenated", 1)
	fn := c.Func("pkg/wal", "Reader", "processFragments")
	cons := "wal.Reader.processFragments"
	if fn == nil {
		r.Unresolved(cons, "not found")
		return
	}
	ok := false
	why := "no copy of the fragments into a combined buffer found"
	var pos ssa.Instruction
	AllInstrs(fn, false, func(_ *ssa.Function, ins ssa.Instruction) {
		call, isCall := ins.(*ssa.Call)
		if !isCall {
			return
		}
		b, isB := call.Call.Value.(*ssa.Builtin)
		if !isB {
			return
		}
		inLoop := false
		for _, l := range GenericLoops(fn) {
			if l.Contains(call.Block()) {
				inLoop = true
			}
		}
		if !inLoop {
			return
		}
		switch b.Name() {
		case "append":
			// combined = append(combined, frag...)
			if _, isPhi := call.Call.Args[0].(*ssa.Phi); isPhi && len(call.Call.Args) == 2 {
				ok = true
				pos = ins
			}
		case "copy":
			pos = ins
			dst, isSl := call.Call.Args[0].(*ssa.Slice)
			src := call.Call.Args[1]
			if !isSl || dst.Low == nil {
				why = "the fragments are not copied to a running offset"
				return
			}
			ph, isPhi := dst.Low.(*ssa.Phi)
			if !isPhi {
				why = "the destination offset of a fragment (" + Path(dst.Low) + ") is not the running total of the lengths of the fragments before it: fragments are not all of one size (the first is 13 bytes plus the key chunk), so a fixed slot per fragment leaves gaps that the parser reads as lengths"
				return
			}
			initOK, stepOK := false, false
			for i, e := range ph.Edges {
				pred := ph.Block().Preds[i]
				if ph.Block().Dominates(pred) { // back edge
					if bo, isBo := e.(*ssa.BinOp); isBo && bo.Op == token.ADD {
						for _, pair := range [][2]ssa.Value{{bo.X, bo.Y}, {bo.Y, bo.X}} {
							if pair[0] == ssa.Value(ph) && lenArgOf(pair[1]) != nil && sameValue(lenArgOf(pair[1]), src) {
								stepOK = true
							}
						}
					}
				} else if k, isK := constInt(e); isK && k == 0 {
					initOK = true
				}
			}
			if initOK && stepOK {
				ok = true
			} else {
				why = "the running offset does not start at 0 and advance by len(fragment) of the fragment just copied"
			}
		}
	})
	if pos == nil {
		r.Check(false, cons, c.FnPos(fn), "", why)
		return
	}
	r.Check(ok, cons, c.InsPos(pos), "every fragment is copied directly behind the previous one", why)
}

// ruleTxReadsUnderTxLock (round 7): Commit and Rollback take TransactionImpl.mu; a read of the same transaction that
// is in flight must finish before they return, otherwise the read can reach storage after the transaction ended — and
// after a later writer committed. Every storage access of Get / NewIterator / NewRangeIterator happens with tx.mu held.
func ruleTxReadsUnderTxLock(c *Ctx, r *Reporter) {
	r.Rule("tx-reads-hold-the-transaction-lock", 3)
	li := c.Locks()
	storageF := c.Field("pkg/transaction", "TransactionImpl", "storage")
	if storageF == nil {
		r.Unresolved("transaction.TransactionImpl.storage", "not found")
		return
	}
	for _, mn := range []string{"Get", "NewIterator", "NewRangeIterator"} {
		fn := c.Func("pkg/transaction", "TransactionImpl", mn)
		cons := "transaction.TransactionImpl." + mn
		if fn == nil {
			r.Unresolved(cons, "not found")
			continue
		}
		n := 0
		var bad ssa.Instruction
		AllInstrs(fn, false, func(_ *ssa.Function, ins ssa.Instruction) {
			call, ok := ins.(*ssa.Call)
			if !ok || !call.Call.IsInvoke() || !isLoadOfField(call.Call.Value, storageF) {
				return
			}
			n++
			if !li.HeldAt(ins).Holds("transaction.TransactionImpl.mu", "R") {
				bad = ins
			}
		})
		switch {
		case n == 0:
			r.Undecided(cons, c.FnPos(fn), "no storage access found")
		case bad != nil:
			r.Bad(cons, c.InsPos(bad), "the storage is read without TransactionImpl.mu held (held: "+li.HeldAt(bad).String()+"): Commit/Rollback no longer wait for this read, so it can reach storage after the transaction has ended and a later writer has committed — a read-only transaction sees two states")
		default:
			r.OK(cons, c.FnPos(fn), fmt.Sprintf("%d storage access(es), all with TransactionImpl.mu held", n))
		}
	}
}

// ruleScanSourcesComplete (round 7): the scan iterator is built from EVERY memtable and EVERY SSTable it is given: an
// immutable memtable is readable only through the pool until its SSTable is registered, so skipping any source makes
// scans miss data that Get still finds. In createBaseIterator each of the two loops walks its whole slice, has no early
// exit, and appends an iterator on every iteration.
func ruleScanSourcesComplete(c *Ctx, r *Reporter) {
	r.Rule("scan-sources-are-complete", 2)
	fn := c.Func("pkg/engine/iterator", "Factory", "createBaseIterator")
	if fn == nil {
		r.Unresolved("iterator.Factory.createBaseIterator", "not found")
		return
	}
	for _, p := range fn.Params {
		if _, isSlice := p.Type().Underlying().(*types.Slice); !isSlice {
			continue
		}
		cons := "iterator.Factory.createBaseIterator:" + p.Name()
		okAny := false
		why := "no loop over " + p.Name() + " found: these sources are not part of the scan"
		var pos ssa.Instruction
		for _, w := range IndexWalks(fn) {
			on := false
			for _, ia := range w.IndexAddr {
				if ia.X == ssa.Value(p) {
					on = true
				}
			}
			if !on {
				continue
			}
			loop := w.Loop
			pos = loop.Header.Instrs[0]
			if w.Dir == "?" || !walkCoversAllOf(w, func(v ssa.Value) bool { return v == ssa.Value(p) }) {
				why = "the walk over " + p.Name() + " does not cover the whole slice (start, end or step): an element — the oldest table, say — is never a source of the scan, and keys that live only there are missing from every scan while Get finds them"
				continue
			}
			early := false
			for _, b := range fn.Blocks {
				if !loop.Contains(b) || b == loop.Header {
					continue
				}
				for _, s := range b.Succs {
					if !loop.Contains(s) {
						early = true
					}
				}
			}
			if early {
				why = "the loop over " + p.Name() + " can be left early"
				continue
			}
			var body *ssa.BasicBlock
			for _, s := range loop.Header.Succs {
				if loop.Contains(s) {
					body = s
				}
			}
			first := loop.Header.Instrs[0]
			isAppend := func(i ssa.Instruction) bool {
				call, ok := i.(*ssa.Call)
				if !ok {
					return false
				}
				b, ok := call.Call.Value.(*ssa.Builtin)
				return ok && b.Name() == "append"
			}
			if body == nil {
				continue
			}
			if hit, _ := ReachBlock(body, func(i ssa.Instruction) bool { return i == first }, isAppend, nil); hit != nil {
				why = "an iteration of the loop over " + p.Name() + " can skip the append: that source is left out of the scan (an immutable memtable whose SSTable is not registered yet is readable through Get but invisible to scans; two scans of one read-only transaction differ)"
				continue
			}
			okAny = true
		}
		if pos == nil {
			r.Check(false, cons, c.FnPos(fn), "", why)
		} else {
			r.Check(okAny, cons, c.InsPos(pos), "every element contributes an iterator", why)
		}
	}
}

// ruleSealOnlyWhenReplaced (round 7): MemTable.Put/Delete silently ignore writes to a sealed table, so the pool's ACTIVE
// table may be sealed only by code that installs a new active table before it returns. Who may call SetImmutable is a
// reviewed table; in the pool's own functions a store to MemTablePool.active must follow the sealing on every path.
var sealers = map[string]string{
	"memtable.MemTablePool.SwitchToNewMemTable": "seals the old active table and installs a fresh one",
	"memtable.MemTablePool.SetActiveMemTable":   "recovery: demotes the previous active table, installs the given one",
	"memtable.RecoverFromWAL":                   "recovery: seals a full table before starting the next one (not yet in a pool)",
	"storage.Manager.recoverFromWAL":            "recovery: seals the tables that were already demoted by SetActiveMemTable",
}

func ruleSealOnlyWhenReplaced(c *Ctx, r *Reporter) {
	r.Rule("active-table-sealed-only-when-replaced", 4)
	seal := c.Func("pkg/memtable", "MemTable", "SetImmutable")
	activeF := c.Field("pkg/memtable", "MemTablePool", "active")
	if seal == nil || activeF == nil {
		r.Unresolved("memtable.MemTable.SetImmutable / MemTablePool.active", "not found")
		return
	}
	for _, fn := range c.KevoFns {
		AllInstrs(fn, false, func(_ *ssa.Function, ins ssa.Instruction) {
			call, ok := ins.(*ssa.Call)
			if !ok || call.Call.StaticCallee() != seal {
				return
			}
			name := FnName(topParent(fn))
			cons := name + ":SetImmutable"
			why, reviewed := sealers[name]
			if !reviewed {
				// a helper extracted from a reviewed function (single same-package caller): judged at the caller
				if owner := c.siteOwner(topParent(fn)); owner != topParent(fn) {
					if w2, ok2 := sealers[FnName(owner)]; ok2 {
						okAll := true
						nSites := 0
						for _, e := range c.Callers(topParent(fn)) {
							site, isCall := e.Site.(*ssa.Call)
							if !isCall || topParent(e.Caller.Func) != owner {
								continue
							}
							nSites++
							missing, _ := Reach(owner, site, func(i ssa.Instruction) bool { _, isRet := i.(*ssa.Return); return isRet }, func(i ssa.Instruction) bool {
								st, isSt := i.(*ssa.Store)
								return isSt && fieldVarOf(st.Addr) == activeF
							})
							if missing != nil {
								okAll = false
							}
						}
						r.Check(okAll && nSites > 0, FnName(owner)+":SetImmutable", c.InsPos(ins), w2+" (through the helper "+name+"); a store to MemTablePool.active follows the helper call on every path", "the pool seals a table (in "+name+") and can return without installing a new active table: writes into the sealed active table are silently dropped")
						return
					}
				}
			}
			if !reviewed {
				r.Bad(cons, c.InsPos(ins), "a table is sealed outside the reviewed places: if it is (or stays) the pool's active table, every later Put/Delete into it is silently dropped while the caller is told it succeeded — the rest of a batch that crosses the size limit vanishes until the next restart")
				return
			}
			if recvTypeName(topParent(fn)) == "memtable.MemTablePool" {
				// a new active table is installed afterwards on every path
				var rets []ssa.Instruction
				for _, ret := range Returns(fn) {
					rets = append(rets, ret)
				}
				missing, _ := Reach(fn, ins, func(i ssa.Instruction) bool {
					for _, x := range rets {
						if x == i {
							return true
						}
					}
					return false
				}, func(i ssa.Instruction) bool {
					st, isSt := i.(*ssa.Store)
					return isSt && fieldVarOf(st.Addr) == activeF
				})
				r.Check(missing == nil, cons, c.InsPos(ins), why+"; a store to MemTablePool.active follows on every path", "the pool seals a table and can return without installing a new active table: writes into the sealed active table are silently dropped")
				return
			}
			r.OK(cons, c.InsPos(ins), why)
		})
	}
}

// ruleClosedMeansClosed (round 7): storage retries an operation only on ErrWALRotating; ErrWALClosed is final. A log that
// is ROTATING must therefore never answer ErrWALClosed: every return of ErrWALClosed in pkg/wal that is decided by the
// status word sits on the status == WALStatusClosed edge (a commit whose batch is already buffered and whose sync is told
// 'closed' reports failure, yet the rotation's Close flushes the batch — the failed transaction reappears after a restart).
func ruleClosedMeansClosed(c *Ctx, r *Reporter) {
	r.Rule("closed-answer-only-when-closed", 5)
	a := getWalAnchors(c, r)
	if !a.ok {
		return
	}
	gClosed := c.Global("pkg/wal", "ErrWALClosed")
	kClosed := c.Const("pkg/wal", "WALStatusClosed")
	if gClosed == nil || kClosed == nil {
		r.Unresolved("wal.ErrWALClosed / WALStatusClosed", "not found")
		return
	}
	closedV, _ := constantInt(kClosed)
	isStatus := func(v ssa.Value) bool {
		if call, ok := v.(*ssa.Call); ok {
			name, addr, _ := atomicCall(call)
			return strings.HasPrefix(name, "Load") && fieldVarOf(addr) == a.status
		}
		return isLoadOfField(v, a.status)
	}
	isClosed := func(cond ssa.Value) (bool, bool) {
		bo, ok := cond.(*ssa.BinOp)
		if !ok || (bo.Op != token.EQL && bo.Op != token.NEQ) {
			return false, false
		}
		x, y := bo.X, bo.Y
		if _, isK := constInt(x); isK {
			x, y = y, x
		}
		k, isK := constInt(y)
		if !isK || k != closedV || !isStatus(stripNumConv(x)) {
			return false, false
		}
		return bo.Op == token.EQL, bo.Op == token.NEQ
	}
	anyStatusTest := func(cond ssa.Value) (bool, bool) {
		bo, ok := cond.(*ssa.BinOp)
		if !ok {
			return false, false
		}
		if isStatus(stripNumConv(bo.X)) || isStatus(stripNumConv(bo.Y)) {
			return true, true
		}
		return false, false
	}
	for _, fn := range c.KevoFns {
		if pkgOf(fn) != "pkg/wal" {
			continue
		}
		for _, ret := range Returns(fn) {
			if !returnsGlobalErr(ret, gClosed) {
				continue
			}
			cons := FnName(fn) + ":ErrWALClosed"
			if !GuardedBy(ret.Block(), anyStatusTest) {
				r.Info(cons, c.InsPos(ret), "not decided by the status word")
				continue
			}
			r.Check(GuardedBy(ret.Block(), isClosed), cons, c.InsPos(ret), "answered only on status == WALStatusClosed",
				"ErrWALClosed is answered on a status test other than '== WALStatusClosed': a log that is only rotating reports 'closed', which the storage layer does not retry — a commit whose batch is already in the buffer fails, the rotation's Close flushes the batch anyway, and the failed transaction is there after a restart")
		}
	}
}

// ruleSkipAfterDamageDropsFragments (round 7, re-stated after fix 4f4a928): after a damaged record the replay loop
// resynchronises and goes on reading. Fragments collected before the damage (Reader.fragments) must not survive into
// what is read next. The first version of this rule accepted "the resynchronisation skips at least one maximal record";
// that was unsound — with the right record sizes the 32 KiB skip of the tree ended exactly in front of another entry's
// MIDDLE fragment, which was then glued onto the stale ones (demo, repaired by 4f4a928). Decided now: on every path from
// a failed readRecord (other than a clean end of file) to the exit of ReadEntry that reports it, Reader.fragments is
// reset — or recoverFromCorruption resets it.
func ruleSkipAfterDamageDropsFragments(c *Ctx, r *Reporter) {
	r.Rule("resync-drops-pending-fragments", 1)
	fn := c.Func("pkg/wal", "", "recoverFromCorruption")
	readEntry := c.Func("pkg/wal", "Reader", "ReadEntry")
	readRec := c.Func("pkg/wal", "Reader", "readRecord")
	fragF := c.Field("pkg/wal", "Reader", "fragments")
	cons := "wal.Reader.ReadEntry:damaged-record-exit"
	if fn == nil || fragF == nil || readEntry == nil || readRec == nil {
		r.Unresolved("wal.recoverFromCorruption / Reader.ReadEntry / readRecord / fragments", "not found")
		return
	}
	resetsIn := func(f *ssa.Function) bool {
		found := false
		AllInstrs(f, false, func(_ *ssa.Function, ins ssa.Instruction) {
			if st, ok := ins.(*ssa.Store); ok && fieldVarOf(st.Addr) == fragF {
				found = true
			}
		})
		return found
	}
	if resetsIn(fn) {
		r.OK(cons, c.FnPos(fn), "recoverFromCorruption resets the pending fragments")
		return
	}
	var call *ssa.Call
	AllInstrs(readEntry, false, func(_ *ssa.Function, ins ssa.Instruction) {
		if cl, ok := ins.(*ssa.Call); ok && cl.Call.StaticCallee() == readRec {
			call = cl
		}
	})
	if call == nil {
		r.Undecided(cons, c.FnPos(readEntry), "readRecord is not called directly")
		return
	}
	var errV ssa.Value
	for _, ref := range *call.Referrers() {
		if ex, ok := ref.(*ssa.Extract); ok && ex.Index == 1 {
			errV = ex
		}
	}
	// exits that hand the record error itself back (a clean EOF and the unexpected-EOF-with-fragments exit build their
	// own values)
	var exits []ssa.Instruction
	for _, ret := range Returns(readEntry) {
		if errV != nil && ReturnValue(ret, 1) == errV {
			exits = append(exits, ret)
		}
	}
	if len(exits) == 0 {
		r.Undecided(cons, c.InsPos(call), "no exit returns the record error")
		return
	}
	bad, path := MustPass(readEntry, exits, func(i ssa.Instruction) bool {
		st, ok := i.(*ssa.Store)
		return ok && fieldVarOf(st.Addr) == fragF && Dominates(call, i)
	})
	if bad != nil {
		r.Bad(cons, c.InsPos(bad), "a damaged record is reported while the fragments collected before it stay pending: the replay loop resynchronises and reads on, and a MIDDLE/LAST fragment of another entry is glued onto them — recovery delivers the first entry's key and sequence number with a value nobody wrote", c.PathString(path)...)
		return
	}
	r.OK(cons, c.InsPos(call), fmt.Sprintf("%d exit(s) report a damaged record, all behind a reset of the pending fragments", len(exits)))
}

// ruleBuilderCopiesValues (round 7): the block builder keeps what it is given until the block is serialized (at the
// 64 KiB flush or at Finish). Key and value stored into Builder.entries are copies made in AddWithSequence (nil stays nil
// for a deletion marker): a caller that reuses its buffer would otherwise change what is written.
func ruleBuilderCopiesValues(c *Ctx, r *Reporter) {
	r.Rule("builder-copies-what-it-keeps", 2)
	fn := c.Func("pkg/sstable/block", "Builder", "AddWithSequence")
	if fn == nil {
		r.Unresolved("block.Builder.AddWithSequence", "not found")
		return
	}
	n := 0
	AllInstrs(fn, false, func(_ *ssa.Function, ins ssa.Instruction) {
		st, ok := ins.(*ssa.Store)
		if !ok {
			return
		}
		fa, ok := st.Addr.(*ssa.FieldAddr)
		if !ok {
			return
		}
		name := fieldName(fa)
		if name != "Key" && name != "Value" {
			return
		}
		if pt, ok := fa.X.Type().Underlying().(*types.Pointer); !ok || !strings.HasSuffix(pt.Elem().String(), "block.Entry") {
			return
		}
		n++
		r.Check(isFreshBytes(st.Val, 0), "block.Builder.AddWithSequence:Entry."+name, c.InsPos(ins), "a copy made here (nil stays nil)",
			"the builder keeps the caller's "+strings.ToLower(name)+" slice ("+Path(st.Val)+") until the block is serialized: a caller that reuses its buffer before the block is flushed changes the bytes that are written — keys, order and checksums stay valid, the values are wrong")
	})
	if n == 0 {
		r.Undecided("block.Builder.AddWithSequence", c.FnPos(fn), "no store to Entry.Key/Value found")
	}
}

// ruleLoadBuildsFreshInfos (round 7): Close() closes the readers of the loaded SSTableInfo objects and sets them to nil,
// CompactFiles skips an input whose reader is nil, and the callers then delete every selected input. What stands between
// these three and data loss is that LoadSSTables — called at the start of every cycle — describes every file afresh:
// each info it files under a level is allocated in this call with a reader opened in this call.
func ruleLoadBuildsFreshInfos(c *Ctx, r *Reporter) {
	r.Rule("load-describes-every-file-afresh", 1)
	fn := c.Func("pkg/compaction", "BaseCompactionStrategy", "LoadSSTables")
	cons := "compaction.BaseCompactionStrategy.LoadSSTables"
	if fn == nil {
		r.Unresolved(cons, "not found")
		return
	}
	open := c.Func("pkg/sstable", "", "OpenReader")
	n := 0
	bad := ""
	var pos ssa.Instruction
	AllInstrs(fn, false, func(_ *ssa.Function, ins ssa.Instruction) {
		call, ok := ins.(*ssa.Call)
		if !ok {
			return
		}
		b, isB := call.Call.Value.(*ssa.Builtin)
		if !isB || b.Name() != "append" || len(call.Call.Args) != 2 {
			return
		}
		sl, ok := call.Type().Underlying().(*types.Slice)
		if !ok || !strings.HasSuffix(sl.Elem().String(), "compaction.SSTableInfo") {
			return
		}
		// the appended element: the single store into the varargs array
		va, ok := call.Call.Args[1].(*ssa.Slice)
		if !ok {
			return
		}
		arr, ok := va.X.(*ssa.Alloc)
		if !ok {
			return
		}
		for _, ref := range *arr.Referrers() {
			ia, ok := ref.(*ssa.IndexAddr)
			if !ok {
				continue
			}
			for _, u := range *ia.Referrers() {
				st, ok := u.(*ssa.Store)
				if !ok {
					continue
				}
				n++
				pos = ins
				al, isAlloc := st.Val.(*ssa.Alloc)
				if !isAlloc || !al.Heap {
					bad = Path(st.Val)
					continue
				}
				// its Reader field comes from OpenReader in this call
				okReader := false
				for _, r2 := range *al.Referrers() {
					fa, ok := r2.(*ssa.FieldAddr)
					if !ok || fieldName(fa) != "Reader" {
						continue
					}
					for _, u2 := range *fa.Referrers() {
						if st2, ok := u2.(*ssa.Store); ok {
							if ex, ok := st2.Val.(*ssa.Extract); ok {
								if oc, ok := ex.Tuple.(*ssa.Call); ok && oc.Call.StaticCallee() == open {
									okReader = true
								}
							}
						}
					}
				}
				if !okReader {
					bad = "an info whose Reader is not the result of OpenReader in this call"
				}
			}
		}
	})
	if n == 0 {
		r.Undecided(cons, c.FnPos(fn), "no info is filed under a level")
		return
	}
	r.Check(bad == "", cons, c.InsPos(pos), "every info filed under a level is allocated here with a reader opened here",
		"LoadSSTables files "+bad+" under a level instead of describing the file afresh: infos kept from an earlier load have had their readers closed and set to nil by Close(); CompactFiles skips inputs without a reader and the callers delete every selected input — a compaction after a pause merges the old files as empty and deletes them")
}

// ruleDeltaBaseIsPredecessor (round 7): keys inside a restart interval are delta-encoded against the PREVIOUS key, and
// decodeNext rebuilds a key from Iterator.currentKey. After every successful decodeNext the caller must therefore make
// the decoded key the current one before the next decodeNext (or before it reports success): on every path from the
// ok-edge of a decodeNext call to another decodeNext call or to a return, a store currentKey := <that key> is passed
// (unless decodeNext stores it itself).
func ruleDeltaBaseIsPredecessor(c *Ctx, r *Reporter) {
	r.Rule("delta-base-is-the-predecessor", 3)
	dn := c.Func("pkg/sstable/block", "Iterator", "decodeNext")
	curKey := c.Field("pkg/sstable/block", "Iterator", "currentKey")
	if dn == nil || curKey == nil {
		r.Unresolved("block.Iterator.decodeNext / currentKey", "not found")
		return
	}
	// does decodeNext store the key itself on every success exit?
	self := true
	nSucc := 0
	for _, ret := range Returns(dn) {
		if len(ret.Results) < 3 {
			continue
		}
		if b, isK := constBool(ReturnValue(ret, 2)); isK && !b {
			continue
		}
		nSucc++
		var rets = []ssa.Instruction{ret}
		if bad, _ := MustPass(dn, rets, func(i ssa.Instruction) bool {
			st, ok := i.(*ssa.Store)
			return ok && fieldVarOf(st.Addr) == curKey
		}); bad != nil {
			self = false
		}
	}
	if self && nSucc > 0 {
		r.OK("block.Iterator.decodeNext:sets-current-key", c.FnPos(dn), "decodeNext makes the decoded key the current one itself")
		return
	}
	for _, fn := range c.KevoFns {
		if pkgOf(fn) != "pkg/sstable/block" || fn == dn {
			continue
		}
		idx := 0
		AllInstrs(fn, false, func(_ *ssa.Function, ins ssa.Instruction) {
			call, ok := ins.(*ssa.Call)
			if !ok || call.Call.StaticCallee() != dn {
				return
			}
			idx++
			cons := fmt.Sprintf("%s:decodeNext#%d", FnName(fn), idx)
			// the ok result and the key result of this call
			var okV, keyV ssa.Value
			for _, ref := range *call.Referrers() {
				if ex, isEx := ref.(*ssa.Extract); isEx {
					switch ex.Index {
					case 0:
						keyV = ex
					case 2:
						okV = ex
					}
				}
			}
			if okV == nil || keyV == nil {
				r.Undecided(cons, c.InsPos(ins), "result of decodeNext not destructured")
				return
			}
			failed := func(cond ssa.Value) (bool, bool) { // fact: this decode failed
				if cond == okV {
					return false, true
				}
				if u, isU := cond.(*ssa.UnOp); isU && u.Op == token.NOT && u.X == okV {
					return true, false
				}
				return false, false
			}
			setsKey := func(i ssa.Instruction) bool {
				st, isSt := i.(*ssa.Store)
				return isSt && fieldVarOf(st.Addr) == curKey && (st.Val == keyV || flowsFromPred(st.Val, func(v ssa.Value) bool { return v == keyV }, 0, map[ssa.Value]bool{}))
			}
			target := func(i ssa.Instruction) bool {
				if i == ins {
					return false
				}
				if c2, isC := i.(*ssa.Call); isC && c2.Call.StaticCallee() == dn {
					return true
				}
				_, isRet := i.(*ssa.Return)
				return isRet
			}
			hit, path := ReachE(fn, ins, target, setsKey, PruneFactEdges(failed))
			// a hit through the loop back to the same call is caught as the next iteration's call: ReachE excludes ins itself,
			// so look for the back edge separately
			if hit == nil {
				hit, path = ReachE(fn, ins, func(i ssa.Instruction) bool { return i == ins }, setsKey, PruneFactEdges(failed))
			}
			if hit != nil {
				r.Bad(cons, c.InsPos(ins), "after a successful decodeNext the decoded key is not made the current key before "+c.InsPos(hit)+": the next key of the restart interval is rebuilt against an older key (its shared prefix is taken from the wrong predecessor) — lookups miss keys, or return a different key's entry", c.PathString(path)...)
			} else {
				r.OK(cons, c.InsPos(ins), "the decoded key becomes the current key before the next decode and before every return")
			}
		})
	}
}

// ruleGetNextSequenceAlwaysAnswers (round 7): the rotation reads the old log's counter through GetNextSequence AFTER it
// has marked that log as rotating, and hands the value to the new log. GetNextSequence must therefore answer with the
// counter whatever the status is: every exit returns WAL.nextSequence (a status guard returning 0 turns the hand-over
// into a no-op, every new log restarts at 1, and a write after a rotation loses against an older version of its key).
func ruleGetNextSequenceAlwaysAnswers(c *Ctx, r *Reporter) {
	r.Rule("next-sequence-answered-in-every-state", 1)
	a := getWalAnchors(c, r)
	if !a.ok {
		return
	}
	fn := c.Func("pkg/wal", "WAL", "GetNextSequence")
	cons := "wal.WAL.GetNextSequence"
	if fn == nil {
		r.Unresolved(cons, "not found")
		return
	}
	bad := ""
	var pos ssa.Instruction
	n := 0
	for _, ret := range Returns(fn) {
		n++
		v := ReturnValue(ret, 0)
		okV := isLoadOfField(v, a.nextSeq)
		if call, isCall := v.(*ssa.Call); isCall {
			name, addr, _ := atomicCall(call)
			if strings.HasPrefix(name, "Load") && fieldVarOf(addr) == a.nextSeq {
				okV = true
			}
		}
		if !okV {
			bad = Path(v)
			pos = ret
		}
	}
	if pos == nil && n > 0 {
		pos = Returns(fn)[0]
	}
	r.Check(bad == "" && n > 0, cons, c.InsPos(pos), "every exit returns the counter", "an exit returns "+bad+" instead of the counter: the rotation asks a log it has just marked as rotating, gets this answer, and the new log does not continue the numbering — writes after a rotation are numbered below what the memtable already holds and lose against older versions of their keys")
}

// ruleAppliedPrefixRecorded (session 4): exactly once. ApplyEntries applies a batch entry by entry; when a later entry
// fails (apply error, decode error, a gap inside the batch) the entries before it ARE applied. The applier's position
// (expectedNextSeq / maxAppliedSeq) must say so before the failing exit, otherwise the retry applies them again. On every
// path from the success edge of the apply callback to a failing return a store to the position is passed.
func ruleAppliedPrefixRecorded(c *Ctx, r *Reporter) {
	r.Rule("applied-prefix-is-recorded", 1)
	fn := c.Func("pkg/replication", "WALBatchApplier", "ApplyEntries")
	expF := c.Field("pkg/replication", "WALBatchApplier", "expectedNextSeq")
	cons := "replication.WALBatchApplier.ApplyEntries:failing-exit-after-applied-entries"
	if fn == nil || expF == nil {
		r.Unresolved("replication.WALBatchApplier.ApplyEntries / expectedNextSeq", "not found")
		return
	}
	var apply *ssa.Call
	AllInstrs(fn, false, func(_ *ssa.Function, ins ssa.Instruction) {
		if call, ok := ins.(*ssa.Call); ok {
			if p, isP := call.Call.Value.(*ssa.Parameter); isP && p.Parent() == fn {
				apply = call
			}
		}
	})
	if apply == nil {
		r.Undecided(cons, c.FnPos(fn), "the apply callback is not called directly")
		return
	}
	failed := func(cond ssa.Value) (bool, bool) {
		v, trueNonNil, ok := nilTest(cond)
		if !ok || v != ssa.Value(apply) {
			return false, false
		}
		return trueNonNil, !trueNonNil
	}
	hit, path := ReachE(fn, apply, func(i ssa.Instruction) bool {
		ret, isRet := i.(*ssa.Return)
		return isRet && ClassifyReturn(ret) == ExitFailure
	}, func(i ssa.Instruction) bool {
		st, isSt := i.(*ssa.Store)
		return isSt && fieldVarOf(st.Addr) == expF
	}, PruneFactEdges(failed))
	if hit != nil {
		r.Bad(cons, c.InsPos(hit), "a failing exit is reachable after an entry of the batch was applied without the applier's position having been advanced: the entries before the failing one are applied but not recorded, and the retry applies them a second time (1:a=1, 2:a=2, 3:fails ⇒ a=1, a=2, a=1, a=2)", c.PathString(path)...)
		return
	}
	r.OK(cons, c.InsPos(apply), "the position is advanced before every failing exit that follows an applied entry")
}

// cancelGuard: for function fn, the fact "this branch is the arm of a select that received from a Done() channel".
func cancelGuard(fn *ssa.Function) Fact {
	type arm struct {
		sel *ssa.Select
		idx int
	}
	var arms []arm
	AllInstrs(fn, false, func(_ *ssa.Function, ins ssa.Instruction) {
		sel, ok := ins.(*ssa.Select)
		if !ok {
			return
		}
		for i, st := range sel.States {
			if st.Dir == types.RecvOnly && flowsFromPred(st.Chan, func(v ssa.Value) bool {
				call, ok := v.(*ssa.Call)
				return ok && call.Call.IsInvoke() && call.Call.Method.Name() == "Done"
			}, 0, map[ssa.Value]bool{}) {
				arms = append(arms, arm{sel, i})
			}
		}
	})
	return func(cond ssa.Value) (bool, bool) {
		bo, ok := cond.(*ssa.BinOp)
		if !ok || bo.Op != token.EQL {
			return false, false
		}
		ex, ok := bo.X.(*ssa.Extract)
		k, isK := constInt(bo.Y)
		if !ok || !isK || ex.Index != 0 {
			return false, false
		}
		for _, a := range arms {
			if ex.Tuple == ssa.Value(a.sel) && int(k) == a.idx {
				return true, false
			}
		}
		return false, false
	}
}

// ruleReplicationLoopNeverGivesUp (round 7): the replica's state loop is what makes a connected replica converge; it
// may end only when the replica is stopped. Every return of replicationLoop sits on the arm of a select that received
// from ctx.Done() (a retry budget that returns turns every long catch-up — which on this tree surfaces one error per
// applied batch — into a permanent stop).
func ruleReplicationLoopNeverGivesUp(c *Ctx, r *Reporter) {
	r.Rule("replication-loop-ends-only-when-stopped", 1)
	fn := c.Func("pkg/replication", "Replica", "replicationLoop")
	cons := "replication.Replica.replicationLoop"
	if fn == nil {
		r.Unresolved(cons, "not found")
		return
	}
	onCancel := cancelGuard(fn)
	n := 0
	var bad ssa.Instruction
	for _, ret := range Returns(fn) {
		n++
		if !GuardedBy(ret.Block(), onCancel) {
			bad = ret
		}
	}
	if bad != nil {
		r.Bad(cons, c.InsPos(bad), "the state loop can end on a path other than cancellation: once it has returned nothing dials, streams or applies any more — a replica that gives up after a number of failed ticks never converges (and the tree's own STREAMING→STREAMING transition error makes every applied batch count as a failed tick)")
		return
	}
	r.Check(n > 0, cons, c.FnPos(fn), fmt.Sprintf("%d return(s), all on the ctx.Done() arm", n), "the loop has no cancellation exit")
}

// rulePollSendsWhatItRead (round 7): the catch-up poll reads the entries behind the replica's position and sends them.
// What it sends — and what its 'nothing to send' exit tests — must be the list as read: re-slicing it (a byte budget,
// a cap) can cut it down to nothing while the log is ahead, and the poll then reports 'nothing to send' for ever for an
// entry that no other path delivers.
func rulePollSendsWhatItRead(c *Ctx, r *Reporter) {
	r.Rule("poll-sends-what-it-read", 1)
	fn := c.Func("pkg/replication", "Primary", "sendUpdatedEntries")
	get := c.Func("pkg/replication", "Primary", "getWALEntriesFromSequence")
	cons := "replication.Primary.sendUpdatedEntries"
	if fn == nil || get == nil {
		r.Unresolved(cons+" / getWALEntriesFromSequence", "not found")
		return
	}
	var read ssa.Value
	AllInstrs(fn, false, func(_ *ssa.Function, ins ssa.Instruction) {
		if ex, ok := ins.(*ssa.Extract); ok && ex.Index == 0 {
			if call, ok := ex.Tuple.(*ssa.Call); ok && call.Call.StaticCallee() == get {
				read = ex
			}
		}
	})
	if read == nil {
		r.Undecided(cons, c.FnPos(fn), "the read of the pending entries was not found")
		return
	}
	var cut ssa.Instruction
	AllInstrs(fn, false, func(_ *ssa.Function, ins ssa.Instruction) {
		sl, ok := ins.(*ssa.Slice)
		if !ok || !types.Identical(sl.Type(), read.Type()) {
			return
		}
		if flowsFromPred(sl.X, func(v ssa.Value) bool { return v == read }, 0, map[ssa.Value]bool{}) {
			cut = ins
		}
	})
	r.Check(cut == nil, cons, c.InsPos(read.(ssa.Instruction)), "the entries read are sent as read (no re-slicing)",
		"the list of pending entries is re-sliced before it is tested for emptiness and sent: a budget that the first pending entry exceeds cuts the list down to nothing, the 'nothing to send' exit is taken although the log is ahead, and the next poll does the same — the replica stays connected and behind for ever")
	if cut != nil {
		_ = cut
	}
}

// ruleConfigUpdateExclusive (round 7): SaveManifest validates, marshals and writes under Config.mu (shared); that is only
// a consistent snapshot if every writer of the configuration excludes it. Config.Update runs the caller's function with
// Config.mu held exclusively.
func ruleConfigUpdateExclusive(c *Ctx, r *Reporter) {
	r.Rule("config-update-holds-the-exclusive-lock", 1)
	fn := c.Func("pkg/config", "Config", "Update")
	cons := "config.Config.Update"
	if fn == nil {
		r.Unresolved(cons, "not found")
		return
	}
	li := c.Locks()
	var cb *ssa.Call
	AllInstrs(fn, false, func(_ *ssa.Function, ins ssa.Instruction) {
		if call, ok := ins.(*ssa.Call); ok {
			if p, isP := call.Call.Value.(*ssa.Parameter); isP && p.Parent() == fn {
				cb = call
			}
		}
	})
	if cb == nil {
		// the callback is handed to a same-receiver helper that calls it: the lockset at the helper's call of the
		// callback includes what every caller of the helper holds
		AllInstrs(fn, false, func(_ *ssa.Function, ins ssa.Instruction) {
			call, ok := ins.(*ssa.Call)
			if !ok || cb != nil {
				return
			}
			h := call.Call.StaticCallee()
			if h == nil || len(h.Blocks) == 0 || recvTypeName(h) != recvTypeName(fn) {
				return
			}
			passes := false
			for _, a := range call.Call.Args {
				if p, isP := a.(*ssa.Parameter); isP && p.Parent() == fn && strings.HasPrefix(p.Type().String(), "func") {
					passes = true
				}
			}
			if !passes {
				return
			}
			AllInstrs(h, false, func(_ *ssa.Function, x ssa.Instruction) {
				if c2, ok := x.(*ssa.Call); ok {
					if p, isP := c2.Call.Value.(*ssa.Parameter); isP && p.Parent() == h {
						cb = c2
					}
				}
			})
		})
	}
	if cb == nil {
		r.Undecided(cons, c.FnPos(fn), "the update callback is not called directly")
		return
	}
	r.Check(li.HeldAt(cb).Holds("config.Config.mu", "W"), cons, c.InsPos(cb), "the caller's update runs with Config.mu held exclusively",
		"the caller's update runs without Config.mu held exclusively (held: "+li.HeldAt(cb).String()+"): it can interleave with SaveManifest's validate-marshal-write, which then stores a half-applied or invalid configuration and still reports success — the database cannot be reopened")
}

// ruleDefaultsOnlyForNil (round 7): a caller-supplied configuration is validated as given; the defaults may replace it only
// when there is none (config == nil). In NewManifest the NewDefaultConfig call sits on the config == nil edge and nowhere
// else (treating a boundary value such as Version == 0 as 'unset' silently swaps an invalid configuration for the
// defaults and writes them).
func ruleDefaultsOnlyForNil(c *Ctx, r *Reporter) {
	r.Rule("defaults-only-for-a-missing-config", 1)
	fn := c.Func("pkg/config", "", "NewManifest")
	def := c.Func("pkg/config", "", "NewDefaultConfig")
	cons := "config.NewManifest:defaults"
	if fn == nil || def == nil {
		r.Unresolved("config.NewManifest / NewDefaultConfig", "not found")
		return
	}
	var cfgP *ssa.Parameter
	for _, p := range fn.Params {
		if strings.HasSuffix(p.Type().String(), "config.Config") {
			cfgP = p
		}
	}
	isNilCfg := func(cond ssa.Value) (bool, bool) {
		v, trueNonNil, ok := nilTest(cond)
		if !ok || cfgP == nil || v != ssa.Value(cfgP) {
			return false, false
		}
		return !trueNonNil, trueNonNil
	}
	n := 0
	okAll := true
	var pos ssa.Instruction
	AllInstrs(fn, false, func(_ *ssa.Function, ins ssa.Instruction) {
		call, ok := ins.(*ssa.Call)
		if !ok || call.Call.StaticCallee() != def {
			return
		}
		n++
		pos = ins
		if !GuardedBy(call.Block(), isNilCfg) {
			okAll = false
		}
	})
	if n == 0 {
		r.OK(cons, c.FnPos(fn), "NewManifest never substitutes defaults")
		return
	}
	r.Check(okAll, cons, c.InsPos(pos), "the defaults replace the configuration only when it is nil",
		"the defaults can replace a configuration the caller did supply: that configuration is then never validated, an out-of-range value (the boundary that was taken for 'unset') is accepted, and the manifest is written with the defaults instead of what was asked for")
}

// ruleAdapterSeekAlwaysSeeks (round 7): Seek(t) must land on the FIRST entry >= t — for a key with several versions the
// newest one — wherever the iterator stood before. The iterator adapters have no position logic of their own: every exit
// of IteratorAdapter.Seek passes the wrapped iterator's Seek with the caller's target ('already there' shortcuts stay on
// an older version, or beyond a smaller target).
func ruleAdapterSeekAlwaysSeeks(c *Ctx, r *Reporter) {
	r.Rule("adapter-seek-always-seeks", 2)
	for _, pk := range []string{"pkg/memtable", "pkg/sstable"} {
		fn := c.Func(pk, "IteratorAdapter", "Seek")
		cons := strings.TrimPrefix(pk, "pkg/") + ".IteratorAdapter.Seek"
		if fn == nil {
			r.Unresolved(cons, "not found")
			continue
		}
		isSeek := func(i ssa.Instruction) bool {
			call, ok := i.(*ssa.Call)
			if !ok || len(fn.Params) < 2 {
				return false
			}
			f := call.Call.StaticCallee()
			if f == nil || f.Name() != "Seek" || f == fn {
				return false
			}
			for _, a := range call.Call.Args {
				if a == ssa.Value(fn.Params[1]) {
					return true
				}
			}
			return false
		}
		var rets []ssa.Instruction
		for _, ret := range Returns(fn) {
			rets = append(rets, ret)
		}
		bad, path := MustPass(fn, rets, isSeek)
		if bad != nil {
			r.Bad(cons, c.InsPos(bad), "an exit of Seek does not pass the wrapped iterator's Seek(target): the position left is whatever it was — an older version of the key after a Next, or an entry beyond a smaller target", c.PathString(path)...)
		} else {
			r.OK(cons, c.FnPos(fn), "every exit passes the wrapped iterator's Seek with the caller's target")
		}
	}
}

// ruleServiceBeginsThroughEngine (round 7): the downgrade of a read-write request to a read-only transaction on a
// replica happens in EngineFacade.BeginTransaction and nowhere else (TxPut/TxDelete/Commit only look at the transaction's
// own mode, and Commit applies to storage directly). The registry finds BeginTransaction by reflection on the object it
// is handed, so the service must hand it the engine itself: in KevoServiceServer.BeginTransaction the object passed to
// Registry.Begin is the field s.engine — not the transaction manager or anything else obtained from the engine.
func ruleServiceBeginsThroughEngine(c *Ctx, r *Reporter) {
	r.Rule("remote-begin-goes-through-the-engine", 1)
	fn := c.Func("pkg/grpc/service", "KevoServiceServer", "BeginTransaction")
	engF := c.Field("pkg/grpc/service", "KevoServiceServer", "engine")
	cons := "service.KevoServiceServer.BeginTransaction"
	if fn == nil || engF == nil {
		r.Unresolved(cons+" / KevoServiceServer.engine", "not found")
		return
	}
	n := 0
	bad := ""
	var pos ssa.Instruction
	AllInstrs(fn, true, func(_ *ssa.Function, ins ssa.Instruction) {
		call, ok := ins.(*ssa.Call)
		if !ok || opName(call) != "Registry.Begin" {
			return
		}
		n++
		pos = ins
		if len(call.Call.Args) < 2 {
			bad = "unexpected arity"
			return
		}
		v := call.Call.Args[1]
		for i := 0; i < 3; i++ {
			switch x := v.(type) {
			case *ssa.MakeInterface:
				v = x.X
				continue
			case *ssa.ChangeInterface:
				v = x.X
				continue
			}
			break
		}
		if !isLoadOfField(v, engF) {
			bad = Path(v)
		}
	})
	if n == 0 {
		r.Undecided(cons, c.FnPos(fn), "no Registry.Begin call found")
		return
	}
	r.Check(bad == "", cons, c.InsPos(pos), "the registry is handed the engine itself", "the registry is handed "+bad+" instead of the engine: the transaction is begun behind EngineFacade.BeginTransaction, the only place that turns a read-write request into a read-only transaction on a replica — a remote client gets a real read-write transaction there and its commit changes replicated data")
}

// ruleConnTrackingDroppedOnlyWhenEmpty (round 7): RegistryImpl.connectionTxs is how CleanupConnection finds the
// transactions a vanished client left open. An entry of that map may be deleted only when the connection's own set is
// empty (len(set) == 0) — or by CleanupConnection itself, which rolls every member back first. Dropping it while a
// transaction is still in the set orphans that transaction: nothing rolls it back when the connection goes away.
func ruleConnTrackingDroppedOnlyWhenEmpty(c *Ctx, r *Reporter) {
	r.Rule("connection-tracking-dropped-only-when-empty", 1)
	connF := c.Field("pkg/transaction", "RegistryImpl", "connectionTxs")
	if connF == nil {
		r.Unresolved("transaction.RegistryImpl.connectionTxs", "not found")
		return
	}
	n := 0
	for _, fn := range c.KevoFns {
		if pkgOf(fn) != "pkg/transaction" {
			continue
		}
		AllInstrs(fn, false, func(_ *ssa.Function, ins ssa.Instruction) {
			call, ok := ins.(*ssa.Call)
			if !ok {
				return
			}
			b, isB := call.Call.Value.(*ssa.Builtin)
			if !isB || b.Name() != "delete" || len(call.Call.Args) < 2 || !isLoadOfField(call.Call.Args[0], connF) {
				return
			}
			n++
			cons := FnName(topParent(fn)) + ":delete(connectionTxs)"
			if topParent(fn).Name() == "CleanupConnection" || topParent(fn).Name() == "GracefulShutdown" {
				r.OK(cons, c.InsPos(ins), "the sweep of a whole connection (every member is rolled back: C17/no-orphan-removal)")
				return
			}
			empty := func(cond ssa.Value) (bool, bool) {
				bo, ok := cond.(*ssa.BinOp)
				if !ok {
					return false, false
				}
				x, y, op := bo.X, bo.Y, bo.Op
				if _, isK := constInt(x); isK {
					x, y = y, x
					op = flipOp(op)
				}
				k, isK := constInt(y)
				la := lenArgOf(x)
				if !isK || la == nil {
					return false, false
				}
				if _, isMap := la.Type().Underlying().(*types.Map); !isMap {
					return false, false
				}
				switch {
				case op == token.EQL && k == 0, op == token.LSS && k == 1, op == token.LEQ && k == 0:
					return true, false
				case op == token.NEQ && k == 0, op == token.GTR && k == 0, op == token.GEQ && k == 1:
					return false, true
				}
				return false, false
			}
			r.Check(GuardedBy(call.Block(), empty), cons, c.InsPos(ins), "guarded by len(set) == 0",
				"a connection's tracking entry is dropped although its set may still hold a transaction: CleanupConnection will not find that transaction, it is not rolled back when its client goes away and keeps its database lock until the idle sweep (if any) finds it")
		})
	}
	if n == 0 {
		r.Undecided("transaction.RegistryImpl.connectionTxs", "-", "no delete from the connection map found")
	}
}

// ruleSessionStreamNeverCleared (round 7): senders reach a ReplicaSession through their own pointer (the StreamWAL
// handler polls with it every 100 ms) and call session.Stream.Send without a nil test; a session dropped by the heartbeat
// still has a running handler. ReplicaSession.Stream is therefore never assigned nil: teardown marks the session
// (Connected/Active) but leaves the stream in place.
func ruleSessionStreamNeverCleared(c *Ctx, r *Reporter) {
	r.Rule("session-stream-is-never-cleared", 1)
	streamF := c.Field("pkg/replication", "ReplicaSession", "Stream")
	if streamF == nil {
		r.Unresolved("replication.ReplicaSession.Stream", "not found")
		return
	}
	n := 0
	for _, fn := range c.KevoFns {
		if pkgOf(fn) != "pkg/replication" {
			continue
		}
		AllInstrs(fn, false, func(_ *ssa.Function, ins ssa.Instruction) {
			st, ok := ins.(*ssa.Store)
			if !ok || fieldVarOf(st.Addr) != streamF {
				return
			}
			n++
			cons := FnName(topParent(fn)) + ":store(Stream)"
			r.Check(!isNilConst(st.Val), cons, c.InsPos(ins), "assigns a stream", "ReplicaSession.Stream is set to nil: the StreamWAL handler of a session that was dropped (heartbeat timeout) is still polling and calls session.Stream.Send without a nil test — the handler goroutine panics and, gRPC not recovering handler panics, the primary process dies")
		})
	}
	if n == 0 {
		r.Undecided("replication.ReplicaSession.Stream", "-", "no store found")
	}
}

// ruleSequenceBoundsIndependent (round 8): retention decides by the sequence bounds of a file (delete when MaxSeq <
// MinSequenceKeep). getSequenceBounds must test EVERY entry against both running bounds: the first entry of a file is
// both its minimum and its maximum so far. In each iteration of the reading loop every path back to the loop head passes
// both comparisons (an else-if between them leaves the maximum of a one-entry file at 0 and the file is deleted).
func ruleSequenceBoundsIndependent(c *Ctx, r *Reporter) {
	r.Rule("file-bounds-test-every-entry-both-ways", 1)
	fn := c.Func("pkg/wal", "", "getSequenceBounds")
	read := c.Func("pkg/wal", "Reader", "ReadEntry")
	cons := "wal.getSequenceBounds"
	if fn == nil || read == nil {
		r.Unresolved(cons+" / Reader.ReadEntry", "not found")
		return
	}
	var call *ssa.Call
	AllInstrs(fn, false, func(_ *ssa.Function, ins ssa.Instruction) {
		if cl, ok := ins.(*ssa.Call); ok && cl.Call.StaticCallee() == read {
			call = cl
		}
	})
	var loop *GenericLoop
	if call != nil {
		for _, l := range GenericLoops(fn) {
			if l.Contains(call.Block()) {
				loop = l
			}
		}
	}
	if call == nil || loop == nil {
		r.Undecided(cons, c.FnPos(fn), "no reading loop found")
		return
	}
	// the running bounds: integer phis of the loop header; the comparisons of the entry's sequence number against them
	var cmps []ssa.Instruction
	seen := map[*ssa.Phi]bool{}
	AllInstrs(fn, false, func(_ *ssa.Function, ins ssa.Instruction) {
		bo, ok := ins.(*ssa.BinOp)
		if !ok || !loop.Contains(ins.Block()) {
			return
		}
		switch bo.Op {
		case token.LSS, token.GTR, token.LEQ, token.GEQ:
		default:
			return
		}
		for _, pair := range [][2]ssa.Value{{bo.X, bo.Y}, {bo.Y, bo.X}} {
			ph, isPhi := pair[1].(*ssa.Phi)
			if !isPhi || ph.Block() != loop.Header {
				continue
			}
			if strings.Contains(Path(pair[0]), "SequenceNumber") && !seen[ph] {
				seen[ph] = true
				cmps = append(cmps, ins)
			}
		}
	})
	if len(cmps) < 2 {
		r.Bad(cons, c.InsPos(call), fmt.Sprintf("the loop compares the entry's sequence number with %d running bound(s); a minimum and a maximum are needed", len(cmps)))
		return
	}
	first := loop.Header.Instrs[0]
	for _, cmp := range cmps {
		cmp := cmp
		hit, path := Reach(fn, call, func(i ssa.Instruction) bool { return i == first }, func(i ssa.Instruction) bool { return i == cmp })
		if hit != nil {
			r.Bad(cons, c.InsPos(cmp), "an entry can go round the loop without being compared with this running bound: the first entry of a file is both its minimum and its maximum, so a file with a single entry reports a maximum of 0 (or an unset minimum) — retention by sequence then deletes a file that still holds a needed entry", c.PathString(path)...)
			return
		}
	}
	r.OK(cons, c.InsPos(call), fmt.Sprintf("every entry read is compared with both running bounds (%d comparisons)", len(cmps)))
}

// ruleGuardedMapsUsedUnderLock (round 8): a Go map is a reference. Reading a lock-protected map FIELD under its lock and
// then ranging over / indexing / updating the value after the lock was released works on the live map without the
// lock. For every map field of the guard table: every map operation on a value loaded from the field happens with the
// field's lock held (exclusively for updates) — unless the function swaps the field for a fresh map under the lock
// (then the old map is private to it).
func ruleGuardedMapsUsedUnderLock(c *Ctx, r *Reporter) {
	r.Rule("guarded-maps-used-under-their-lock", 10)
	li := c.Locks()
	ctor := c.CtorOnly()
	for _, fn := range c.KevoFns {
		if ctor[topParent(fn)] || isCloseMethod(fn) || !inC07Scope(fn) {
			continue // Close concurrent with other calls is outside the property's scope (as for guarded-by)
		}
		AllInstrs(fn, false, func(_ *ssa.Function, ins ssa.Instruction) {
			fa, ok := ins.(*ssa.FieldAddr)
			if !ok {
				return
			}
			fv := fieldVarOf(fa)
			if fv == nil {
				return
			}
			if _, isMap := fv.Type().Underlying().(*types.Map); !isMap {
				return
			}
			key := fieldKey(fv, ownerOfFieldAddr(fa))
			lock, guarded := guardTable[key]
			if !guarded || strings.HasPrefix(key, "replication.") {
				return
			}
			if _, lit := fa.X.(*ssa.Alloc); lit {
				return
			}
			// swap idiom: the function stores a new map into the field
			swaps := false
			AllInstrs(fn, false, func(_ *ssa.Function, x ssa.Instruction) {
				if st, isSt := x.(*ssa.Store); isSt && fieldVarOf(st.Addr) == fv {
					swaps = true
				}
			})
			for _, ref := range *fa.Referrers() {
				ld, isLd := ref.(*ssa.UnOp)
				if !isLd || ld.Op != token.MUL || ld.Referrers() == nil {
					continue
				}
				for _, use := range *ld.Referrers() {
					mode := ""
					switch u := use.(type) {
					case *ssa.Range, *ssa.Lookup:
						mode = "R"
					case *ssa.MapUpdate:
						if u.Map == ssa.Value(ld) {
							mode = "W"
						}
					case *ssa.Call:
						if b, isB := u.Call.Value.(*ssa.Builtin); isB {
							switch b.Name() {
							case "delete", "clear":
								mode = "W"
							case "len":
								mode = "R"
							}
						}
					}
					if mode == "" {
						continue
					}
					cons := fmt.Sprintf("%s@%s", key, FnName(fn))
					held := li.HeldAt(use)
					if held.Holds(lock, mode) || (swaps && mode == "R") {
						r.OK(cons, c.InsPos(use), "map operation under "+lock)
						continue
					}
					r.Bad(cons, c.InsPos(use), "a map read from the lock-protected field "+key+" is used ("+map[string]string{"R": "read/ranged over", "W": "updated"}[mode]+") where "+lock+" is not held (held: "+held.String()+"): the field read was under the lock, but a map is a reference — this operation runs on the live map and races with its writers ('concurrent map iteration and map write' kills the process)")
				}
			}
		})
	}
}

// ruleReplayMirrorsLiveApply (round 8): recovery must rebuild exactly what the live write path had put into the
// memtable. The live path (Manager.Put/Delete/ApplyBatch) applies put entries as puts and delete entries as deletes and
// nothing else; MemTable.ProcessWALEntry — the replay side — is evaluated for every entry type the log accepts: put →
// Put, delete → Delete, any other type (merge) → no effect. (Replaying a merge entry as a put invents keys at the next
// reopen that never were readable while the process ran.)
func ruleReplayMirrorsLiveApply(c *Ctx, r *Reporter) {
	r.Rule("replay-applies-what-the-live-path-applied", 6)
	fn := c.Func("pkg/memtable", "MemTable", "ProcessWALEntry")
	put := c.Func("pkg/memtable", "MemTable", "Put")
	del := c.Func("pkg/memtable", "MemTable", "Delete")
	if fn == nil || put == nil || del == nil {
		r.Unresolved("memtable.MemTable.{ProcessWALEntry,Put,Delete}", "not found")
		return
	}
	for _, row := range []struct {
		name string
		typ  int64
		want string
	}{{"put", 1, "Put"}, {"delete", 2, "Delete"}, {"merge", 3, ""}} {
		if k := c.Const("pkg/wal", map[int64]string{1: "OpTypePut", 2: "OpTypeDelete", 3: "OpTypeMerge"}[row.typ]); k != nil {
			row.typ, _ = constantInt(k)
		}
		sc := &Scenario{Vals: map[ssa.Value]int64{}, Terms: map[string]int64{}, Bools: map[string]bool{}}
		AllInstrs(fn, false, func(_ *ssa.Function, ins ssa.Instruction) {
			if ld, ok := ins.(*ssa.UnOp); ok && ld.Op == token.MUL {
				if fa, ok := ld.X.(*ssa.FieldAddr); ok && fieldName(fa) == "Type" {
					sc.Vals[ld] = row.typ
				}
			}
		})
		res := EvalPath(fn.Blocks[0], nil, sc, nil)
		cons := "memtable.MemTable.ProcessWALEntry[" + row.name + "]"
		if res.Err != "" || res.Ret == nil {
			r.Undecided(cons, c.FnPos(fn), "row not decidable: "+res.Err)
			continue
		}
		var got []string
		for _, e := range res.Effects {
			if call, ok := e.Ins.(*ssa.Call); ok {
				switch call.Call.StaticCallee() {
				case put:
					got = append(got, "Put")
				case del:
					got = append(got, "Delete")
				}
			}
		}
		g := strings.Join(got, "+")
		if ClassifyReturn(res.Ret) != ExitSuccess {
			r.Bad(cons+":accepted", c.InsPos(res.Ret), "replaying a "+row.name+" entry — a type the log writer and the live write path accept — returns an error: a handler error is the one replay error that is fatal, recovery fails, and recoverFromWAL moves every log file aside and restarts the numbering at 1")
		} else {
			r.OK(cons+":accepted", c.InsPos(res.Ret), "replay accepts the entry type")
		}
		r.Check(g == row.want, cons, c.FnPos(fn), "replay performs "+map[bool]string{true: "nothing", false: g}[g == ""], "replaying a "+row.name+" entry performs ["+g+"], the live write path performed ["+row.want+"] for it: the reopened database differs from what was readable before the close (keys appear that never were put, deleted keys return)")
	}
}

// ruleBufferSeekStateless (round 8): Seek(t) lands on the first buffered key >= t wherever the iterator stood before.
// BufferIterator.Seek searches the whole operation list: it does not read the iterator's own position (a search resumed
// 'where it stands' is wrong for every backward seek — and the bounded wrapper's SeekToFirst is a Seek(start)).
func ruleBufferSeekStateless(c *Ctx, r *Reporter) {
	r.Rule("buffer-seek-ignores-the-old-position", 1)
	fn := c.Func("pkg/transaction", "BufferIterator", "Seek")
	posF := c.Field("pkg/transaction", "BufferIterator", "position")
	cons := "transaction.BufferIterator.Seek"
	if fn == nil || posF == nil {
		r.Unresolved(cons+" / BufferIterator.position", "not found")
		return
	}
	var bad ssa.Instruction
	var visit func(f *ssa.Function, d int)
	visit = func(f *ssa.Function, d int) {
		AllInstrs(f, true, func(_ *ssa.Function, ins ssa.Instruction) {
			if ld, ok := ins.(*ssa.UnOp); ok && ld.Op == token.MUL && fieldVarOf(ld.X) == posF {
				bad = ins
			}
			if call, ok := ins.(*ssa.Call); ok && d < 1 {
				if h := call.Call.StaticCallee(); h != nil && h != fn && recvTypeName(h) == recvTypeName(fn) && len(h.Blocks) > 0 {
					visit(h, d+1)
				}
			}
		})
	}
	visit(fn, 0)
	if bad != nil {
		r.Bad(cons, c.InsPos(bad), "Seek reads the iterator's current position: where it lands depends on where it stood — after a backward re-positioning (Seek(y) after Seek(x), y < x; a second SeekToFirst of a range scan) the transaction's own buffered writes between the two positions are skipped and the scan shows the committed values instead")
		return
	}
	r.OK(cons, c.FnPos(fn), "the search does not read the old position")
}

// ruleNoCapOnBlockSize (round 8): the table writer cuts a data block AFTER the entry that crosses the block size, so a
// block is as large as its largest value; sizes are 32-bit fields. The block fetcher must accept every size the writer can
// produce: no failing exit of FetchBlock is decided by comparing the requested size with a constant (a 'reasonable limit'
// makes large values unreadable; Manager.Get then falls through to an older table and answers with a stale version).
func ruleNoCapOnBlockSize(c *Ctx, r *Reporter) {
	r.Rule("fetcher-accepts-every-block-size", 2)
	for _, spec := range [][2]string{{"BlockFetcher", "FetchBlock"}, {"", "ParseBlockLocator"}} {
		ruleNoCapOnBlockSizeIn(c, r, spec[0], spec[1])
	}
}

func ruleNoCapOnBlockSizeIn(c *Ctx, r *Reporter, typ, name string) {
	fn := c.Func("pkg/sstable", typ, name)
	cons := "sstable." + name
	if typ != "" {
		cons = "sstable." + typ + "." + name
	}
	if fn == nil {
		r.Unresolved(cons, "not found")
		return
	}
	// the size: a uint32 parameter, or a 32-bit field decoded from the index value
	isSize := func(v ssa.Value) bool {
		v = stripNumConv(v)
		if p, ok := v.(*ssa.Parameter); ok {
			return p.Type().String() == "uint32"
		}
		if call, ok := v.(*ssa.Call); ok {
			return strings.HasSuffix(staticName(call), ".Uint32")
		}
		return false
	}
	capTest := func(cond ssa.Value) (bool, bool) {
		bo, ok := cond.(*ssa.BinOp)
		if !ok {
			return false, false
		}
		x, y, op := bo.X, bo.Y, bo.Op
		if _, isK := constInt(x); isK {
			x, y = y, x
			op = flipOp(op)
		}
		k, isK := constInt(y)
		if !isK || k <= 1 || k >= 1<<32-1 || !isSize(x) {
			return false, false
		}
		switch op {
		case token.GTR, token.GEQ:
			return true, false
		case token.LSS, token.LEQ:
			return false, true
		}
		return false, false
	}
	var bad ssa.Instruction
	n := 0
	for _, ret := range Returns(fn) {
		if ClassifyReturn(ret) == ExitSuccess {
			continue
		}
		n++
		if GuardedBy(ret.Block(), capTest) {
			bad = ret
		}
	}
	if bad != nil {
		r.Bad(cons, c.InsPos(bad), "a block is refused because its size exceeds a constant: the writer produces blocks as large as the largest value (the block is cut after the entry that crosses the limit), so a value above the cap is written and can never be read back — the lookup fails inside the iterator, Manager.Get moves on to the older table and answers with the previous version of the key, without an error")
		return
	}
	r.OK(cons, c.FnPos(fn), fmt.Sprintf("none of the %d failing exits is decided by a constant cap on the size", n))
}

// ruleTableIteratorRewindsIndex (round 8): sstable.Iterator keeps an index cursor between calls. Each positioning method
// must position that cursor itself before it reads it: in seekToFirst / SeekToLast / Seek no Valid/Key/Value/Next call on
// indexIterator is reachable from the entry without a Seek*/SeekTo* call on indexIterator in between (relying on where
// the cursor was left makes a second SeekToFirst start in the middle of the table, or find it exhausted).
func ruleTableIteratorRewindsIndex(c *Ctx, r *Reporter) {
	r.Rule("table-iterator-positions-its-index-cursor", 3)
	idxF := c.Field("pkg/sstable", "Iterator", "indexIterator")
	if idxF == nil {
		r.Unresolved("sstable.Iterator.indexIterator", "not found")
		return
	}
	for _, mn := range []string{"seekToFirst", "SeekToLast", "Seek"} {
		fn := c.Func("pkg/sstable", "Iterator", mn)
		cons := "sstable.Iterator." + mn
		if fn == nil {
			r.Unresolved(cons, "not found")
			continue
		}
		onIndex := func(i ssa.Instruction) (string, bool) {
			call, ok := i.(*ssa.Call)
			if !ok || call.Call.StaticCallee() == nil || len(call.Call.Args) == 0 || !isLoadOfField(call.Call.Args[0], idxF) {
				return "", false
			}
			return call.Call.StaticCallee().Name(), true
		}
		// same-receiver helpers that position the index (findLastUniqueBlockOffset starts with SeekToFirst) count as positioning
		positions := func(i ssa.Instruction) bool {
			if n, ok := onIndex(i); ok && strings.HasPrefix(n, "Seek") {
				return true
			}
			if call, ok := i.(*ssa.Call); ok {
				if h := call.Call.StaticCallee(); h != nil && h != fn && recvTypeName(h) == recvTypeName(fn) && len(h.Blocks) > 0 {
					first := ""
					for _, b := range h.Blocks {
						for _, x := range b.Instrs {
							if n, ok := onIndex(x); ok && first == "" {
								first = n
							}
						}
					}
					return strings.HasPrefix(first, "Seek")
				}
			}
			return false
		}
		hit, path := ReachBlock(fn.Blocks[0], func(i ssa.Instruction) bool {
			n, ok := onIndex(i)
			return ok && !strings.HasPrefix(n, "Seek")
		}, positions, nil)
		if hit != nil {
			r.Bad(cons, c.InsPos(hit), "the index cursor is read before this method has positioned it: the method starts from wherever an earlier call left the cursor — a second SeekToFirst after a scan finds it exhausted (the table contributes no keys to the rescan) or in a later block (the keys of the earlier blocks are missing)", c.PathString(path)...)
		} else {
			r.OK(cons, c.FnPos(fn), "the index cursor is positioned before it is read")
		}
	}
}

// ruleFilteredSeekToLastScansAll (round 8): matches of a filter need not be adjacent in key order (suffix filters, custom
// filters). The fallback of FilteredIterator.SeekToLast remembers the last match of a scan from the beginning; the scan
// must run to the end of the inner iterator: the loop that calls Next has no exit but exhaustion.
func ruleFilteredSeekToLastScansAll(c *Ctx, r *Reporter) {
	r.Rule("filtered-seek-to-last-scans-to-the-end", 1)
	fn := c.Func("pkg/common/iterator/filtered", "FilteredIterator", "SeekToLast")
	cons := "filtered.FilteredIterator.SeekToLast"
	if fn == nil {
		r.Unresolved(cons, "not found")
		return
	}
	n := 0
	bad := false
	var pos ssa.Instruction
	for _, l := range GenericLoops(fn) {
		hasNext := false
		for _, b := range fn.Blocks {
			if !l.Contains(b) {
				continue
			}
			for _, ins := range b.Instrs {
				if call, ok := ins.(*ssa.Call); ok && call.Call.IsInvoke() && call.Call.Method.Name() == "Next" {
					hasNext = true
					pos = ins
				}
			}
		}
		if !hasNext {
			continue
		}
		n++
		for _, b := range fn.Blocks {
			if !l.Contains(b) || b == l.Header {
				continue
			}
			for _, s := range b.Succs {
				if !l.Contains(s) {
					bad = true
				}
			}
			if len(b.Succs) == 0 {
				bad = true
			}
		}
	}
	if n == 0 {
		r.OK(cons, c.FnPos(fn), "no forward scan (nothing to cut short)")
		return
	}
	r.Check(!bad, cons, c.InsPos(pos), "the fallback scan runs to the end of the inner iterator", "the scan that looks for the last matching key can stop before the end of the inner iterator: with a filter whose matches are not adjacent (suffix, prefix+suffix, custom) SeekToLast lands on the last key of the FIRST run of matches, not on the greatest matching key — and contradicts a forward scan of the same iterator")
}

// rulePoolWritesReachTable (round 8): the storage layer has already logged the operation when it calls the pool; the pool
// has no business deciding that a write is redundant (a memo of 'the last put' is stale as soon as a delete — which does
// not go through Put — lies in between). Every exit of MemTablePool.Put passes MemTable.Put, every exit of
// MemTablePool.Delete passes MemTable.Delete.
func rulePoolWritesReachTable(c *Ctx, r *Reporter) {
	r.Rule("pool-writes-always-reach-the-table", 2)
	for _, mn := range []string{"Put", "Delete"} {
		fn := c.Func("pkg/memtable", "MemTablePool", mn)
		tgt := c.Func("pkg/memtable", "MemTable", mn)
		cons := "memtable.MemTablePool." + mn
		if fn == nil || tgt == nil {
			r.Unresolved(cons, "not found")
			continue
		}
		var rets []ssa.Instruction
		for _, ret := range Returns(fn) {
			rets = append(rets, ret)
		}
		bad, path := MustPass(fn, rets, func(i ssa.Instruction) bool {
			call, ok := i.(*ssa.Call)
			return ok && call.Call.StaticCallee() == tgt
		})
		if bad != nil {
			r.Bad(cons, c.InsPos(bad), "an exit of the pool's "+mn+" does not pass MemTable."+mn+": the operation is in the log and acknowledged, but not in the table — e.g. a put skipped as 'identical to the last put' although a delete of the key came in between reads as not found until the next restart", c.PathString(path)...)
		} else {
			r.OK(cons, c.FnPos(fn), "every exit passes MemTable."+mn)
		}
	}
}

// ruleMergeNextStepsOnly (round 8): Next() of the merging iterator moves past the current key by stepping each child with
// the child's own Next (which sees every entry). It never re-positions a child with Seek*: a computed 'successor' key
// (last byte + 1) jumps over every key that extends the current one (k1 → k10, order:12 → order:12:item:1).
func ruleMergeNextStepsOnly(c *Ctx, r *Reporter) {
	r.Rule("merge-next-steps-children-with-next", 2)
	for _, mn := range []string{"Next", "findNextUniqueKey"} {
		fn := c.Func("pkg/common/iterator/composite", "HierarchicalIterator", mn)
		cons := "composite.HierarchicalIterator." + mn
		if fn == nil {
			r.Unresolved(cons, "not found")
			continue
		}
		var bad ssa.Instruction
		AllInstrs(fn, true, func(_ *ssa.Function, ins ssa.Instruction) {
			if call, ok := ins.(*ssa.Call); ok && call.Call.IsInvoke() && strings.HasPrefix(call.Call.Method.Name(), "Seek") {
				bad = ins
			}
		})
		if bad != nil {
			r.Bad(cons, c.InsPos(bad), "a child iterator is re-positioned with Seek while the merged iterator advances: whatever key the seek target was computed from, entries between the current key and that target are skipped — keys that extend the current key (k1/k10, parent/child records of one transaction) vanish from every scan while Get still finds them")
		} else {
			r.OK(cons, c.FnPos(fn), "children are advanced with Next only")
		}
	}
}

// ruleHandlersAppendFreshElements (round 8): a handler that builds a repeated field in a loop must allocate each element
// inside the loop. A pointer allocated before the loop, overwritten per iteration and appended each time makes every
// entry of the response alias one message: N copies of the last element.
func ruleHandlersAppendFreshElements(c *Ctx, r *Reporter) {
	r.Rule("responses-list-distinct-elements", 1)
	hs := c19Handlers(c, r)
	if hs == nil {
		return
	}
	var names []string
	for n := range hs {
		names = append(names, n)
	}
	sort.Strings(names)
	n := 0
	for _, hn := range names {
		fn := hs[hn]
		loops := GenericLoops(fn)
		AllInstrs(fn, false, func(_ *ssa.Function, ins ssa.Instruction) {
			call, ok := ins.(*ssa.Call)
			if !ok {
				return
			}
			b, isB := call.Call.Value.(*ssa.Builtin)
			if !isB || b.Name() != "append" || len(call.Call.Args) != 2 {
				return
			}
			var loop *GenericLoop
			for _, l := range loops {
				if l.Contains(call.Block()) && (loop == nil || loop.Contains(l.Header)) {
					loop = l
				}
			}
			if loop == nil {
				return
			}
			for _, el := range sliceLiteralElems(call.Call.Args[1]) {
				al, isAlloc := el.(*ssa.Alloc)
				if !isAlloc || !al.Heap {
					continue
				}
				n++
				cons := fmt.Sprintf("service.KevoServiceServer.%s:append#%d", hn, n)
				r.Check(loop.Contains(al.Block()), cons, c.InsPos(ins), "the appended element is allocated inside the loop",
					"the element appended in the loop is allocated once, before the loop, and overwritten on every iteration: all entries of the list are the same object, the response shows N copies of the last element instead of the N elements")
			}
		})
	}
	if n == 0 {
		r.OK("service.KevoServiceServer:loop-appends", "", "no handler appends allocated elements in a loop")
	}
}

// ruleManifestCurrentIsListed (round 8): Manifest.Save validates Current.Config but writes Entries, and LoadManifest
// takes the last entry for the current one: the current configuration must BE the configuration object of the listed
// entry. In NewManifest the entry whose address becomes Current is the entry placed in Entries (same variable), so a
// later in-place update of the configuration is what Save writes.
func ruleManifestCurrentIsListed(c *Ctx, r *Reporter) {
	r.Rule("current-entry-is-the-listed-entry", 1)
	fn := c.Func("pkg/config", "", "NewManifest")
	curF := c.Field("pkg/config", "Manifest", "Current")
	entF := c.Field("pkg/config", "Manifest", "Entries")
	cons := "config.NewManifest:current-vs-entries"
	if fn == nil || curF == nil || entF == nil {
		r.Unresolved("config.NewManifest / Manifest.{Current,Entries}", "not found")
		return
	}
	var cur, listed ssa.Value
	AllInstrs(fn, false, func(_ *ssa.Function, ins ssa.Instruction) {
		st, ok := ins.(*ssa.Store)
		if !ok {
			return
		}
		switch fieldVarOf(st.Addr) {
		case curF:
			cur = st.Val
		case entF:
			for _, el := range sliceLiteralElems(st.Val) {
				listed = el
			}
		}
	})
	if cur == nil || listed == nil {
		r.Undecided(cons, c.FnPos(fn), "Current / Entries are not initialised by a recognisable literal")
		return
	}
	// Current = &entry ; Entries = []ManifestEntry{entry}: listed is a load of the alloc whose address is cur
	same := false
	if ld, ok := listed.(*ssa.UnOp); ok && ld.Op == token.MUL && ld.X == cur {
		same = true
	}
	// or both carry the same Config pointer value (field-wise construction)
	r.Check(same, cons, c.FnPos(fn), "Current is the address of the entry that is listed", "the entry listed in Entries ("+Path(listed)+") is not the entry Current points to ("+Path(cur)+"): Save validates the one and writes the other — a valid in-place update of the configuration is reported saved, and the next open loads the stale copy")
}

// ruleTableSeekAlwaysAsksIndex (round 8): where Seek(t) lands must not depend on which block happens to be loaded. Every
// successful exit of sstable.Iterator.Seek has passed indexIterator.Seek(target) — a fast path that answers from the
// loaded block when it holds a key >= t lands on that block's first key for every target before the block.
func ruleTableSeekAlwaysAsksIndex(c *Ctx, r *Reporter) {
	r.Rule("table-seek-always-asks-the-index", 1)
	fn := c.Func("pkg/sstable", "Iterator", "Seek")
	idxF := c.Field("pkg/sstable", "Iterator", "indexIterator")
	cons := "sstable.Iterator.Seek"
	if fn == nil || idxF == nil || len(fn.Params) < 2 {
		r.Unresolved(cons+" / indexIterator", "not found")
		return
	}
	var exits []ssa.Instruction
	for _, ret := range Returns(fn) {
		if b, isK := constBool(ReturnValue(ret, 0)); isK && !b {
			continue
		}
		exits = append(exits, ret)
	}
	positions := func(f *ssa.Function, target ssa.Value) func(i ssa.Instruction) bool {
		return func(i ssa.Instruction) bool {
			call, ok := i.(*ssa.Call)
			if !ok || call.Call.StaticCallee() == nil || !strings.HasPrefix(call.Call.StaticCallee().Name(), "Seek") || len(call.Call.Args) < 2 {
				return false
			}
			return isLoadOfField(call.Call.Args[0], idxF) && call.Call.Args[1] == target
		}
	}
	bad, path := MustPass(fn, exits, func(i ssa.Instruction) bool {
		if positions(fn, fn.Params[1])(i) {
			return true
		}
		// a same-receiver helper that is given the target and positions the index with it on every path
		call, ok := i.(*ssa.Call)
		if !ok {
			return false
		}
		h := call.Call.StaticCallee()
		if h == nil || len(h.Blocks) == 0 || recvTypeName(h) != recvTypeName(fn) || len(call.Call.Args) < 2 {
			return false
		}
		for k, a := range call.Call.Args {
			if a == ssa.Value(fn.Params[1]) && k < len(h.Params) {
				var rets []ssa.Instruction
				for _, ret := range Returns(h) {
					rets = append(rets, ret)
				}
				if miss, _ := MustPass(h, rets, positions(h, h.Params[k])); miss == nil {
					return true
				}
			}
		}
		return false
	})
	if bad != nil {
		r.Bad(cons, c.InsPos(bad), "Seek can answer without having asked the index for the target: the answer then comes from whatever block an earlier call left loaded — a backward seek across a block boundary lands on the first key of the loaded block and skips every entry in between", c.PathString(path)...)
		return
	}
	r.OK(cons, c.FnPos(fn), fmt.Sprintf("all %d exit(s) that can report success lie behind a positioning of indexIterator by the target (Seek/SeekFloor)", len(exits)))
}

// ruleOneTombstoneTracker (round 8): engine deletes are recorded in the coordinator's tombstone tracker; the executor's
// filter must consult THAT tracker. The engine's compaction manager either lets the coordinator build the executor
// (options.Executor unset), or hands over an executor together with the same tracker in options.TombstoneManager.
func ruleOneTombstoneTracker(c *Ctx, r *Reporter) {
	r.Rule("one-tombstone-tracker", 1)
	fn := c.Func("pkg/engine/compaction", "", "NewManager")
	newExec := c.Func("pkg/compaction", "", "NewCompactionExecutor")
	cons := "enginecompaction.NewManager:options"
	if fn == nil || newExec == nil {
		r.Unresolved("engine/compaction.NewManager / compaction.NewCompactionExecutor", "not found")
		return
	}
	var execV, trackV ssa.Value
	AllInstrs(fn, false, func(_ *ssa.Function, ins ssa.Instruction) {
		st, ok := ins.(*ssa.Store)
		if !ok {
			return
		}
		fa, ok := st.Addr.(*ssa.FieldAddr)
		if !ok || !strings.HasSuffix(deref(fa.X.Type()).String(), "CompactionCoordinatorOptions") {
			return
		}
		switch fieldName(fa) {
		case "Executor":
			execV = st.Val
		case "TombstoneManager":
			trackV = st.Val
		}
	})
	if execV == nil || isNilConst(execV) {
		r.OK(cons, c.FnPos(fn), "the coordinator builds the executor around its own tracker")
		return
	}
	call := findCallIn(execV, newExec, 0)
	ok := false
	if call != nil && len(call.Call.Args) >= 3 && trackV != nil {
		ok = stripAll(call.Call.Args[2]) == stripAll(trackV) || sameValue(stripAll(call.Call.Args[2]), stripAll(trackV))
	}
	r.Check(ok, cons, c.FnPos(fn), "executor and coordinator share one tracker", "an executor is handed to the coordinator without the tracker it was built with (options.TombstoneManager): the coordinator creates a second tracker, engine deletes are recorded there, the executor's filter asks the other, always empty one — a deletion marker compacted beyond the tombstone level is dropped however recent the delete, and an older version deeper down comes back")
}

// ruleHandlersKeepNoState (round 8): every answer of the service is computed from the engine / the replication manager at
// the time of the request. RPC handlers do not write fields of the server object — a remembered 'last known' answer
// (the replica list, say) outlives the facts: the primary drops a dead replica, the node-info call keeps listing it.
func ruleHandlersKeepNoState(c *Ctx, r *Reporter) {
	r.Rule("handlers-keep-no-state", 10)
	hs := c19Handlers(c, r)
	if hs == nil {
		return
	}
	var names []string
	for n := range hs {
		names = append(names, n)
	}
	sort.Strings(names)
	for _, hn := range names {
		fn := hs[hn]
		cons := "service.KevoServiceServer." + hn
		var bad ssa.Instruction
		badField := ""
		AllInstrs(fn, true, func(_ *ssa.Function, ins ssa.Instruction) {
			st, ok := ins.(*ssa.Store)
			if !ok {
				return
			}
			fa, ok := st.Addr.(*ssa.FieldAddr)
			if !ok || !strings.HasSuffix(deref(fa.X.Type()).String(), "service.KevoServiceServer") {
				return
			}
			bad = ins
			badField = fieldName(fa)
		})
		if bad != nil {
			r.Bad(cons, c.InsPos(bad), "the handler writes the server field "+badField+": an answer remembered from an earlier request is served later in place of the facts (and concurrent requests race on the field) — e.g. the last replica to disconnect stays listed as available for ever")
		} else {
			r.OK(cons, c.FnPos(fn), "writes no server state")
		}
	}
}

// ruleSweeperSweepsEveryTick (round 8): abandoned transactions are rolled back by the registry's ticker goroutine. On the
// ticker arm of its select every iteration runs CleanupStaleTransactions (called or spawned) — unconditionally: a guard
// that is never reset ('a sweep is already running') turns the sweeper off after its first tick.
func ruleSweeperSweepsEveryTick(c *Ctx, r *Reporter) {
	r.Rule("sweeper-sweeps-on-every-tick", 1)
	fn := c.Func("pkg/transaction", "RegistryImpl", "cleanupStaleTx")
	sweep := c.Func("pkg/transaction", "RegistryImpl", "CleanupStaleTransactions")
	cons := "transaction.RegistryImpl.cleanupStaleTx"
	if fn == nil || sweep == nil {
		r.Unresolved(cons+" / CleanupStaleTransactions", "not found")
		return
	}
	var sel *ssa.Select
	tick := -1
	AllInstrs(fn, false, func(_ *ssa.Function, ins ssa.Instruction) {
		s, ok := ins.(*ssa.Select)
		if !ok {
			return
		}
		for i, st := range s.States {
			if st.Dir == types.RecvOnly && strings.Contains(Path(st.Chan), "Ticker") {
				sel, tick = s, i
			}
		}
	})
	if sel == nil {
		r.Undecided(cons, c.FnPos(fn), "no select on the cleanup ticker found")
		return
	}
	isSweep := func(i ssa.Instruction) bool {
		ci, ok := i.(ssa.CallInstruction)
		if !ok {
			return false
		}
		if ci.Common().StaticCallee() == sweep {
			return true
		}
		// go func() { r.CleanupStaleTransactions() }()
		if mc, ok := ci.Common().Value.(*ssa.MakeClosure); ok {
			if f, ok := mc.Fn.(*ssa.Function); ok {
				return len(c.CallsIn(f, NewFnSet(sweep), true)) > 0
			}
		}
		return false
	}
	// the block entered on the ticker arm
	var arm *ssa.BasicBlock
	for _, b := range fn.Blocks {
		if len(b.Instrs) == 0 {
			continue
		}
		iff, ok := b.Instrs[len(b.Instrs)-1].(*ssa.If)
		if !ok {
			continue
		}
		bo, ok := iff.Cond.(*ssa.BinOp)
		if !ok || bo.Op != token.EQL {
			continue
		}
		ex, ok := bo.X.(*ssa.Extract)
		k, isK := constInt(bo.Y)
		if ok && isK && ex.Tuple == ssa.Value(sel) && ex.Index == 0 && int(k) == tick {
			arm = b.Succs[0]
		}
	}
	if arm == nil {
		r.Undecided(cons, c.InsPos(sel), "the ticker arm could not be located")
		return
	}
	selIns := ssa.Instruction(sel)
	hit, path := ReachBlock(arm, func(i ssa.Instruction) bool {
		if i == selIns {
			return true
		}
		_, isRet := i.(*ssa.Return)
		return isRet
	}, isSweep, nil)
	if hit != nil {
		r.Bad(cons, c.blockPos(arm), "a tick can pass without a sweep: the path from the ticker arm back to the select (or out of the goroutine) avoids CleanupStaleTransactions — with a guard that is set once and never cleared only the first tick sweeps, and a transaction abandoned later keeps its database lock until somebody happens to call BeginTransaction", c.PathString(path)...)
		return
	}
	r.OK(cons, c.InsPos(sel), "every tick runs CleanupStaleTransactions")
}

// ruleModeComparedVerbatim (round 8): several places interpret the configured replication mode (Manager.Start decides what
// runs, the node-info calls decide what is reported). They agree only because every one of them compares the stored
// string itself with the mode constants. No comparison with a mode constant may be made on a transformed value
// (ToLower, TrimSpace, …): a node started from 'REPLICA' would run as a replica and report itself standalone.
func ruleModeComparedVerbatim(c *Ctx, r *Reporter) {
	r.Rule("mode-is-compared-verbatim", 3)
	modes := map[string]bool{}
	for _, n := range []string{"ReplicationModePrimary", "ReplicationModeReplica", "ReplicationModeStandalone"} {
		if k := c.Const("pkg/replication", n); k != nil {
			modes[constant.StringVal(k.Val())] = true
		}
	}
	if len(modes) == 0 {
		r.Unresolved("replication.ReplicationMode*", "not found")
		return
	}
	perFn := map[string]int{}
	for _, fn := range c.KevoFns {
		p := pkgOf(fn)
		if p != "pkg/replication" && p != "pkg/grpc/service" && !strings.HasPrefix(p, "cmd/") {
			continue
		}
		AllInstrs(fn, false, func(_ *ssa.Function, ins ssa.Instruction) {
			bo, ok := ins.(*ssa.BinOp)
			if !ok || (bo.Op != token.EQL && bo.Op != token.NEQ) {
				return
			}
			for _, pair := range [][2]ssa.Value{{bo.X, bo.Y}, {bo.Y, bo.X}} {
				s, isS := constString(pair[0])
				if !isS || !modes[s] {
					continue
				}
				other := pair[1]
				if _, isConst := other.(*ssa.Const); isConst {
					continue
				}
				name := FnName(topParent(fn))
				perFn[name]++
				cons := fmt.Sprintf("%s:mode==%q#%d", name, s, perFn[name])
				_, isCall := other.(*ssa.Call)
				r.Check(!isCall, cons, c.InsPos(ins), "compares the stored value itself", "the mode is compared after a transformation ("+Path(other)+"): this site accepts spellings the other interpreters of the mode do not — the node runs in one role (read-only replica) and the node-info calls, which compare the raw string, report another (standalone, no primary address)")
			}
		})
	}
}

// ruleApplierPropagatesErrors (round 8): the replica advances its position past an entry only if applying it succeeded;
// ApplyEntries learns that from the error EngineApplier returns. In every apply method of EngineApplier the error of each
// engine operation reaches the caller: no success exit is reachable on the error edge of an engine Put/Delete (a
// discarded result lets the position skip an operation that never ran; the repairing retransmission is then refused as a
// duplicate).
func ruleApplierPropagatesErrors(c *Ctx, r *Reporter) {
	r.Rule("applier-propagates-engine-errors", 4)
	n := 0
	for _, fn := range c.KevoFns {
		if recvTypeName(topParent(fn)) != "replication.EngineApplier" || fn.Parent() != nil {
			continue
		}
		idx := 0
		AllInstrs(fn, false, func(_ *ssa.Function, ins ssa.Instruction) {
			call, ok := ins.(*ssa.Call)
			if !ok {
				return
			}
			name := ""
			if call.Call.IsInvoke() {
				name = call.Call.Method.Name()
			} else if f := call.Call.StaticCallee(); f != nil {
				name = f.Name()
			}
			switch name {
			case "Put", "Delete", "PutInternal", "DeleteInternal", "ApplyBatch", "ApplyBatchInternal":
			default:
				return
			}
			if !isErrorType(call.Type()) {
				return
			}
			n++
			idx++
			cons := fmt.Sprintf("%s:%s#%d", FnName(fn), name, idx)
			if call.Referrers() == nil || len(*call.Referrers()) == 0 {
				r.Bad(cons, c.InsPos(ins), "the result of the engine operation is discarded: a failed "+name+" reports success, the replica's position moves past an operation that never ran, and the retransmission that would repair it is refused as a duplicate — the replica's data matches no prefix of the primary's history")
				return
			}
			okFact := callOKFact(c, func(cl *ssa.Call) bool { return cl == call })
			ei := errResultIndex(fn)
			bad, path := ReachE(fn, ins, func(i ssa.Instruction) bool {
				ret, isRet := i.(*ssa.Return)
				if !isRet || ei < 0 || ClassifyReturn(ret) == ExitFailure {
					return false
				}
				// handing the operation's own error back is propagation
				return !flowsFromPred(ReturnValue(ret, ei), func(v ssa.Value) bool { return v == ssa.Value(call) }, 0, map[ssa.Value]bool{})
			}, nil, PruneFactEdges(okFact))
			if bad != nil {
				r.Bad(cons, c.InsPos(bad), "a success exit is reachable although the engine "+name+" failed", c.PathString(path)...)
				return
			}
			r.OK(cons, c.InsPos(ins), "the error reaches the caller")
		})
	}
	if n == 0 {
		r.Undecided("replication.EngineApplier", "-", "no engine operation found")
	}
}

// ruleConnectAlwaysDials (round 8): whatever brought the replica to CONNECTING, connecting means dialing: every exit of
// Replica.connectToPrimary passes connector.Connect. A lifetime budget of failed attempts that makes the function return
// without dialing leaves the replica cycling CONNECTING → ERROR for ever once the budget is used up, link or no link.
func ruleConnectAlwaysDials(c *Ctx, r *Reporter) {
	r.Rule("connect-always-dials", 1)
	fn := c.Func("pkg/replication", "Replica", "connectToPrimary")
	cons := "replication.Replica.connectToPrimary"
	if fn == nil {
		r.Unresolved(cons, "not found")
		return
	}
	var rets []ssa.Instruction
	for _, ret := range Returns(fn) {
		rets = append(rets, ret)
	}
	bad, path := MustPass(fn, rets, func(i ssa.Instruction) bool {
		call, ok := i.(*ssa.Call)
		return ok && call.Call.IsInvoke() && call.Call.Method.Name() == "Connect"
	})
	if bad != nil {
		r.Bad(cons, c.InsPos(bad), "an exit of connectToPrimary does not pass connector.Connect: the replica can be told 'connection failed' without a dial having been attempted — with a budget of failed attempts that is never refilled it never dials again, however healthy the link", c.PathString(path)...)
		return
	}
	r.OK(cons, c.FnPos(fn), "every exit has dialed")
}

// ruleStateDurationSinceLatestEntry (round 8): the back-off before a reconnect is computed from how long the replica has
// been in ERROR *this time* (GetStateDuration), and this replica passes through ERROR after every applied batch. The
// search for 'when did we enter the current state' must find the LATEST such transition: a descending walk that stops
// at the first match, or an ascending walk that does not stop. (Ascending-and-stop measures from the first error ever:
// the pause grows to the 60 s cap and a catch-up of N entries takes N/100 minutes.)
func ruleStateDurationSinceLatestEntry(c *Ctx, r *Reporter) {
	r.Rule("state-duration-counts-from-the-latest-entry", 1)
	fn := c.Func("pkg/replication", "StateTracker", "GetStateDuration")
	cons := "replication.StateTracker.GetStateDuration"
	if fn == nil {
		r.Unresolved(cons, "not found")
		return
	}
	found := false
	ok := false
	why := ""
	var pos ssa.Instruction
	hosts := []*ssa.Function{fn}
	AllInstrs(fn, false, func(_ *ssa.Function, ins ssa.Instruction) { // the search may live in an unexported same-receiver helper
		if call, ok := ins.(*ssa.Call); ok {
			if h := call.Call.StaticCallee(); h != nil && h != fn && len(h.Blocks) > 0 && h.Object() != nil && !h.Object().Exported() && recvTypeName(h) != "" && recvTypeName(h) == recvTypeName(fn) {
				hosts = append(hosts, h)
			}
		}
	})
	var walks []*IndexWalk
	hostOf := map[*GenericLoop]*ssa.Function{}
	for _, h := range hosts {
		for _, w := range IndexWalks(h) {
			walks = append(walks, w)
			hostOf[w.Loop] = h
		}
	}
	for _, w := range walks {
		if w.Field == nil || !strings.HasPrefix(w.Field.Name(), "transitions") {
			continue
		}
		found = true
		pos = w.Loop.Header.Instrs[0]
		early := false
		for _, b := range hostOf[w.Loop].Blocks {
			if !w.Loop.Contains(b) || b == w.Loop.Header {
				continue
			}
			for _, s := range b.Succs {
				if !w.Loop.Contains(s) {
					early = true
				}
			}
		}
		switch {
		case w.Dir == "desc":
			ok = true
		case w.Dir == "asc" && !early:
			ok = true
		case w.Dir == "asc":
			why = "the transitions are searched oldest first and the search stops at the first match: the duration is counted from the FIRST time the replica ever entered the state, not from the latest — the reconnect back-off, computed from the time spent in ERROR, grows with the age of the replica up to its cap"
		default:
			why = "the direction of the search over the transitions could not be classified"
		}
	}
	if !found {
		r.Undecided(cons, c.FnPos(fn), "no walk over the recorded transitions found")
		return
	}
	_ = pos
	r.Check(ok, cons, c.FnPos(fn), "the latest transition into the current state is found", why)
}

// sharedReaderParts: the struct types that every concurrent user of one sstable.Reader shares — the reader itself and
// whatever it holds (directly or through slices/pointers) that is declared in this module.
func sharedReaderParts(c *Ctx) map[*types.Named]bool {
	out := map[*types.Named]bool{}
	var walk func(t types.Type, d int)
	walk = func(t types.Type, d int) {
		if d > 6 {
			return
		}
		switch x := t.(type) {
		case *types.Pointer:
			walk(x.Elem(), d+1)
		case *types.Slice:
			walk(x.Elem(), d+1)
		case *types.Array:
			walk(x.Elem(), d+1)
		case *types.Map:
			walk(x.Elem(), d+1)
		case *types.Named:
			if x.Obj().Pkg() == nil || !strings.HasPrefix(x.Obj().Pkg().Path(), modPath) || out[x] {
				return
			}
			st, ok := x.Underlying().(*types.Struct)
			if !ok {
				return
			}
			out[x] = true
			for i := 0; i < st.NumFields(); i++ {
				walk(st.Field(i).Type(), d+1)
			}
		}
	}
	if root := c.Named("pkg/sstable", "Reader"); root != nil {
		walk(root, 0)
	}
	return out
}

// ruleSharedReaderPartsWriteUnderLock (round 9): one sstable.Reader serves every concurrent Get, scan and compaction
// read of its file; the engine's read paths hold shared locks at most, and an iterator's own mutex excludes nobody but
// that iterator's users. A field of the reader or of a component it holds (I/O manager, block fetcher, block cache,
// parsed index block, filters) may therefore be written after construction only under an exclusive lock that belongs to
// one of those shared objects — a "last block" memo, a lazily filled field, a statistics counter written plainly is a
// data race between readers (torn pair offset/block: the wrong block handed out, an existing key reported missing).
func ruleSharedReaderPartsWriteUnderLock(c *Ctx, r *Reporter) {
	r.Rule("shared-reader-parts-written-under-their-lock", 2)
	parts := sharedReaderParts(c)
	if len(parts) < 3 {
		r.Unresolved("sstable.Reader and its components", "fewer than three shared component types found")
		return
	}
	qual := func(n *types.Named) string {
		return strings.TrimPrefix(n.Obj().Pkg().Path()[strings.LastIndex(n.Obj().Pkg().Path(), "/")+1:], "") + "." + n.Obj().Name()
	}
	ownLock := func(id string) bool {
		for n := range parts {
			if strings.HasPrefix(id, qual(n)+".") {
				return true
			}
		}
		return false
	}
	partOf := func(v ssa.Value) *types.Named {
		t := v.Type()
		if p, ok := t.Underlying().(*types.Pointer); ok {
			t = p.Elem()
		}
		n, _ := t.(*types.Named)
		if n != nil && parts[n] {
			return n
		}
		return nil
	}
	li := c.Locks()
	seen := map[string]bool{}
	nTypes := map[*types.Named]bool{}
	// the read path: everything the methods of the reader, of its iterators and of its components can reach. (The
	// same types have a write side — the table writer fills filters and footers — which nobody shares.)
	reach := map[*ssa.Function]bool{}
	var work []*ssa.Function
	for _, fn := range c.KevoFns {
		if pkgOf(fn) == "pkg/sstable" && fn.Signature.Recv() != nil {
			switch recvTypeName(fn) {
			case "sstable.Reader", "sstable.Iterator", "sstable.IteratorAdapter", "sstable.BlockFetcher", "sstable.BlockCache", "sstable.IOManager":
				reach[fn] = true
				work = append(work, fn)
			}
		}
	}
	for len(work) > 0 {
		fn := work[len(work)-1]
		work = work[:len(work)-1]
		AllInstrs(fn, true, func(_ *ssa.Function, ins ssa.Instruction) {
			if ci, ok := ins.(ssa.CallInstruction); ok {
				for _, callee := range c.Callees(ci) {
					if c.InKevo(callee) && !reach[callee] {
						reach[callee] = true
						work = append(work, callee)
					}
				}
			}
		})
	}
	for _, fn := range c.KevoFns {
		if !reach[topParent(fn)] {
			continue
		}
		AllInstrs(fn, false, func(_ *ssa.Function, ins ssa.Instruction) {
			var base ssa.Value
			var fv *types.Var
			switch x := ins.(type) {
			case *ssa.Store:
				addr := x.Addr
				if ia, ok := addr.(*ssa.IndexAddr); ok { // element of an array/slice field
					if ld, ok := ia.X.(*ssa.UnOp); ok {
						addr = ld.X
					} else {
						addr = ia.X
					}
				}
				fa, ok := addr.(*ssa.FieldAddr)
				if !ok {
					return
				}
				base, fv = fa.X, fieldVarOf(fa)
			case *ssa.MapUpdate:
				ld, ok := x.Map.(*ssa.UnOp)
				if !ok {
					return
				}
				fa, ok := ld.X.(*ssa.FieldAddr)
				if !ok {
					return
				}
				base, fv = fa.X, fieldVarOf(fa)
			default:
				return
			}
			n := partOf(base)
			if n == nil || fv == nil {
				return
			}
			if _, fresh := base.(*ssa.Alloc); fresh {
				return // under construction: not shared yet
			}
			nTypes[n] = true
			cons := qual(n) + "." + fv.Name() + "@" + FnName(fn)
			if seen[cons] {
				return
			}
			held := li.HeldAt(ins)
			ok := held == nil
			for id, mode := range held {
				if mode == "W" && ownLock(id) {
					ok = true
				}
			}
			if !ok && isConstructorOf(fn, n) {
				ok = true
			}
			seen[cons] = true
			r.Check(ok, cons, c.InsPos(ins), "written under an exclusive lock of the shared reader objects (or while the object is being built)",
				"a field of an object shared by every concurrent reader of the table file is written with no exclusive lock of the reader's own held (held: "+held.String()+"): concurrent Gets and scans hold shared locks at most, so two of them race on this field — with a memo of two fields a reader can pair one call's offset with another call's block")
		})
	}
	if len(nTypes) == 0 {
		r.Info("sstable.Reader and its components", "-", "no post-construction write to a shared reader component found")
	}
}

// isConstructorOf: fn returns a *T / T that it allocated itself and the store is to that allocation's chain (the usual
// New… function filling in fields after the literal); approximated by "fn is a package-level function (no receiver)
// whose result types include T".
func isConstructorOf(fn *ssa.Function, n *types.Named) bool {
	fn = topParent(fn)
	if fn.Signature.Recv() != nil {
		return false
	}
	res := fn.Signature.Results()
	for i := 0; i < res.Len(); i++ {
		t := res.At(i).Type()
		if p, ok := t.(*types.Pointer); ok {
			t = p.Elem()
		}
		if t == types.Type(n) {
			return true
		}
	}
	return false
}

// mustPassInvoke: does every exit of fn (all returns) pass an interface call `method` on a value whose type name ends
// with ifaceSuffix — directly, or through a static call of a module function for which the same holds (depth-bounded)?
// A call made inside a function literal does not count: whether and when a closure runs is its receiver's business
// (sync.Once, a cache, a pool), which is exactly what this predicate is there to exclude.
func mustPassInvoke(c *Ctx, fn *ssa.Function, ifaceSuffix, method string, depth int) (ssa.Instruction, []*ssa.BasicBlock) {
	var rets []ssa.Instruction
	for _, ret := range Returns(fn) {
		rets = append(rets, ret)
	}
	return MustPass(fn, rets, func(i ssa.Instruction) bool {
		call, ok := i.(*ssa.Call)
		if !ok {
			return false
		}
		if call.Call.IsInvoke() {
			return call.Call.Method.Name() == method && strings.HasSuffix(call.Call.Value.Type().String(), ifaceSuffix)
		}
		if h := call.Call.StaticCallee(); h != nil && depth > 0 && len(h.Blocks) > 0 && c.InKevo(h) {
			bad, _ := mustPassInvoke(c, h, ifaceSuffix, method, depth-1)
			return bad == nil
		}
		return false
	})
}

// ruleFacadeReadsStorageEveryTime (round 9): a Get that is invoked after a write has returned must see that write, so
// the answer of EngineFacade.Get has to come from a storage lookup made DURING this call: every exit behind the
// closed-check passes storage.Get, in the function itself or in a helper on every path of which it is called. A lookup
// wrapped in a function literal (sync.OnceValues, singleflight-style sharing, a memo) is not made by this call on every
// path — a reader that joins an earlier reader's lookup returns a value read before it was invoked.
func ruleFacadeReadsStorageEveryTime(c *Ctx, r *Reporter) {
	r.Rule("facade-reads-storage-every-time", 2)
	for _, m := range [][2]string{{"Get", "Get"}, {"IsDeleted", "IsDeleted"}} {
		fn := c.Func("pkg/engine", "EngineFacade", m[0])
		cons := "engine.EngineFacade." + m[0]
		if fn == nil {
			if m[0] == "IsDeleted" {
				continue
			}
			r.Unresolved(cons, "not found")
			continue
		}
		var rets []ssa.Instruction
		for _, ret := range Returns(fn) {
			if ClassifyReturn(ret) == ExitFailure && len(ret.Results) > 0 {
				if _, isCall := ReturnValue(ret, len(ret.Results)-1).(*ssa.Call); !isCall {
					if g := globalLoad(ReturnValue(ret, len(ret.Results)-1)); g != nil {
						continue // the closed / refused exits return a sentinel without reading
					}
				}
			}
			rets = append(rets, ret)
		}
		bad, path := MustPass(fn, rets, func(i ssa.Instruction) bool {
			call, ok := i.(*ssa.Call)
			if !ok {
				return false
			}
			if call.Call.IsInvoke() {
				return call.Call.Method.Name() == m[1] && strings.HasSuffix(call.Call.Value.Type().String(), "interfaces.StorageManager")
			}
			if h := call.Call.StaticCallee(); h != nil && len(h.Blocks) > 0 && c.InKevo(h) {
				b, _ := mustPassInvoke(c, h, "interfaces.StorageManager", m[1], 2)
				return b == nil
			}
			return false
		})
		if bad != nil {
			r.Bad(cons, c.InsPos(bad), "an answer of "+m[0]+" does not come from a storage lookup made during this call (no call of storage."+m[1]+" on the path, or only inside a function literal that something else decides to run): a reader can be handed the result of a lookup that started before it was invoked — after a write that had already returned, it reads the overwritten value", c.PathString(path)...)
			continue
		}
		r.OK(cons, c.FnPos(fn), "every answering exit passes storage."+m[1]+" called by this invocation")
	}
}

// ruleValueWrappersKeepNil (round 9): in this code base a nil value IS the deletion marker below the merging layer —
// composite.HierarchicalIterator and the adapters infer a tombstone from Value() == nil. A Value() that hands out a
// copy must therefore keep nil nil and empty empty: make+copy (nil becomes empty: tombstones turn into live keys with
// value "") and append(nil, v...) (empty becomes nil: empty values turn into tombstones) are allowed only behind a nil
// test; bytes.Clone / slices.Clone keep both.
func ruleValueWrappersKeepNil(c *Ctx, r *Reporter) {
	r.Rule("value-copies-keep-nil-nil", 8)
	nilTested := func(cond ssa.Value) (bool, bool) {
		v, trueIsNonNil, ok := nilTest(cond)
		if !ok || v == nil || !strings.HasSuffix(v.Type().String(), "[]byte") {
			return false, false
		}
		if trueIsNonNil {
			return true, false
		}
		return false, true
	}
	for _, fn := range c.KevoFns {
		if fn.Name() != "Value" || fn.Signature.Recv() == nil || fn.Signature.Params().Len() != 0 || fn.Signature.Results().Len() != 1 || fn.Signature.Results().At(0).Type().String() != "[]byte" {
			continue
		}
		if strings.HasPrefix(pkgOf(fn), "pkg/client") || strings.HasPrefix(pkgOf(fn), "pkg/grpc") {
			continue // above the wire: deletion is not encoded as nil there
		}
		cons := FnName(fn)
		var bad *ssa.Return
		for _, ret := range Returns(fn) {
			v := ReturnValue(ret, 0)
			fresh := false
			switch x := v.(type) {
			case *ssa.MakeSlice:
				fresh = true
			case *ssa.Call:
				if b, ok := x.Call.Value.(*ssa.Builtin); ok && b.Name() == "append" {
					fresh = true
				}
			case *ssa.Slice:
				if _, ok := x.X.(*ssa.MakeSlice); ok {
					fresh = true
				}
			}
			if fresh && !GuardedBy(ret.Block(), nilTested) {
				bad = ret
			}
		}
		if bad != nil {
			r.Bad(cons, c.InsPos(bad), "Value() returns a freshly built slice (make+copy or append) on a path where the source was not tested for nil: below the merging layer nil means 'deleted' and empty means 'the empty value' — make+copy turns a tombstone into a live key with value \"\", append(nil, v...) turns an empty value into a tombstone. (bytes.Clone keeps both, or copy behind `if v == nil { return nil }`.)")
			continue
		}
		r.OK(cons, c.FnPos(fn), "returns the wrapped value as it is, or a copy that keeps nil nil")
	}
}

// ruleLogOpenFailsOnlyOnIO (round 9): whatever a crash left in a log file is the READ loop's business — its error classes
// decide between 'end of log', 'skip the damaged record' and 'fatal', and only 'fatal' sends recovery to its give-up arm
// (every log moved aside, the engine opens empty). wal.OpenReader runs before that classification: a failing exit there
// that is decided by the file's size or content, not by a failed system call, turns a torn first record into total loss.
func ruleLogOpenFailsOnlyOnIO(c *Ctx, r *Reporter) {
	r.Rule("log-open-fails-only-on-io-errors", 1)
	fn := c.Func("pkg/wal", "", "OpenReader")
	cons := "wal.OpenReader"
	if fn == nil {
		r.Unresolved(cons, "not found")
		return
	}
	okF := callOKFact(c, func(call *ssa.Call) bool { return true })
	failed := func(cond ssa.Value) (bool, bool) {
		t, f := okF(cond)
		return f, t
	}
	n := 0
	for _, ret := range Returns(fn) {
		if ClassifyReturn(ret) != ExitFailure {
			continue
		}
		n++
		if !GuardedBy(ret.Block(), failed) {
			r.Bad(cons, c.InsPos(ret), "OpenReader can fail without a system call having failed (a test on the file's size or content): the replay loop's damage classes never see this file — the error is fatal for ReplayWALDir, recovery gives up, moves every log file aside and the engine opens empty. A log whose first record was torn by a crash is an ordinary crash artefact")
			return
		}
	}
	r.OK(cons, c.FnPos(fn), fmt.Sprintf("%d failing exit(s), each behind a failed call", n))
}

// nameSuffixOf: the literal text a string value certainly ends with ("" = unknown; endsWithCallerText = the value ends
// with text supplied by the caller, e.g. a format string that ends in a verb).
func nameSuffixOf(v ssa.Value, d int) (suffix string, endsWithCallerText bool) {
	if d > 6 || v == nil {
		return "", false
	}
	if s, ok := constString(v); ok {
		return s, false
	}
	switch x := v.(type) {
	case *ssa.BinOp:
		if x.Op == token.ADD {
			if s, ok := constString(x.Y); ok && s != "" {
				return s, false
			}
			return nameSuffixOf(x.Y, d+1)
		}
	case *ssa.MakeInterface:
		return nameSuffixOf(x.X, d+1)
	case *ssa.Parameter:
		return "", true
	case *ssa.Call:
		sn := staticName(x)
		switch sn {
		case "fmt.Sprintf":
			f, ok := constString(x.Call.Args[0])
			if !ok {
				return "", false
			}
			// text after the last verb
			last := -1
			for i := 0; i < len(f); i++ {
				if f[i] == '%' {
					if i+1 < len(f) && f[i+1] == '%' {
						i++
						continue
					}
					j := i + 1
					for j < len(f) && !((f[j] >= 'a' && f[j] <= 'z') || (f[j] >= 'A' && f[j] <= 'Z')) {
						j++
					}
					last = j
					i = j
				}
			}
			if last < 0 {
				return f, false
			}
			if last+1 >= len(f) {
				return "", true // ends with a verb: the tail is an argument's text
			}
			return f[last+1:], false
		case "path/filepath.Join", "path.Join":
			if len(x.Call.Args) == 1 {
				if el := sliceLiteralElems(x.Call.Args[0]); len(el) > 0 {
					return nameSuffixOf(el[len(el)-1], d+1)
				}
			}
		case "path/filepath.Base", "path.Base", "path/filepath.Clean":
			return "", true
		}
	}
	return "", false
}

// ruleTempNamesInvisibleToLoaders (round 9): a table file is written under a temporary name and renamed when complete; a
// crash in between leaves the temporary file behind. The directory scans that load tables at open select by extension,
// so the temporary name must not carry a selected extension — otherwise the half-written file is opened as a table, the
// open fails and the database cannot be reopened although the log holds every acknowledged write.
func ruleTempNamesInvisibleToLoaders(c *Ctx, r *Reporter) {
	r.Rule("temp-names-invisible-to-loaders", 1)
	nfm := c.Func("pkg/sstable", "", "NewFileManager")
	cons := "sstable.NewFileManager:temporary-name"
	if nfm == nil {
		r.Unresolved("sstable.NewFileManager", "not found")
		return
	}
	// extensions the loaders select
	exts := map[string]bool{}
	for _, fn := range c.KevoFns {
		if !strings.HasPrefix(pkgOf(fn), "pkg/engine") && !strings.HasPrefix(pkgOf(fn), "pkg/compaction") {
			continue
		}
		AllInstrs(fn, false, func(_ *ssa.Function, ins ssa.Instruction) {
			switch x := ins.(type) {
			case *ssa.BinOp:
				if x.Op != token.EQL && x.Op != token.NEQ {
					return
				}
				for _, pair := range [][2]ssa.Value{{x.X, x.Y}, {x.Y, x.X}} {
					if call, ok := pair[0].(*ssa.Call); ok && staticName(call) == "path/filepath.Ext" {
						if s, ok := constString(pair[1]); ok && s != "" {
							exts[s] = true
						}
					}
				}
			case *ssa.Call:
				if staticName(x) == "strings.HasSuffix" {
					if s, ok := constString(x.Call.Args[1]); ok && strings.HasPrefix(s, ".") {
						exts[s] = true
					}
				}
			}
		})
	}
	if len(exts) == 0 {
		r.Undecided(cons, c.FnPos(nfm), "no extension test found in the table loaders")
		return
	}
	var create *ssa.Call
	AllInstrs(nfm, false, func(_ *ssa.Function, ins ssa.Instruction) {
		if call, ok := ins.(*ssa.Call); ok {
			switch staticName(call) {
			case "os.Create", "os.OpenFile", "os.CreateTemp":
				create = call
			}
		}
	})
	if create == nil {
		r.Undecided(cons, c.FnPos(nfm), "no os.Create/os.OpenFile in NewFileManager")
		return
	}
	var list []string
	for e := range exts {
		list = append(list, e)
	}
	sort.Strings(list)
	nameArg := create.Call.Args[0]
	if staticName(create) == "os.CreateTemp" { // the name is the pattern with its last "*" replaced by random digits (appended if there is none)
		nameArg = create.Call.Args[1]
		if pat, isK := constString(nameArg); isK {
			if i := strings.LastIndex(pat, "*"); i >= 0 && i+1 < len(pat) {
				nameArg = ssa.NewConst(constant.MakeString(pat[i+1:]), types.Typ[types.String])
			} else {
				r.OK(cons, c.InsPos(create), "the temporary name ends in random digits: no loader selects it ("+strings.Join(list, ", ")+")")
				return
			}
		}
	}
	suffix, callerText := nameSuffixOf(nameArg, 0)
	switch {
	case callerText:
		r.Bad(cons, c.InsPos(create), "the temporary name ENDS with the caller's file name: for a table x.sst it ends in .sst, which the loaders select ("+strings.Join(list, ", ")+") — a crash between create and rename leaves a half-written file that the next open tries to load as a table and fails on")
	case suffix == "":
		r.Undecided(cons, c.InsPos(create), "the end of the temporary name could not be determined")
	default:
		ext := suffix
		if i := strings.LastIndex(suffix, "."); i >= 0 {
			ext = suffix[i:]
		}
		r.Check(!exts[ext], cons, c.InsPos(create), "the temporary name ends in "+fmt.Sprintf("%q", suffix)+", which no loader selects ("+strings.Join(list, ", ")+")",
			"the temporary name ends in "+fmt.Sprintf("%q", suffix)+", an extension the loaders select: a crash between create and rename leaves a half-written file that the next open tries to load as a table and fails on")
	}
}

// ruleNoUnguardedDivisionOnOpenPath (round 9): opening the database after a crash must succeed whatever the log contains;
// a panic on that path is a database that cannot be opened. In the functions recovery runs (storage.Manager.recoverFromWAL
// and what it calls in this module) an integer division or remainder by a value that is not a non-zero constant must be
// guarded by a test of that divisor — counters of "entries recovered" are legitimately zero when the first record is damaged.
func ruleNoUnguardedDivisionOnOpenPath(c *Ctx, r *Reporter) {
	r.Rule("no-unguarded-division-on-the-open-path", 0)
	root := c.Func("pkg/engine/storage", "Manager", "recoverFromWAL")
	if root == nil {
		r.Unresolved("storage.Manager.recoverFromWAL", "not found")
		return
	}
	reach := map[*ssa.Function]bool{root: true}
	work := []*ssa.Function{root}
	for len(work) > 0 {
		fn := work[len(work)-1]
		work = work[:len(work)-1]
		AllInstrs(fn, true, func(_ *ssa.Function, ins ssa.Instruction) {
			if ci, ok := ins.(ssa.CallInstruction); ok {
				for _, callee := range c.Callees(ci) {
					if c.InKevo(callee) && !reach[callee] {
						reach[callee] = true
						work = append(work, callee)
					}
				}
			}
		})
	}
	n := 0
	for _, fn := range c.KevoFns {
		if !reach[topParent(fn)] {
			continue
		}
		AllInstrs(fn, false, func(_ *ssa.Function, ins ssa.Instruction) {
			bo, ok := ins.(*ssa.BinOp)
			if !ok || (bo.Op != token.QUO && bo.Op != token.REM) {
				return
			}
			if b, ok := bo.Type().Underlying().(*types.Basic); !ok || b.Info()&types.IsInteger == 0 {
				return
			}
			if k, isK := constInt(bo.Y); isK && k != 0 {
				return
			}
			n++
			div := stripConv(bo.Y)
			tested := func(cond ssa.Value) (bool, bool) {
				cb, ok := cond.(*ssa.BinOp)
				if !ok {
					return false, false
				}
				x, y := stripConv(cb.X), stripConv(cb.Y)
				isDiv := func(v ssa.Value) bool { return v == div || sameValue(v, div) }
				kx, xK := constInt(x)
				ky, yK := constInt(y)
				switch {
				case isDiv(x) && yK && ky == 0:
					switch cb.Op {
					case token.GTR, token.NEQ:
						return true, false
					case token.EQL, token.LEQ:
						return false, true
					}
				case isDiv(y) && xK && kx == 0:
					switch cb.Op {
					case token.LSS, token.NEQ:
						return true, false
					case token.EQL, token.GEQ:
						return false, true
					}
				case isDiv(x) && yK && ky > 0 && (cb.Op == token.GEQ || cb.Op == token.GTR):
					return true, false
				}
				return false, false
			}
			cons := FnName(fn) + ":" + bo.Op.String() + " " + Path(bo.Y)
			r.Check(GuardedBy(bo.Block(), tested), cons, c.InsPos(bo), "the divisor is tested against zero on every path to the division",
				"an integer division on the recovery path whose divisor is not tested: with a value of 0 — a counter of recovered entries is 0 when the first record of the log is damaged — opening the database panics, and panics again at every later open")
		})
	}
	if n == 0 {
		r.Info("storage.Manager.recoverFromWAL", c.FnPos(root), fmt.Sprintf("no integer division by a variable in the %d functions recovery reaches", len(reach)))
	}
}

// ruleSourcesDoNotHideTombstones (round 9): a deletion marker does its work in the MERGE — the newest source's tombstone
// shadows the older sources' versions of the key. Every iterator below the merging layer (memtable, table, block,
// transaction buffer, and the bounding/filtering wrappers around them) therefore hands tombstones on like any other
// entry: its positioning and stepping functions do not look at whether an entry is a deletion. A source that steps over
// "its own" tombstones (at the start, at the end, anywhere) lets the older version of the key through: a deleted key
// reappears in scans although Get says not found.
func ruleSourcesDoNotHideTombstones(c *Ctx, r *Reporter) {
	r.Rule("sources-hand-tombstones-to-the-merge", 20)
	merging := map[string]bool{"composite.HierarchicalIterator": true, "engine.MergedIterator": true, "iterator.HierarchicalIterator": true}
	for _, fn := range c.KevoFns {
		if fn.Signature.Recv() == nil || fn.Parent() != nil {
			continue
		}
		switch fn.Name() {
		case "SeekToFirst", "SeekToLast", "Seek", "Next":
		default:
			continue
		}
		rt := recvTypeName(fn)
		if rt == "" || merging[rt] || strings.HasPrefix(pkgOf(fn), "pkg/client") || strings.HasPrefix(pkgOf(fn), "pkg/grpc") || strings.HasPrefix(pkgOf(fn), "cmd/") {
			continue
		}
		// an iterator type: has IsTombstone
		hasTomb := false
		if n, ok := deref(fn.Signature.Recv().Type()).(*types.Named); ok {
			ms := types.NewMethodSet(types.NewPointer(n))
			for i := 0; i < ms.Len(); i++ {
				if ms.At(i).Obj().Name() == "IsTombstone" {
					hasTomb = true
				}
			}
		}
		if !hasTomb {
			continue
		}
		cons := FnName(fn)
		var bad ssa.Instruction
		what := ""
		for _, h := range withSameReceiverHelpers(fn) {
			switch x := h.ins.(type) {
			case *ssa.Call:
				name := ""
				if x.Call.IsInvoke() {
					name = x.Call.Method.Name()
				} else if f := x.Call.StaticCallee(); f != nil {
					name = f.Name()
				}
				if name == "IsTombstone" || name == "IsDeleted" {
					bad, what = h.at, "asks "+name+"()"
				}
			case *ssa.FieldAddr:
				if fv := fieldVarOf(x); fv != nil && (fv.Name() == "IsDelete" || fv.Name() == "IsTombstone" || fv.Name() == "Deleted") {
					bad, what = h.at, "reads the "+fv.Name()+" flag"
				}
			case *ssa.Field:
				if fv := fieldVarOf(x); fv != nil && (fv.Name() == "IsDelete" || fv.Name() == "IsTombstone" || fv.Name() == "Deleted") {
					bad, what = h.at, "reads the "+fv.Name()+" flag"
				}
			}
		}
		if bad != nil {
			r.Bad(cons, c.InsPos(bad), "a positioning function of an iterator below the merging layer "+what+": where such an iterator rests must not depend on whether an entry is a deletion marker — the marker has to reach the merge to shadow the older versions of its key; a source that steps over it lets a deleted key reappear in scans (Get still says not found)")
			continue
		}
		r.OK(cons, c.FnPos(fn), "positions and steps without looking at deletion markers")
	}
}

// ruleRotationsAreSerialised (round 9): storage.Manager.rotateWAL reads the current log, creates a new one, seeds its
// counter from the old log and publishes it. Two rotations that overlap seed two new logs from the same old one: writes
// acknowledged on the first are followed by writes stamped with the same numbers on the second (sequence numbers go
// backwards, one number on two writes). Writers are kept out by the log's ROTATING status, other rotations only by a
// lock — so ONE exclusive lock must be held at every call of rotateWAL (the flush path holds flushMu and not mu; the
// explicit RotateWAL held mu and not flushMu until the repair).
func ruleRotationsAreSerialised(c *Ctx, r *Reporter) {
	r.Rule("rotations-are-serialised", 1)
	rot := c.Func("pkg/engine/storage", "Manager", "rotateWAL")
	cons := "storage.Manager.rotateWAL:callers"
	if rot == nil {
		r.Unresolved("storage.Manager.rotateWAL", "not found")
		return
	}
	li := c.Locks()
	var common map[string]bool
	var sites []string
	var first ssa.Instruction
	for _, e := range c.Callers(rot) {
		if e.Site == nil || !c.InKevo(e.Caller.Func) {
			continue
		}
		if first == nil {
			first = e.Site
		}
		held := li.HeldAt(e.Site)
		if held == nil {
			continue // unreachable
		}
		w := map[string]bool{}
		for id, mode := range held {
			if mode == "W" {
				w[id] = true
			}
		}
		sites = append(sites, FnName(e.Caller.Func)+" "+held.String())
		if common == nil {
			common = w
		} else {
			for id := range common {
				if !w[id] {
					delete(common, id)
				}
			}
		}
	}
	sort.Strings(sites)
	if len(sites) == 0 {
		r.Undecided(cons, c.FnPos(rot), "no caller of rotateWAL found")
		return
	}
	var ids []string
	for id := range common {
		ids = append(ids, id)
	}
	sort.Strings(ids)
	pos := c.FnPos(rot)
	if first != nil {
		pos = c.InsPos(first)
	}
	r.Check(len(ids) > 0, cons, pos, fmt.Sprintf("every call of rotateWAL holds %s exclusively (%d call sites)", strings.Join(ids, ", "), len(sites)),
		"no single lock is held exclusively at every call of rotateWAL ("+strings.Join(sites, "; ")+"): a rotation started from one caller can overlap a rotation started from another — both read the same current log and both seed their new log with its counter; writes acknowledged on the first new log are followed by writes carrying the same sequence numbers on the second")
}

// ruleHandOverAlwaysTaken (round 9): WAL.UpdateNextSequence is the only way a log's counter is handed to its successor
// (rotation) or restored (recovery). The one legitimate reason not to take the value is that it is not larger than the
// counter. Any other way out without the store — a range check, a status check — drops the hand-over on exactly the
// inputs it selects, and the new log then starts again at 1.
func ruleHandOverAlwaysTaken(c *Ctx, r *Reporter) {
	r.Rule("hand-over-always-taken", 1)
	fn := c.Func("pkg/wal", "WAL", "UpdateNextSequence")
	fld := c.Field("pkg/wal", "WAL", "nextSequence")
	cons := "wal.WAL.UpdateNextSequence"
	if fn == nil || fld == nil || len(fn.Params) < 2 {
		r.Unresolved(cons+" / WAL.nextSequence", "not found")
		return
	}
	isStore := func(i ssa.Instruction) bool {
		st, ok := i.(*ssa.Store)
		return ok && fieldVarOf(st.Addr) == fld
	}
	hasStore := func(f *ssa.Function) bool {
		found := false
		AllInstrs(f, false, func(_ *ssa.Function, ins ssa.Instruction) {
			if isStore(ins) {
				found = true
			}
		})
		return found
	}
	if !hasStore(fn) {
		// the store lives in a same-receiver helper that is called unconditionally (possibly from a deferred closure):
		// judge the helper, and require that every exit of UpdateNextSequence lies behind the call
		var host *ssa.Function
		var site ssa.Instruction
		AllInstrs(fn, true, func(in *ssa.Function, ins ssa.Instruction) {
			ci, ok := ins.(ssa.CallInstruction)
			if !ok || host != nil {
				return
			}
			h := ci.Common().StaticCallee()
			if h == nil || len(h.Blocks) == 0 || recvTypeName(h) != recvTypeName(fn) || len(h.Params) < 2 || !hasStore(h) {
				return
			}
			if in == fn {
				host, site = h, ins
				return
			}
			for _, b := range fn.Blocks { // a closure of fn: where is it deferred / called?
				for _, x := range b.Instrs {
					if d, ok := x.(ssa.CallInstruction); ok {
						if mc, ok := d.Common().Value.(*ssa.MakeClosure); ok && mc.Fn == ssa.Value(in) {
							host, site = h, x
						}
					}
				}
			}
		})
		if host == nil {
			r.Undecided(cons, c.FnPos(fn), "no store to the counter in UpdateNextSequence or in a helper it calls")
			return
		}
		for _, ret := range Returns(fn) {
			if !Dominates(site, ret) {
				r.Bad(cons, c.InsPos(ret), "UpdateNextSequence can return without calling "+FnName(host)+", which holds the store to the counter: the hand-over is dropped on that path")
				return
			}
		}
		fn = host
	}
	p := ssa.Value(fn.Params[1])
	notLarger := func(cond ssa.Value) (bool, bool) { // edges on which param <= counter: outside the rule
		bo, ok := cond.(*ssa.BinOp)
		if !ok {
			return false, false
		}
		x, y := stripConv(bo.X), stripConv(bo.Y)
		switch {
		case x == p && isLoadOfField(y, fld):
			switch bo.Op {
			case token.GTR:
				return false, true
			case token.LEQ:
				return true, false
			}
		case y == p && isLoadOfField(x, fld):
			switch bo.Op {
			case token.LSS:
				return false, true
			case token.GEQ:
				return true, false
			}
		}
		return false, false
	}
	var rets []ssa.Instruction
	for _, ret := range Returns(fn) {
		rets = append(rets, ret)
	}
	bad, path := MustPassE(fn, rets, isStore, PruneFactEdges(notLarger))
	if bad != nil {
		r.Bad(cons, c.InsPos(bad), "UpdateNextSequence can return without storing a value that IS larger than the counter: the hand-over from the old log (rotation) or from recovery is dropped for the inputs this exit selects, the new log keeps its initial counter and the next acknowledged write is stamped 1 again", c.PathString(path)...)
		return
	}
	r.OK(cons, c.FnPos(fn), "the only way past the store is 'not larger than the counter'")
}

// ruleIndexKeyVerbatim (round 9): the reader routes a lookup with a floor search over the index keys, which is correct
// only if every index key IS the first key of its block: a shortened key (a prefix "that only has to route") sorts
// before keys of the PREVIOUS block that share the prefix, and those keys are then sought in the wrong block. The key
// handed to the index block's builder must be the entry's FirstKey as stored — not a slice, a prefix or a transformation.
func ruleIndexKeyVerbatim(c *Ctx, r *Reporter) {
	r.Rule("index-key-is-the-first-key-verbatim", 1)
	fk := c.Field("pkg/sstable", "IndexEntry", "FirstKey")
	fn := c.Func("pkg/sstable", "IndexBuilder", "BuildIndex")
	cons := "sstable.IndexBuilder.BuildIndex:index-key"
	if fk == nil || fn == nil {
		r.Unresolved("sstable.IndexBuilder.BuildIndex / IndexEntry.FirstKey", "not found")
		return
	}
	n := 0
	var bad ssa.Instruction
	for _, h := range withSameReceiverHelpers(fn) {
		call, ok := h.ins.(*ssa.Call)
		if !ok || call.Call.StaticCallee() == nil || recvTypeName(call.Call.StaticCallee()) != "block.Builder" || len(call.Call.Args) < 3 {
			continue
		}
		switch call.Call.StaticCallee().Name() {
		case "Add", "AddWithSequence":
		default:
			continue
		}
		n++
		var verbatim func(v ssa.Value, d int) bool
		verbatim = func(v ssa.Value, d int) bool {
			if d > 4 {
				return false
			}
			if isLoadOfField(v, fk) {
				return true
			}
			switch x := v.(type) {
			case *ssa.Phi:
				for _, e := range x.Edges {
					if !verbatim(e, d+1) {
						return false
					}
				}
				return true
			case *ssa.Call:
				switch staticName(x) {
				case "bytes.Clone", "slices.Clone":
					return verbatim(x.Call.Args[0], d+1)
				}
			}
			return false
		}
		if !verbatim(call.Call.Args[1], 0) {
			bad = h.at
		}
	}
	if n == 0 {
		r.Undecided(cons, c.FnPos(fn), "no call of the index block builder found")
		return
	}
	r.Check(bad == nil, cons, func() string {
		if bad != nil {
			return c.InsPos(bad)
		}
		return c.FnPos(fn)
	}(), "the index block is built from the entries' FirstKey as stored",
		"the key handed to the index block is not the entry's FirstKey as stored (a slice, a prefix, a transformation of it): the reader's floor search over the index is exact only for the real first keys — a shortened key sorts before keys of the previous block that share the prefix, which are then sought in the wrong block (Seek skips them, Get says not found)")
}

// ruleEveryFilterLoaded (round 9): Reader.Get skips a block for which it finds no filter (`shouldSkip` starts true), so
// a reader that has filters at all must have the filter of EVERY block: the loop in OpenReader that loads them may end
// only because the filter section is exhausted (or unreadable) — never because "enough" filters are resident. A bound
// by count, cache size or memory turns every key of the later blocks into not-found.
func ruleEveryFilterLoaded(c *Ctx, r *Reporter) {
	r.Rule("every-block-filter-is-loaded", 1)
	fn := c.Func("pkg/sstable", "", "OpenReader")
	bf := c.Field("pkg/sstable", "Reader", "bloomFilters")
	cons := "sstable.OpenReader:filter-loop"
	if fn == nil || bf == nil {
		r.Unresolved("sstable.OpenReader / Reader.bloomFilters", "not found")
		return
	}
	var loop *GenericLoop
	for _, l := range GenericLoops(fn) {
		for _, b := range fn.Blocks {
			if !l.Contains(b) {
				continue
			}
			for _, ins := range b.Instrs {
				if st, ok := ins.(*ssa.Store); ok && fieldVarOf(st.Addr) == bf {
					if loop == nil || loop.Contains(l.Header) { // innermost
						loop = l
					}
				}
			}
		}
	}
	if loop == nil {
		r.Undecided(cons, c.FnPos(fn), "no loop that appends to Reader.bloomFilters found in OpenReader")
		return
	}
	var mentions func(v ssa.Value, d int) bool
	mentions = func(v ssa.Value, d int) bool {
		if d > 6 || v == nil {
			return false
		}
		if la := lenArgOf(v); la != nil {
			if isLoadOfField(la, bf) || strings.Contains(Path(la), "bloomFilters") {
				return true
			}
		}
		switch x := v.(type) {
		case *ssa.BinOp:
			return mentions(x.X, d+1) || mentions(x.Y, d+1)
		case *ssa.UnOp:
			return mentions(x.X, d+1)
		case *ssa.Convert:
			return mentions(x.X, d+1)
		case *ssa.Phi:
			for _, e := range x.Edges {
				if mentions(e, d+1) {
					return true
				}
			}
		}
		return false
	}
	var bad ssa.Instruction
	for _, b := range fn.Blocks {
		if !loop.Contains(b) || len(b.Instrs) == 0 {
			continue
		}
		iff, ok := b.Instrs[len(b.Instrs)-1].(*ssa.If)
		if !ok {
			continue
		}
		leaves := false
		for _, s := range b.Succs {
			if !loop.Contains(s) {
				leaves = true
			}
		}
		if leaves && mentions(iff.Cond, 0) {
			bad = iff
		}
	}
	r.Check(bad == nil, cons, c.blockPos(loop.Header), "the loading loop ends only with the filter section (or on an unreadable entry)",
		"the loop that loads the per-block filters can end because of HOW MANY filters are already loaded: Reader.Get skips a block it finds no filter for, so every key in the blocks behind the bound reads as not found (iteration and seeks still see them)")
}

// ruleServiceSuccessOnlyAfterEngine (round 9): whether a mutation is allowed is decided below the service — the engine
// refuses writes on a read-only replica, the transaction refuses writes when read-only. A handler that can answer
// "success" without having asked (an 'already deleted' fast path, a cache, an idempotency shortcut) answers for the
// engine: on a replica the client is told its delete succeeded instead of getting the read-only error. Every success
// exit of a mutating handler passes the embedded mutating call of its row.
func ruleServiceSuccessOnlyAfterEngine(c *Ctx, r *Reporter) {
	r.Rule("mutation-success-only-after-the-engine-call", 4)
	for _, row := range [][2]string{{"Put", "Put"}, {"Delete", "Delete"}, {"TxPut", "Put"}, {"TxDelete", "Delete"}, {"CommitTransaction", "Commit"}} {
		fn := c.Func("pkg/grpc/service", "KevoServiceServer", row[0])
		cons := "service.KevoServiceServer." + row[0]
		if fn == nil {
			if row[0] == "CommitTransaction" {
				continue
			}
			r.Unresolved(cons, "not found")
			continue
		}
		exits := SuccessExits(fn, true)
		bad, path := MustPass(fn, exits, func(i ssa.Instruction) bool {
			call, ok := i.(*ssa.Call)
			return ok && call.Call.IsInvoke() && call.Call.Method.Name() == row[1]
		})
		if bad != nil {
			r.Bad(cons, c.InsPos(bad), "the handler can report success without having called the embedded "+row[1]+": whether the mutation is allowed (read-only replica, read-only transaction, closed engine) is decided there — a shortcut in front of it tells a client of a replica that its write succeeded instead of returning the read-only error", c.PathString(path)...)
			continue
		}
		r.OK(cons, c.FnPos(fn), fmt.Sprintf("%d success exit(s), each behind the embedded %s", len(exits), row[1]))
	}
}

// ruleDefaultRegistryLimits (round 9): the default registry (the one the server command wires in) carries two limits — an
// idle limit and a lifetime limit. The idle limit must be the smaller one, otherwise it can never fire before the
// lifetime limit does and an abandoned transaction keeps the database lock for its whole lifetime. The constants are
// followed through a delegating constructor (two time.Duration parameters in a row are easily swapped).
func ruleDefaultRegistryLimits(c *Ctx, r *Reporter) {
	r.Rule("default-idle-limit-below-lifetime-limit", 1)
	fn := c.Func("pkg/transaction", "", "NewRegistry")
	ttlF := c.Field("pkg/transaction", "RegistryImpl", "txTTL")
	idleF := c.Field("pkg/transaction", "RegistryImpl", "idleTxTTL")
	cons := "transaction.NewRegistry:limits"
	if fn == nil || ttlF == nil || idleF == nil {
		r.Unresolved("transaction.NewRegistry / RegistryImpl.{txTTL,idleTxTTL}", "not found")
		return
	}
	var limits func(f *ssa.Function, args []ssa.Value, d int) (ttl, idle int64, okT, okI bool)
	limits = func(f *ssa.Function, args []ssa.Value, d int) (ttl, idle int64, okT, okI bool) {
		if d > 3 {
			return
		}
		val := func(v ssa.Value) (int64, bool) {
			v = stripConv(v)
			if k, isK := constInt(v); isK {
				return k, true
			}
			if p, ok := v.(*ssa.Parameter); ok && args != nil {
				for i, fp := range f.Params {
					if fp == p && i < len(args) {
						if k, isK := constInt(stripConv(args[i])); isK {
							return k, true
						}
					}
				}
			}
			return 0, false
		}
		AllInstrs(f, false, func(_ *ssa.Function, ins ssa.Instruction) {
			switch x := ins.(type) {
			case *ssa.Store:
				switch fieldVarOf(x.Addr) {
				case ttlF:
					ttl, okT = val(x.Val)
				case idleF:
					idle, okI = val(x.Val)
				}
			case *ssa.Call:
				if g := x.Call.StaticCallee(); g != nil && g != f && len(g.Blocks) > 0 && pkgOf(g) == "pkg/transaction" && !okT && !okI {
					var actual []ssa.Value
					for _, a := range x.Call.Args {
						if k, isK := val(a); isK {
							actual = append(actual, ssa.NewConst(constant.MakeInt64(k), types.Typ[types.Int64]))
						} else {
							actual = append(actual, a)
						}
					}
					t, i, a, b := limits(g, actual, d+1)
					if a && b {
						ttl, idle, okT, okI = t, i, a, b
					}
				}
			}
		})
		return
	}
	ttl, idle, okT, okI := limits(fn, nil, 0)
	if !okT || !okI {
		r.Undecided(cons, c.FnPos(fn), "the default limits could not be resolved to constants")
		return
	}
	if idle > 0 && idle < int64(time.Millisecond) || ttl > 0 && ttl < int64(time.Millisecond) {
		r.Bad(cons, c.FnPos(fn), fmt.Sprintf("a default transaction limit is below a millisecond (idle %s, lifetime %s) — a bare number where a time.Duration is expected counts nanoseconds: no transaction survives from one request to the next, the sweep that runs before every BeginTransaction rolls back every other open handle", time.Duration(idle), time.Duration(ttl)))
		return
	}
	r.Check(idle > 0 && idle < ttl, cons, c.FnPos(fn), fmt.Sprintf("idle limit %s < lifetime limit %s", time.Duration(idle), time.Duration(ttl)),
		fmt.Sprintf("the default registry's idle limit (%s) is not below its lifetime limit (%s): the idle check can never fire first — an abandoned transaction holds the database lock until the lifetime limit instead of the idle limit (or, the other way round, every transaction is cut off at what was meant to be the idle limit)", time.Duration(idle), time.Duration(ttl)))
}

// ruleOverlapScansVisitEveryFile (round 9): the files of a level are kept in file-number order (and the numbers restart at
// every compaction), not in key order — "the overlapping files are neighbours" is false. A loop of the compaction
// strategy that collects the files overlapping a key range must look at every file of the level: leaving it early
// leaves an overlapping file out of the task, the output lands below it, and (tombstones being dropped at the deep
// levels) the old value in the skipped file becomes visible again.
func ruleOverlapScansVisitEveryFile(c *Ctx, r *Reporter) {
	r.Rule("overlap-scans-visit-every-file", 2)
	for _, fn := range c.KevoFns {
		if pkgOf(fn) != "pkg/compaction" || fn.Parent() != nil {
			continue
		}
		for _, l := range GenericLoops(fn) {
			// a collecting loop: calls Overlaps and appends inside
			var ov ssa.Instruction
			appends := false
			for _, b := range fn.Blocks {
				if !l.Contains(b) {
					continue
				}
				for _, ins := range b.Instrs {
					if call, ok := ins.(*ssa.Call); ok {
						if f := call.Call.StaticCallee(); f != nil && (f.Name() == "Overlaps" || f.Name() == "overlaps") {
							ov = ins
						}
						if bi, ok := call.Call.Value.(*ssa.Builtin); ok && bi.Name() == "append" {
							appends = true
						}
					}
				}
			}
			if ov == nil || !appends {
				continue
			}
			// innermost loop containing the Overlaps call only
			inner := true
			for _, l2 := range GenericLoops(fn) {
				if l2.Header != l.Header && l.Contains(l2.Header) && l2.Contains(ov.Block()) {
					inner = false
				}
			}
			if !inner {
				continue
			}
			cons := FnName(fn) + ":overlap-loop@" + Path(ov.(*ssa.Call).Call.Args[len(ov.(*ssa.Call).Call.Args)-1])
			var early *ssa.BasicBlock
			for _, b := range fn.Blocks {
				if !l.Contains(b) || b == l.Header {
					continue
				}
				for _, s := range b.Succs {
					if !l.Contains(s) {
						early = b
					}
				}
			}
			if early != nil {
				r.Bad(cons, c.blockPos(early), "the loop that collects overlapping files can be left before every file of the level has been examined: a level is ordered by file number, not by key, so an overlapping file can sit behind a non-overlapping one — it is left out of the compaction, the merged output lands below it and the older version it holds (a value whose delete marker was dropped at the deep level) is read again")
				continue
			}
			r.OK(cons, c.blockPos(l.Header), "the loop ends only when the level is exhausted")
		}
	}
}

// ruleReadersClosedOnlyWhenIdle (round 9): a compaction cycle reads its input tables through readers the strategy owns;
// sstable iterators swallow fetch errors and simply end. Closing those readers while a cycle runs makes every input
// iterator end where it stands — the merge "succeeds" with a truncated output and the inputs are deleted. The cycle
// holds compactingMu for its whole length, so whoever closes the strategy's readers must hold compactingMu exclusively.
func ruleReadersClosedOnlyWhenIdle(c *Ctx, r *Reporter) {
	r.Rule("readers-closed-only-when-no-cycle-runs", 1)
	li := c.Locks()
	n := 0
	for _, fn := range c.KevoFns {
		if pkgOf(fn) != "pkg/compaction" || recvTypeName(fn) != "compaction.DefaultCompactionCoordinator" {
			continue
		}
		AllInstrs(fn, false, func(_ *ssa.Function, ins ssa.Instruction) {
			call, ok := ins.(ssa.CallInstruction)
			if !ok || !call.Common().IsInvoke() || call.Common().Method.Name() != "Close" || !strings.Contains(call.Common().Value.Type().String(), "CompactionStrategy") {
				return
			}
			n++
			held := li.HeldAt(ins)
			cons := FnName(fn) + ":strategy.Close"
			r.Check(held.Holds("compaction.DefaultCompactionCoordinator.compactingMu", "W"), cons, c.InsPos(ins), "the strategy's readers are closed with compactingMu held",
				"the strategy's table readers are closed without compactingMu (held: "+held.String()+"): a compaction cycle that is running holds that lock, not this one — its input iterators end silently where they stand when their reader is closed, the merge writes a truncated output and the cycle then deletes the inputs: keys are lost from disk, overwritten keys revert, deleted keys return")
		})
	}
	if n == 0 {
		r.Undecided("compaction.DefaultCompactionCoordinator:strategy.Close", "-", "no call of the strategy's Close found in the coordinator")
	}
}

// ruleSessionLookupsNilChecked (round 9): a replica's session can be unregistered at any moment (its stream ends, the
// heartbeat monitor drops it), so a lookup in Primary.sessions may answer nil even right after an ID was resolved from
// the same map. The handlers run inside the primary's gRPC server, where a nil dereference is not recovered — it ends
// the primary process. Every use of a looked-up session (as receiver, argument or dereference) lies behind a nil test
// of that value (or the comma-ok form).
func ruleSessionLookupsNilChecked(c *Ctx, r *Reporter) {
	r.Rule("session-lookups-are-nil-checked", 2)
	sf := c.Field("pkg/replication", "Primary", "sessions")
	if sf == nil {
		r.Unresolved("replication.Primary.sessions", "not found")
		return
	}
	isSessLookup := func(v ssa.Value) (*ssa.Lookup, bool) {
		lk, ok := v.(*ssa.Lookup)
		if !ok {
			return nil, false
		}
		return lk, isLoadOfField(lk.X, sf)
	}
	// getters: functions whose every return hands out a plain lookup
	getters := map[*ssa.Function]bool{}
	for _, fn := range c.KevoFns {
		if pkgOf(fn) != "pkg/replication" || fn.Signature.Results().Len() != 1 {
			continue
		}
		all := len(Returns(fn)) > 0
		for _, ret := range Returns(fn) {
			lk, ok := isSessLookup(ReturnValue(ret, 0))
			if !ok || lk.CommaOk {
				all = false
			}
		}
		if all {
			getters[fn] = true
		}
	}
	for _, fn := range c.KevoFns {
		if pkgOf(fn) != "pkg/replication" {
			continue
		}
		AllInstrs(fn, false, func(_ *ssa.Function, ins ssa.Instruction) {
			var v ssa.Value
			var okV ssa.Value // comma-ok flag, if any
			switch x := ins.(type) {
			case *ssa.Lookup:
				if _, is := isSessLookup(x); !is {
					return
				}
				if ex, ok := x.Index.(*ssa.Extract); ok { // keyed by the key of a range over the same map: the entry exists
					if nx, ok := ex.Tuple.(*ssa.Next); ok {
						if rg, ok := nx.Iter.(*ssa.Range); ok && isLoadOfField(rg.X, sf) {
							return
						}
					}
				}
				if x.CommaOk {
					for _, ref := range *x.Referrers() {
						if ex, ok := ref.(*ssa.Extract); ok {
							if ex.Index == 0 {
								v = ex
							} else {
								okV = ex
							}
						}
					}
				} else {
					v = x
				}
			case *ssa.Call:
				if f := x.Call.StaticCallee(); f != nil && getters[f] {
					v = x
				}
			}
			if v == nil || v.Referrers() == nil {
				return
			}
			safe := func(cond ssa.Value) (bool, bool) {
				if okV != nil {
					if cond == okV {
						return true, false
					}
					if u, ok := cond.(*ssa.UnOp); ok && u.Op == token.NOT && u.X == okV {
						return false, true
					}
				}
				t, trueIsNonNil, ok := nilTest(cond)
				if !ok || t != v {
					return false, false
				}
				if trueIsNonNil {
					return true, false
				}
				return false, true
			}
			cons := FnName(fn) + ":session@" + Path(v)
			var bad ssa.Instruction
			for _, ref := range *v.Referrers() {
				switch u := ref.(type) {
				case *ssa.BinOp, *ssa.Return, *ssa.Phi, *ssa.Store, *ssa.MapUpdate, *ssa.MakeInterface, *ssa.DebugRef, *ssa.Extract:
					continue // comparisons, hand-ons
				case ssa.CallInstruction:
					if bi, ok := u.Common().Value.(*ssa.Builtin); ok && bi.Name() != "" {
						continue
					}
				}
				if !GuardedBy(ref.Block(), safe) {
					bad = ref
				}
			}
			if bad != nil {
				r.Bad(cons, c.InsPos(bad), "a session looked up in Primary.sessions is used without a nil test of the lookup's answer: sessions are unregistered concurrently (stream end, heartbeat drop), so the answer can be nil even right after the ID was resolved — a nil dereference inside a gRPC handler is not recovered and ends the primary process")
				return
			}
			r.OK(cons, c.InsPos(ins), "every use lies behind a nil test (or comma-ok) of the lookup")
		})
	}
}

// ruleHeartbeatMonitorAlwaysStarts (round 9): the heartbeat manager's loop does two things — it sends keep-alives and it
// drops sessions that have been silent for too long. start() may decline only because the loop already runs; declining
// for a configuration reason ("heartbeats disabled") also switches off the drop, and a replica that went silent with
// its stream still open stays in the topology, is pushed to and pins log retention for ever.
func ruleHeartbeatMonitorAlwaysStarts(c *Ctx, r *Reporter) {
	r.Rule("heartbeat-monitor-always-starts", 1)
	fn := c.Func("pkg/replication", "heartbeatManager", "start")
	run := c.Field("pkg/replication", "heartbeatManager", "running")
	cons := "replication.heartbeatManager.start"
	if fn == nil || run == nil {
		r.Unresolved(cons+" / heartbeatManager.running", "not found")
		return
	}
	running := func(cond ssa.Value) (bool, bool) {
		if isLoadOfField(cond, run) {
			return true, false
		}
		return false, false
	}
	var rets []ssa.Instruction
	for _, ret := range Returns(fn) {
		rets = append(rets, ret)
	}
	bad, path := MustPassE(fn, rets, func(i ssa.Instruction) bool {
		_, isGo := i.(*ssa.Go)
		return isGo
	}, PruneFactEdges(running))
	if bad != nil {
		r.Bad(cons, c.InsPos(bad), "start() can return without launching the monitor loop although it is not running: the loop is also what drops silent sessions (inactivity timeout), so a replica that stops responding with its stream still open is never removed from the topology", c.PathString(path)...)
		return
	}
	r.OK(cons, c.FnPos(fn), "the only way past the launch is 'already running'")
}

// ruleApplierStartsBehindItsPosition (round 9): a batch applier created for a replica that resumes at sequence N has
// applied N and expects N+1. If the two fields disagree at construction (expected = 1 with applied = N — a shadowed
// variable is enough), the replica asks the primary for the log from the start and applies 1..N a second time on top of
// the state after N. The value stored to expectedNextSeq in NewWALBatchApplier is startSeq+1 (the constant 1 may appear
// only as the alternative for startSeq == 0, where it is the same number).
func ruleApplierStartsBehindItsPosition(c *Ctx, r *Reporter) {
	r.Rule("applier-expects-the-successor-of-its-start", 1)
	fn := c.Func("pkg/replication", "", "NewWALBatchApplier")
	exp := c.Field("pkg/replication", "WALBatchApplier", "expectedNextSeq")
	cons := "replication.NewWALBatchApplier:expectedNextSeq"
	if fn == nil || exp == nil || len(fn.Params) < 1 {
		r.Unresolved("replication.NewWALBatchApplier / WALBatchApplier.expectedNextSeq", "not found")
		return
	}
	p := ssa.Value(fn.Params[0])
	var st *ssa.Store
	AllInstrs(fn, false, func(_ *ssa.Function, ins ssa.Instruction) {
		if s, ok := ins.(*ssa.Store); ok && fieldVarOf(s.Addr) == exp {
			st = s
		}
	})
	if st == nil {
		r.Bad(cons, c.FnPos(fn), "the constructor does not set expectedNextSeq: a resumed applier expects sequence 0")
		return
	}
	succ, other := 0, 0
	var leaves func(v ssa.Value, d int)
	leaves = func(v ssa.Value, d int) {
		v = stripConv(v)
		if d > 5 {
			other++
			return
		}
		switch x := v.(type) {
		case *ssa.Phi:
			for _, e := range x.Edges {
				leaves(e, d+1)
			}
			return
		case *ssa.BinOp:
			if x.Op == token.ADD {
				a, b := stripConv(x.X), stripConv(x.Y)
				if k, isK := constInt(b); isK && k == 1 && a == p {
					succ++
					return
				}
				if k, isK := constInt(a); isK && k == 1 && b == p {
					succ++
					return
				}
			}
		case *ssa.Const:
			if k, isK := constInt(x); isK && k == 1 {
				return // the startSeq == 0 alternative
			}
		}
		other++
	}
	leaves(st.Val, 0)
	r.Check(succ > 0 && other == 0, cons, c.InsPos(st), "expectedNextSeq = startSeq + 1",
		"the value stored to expectedNextSeq is not startSeq+1 on the resuming path ("+Path(st.Val)+"): an applier created for a replica that resumes at N holds 'applied N' and 'expects something else' — the replica requests the log from there and re-applies entries it already has, on top of the state after N")
}

// ruleSenderSendsWhatIsInTheLog (round 9): whatever the primary's log holds was accepted by the primary and has to reach the
// replica; the senders skip an entry they cannot convert and the replica then sees a hole it can never get past. The
// conversion of a log entry for the wire (WALEntryToProto, SerializeWALEntry) may therefore not refuse an entry because
// of its SIZE: no failing exit decided by a comparison on the length of the payload, key or value.
func ruleSenderSendsWhatIsInTheLog(c *Ctx, r *Reporter) {
	r.Rule("sender-converts-every-log-entry", 2)
	isLen := func(v ssa.Value) bool { return lenArgOf(v) != nil }
	for _, name := range []string{"WALEntryToProto", "SerializeWALEntry"} {
		fn := c.Func("pkg/replication", "", name)
		cons := "replication." + name
		if fn == nil {
			r.Unresolved(cons, "not found")
			continue
		}
		sizeTest := func(cond ssa.Value) (bool, bool) {
			bo, ok := cond.(*ssa.BinOp)
			if !ok {
				return false, false
			}
			switch bo.Op {
			case token.LSS, token.GTR, token.LEQ, token.GEQ:
			default:
				return false, false
			}
			for _, o := range []ssa.Value{bo.X, bo.Y} {
				if k, isK := constInt(o); isK && k <= 1 {
					return false, false
				}
			}
			if flowsFromPred(bo.X, isLen, 0, map[ssa.Value]bool{}) || flowsFromPred(bo.Y, isLen, 0, map[ssa.Value]bool{}) {
				return true, true
			}
			return false, false
		}
		var bad ssa.Instruction
		n := 0
		for _, ret := range Returns(fn) {
			if ClassifyReturn(ret) == ExitSuccess {
				continue
			}
			n++
			if GuardedBy(ret.Block(), sizeTest) {
				bad = ret
			}
		}
		if bad != nil {
			r.Bad(cons, c.InsPos(bad), "the conversion of a log entry for the wire fails on a comparison of a length: the senders skip an entry they cannot convert, the batch goes out with a hole, the replica answers 'gap', asks again and gets the same hole — the entry and everything written after it never replicate")
		} else {
			r.OK(cons, c.FnPos(fn), fmt.Sprintf("none of the %d failing exits is decided by a size", n))
		}
	}
}

// ruleEveryStateChangeIsRecorded (round 9): the replica's reconnect back-off is computed from the time of the latest recorded
// transition into the current state (GetStateDuration, falling back to the tracker's creation time). A function of the
// state tracker that changes currentState without appending the transition (or resetting the history together with
// the start time) makes that duration the replica's uptime; the pause before every reconnect — and this replica
// reconnects after every batch — grows to its 60 s cap.
func ruleEveryStateChangeIsRecorded(c *Ctx, r *Reporter) {
	r.Rule("every-state-change-is-recorded", 2)
	cur := c.Field("pkg/replication", "StateTracker", "currentState")
	var hist *types.Var
	if n := c.Named("pkg/replication", "StateTracker"); n != nil {
		if st, ok := n.Underlying().(*types.Struct); ok {
			for i := 0; i < st.NumFields(); i++ {
				if strings.HasPrefix(st.Field(i).Name(), "transitions") {
					hist = st.Field(i)
				}
			}
		}
	}
	if cur == nil || hist == nil {
		r.Unresolved("replication.StateTracker.{currentState,transitions}", "not found")
		return
	}
	for _, fn := range c.KevoFns {
		if pkgOf(fn) != "pkg/replication" || recvTypeName(fn) != "replication.StateTracker" || fn.Parent() != nil {
			continue
		}
		var stores []ssa.Instruction
		AllInstrs(fn, false, func(_ *ssa.Function, ins ssa.Instruction) {
			if st, ok := ins.(*ssa.Store); ok && fieldVarOf(st.Addr) == cur {
				stores = append(stores, ins)
			}
		})
		if len(stores) == 0 {
			continue
		}
		cons := FnName(fn)
		recorded := false
		for _, h := range withSameReceiverHelpers(fn) {
			if st, ok := h.ins.(*ssa.Store); ok && fieldVarOf(st.Addr) == hist {
				// on the path of every state store? judged by dominance either way round (append before or after)
				for _, s := range stores {
					if Dominates(h.at, s) || Dominates(s, h.at) {
						recorded = true
					}
				}
			}
		}
		r.Check(recorded, cons, c.InsPos(stores[0]), "the state change is accompanied by a write of the transition history",
			"the tracker's state changes without the transition being recorded: GetStateDuration finds no entry into the new state and answers with the time since the tracker was created — the reconnect back-off computed from it grows with the replica's uptime up to its cap, and a catch-up that needs many reconnects takes a minute per hundred entries")
	}
}

// chanFieldOf: the struct field a channel value was loaded from (directly, or via a MakeChan that the same function
// stores into the field).
func chanFieldOf(v ssa.Value) *types.Var {
	switch x := v.(type) {
	case *ssa.UnOp:
		if x.Op == token.MUL {
			return fieldVarOf(x.X)
		}
	case *ssa.MakeChan:
		if x.Referrers() != nil {
			for _, ref := range *x.Referrers() {
				if st, ok := ref.(*ssa.Store); ok && st.Val == ssa.Value(x) {
					if fv := fieldVarOf(st.Addr); fv != nil {
						return fv
					}
				}
			}
		}
	case *ssa.Phi:
		for _, e := range x.Edges {
			if fv := chanFieldOf(e); fv != nil {
				return fv
			}
		}
	case *ssa.ChangeType:
		return chanFieldOf(x.X)
	}
	return nil
}

// ruleSharedWaitsAreBroadcast (round 10): a channel published in a struct field can be waited on by any number of callers.
// Waiters that block in a plain receive (no select with a way out) are released together only by close(); a send
// releases exactly one of them and the others wait for ever ("coalescing" N concurrent flush calls onto one in-flight
// flush and signalling completion with `done <- struct{}{}`). A plain receive on a field-published channel therefore
// needs a close() of that channel somewhere — unless the function itself sent on it before (a semaphore: acquire by
// send, release by receive).
func ruleSharedWaitsAreBroadcast(c *Ctx, r *Reporter) {
	r.Rule("shared-waits-are-released-by-close", 0)
	closed := map[*types.Var]bool{}
	for _, fn := range c.KevoFns {
		AllInstrs(fn, false, func(_ *ssa.Function, ins ssa.Instruction) {
			if call, ok := ins.(ssa.CallInstruction); ok {
				if b, isB := call.Common().Value.(*ssa.Builtin); isB && b.Name() == "close" && len(call.Common().Args) == 1 {
					if fv := chanFieldOf(call.Common().Args[0]); fv != nil {
						closed[fv] = true
					}
				}
			}
		})
	}
	n := 0
	for _, fn := range c.KevoFns {
		if !strings.HasPrefix(pkgOf(fn), "pkg/") {
			continue
		}
		// semaphore use: the same call sent on the channel before it receives (acquire by send, release by receive);
		// for a receive inside a closure (a deferred release) a send anywhere in the enclosing function counts
		sends := map[*types.Var][]ssa.Instruction{}
		AllInstrs(topParent(fn), true, func(_ *ssa.Function, ins ssa.Instruction) {
			switch x := ins.(type) {
			case *ssa.Send:
				if fv := chanFieldOf(x.Chan); fv != nil {
					sends[fv] = append(sends[fv], ins)
				}
			case *ssa.Select:
				for _, st := range x.States {
					if st.Dir == types.SendOnly {
						if fv := chanFieldOf(st.Chan); fv != nil {
							sends[fv] = append(sends[fv], ins)
						}
					}
				}
			}
		})
		AllInstrs(fn, false, func(_ *ssa.Function, ins ssa.Instruction) {
			u, ok := ins.(*ssa.UnOp)
			if !ok || u.Op != token.ARROW {
				return
			}
			fv := chanFieldOf(u.X)
			if fv == nil {
				return
			}
			for _, sd := range sends[fv] {
				if sd.Parent() != fn || Dominates(sd, ins) {
					return
				}
			}
			if tc, ok := fv.Type().Underlying().(*types.Chan); !ok || tc.Dir() == types.RecvOnly {
				return
			}
			// a data channel drained by one consumer is not a wait of many: only signal channels (no payload) are judged
			if tc := fv.Type().Underlying().(*types.Chan); !strings.HasPrefix(tc.Elem().String(), "struct{}") && tc.Elem().String() != "bool" {
				return
			}
			n++
			cons := FnName(fn) + ":<-" + fv.Name()
			r.Check(closed[fv], cons, c.InsPos(ins), "the channel waited on is released by close()",
				"a plain receive waits on a channel published in the field "+fv.Name()+", and nothing ever closes that channel: completion is signalled by a send, which releases ONE waiter — with several callers waiting for the same event all but one block for ever")
		})
	}
	if n == 0 {
		r.Info("shared signal channels", "-", "no plain receive on a field-published signal channel")
	}
}

// ruleNoCapOnLocatorSize (round 10): the third place where "a sanity cap" on the block size can be put — any function of
// the table reader that branches on a comparison of a block locator's Size with a constant. The writer cuts a block
// after the entry that crosses the target size, so a block is as large as the largest value; a reader that refuses a
// "too large" block makes the iterator go invalid silently (no error path is looked at), and the key and everything
// behind it vanish from scans and seeks.
func ruleNoCapOnLocatorSize(c *Ctx, r *Reporter) {
	r.Rule("fetcher-accepts-every-block-size", 1)
	isLocSize := func(v ssa.Value) bool {
		v = stripNumConv(v)
		var fv *types.Var
		switch x := v.(type) {
		case *ssa.Field:
			fv = fieldVarOf(x)
		case *ssa.UnOp:
			if x.Op == token.MUL {
				fv = fieldVarOf(x.X)
			}
		}
		return fv != nil && fv.Name() == "Size" && fv.Pkg() != nil && strings.HasSuffix(fv.Pkg().Path(), "pkg/sstable")
	}
	var bad ssa.Instruction
	var badFn *ssa.Function
	for _, fn := range c.KevoFns {
		if pkgOf(fn) != "pkg/sstable" {
			continue
		}
		AllInstrs(fn, false, func(_ *ssa.Function, ins ssa.Instruction) {
			iff, ok := ins.(*ssa.If)
			if !ok {
				return
			}
			var has func(v ssa.Value, d int) bool
			has = func(v ssa.Value, d int) bool {
				if d > 3 {
					return false
				}
				switch x := v.(type) {
				case *ssa.BinOp:
					switch x.Op {
					case token.GTR, token.GEQ, token.LSS, token.LEQ:
						a, b := x.X, x.Y
						if _, isK := constInt(a); isK {
							a, b = b, a
						}
						if k, isK := constInt(b); isK && k > 1 && k < 1<<32-1 && isLocSize(a) {
							return true
						}
					}
				case *ssa.UnOp:
					return has(x.X, d+1)
				case *ssa.Phi:
					for _, e := range x.Edges {
						if has(e, d+1) {
							return true
						}
					}
				}
				return false
			}
			if has(iff.Cond, 0) {
				bad, badFn = ins, fn
			}
		})
	}
	if bad != nil {
		r.Bad("sstable."+badFn.Name()+":locator-size-cap", c.InsPos(bad), "a function of the table reader branches on a comparison of a block locator's size with a constant: the writer produces blocks as large as the largest value, so a block above the cap is written and then refused at read time — the table iterator goes invalid without an error anyone looks at, and the key and everything behind it disappear from scans and seeks")
		return
	}
	r.OK("sstable:locator-size-cap", "-", "no function of the table reader compares a block locator's size with a constant")
}

// ruleLoaderLoadsEveryTable (round 10): opening a database loads every *.sst file of the table directory; a file that is
// skipped is data that silently stops existing (its keys read as not found, or as an older version). In the directory
// loop of storage.Manager.loadSSTables the only entries passed over are directories and files with another extension:
// every other iteration appends a reader to the table list or ends the function with the error. (Compactions number
// their outputs from 1 and write to levels the configuration does not bound, so "a duplicate number" or "a level that is
// not configured" are not strays.)
func ruleLoaderLoadsEveryTable(c *Ctx, r *Reporter) {
	r.Rule("loader-loads-every-table-file", 1)
	fn := c.Func("pkg/engine/storage", "Manager", "loadSSTables")
	tabs := c.Field("pkg/engine/storage", "Manager", "sstables")
	cons := "storage.Manager.loadSSTables:directory-loop"
	if fn == nil || tabs == nil {
		r.Unresolved("storage.Manager.loadSSTables / Manager.sstables", "not found")
		return
	}
	loop := rangeOrIndexLoop(fn, func(v ssa.Value) bool {
		if ex, ok := v.(*ssa.Extract); ok {
			if call, ok := ex.Tuple.(*ssa.Call); ok && staticName(call) == "os.ReadDir" {
				return true
			}
		}
		return false
	})
	if loop == nil {
		r.Undecided(cons, c.FnPos(fn), "no range loop over the directory listing found")
		return
	}
	filtered := func(cond ssa.Value) (bool, bool) { // edges on which the entry is a directory or not a table file
		switch x := cond.(type) {
		case *ssa.Call:
			if x.Call.IsInvoke() && x.Call.Method.Name() == "IsDir" {
				return true, false
			}
		case *ssa.BinOp:
			for _, pair := range [][2]ssa.Value{{x.X, x.Y}, {x.Y, x.X}} {
				if call, ok := pair[0].(*ssa.Call); ok && staticName(call) == "path/filepath.Ext" {
					if _, isS := constString(pair[1]); isS {
						switch x.Op {
						case token.NEQ:
							return true, false
						case token.EQL:
							return false, true
						}
					}
				}
			}
		}
		return false, false
	}
	appended := func(i ssa.Instruction) bool {
		if st, ok := i.(*ssa.Store); ok && fieldVarOf(st.Addr) == tabs {
			if call, ok := st.Val.(*ssa.Call); ok {
				if b, isB := call.Call.Value.(*ssa.Builtin); isB && b.Name() == "append" {
					return true
				}
			}
		}
		return false
	}
	bad, path := loop.IterationMustPass(appended, PruneFactEdges(filtered))
	if bad != nil {
		r.Bad(cons, c.blockPos(loop.Body), "an iteration over a *.sst file of the table directory can go on to the next file without appending a reader to the table list (and without failing the open): the file's data is left out of the database — keys whose only or newest version is in it read as not found or as an older value after the reopen", c.PathString(path)...)
		return
	}
	r.OK(cons, c.blockPos(loop.Body), "every *.sst entry is opened and appended, or the open fails")
}

// ruleMemTablePutAlwaysInserts (round 10): the memtable is multi-version — every accepted write becomes a new entry. A Put or
// Delete that returns without inserting, for any reason other than the table being immutable, drops an acknowledged
// write that is already in the log ("the value is unchanged": a tombstone's nil equals the empty value; "the key is not
// there": its only copy is in a table file).
func ruleMemTablePutAlwaysInserts(c *Ctx, r *Reporter) {
	r.Rule("memtable-writes-always-insert", 2)
	imm := c.Func("pkg/memtable", "MemTable", "IsImmutable")
	for _, name := range []string{"Put", "Delete"} {
		fn := c.Func("pkg/memtable", "MemTable", name)
		cons := "memtable.MemTable." + name
		if fn == nil {
			r.Unresolved(cons, "not found")
			continue
		}
		immutable := func(cond ssa.Value) (bool, bool) {
			if call, ok := cond.(*ssa.Call); ok && imm != nil && call.Call.StaticCallee() == imm {
				return true, false
			}
			if u, ok := cond.(*ssa.UnOp); ok && u.Op == token.MUL {
				if fv := fieldVarOf(u.X); fv != nil && strings.Contains(strings.ToLower(fv.Name()), "immutable") {
					return true, false
				}
			}
			if call, ok := cond.(*ssa.Call); ok {
				if f := call.Call.StaticCallee(); f != nil && f.Name() == "Load" && len(call.Call.Args) > 0 {
					if fv := fieldVarOf(call.Call.Args[0]); fv != nil && strings.Contains(strings.ToLower(fv.Name()), "immutable") {
						return true, false
					}
				}
			}
			return false, false
		}
		var rets []ssa.Instruction
		for _, ret := range Returns(fn) {
			rets = append(rets, ret)
		}
		bad, path := MustPassE(fn, rets, func(i ssa.Instruction) bool {
			call, ok := i.(*ssa.Call)
			return ok && call.Call.StaticCallee() != nil && call.Call.StaticCallee().Name() == "Insert" && recvTypeName(call.Call.StaticCallee()) == "memtable.SkipList"
		}, PruneFactEdges(immutable))
		if bad != nil {
			r.Bad(cons, c.InsPos(bad), "the memtable's "+name+" can return without inserting an entry although the table is mutable: the write is in the log and acknowledged but not in the table — a 'value unchanged' shortcut, for one, drops the put of an empty value onto a deleted key (a tombstone's nil equals the empty value), and the key stays deleted through flush and reopen", c.PathString(path)...)
			continue
		}
		r.OK(cons, c.FnPos(fn), "the only way past the insert is 'the table is immutable'")
	}
}

// ruleFacadeErrorMeansNoEffect (round 10): a write that reports an error took no effect. Once the storage layer has accepted
// a Put/Delete (its error is nil) the facade has nothing left to fail on: no failing exit is reachable behind the
// success edge of the storage call (a read-back "verification" races with the next writer of the same key and reports
// an error for a write that was applied and seen).
func ruleFacadeErrorMeansNoEffect(c *Ctx, r *Reporter) {
	r.Rule("facade-write-fails-only-if-storage-refused", 2)
	for _, name := range []string{"Put", "Delete"} {
		fn := c.Func("pkg/engine", "EngineFacade", name)
		cons := "engine.EngineFacade." + name
		if fn == nil {
			r.Unresolved(cons, "not found")
			continue
		}
		var st *ssa.Call
		AllInstrs(fn, false, func(_ *ssa.Function, ins ssa.Instruction) {
			if call, ok := ins.(*ssa.Call); ok && call.Call.IsInvoke() && call.Call.Method.Name() == name && strings.HasSuffix(call.Call.Value.Type().String(), "interfaces.StorageManager") {
				st = call
			}
		})
		if st == nil {
			r.Undecided(cons, c.FnPos(fn), "no call of storage."+name+" found")
			continue
		}
		okF := callOKFactFor(st)
		failedF := func(cond ssa.Value) (bool, bool) {
			t, f := okF(cond)
			return f, t
		}
		var bad ssa.Instruction
		k := errResultIndex(fn)
		for _, ret := range Returns(fn) {
			if ClassifyReturn(ret) == ExitFailure && GuardedBy(ret.Block(), okF) {
				bad = ret
			}
			if k < 0 || k >= len(ret.Results) {
				continue
			}
			// an error made after the storage call that is not the storage call's own (nor a wrapping of it on its failure edge)
			seen := map[ssa.Value]bool{}
			var walk func(v ssa.Value, d int)
			walk = func(v ssa.Value, d int) {
				if d > 6 || seen[v] {
					return
				}
				seen[v] = true
				switch x := v.(type) {
				case *ssa.Phi:
					for _, e := range x.Edges {
						walk(e, d+1)
					}
				case *ssa.MakeInterface:
					walk(x.X, d+1)
				case *ssa.Call:
					if x == st || !Dominates(st, x) {
						return
					}
					if !GuardedBy(x.Block(), failedF) {
						bad = x
					}
				}
			}
			walk(ReturnValue(ret, k), 0)
		}
		if bad != nil {
			r.Bad(cons, c.InsPos(bad), name+" can report an error although the storage layer accepted the write: the write is in the log and visible to readers, and the caller is told it failed")
			continue
		}
		r.OK(cons, c.FnPos(fn), "no failing exit behind the success edge of storage."+name)
	}
}

// ruleRetentionCallers (round 10): wal.ManageRetention deletes closed log segments. The sequence counter, the unflushed
// tail after a crash and a replica's catch-up are all recovered from those segments, so who may delete them is a
// reviewed set: the replication primary (bounded by what every replica has acknowledged). A new caller — "prune what
// was flushed" — removes the only record of the highest sequence number: after the next restart the counter restarts at 1.
func ruleRetentionCallers(c *Ctx, r *Reporter) {
	r.Rule("log-segments-deleted-only-by-reviewed-callers", 1)
	mr := c.Func("pkg/wal", "WAL", "ManageRetention")
	if mr == nil {
		r.Unresolved("wal.WAL.ManageRetention", "not found")
		return
	}
	reviewed := map[string]string{"replication.Primary.maybeManageWALRetention": "bounded by the minimum acknowledged sequence of the connected replicas"}
	n := 0
	for _, e := range c.Callers(mr) {
		if e.Site == nil || !c.InKevo(e.Caller.Func) {
			continue
		}
		n++
		caller := FnName(c.siteOwner(topParent(e.Caller.Func)))
		cons := "wal.WAL.ManageRetention<-" + FnName(topParent(e.Caller.Func))
		_, ok := reviewed[FnName(topParent(e.Caller.Func))]
		if !ok {
			_, ok = reviewed[caller]
		}
		r.Check(ok, cons, c.InsPos(e.Site), "reviewed caller: "+reviewed[FnName(topParent(e.Caller.Func))],
			"closed log segments are deleted from a caller outside the reviewed set: the segments are the only record of the highest sequence number (tables are not consulted at recovery), of the unflushed tail and of what a lagging replica still needs — pruning 'what was flushed' makes the counter restart at 1 after the next restart with no write in between")
	}
	if n == 0 {
		r.Info("wal.WAL.ManageRetention", c.FnPos(mr), "no caller in the module")
	}
}

// ruleWriterWritesEveryFilter (round 10): the other half of every-block-filter-is-loaded. Reader.Get skips a block it finds
// no filter for, so once a table has a filter section it needs the filter of every block: the loop in Writer.Finish
// that serialises the collected filters writes each of them — no iteration goes on to the next filter without the
// write ("too few keys to be worth a filter").
func ruleWriterWritesEveryFilter(c *Ctx, r *Reporter) {
	r.Rule("every-block-filter-is-written", 1)
	fn := c.Func("pkg/sstable", "Writer", "Finish")
	bf := c.Field("pkg/sstable", "Writer", "bloomFilters")
	cons := "sstable.Writer.Finish:filter-loop"
	if fn == nil || bf == nil {
		r.Unresolved("sstable.Writer.Finish / Writer.bloomFilters", "not found")
		return
	}
	loop := rangeOrIndexLoop(fn, func(v ssa.Value) bool { return isLoadOfField(v, bf) })
	if loop == nil {
		r.Undecided(cons, c.FnPos(fn), "no range loop over Writer.bloomFilters found")
		return
	}
	writes := func(i ssa.Instruction) bool {
		call, ok := i.(ssa.CallInstruction)
		if !ok {
			return false
		}
		if f := call.Common().StaticCallee(); f != nil {
			switch f.Name() {
			case "Write", "Serialize", "WriteTo":
				return f.Name() != "Serialize" // Serialize alone does not write; the write of its result does
			}
		}
		if call.Common().IsInvoke() && call.Common().Method.Name() == "Write" {
			return true
		}
		return false
	}
	bad, path := loop.IterationMustPass(func(i ssa.Instruction) bool {
		if writes(i) {
			return true
		}
		_, isRet := i.(*ssa.Return) // an iteration that ends the function with an error is not a skipped filter
		return isRet
	}, nil)
	if bad != nil {
		r.Bad(cons, c.blockPos(loop.Body), "an iteration over the collected block filters can go on to the next one without writing this one: the table then has a filter section that lacks some blocks, and Reader.Get — which skips a block it finds no filter for — answers not-found for every key of those blocks (iteration and seeks still see them)", c.PathString(path)...)
		return
	}
	r.OK(cons, c.blockPos(loop.Body), "every collected filter is written (or Finish fails)")
}

// ruleNoTryLockFallbacks (round 10): this code base takes its locks unconditionally. A TryLock/TryRLock with a fallback
// ("do not queue behind the writer: answer from the last snapshot / the acknowledged position / a cached value") answers
// with something other than the protected state exactly when the state is being changed — the reported sequence
// drops, an iterator starts behind writes that have returned. Each use is reported.
func ruleNoTryLockFallbacks(c *Ctx, r *Reporter) {
	r.Rule("no-trylock-fallbacks", 0)
	n := 0
	for _, fn := range c.KevoFns {
		if !strings.HasPrefix(pkgOf(fn), "pkg/") {
			continue
		}
		AllInstrs(fn, false, func(_ *ssa.Function, ins ssa.Instruction) {
			call, ok := ins.(ssa.CallInstruction)
			if !ok {
				return
			}
			f := call.Common().StaticCallee()
			if f == nil || f.Pkg == nil || f.Pkg.Pkg.Path() != "sync" {
				return
			}
			if f.Name() == "TryLock" || f.Name() == "TryRLock" {
				n++
				r.Bad(FnName(fn)+":"+f.Name(), c.InsPos(ins), "a try-lock with a fallback path: when the lock is held — that is, while the protected state is being changed — the function answers from somewhere else (a remembered snapshot, another counter, a cache). Readers of that answer see the state go backwards or miss writes that have already returned; every lock in this code base is taken unconditionally")
			}
		})
	}
	if n == 0 {
		r.OK("pkg:try-locks", "-", "no TryLock/TryRLock in the module's packages")
	}
}

// ruleFilteredNextScansToMatch (round 10): the filtering iterator's contract with its callers is "Next returns false only at
// the end": SeekToFirst calls Next once, Valid() re-applies the filter, and the service's scan loops stop at the first
// false. The skip loop of FilteredIterator.Next is left only because the wrapped iterator is exhausted or the filter
// matched — never on a count of skipped keys (a "budget per call" silently truncates prefix and suffix scans whose
// matches sit behind a long run of other keys).
func ruleFilteredNextScansToMatch(c *Ctx, r *Reporter) {
	r.Rule("filtered-next-ends-only-at-a-match-or-the-end", 1)
	fn := c.Func("pkg/common/iterator/filtered", "FilteredIterator", "Next")
	cons := "filtered.FilteredIterator.Next"
	if fn == nil {
		r.Unresolved(cons, "not found")
		return
	}
	var bad ssa.Instruction
	for _, b := range fn.Blocks {
		if len(b.Instrs) == 0 {
			continue
		}
		iff, ok := b.Instrs[len(b.Instrs)-1].(*ssa.If)
		if !ok {
			continue
		}
		var numeric func(v ssa.Value, d int) bool
		numeric = func(v ssa.Value, d int) bool {
			if d > 4 {
				return false
			}
			switch x := v.(type) {
			case *ssa.BinOp:
				switch x.Op {
				case token.LSS, token.GTR, token.LEQ, token.GEQ, token.EQL, token.NEQ:
					if bt, ok := x.X.Type().Underlying().(*types.Basic); ok && bt.Info()&types.IsInteger != 0 {
						return true
					}
				}
			case *ssa.UnOp:
				return numeric(x.X, d+1)
			case *ssa.Phi:
				for _, e := range x.Edges {
					if numeric(e, d+1) {
						return true
					}
				}
			}
			return false
		}
		if numeric(iff.Cond, 0) {
			bad = iff
		}
	}
	r.Check(bad == nil, cons, func() string {
		if bad != nil {
			return c.InsPos(bad)
		}
		return c.FnPos(fn)
	}(), "Next is steered only by the wrapped iterator and the filter",
		"FilteredIterator.Next branches on a number (a count of skipped keys, a budget): it can return false before the wrapped iterator is exhausted, and its callers take false for the end — SeekToFirst calls it once, the service's scan loops stop — so a prefix or suffix scan whose matches lie behind a long run of other keys comes back truncated or empty")
}

// ruleConfigWrittenOnlyInConfigPkg (round 10): the configuration object the engine loaded from the MANIFEST is shared by
// every component and is what SaveManifest writes back. Outside pkg/config nobody assigns its fields after the load (a
// component that "clamps" a setting in the shared object changes what the next SaveManifest stores: the database is
// reopened with a configuration it was not created with). Components that need an adjusted value keep it locally.
func ruleConfigWrittenOnlyInConfigPkg(c *Ctx, r *Reporter) {
	r.Rule("shared-config-is-not-modified-by-components", 0)
	cfg := c.Named("pkg/config", "Config")
	if cfg == nil {
		r.Unresolved("config.Config", "not found")
		return
	}
	n := 0
	for _, fn := range c.KevoFns {
		p := pkgOf(fn)
		if !strings.HasPrefix(p, "pkg/") || p == "pkg/config" {
			continue
		}
		AllInstrs(fn, false, func(_ *ssa.Function, ins ssa.Instruction) {
			st, ok := ins.(*ssa.Store)
			if !ok {
				return
			}
			fa, ok := st.Addr.(*ssa.FieldAddr)
			if !ok {
				return
			}
			t := fa.X.Type()
			if pt, ok := t.Underlying().(*types.Pointer); ok {
				t = pt.Elem()
			}
			if t != types.Type(cfg) {
				return
			}
			if _, fresh := fa.X.(*ssa.Alloc); fresh {
				return // a configuration being built in this function
			}
			if call, ok := fa.X.(*ssa.Call); ok && call.Call.StaticCallee() != nil && strings.HasPrefix(call.Call.StaticCallee().Name(), "NewDefault") {
				return
			}
			n++
			fv := fieldVarOf(fa)
			name := "?"
			if fv != nil {
				name = fv.Name()
			}
			r.Bad(FnName(fn)+":Config."+name, c.InsPos(ins), "a component assigns a field of the shared configuration object (the one loaded from the MANIFEST and written back by SaveManifest): the adjusted value replaces the stored one at the next save, and the database is reopened with a configuration it was not created with")
		})
	}
	if n == 0 {
		r.OK("pkg:config-field-stores", "-", "no component outside pkg/config assigns a field of a shared *config.Config")
	}
}

// ruleReplicaDialsReportedAddress (round 10): Manager.GetNodeInfo reports ManagerConfig.PrimaryAddr as the replica's primary.
// That is truthful only if it is the address the replica dials: startReplica copies it into the replica's connection
// configuration unconditionally, before the replica is created.
func ruleReplicaDialsReportedAddress(c *Ctx, r *Reporter) {
	r.Rule("replica-dials-the-address-it-reports", 1)
	fn := c.Func("pkg/replication", "Manager", "startReplica")
	pa := c.Field("pkg/replication", "ManagerConfig", "PrimaryAddr")
	cons := "replication.Manager.startReplica:PrimaryAddress"
	if fn == nil || pa == nil {
		r.Unresolved("replication.Manager.startReplica / ManagerConfig.PrimaryAddr", "not found")
		return
	}
	var st ssa.Instruction
	var mk ssa.Instruction
	AllInstrs(fn, false, func(_ *ssa.Function, ins ssa.Instruction) {
		switch x := ins.(type) {
		case *ssa.Store:
			if fv := fieldVarOf(x.Addr); fv != nil && fv.Name() == "PrimaryAddress" && isLoadOfField(x.Val, pa) {
				st = ins
			}
		case *ssa.Call:
			if f := x.Call.StaticCallee(); f != nil && f.Name() == "NewReplica" {
				mk = ins
			}
		}
	})
	switch {
	case mk == nil:
		r.Undecided(cons, c.FnPos(fn), "no call of NewReplica found")
	case st == nil:
		r.Bad(cons, c.InsPos(mk), "the replica is created without the manager's PrimaryAddr being copied into its connection configuration: the address reported by GetNodeInfo is not the one dialed")
	default:
		r.Check(Dominates(st, mk), cons, c.InsPos(st), "the reported address is copied into the connection configuration on every path to NewReplica",
			"the manager's PrimaryAddr reaches the replica's connection configuration only on some paths: where it does not, the replica dials whatever the caller put there while GetNodeInfo goes on reporting ManagerConfig.PrimaryAddr — the node information names a primary the replica is not connected to (or none)")
	}
}

// ruleSourceFilesAreAPrefix (round 10): a compaction may move files of a level down only if no OLDER file of that level that
// shares keys with them stays behind (the older file would then sit above the newer data and shadow it). The size-ratio
// and promotion selections guarantee that by taking a prefix of the oldest-first order — on this tree the single oldest
// file. The set of source-level files of the task is therefore the first element (or a leading slice) of the sorted
// list, never a subset picked by a per-file condition ("the oldest and whatever overlaps it": a file in between that
// overlaps the picked ones but not the oldest stays behind, older than what sinks below it).
func ruleSourceFilesAreAPrefix(c *Ctx, r *Reporter) {
	r.Rule("source-files-are-a-prefix-of-the-oldest-first-order", 1)
	for _, name := range []string{"selectOverlappingCompaction", "selectPromotionCompaction"} {
		fn := c.Func("pkg/compaction", "TieredCompactionStrategy", name)
		cons := "compaction.TieredCompactionStrategy." + name + ":source-files"
		if fn == nil {
			continue
		}
		var levelP ssa.Value
		for _, p := range fn.Params {
			if p.Type().String() == "int" {
				levelP = p
			}
		}
		if levelP == nil {
			continue
		}
		var upd *ssa.MapUpdate
		AllInstrs(fn, false, func(_ *ssa.Function, ins ssa.Instruction) {
			if mu, ok := ins.(*ssa.MapUpdate); ok && stripConv(mu.Key) == levelP {
				upd = mu
			}
		})
		if upd == nil {
			r.Info(cons, c.FnPos(fn), "no InputFiles[level] assignment found: not judged")
			continue
		}
		ok := false
		why := ""
		if els := sliceLiteralElems(upd.Value); len(els) > 0 {
			ok = true
			for k, e := range els {
				// element k must be sorted[k]
				ld, isLd := e.(*ssa.UnOp)
				if !isLd || ld.Op != token.MUL {
					ok = false
					break
				}
				ia, isIA := ld.X.(*ssa.IndexAddr)
				if !isIA {
					ok = false
					break
				}
				if idx, isK := constInt(ia.Index); !isK || idx != int64(k) {
					ok = false
				}
			}
			if !ok {
				why = "the listed elements are not sorted[0], sorted[1], …"
			}
		} else if sl, isSl := upd.Value.(*ssa.Slice); isSl {
			if sl.Low == nil {
				ok = true
			} else if k, isK := constInt(sl.Low); isK && k == 0 {
				ok = true
			} else {
				why = "a slice that does not start at the oldest file"
			}
		} else {
			why = "built by something other than a literal of leading elements or a leading slice (" + Path(upd.Value) + ")"
		}
		r.Check(ok, cons, c.InsPos(upd), "the source-level files of the task are the leading element(s) of the oldest-first list",
			"the files taken from the source level are not a prefix of the oldest-first order — "+why+": a file that is older than one of the picked files, shares keys with it and is not picked itself stays in the level while the newer data sinks below it; reads then find the older version first (an overwritten key reverts, a deleted key comes back)")
	}
}

// ruleApplierWrappersRecordAfterApply (round 10): whatever stands between the batch applier and the engine applier and keeps
// its own "highest sequence seen" has to advance it only when the wrapped Apply succeeded. Advancing first turns a failed
// apply into a skipped entry: the ordinary retransmission is swallowed as "already seen", the batch applier moves past
// it, and the replica reports a sequence it never applied. In every Apply method of pkg/replication that delegates to
// another applier, a store to a sequence field is not made on a path that has not yet seen the delegate succeed.
func ruleApplierWrappersRecordAfterApply(c *Ctx, r *Reporter) {
	r.Rule("applier-wrappers-record-after-the-apply", 0)
	n := 0
	for _, fn := range c.KevoFns {
		if pkgOf(fn) != "pkg/replication" || fn.Name() != "Apply" || fn.Signature.Recv() == nil || fn.Parent() != nil {
			continue
		}
		var del *ssa.Call
		AllInstrs(fn, false, func(_ *ssa.Function, ins ssa.Instruction) {
			if call, ok := ins.(*ssa.Call); ok && call.Call.IsInvoke() && call.Call.Method.Name() == "Apply" {
				del = call
			}
		})
		if del == nil {
			continue
		}
		okF := callOKFactFor(del)
		AllInstrs(fn, false, func(_ *ssa.Function, ins ssa.Instruction) {
			st, ok := ins.(*ssa.Store)
			if !ok {
				return
			}
			fa, ok := st.Addr.(*ssa.FieldAddr)
			if !ok || fa.X != ssa.Value(fn.Params[0]) {
				return
			}
			if bt, ok := st.Val.Type().Underlying().(*types.Basic); !ok || bt.Kind() != types.Uint64 {
				return
			}
			n++
			fv := fieldVarOf(fa)
			cons := FnName(fn) + ":" + fv.Name()
			r.Check(GuardedBy(ins.Block(), okF), cons, c.InsPos(ins), "the position is advanced behind the wrapped Apply's success",
				"a wrapper around the entry applier advances its own position ("+fv.Name()+") before the wrapped Apply has succeeded: when that Apply fails, the entry is already marked as seen — the retransmission is swallowed as a duplicate, the batch applier moves past it, the entry is never applied and the replica reports a sequence beyond what it has")
		})
	}
	if n == 0 {
		r.OK("pkg/replication:applier-wrappers", "-", "no delegating Apply keeps a position of its own")
	}
}

// rangeOrIndexLoop: the loop of fn that visits every element of the slice recognised by isSlice, first to last — a
// range loop, or an indexed loop `for i := 0; i < len(s); i++` (returned in RangeLoop shape so that IterationMustPass
// and Elems work alike).
func rangeOrIndexLoop(fn *ssa.Function, isSlice func(ssa.Value) bool) *RangeLoop {
	for _, l := range RangeLoops(fn) {
		if l.Slice != nil && isSlice(l.Slice) {
			return l
		}
	}
	for _, w := range IndexWalks(fn) {
		if w.Dir != "asc" || len(w.IndexAddr) == 0 || !isSlice(w.IndexAddr[0].X) || !walkCoversAllOf(w, isSlice) {
			continue
		}
		var body, done *ssa.BasicBlock
		for _, sc := range w.Loop.Header.Succs {
			if w.Loop.Contains(sc) {
				body = sc
			} else {
				done = sc
			}
		}
		if body == nil {
			continue
		}
		l := &RangeLoop{Header: w.Loop.Header, Body: body, Done: done, Slice: w.IndexAddr[0].X}
		for _, ia := range w.IndexAddr {
			if ia.Referrers() == nil {
				continue
			}
			for _, ref := range *ia.Referrers() {
				if ld, ok := ref.(*ssa.UnOp); ok && ld.Op == token.MUL {
					l.Elems = append(l.Elems, ld)
				}
			}
		}
		return l
	}
	return nil
}

// ruleObserversDoNotReenterTheLog (round 10): the log calls its observers from inside Append/AppendBatch/Sync with WAL.mu held,
// and WAL.mu is not reentrant. Nothing an observer callback of the primary reaches synchronously (goroutines it starts
// excepted) may acquire WAL.mu again — a "clean-up" or "re-evaluate retention" step added to a callback makes the writing
// goroutine wait on itself, and every later write of the primary hangs behind it.
func ruleObserversDoNotReenterTheLog(c *Ctx, r *Reporter) {
	r.Rule("observers-do-not-reenter-the-log", 3)
	walMu := c.Field("pkg/wal", "WAL", "mu")
	if walMu == nil {
		r.Unresolved("wal.WAL.mu", "not found")
		return
	}
	locksWAL := func(fn *ssa.Function) ssa.Instruction {
		var at ssa.Instruction
		AllInstrs(fn, false, func(_ *ssa.Function, ins ssa.Instruction) {
			call, ok := ins.(ssa.CallInstruction)
			if !ok {
				return
			}
			if _, isGo := ins.(*ssa.Go); isGo {
				return
			}
			f := call.Common().StaticCallee()
			if f == nil || f.Pkg == nil || f.Pkg.Pkg.Path() != "sync" || (f.Name() != "Lock" && f.Name() != "RLock") || len(call.Common().Args) == 0 {
				return
			}
			if fieldVarOf(call.Common().Args[0]) == walMu {
				at = ins
			}
		})
		return at
	}
	for _, name := range []string{"OnWALEntryWritten", "OnWALBatchWritten", "OnWALSync"} {
		root := c.Func("pkg/replication", "Primary", name)
		cons := "replication.Primary." + name
		if root == nil {
			r.Unresolved(cons, "not found")
			continue
		}
		parent := map[*ssa.Function]*ssa.Function{root: nil}
		work := []*ssa.Function{root}
		var hit *ssa.Function
		var hitAt ssa.Instruction
		for len(work) > 0 && hit == nil {
			fn := work[0]
			work = work[1:]
			if at := locksWAL(fn); at != nil {
				hit, hitAt = fn, at
				break
			}
			AllInstrs(fn, false, func(_ *ssa.Function, ins ssa.Instruction) {
				if _, isGo := ins.(*ssa.Go); isGo {
					return
				}
				ci, ok := ins.(ssa.CallInstruction)
				if !ok {
					return
				}
				for _, callee := range c.Callees(ci) {
					if _, seen := parent[callee]; !seen && c.InKevo(callee) {
						parent[callee] = fn
						work = append(work, callee)
					}
				}
			})
		}
		if hit != nil {
			var chain []string
			for f := hit; f != nil; f = parent[f] {
				chain = append([]string{FnName(f)}, chain...)
			}
			r.Bad(cons, c.InsPos(hitAt), "the observer callback, which the log calls with WAL.mu held, synchronously reaches a function that acquires WAL.mu ("+strings.Join(chain, " → ")+"): the mutex is not reentrant, so the writing goroutine waits on itself and every later write of the primary blocks behind it")
			continue
		}
		r.OK(cons, c.FnPos(root), fmt.Sprintf("none of the %d functions reached synchronously acquires WAL.mu", len(parent)))
	}
}

// ruleBackoffFromCurrentEpisodeOnly (round 10): this replica passes through ERROR and its back-off after every applied batch,
// so the pause must depend on the CURRENT error episode only (state and time in state). Anything cumulative over the
// replica's life — a count of failed connects in the transition history, the number of errors so far — makes every
// later catch-up step slower for ever: after a handful of failed dials early in its life the replica needs a minute per
// hundred entries. calculateBackoff asks the state tracker for GetState / GetStateDuration and nothing else.
func ruleBackoffFromCurrentEpisodeOnly(c *Ctx, r *Reporter) {
	r.Rule("backoff-depends-only-on-the-current-episode", 1)
	fn := c.Func("pkg/replication", "Replica", "calculateBackoff")
	cons := "replication.Replica.calculateBackoff"
	if fn == nil {
		r.Unresolved(cons, "not found")
		return
	}
	allowed := map[string]bool{"GetState": true, "GetStateDuration": true, "GetStateString": true}
	var bad ssa.Instruction
	what := ""
	n := 0
	for _, h := range withSameReceiverHelpers(fn) {
		call, ok := h.ins.(ssa.CallInstruction)
		if !ok {
			continue
		}
		f := call.Common().StaticCallee()
		if f == nil {
			continue
		}
		switch recvTypeName(f) {
		case "replication.StateTracker":
			n++
			if !allowed[f.Name()] {
				bad, what = h.at, "StateTracker."+f.Name()
			}
		case "replication.ReplicaStats":
			bad, what = h.at, "ReplicaStats."+f.Name()
		}
	}
	if n == 0 {
		r.Undecided(cons, c.FnPos(fn), "calculateBackoff does not consult the state tracker")
		return
	}
	r.Check(bad == nil, cons, func() string {
		if bad != nil {
			return c.InsPos(bad)
		}
		return c.FnPos(fn)
	}(), "the pause is computed from the current state and the time in it",
		"the reconnect pause is computed from "+what+", which is not a property of the current error episode (a lifetime count, a history): this replica goes through its back-off after every batch of at most 100 entries, so anything cumulative makes each later step slower for good — after a few failed dials early on, a catch-up takes a minute per hundred entries")
}

// ruleBlockLookupComparesTheKey (round 11): block.Iterator.Seek answers true for the first key >= target. A point lookup that
// takes that for "found" returns the successor's value for a key that was never written (hidden behind the bloom filter
// until a false positive, or a table written without filters). Every 'found' exit of Reader.SearchBlockForKey lies
// behind an equality test of the iterator's key with the key sought.
func ruleBlockLookupComparesTheKey(c *Ctx, r *Reporter) {
	r.Rule("block-lookup-compares-the-key", 1)
	fn := c.Func("pkg/sstable", "Reader", "SearchBlockForKey")
	cons := "sstable.Reader.SearchBlockForKey"
	if fn == nil || len(fn.Params) < 3 {
		r.Unresolved(cons, "not found")
		return
	}
	key := ssa.Value(fn.Params[2])
	equal := func(cond ssa.Value) (bool, bool) {
		call, ok := cond.(*ssa.Call)
		if ok && staticName(call) == "bytes.Equal" && (call.Call.Args[0] == key || call.Call.Args[1] == key) {
			return true, false
		}
		if bo, isB := cond.(*ssa.BinOp); isB {
			for _, pair := range [][2]ssa.Value{{bo.X, bo.Y}, {bo.Y, bo.X}} {
				if cc, ok := pair[0].(*ssa.Call); ok && staticName(cc) == "bytes.Compare" && (cc.Call.Args[0] == key || cc.Call.Args[1] == key) {
					if k, isK := constInt(pair[1]); isK && k == 0 {
						switch bo.Op {
						case token.EQL:
							return true, false
						case token.NEQ:
							return false, true
						}
					}
				}
			}
		}
		return false, false
	}
	n := 0
	var bad *ssa.Return
	for _, ret := range Returns(fn) {
		if len(ret.Results) != 2 {
			continue
		}
		if b, isK := constBool(ReturnValue(ret, 1)); isK && !b {
			continue
		}
		n++
		if !GuardedBy(ret.Block(), equal) {
			bad = ret
		}
	}
	if n == 0 {
		r.Undecided(cons, c.FnPos(fn), "no 'found' exit recognised")
		return
	}
	if bad != nil {
		r.Bad(cons, c.InsPos(bad), "a 'found' exit of the block search is not behind an equality test of the iterator's key with the key sought: Seek lands on the first key >= target, so for a key that was never written the successor's value is returned as found (a tombstone successor: found-and-deleted) whenever the block is searched at all — on a bloom false positive, or in a table written without filters")
		return
	}
	r.OK(cons, c.FnPos(fn), fmt.Sprintf("%d 'found' exit(s), each behind bytes.Equal(iterator key, key)", n))
}

// ruleLastSequenceConvention (round 11): two conventions live side by side — WAL.GetNextSequence() is the number the NEXT write
// gets, everything that is reported (lastSyncedSeq, GetLastSequence, node info, statistics) is the LAST number used. A
// reported field seeded with GetNextSequence() as it is shows a sequence no write was ever stamped with, and drops by
// one at the first sync: the reported last sequence decreases. Stores to Primary.lastSyncedSeq take a parameter of the
// sync callback or GetNextSequence()-1, never the bare counter.
func ruleLastSequenceConvention(c *Ctx, r *Reporter) {
	r.Rule("reported-sequence-is-the-last-used-not-the-next", 1)
	fld := c.Field("pkg/replication", "Primary", "lastSyncedSeq")
	if fld == nil {
		r.Unresolved("replication.Primary.lastSyncedSeq", "not found")
		return
	}
	n := 0
	for _, fn := range c.KevoFns {
		if pkgOf(fn) != "pkg/replication" {
			continue
		}
		AllInstrs(fn, false, func(_ *ssa.Function, ins ssa.Instruction) {
			st, ok := ins.(*ssa.Store)
			if !ok || fieldVarOf(st.Addr) != fld {
				return
			}
			n++
			v := stripConv(st.Val)
			bare := false
			if call, ok := v.(*ssa.Call); ok && call.Call.StaticCallee() != nil && call.Call.StaticCallee().Name() == "GetNextSequence" {
				bare = true
			}
			cons := FnName(fn) + ":store(lastSyncedSeq)"
			r.Check(!bare, cons, c.InsPos(ins), "the stored value is a last-used sequence ("+Path(st.Val)+")",
				"Primary.lastSyncedSeq is set to WAL.GetNextSequence() as it is: that is the number the next write will get, not the last one used — GetLastSequence and the node information report a sequence no write carries, and the value drops by one at the first sync that follows without a write")
		})
	}
	if n == 0 {
		r.Undecided("replication.Primary.lastSyncedSeq", "-", "no store to Primary.lastSyncedSeq found")
	}
}

// ruleTableIteratorLoadsWhatItIndexed (round 11): sstable.Iterator keeps the loaded data block between calls. A positioning
// method first positions the index cursor and then works on "the current block": between the two it must load the
// block the index now points at — on every path. Skipping the load "because a block is already loaded" positions
// inside the block an earlier call left behind: SeekToLast after SeekToFirst answers with the last key of the FIRST
// block, and the table's recorded key range (read that way when tables are loaded for compaction) is too small.
func ruleTableIteratorLoadsWhatItIndexed(c *Ctx, r *Reporter) {
	r.Rule("table-iterator-loads-the-block-it-indexed", 3)
	idxF := c.Field("pkg/sstable", "Iterator", "indexIterator")
	blkF := c.Field("pkg/sstable", "Iterator", "dataBlockIter")
	load := c.Func("pkg/sstable", "Iterator", "loadCurrentDataBlock")
	if idxF == nil || blkF == nil || load == nil {
		r.Unresolved("sstable.Iterator.{indexIterator,dataBlockIter,loadCurrentDataBlock}", "not found")
		return
	}
	for _, name := range []string{"seekToFirst", "SeekToLast", "Seek"} {
		fn := c.Func("pkg/sstable", "Iterator", name)
		cons := "sstable.Iterator." + name
		if fn == nil {
			r.Unresolved(cons, "not found")
			continue
		}
		var idxCalls, blkCalls []ssa.Instruction
		AllInstrs(fn, false, func(_ *ssa.Function, ins ssa.Instruction) {
			call, ok := ins.(*ssa.Call)
			if !ok || call.Call.StaticCallee() == nil || len(call.Call.Args) == 0 || !strings.HasPrefix(call.Call.StaticCallee().Name(), "Seek") {
				return
			}
			switch {
			case isLoadOfField(call.Call.Args[0], idxF):
				idxCalls = append(idxCalls, ins)
			case isLoadOfField(call.Call.Args[0], blkF):
				blkCalls = append(blkCalls, ins)
			}
		})
		if len(idxCalls) == 0 || len(blkCalls) == 0 {
			r.Info(cons, c.FnPos(fn), "no index positioning followed by a positioning of the data block iterator in this function: not judged")
			r.OK(cons+":shape", c.FnPos(fn), "nothing recognised to judge")
			continue
		}
		isBlk := func(i ssa.Instruction) bool {
			for _, b := range blkCalls {
				if b == i {
					return true
				}
			}
			return false
		}
		isLoad := func(i ssa.Instruction) bool {
			call, ok := i.(*ssa.Call)
			return ok && call.Call.StaticCallee() == load
		}
		var bad ssa.Instruction
		var badPath []*ssa.BasicBlock
		for _, ic := range idxCalls {
			if hit, path := Reach(fn, ic, isBlk, isLoad); hit != nil {
				bad, badPath = hit, path
			}
		}
		if bad != nil {
			r.Bad(cons, c.InsPos(bad), "the data block iterator is positioned on a path that, since the index cursor was positioned, has not loaded the block the index points at: the method then works inside whatever block an earlier call left loaded — SeekToLast after SeekToFirst lands on the last key of the first block", c.PathString(badPath)...)
			continue
		}
		r.OK(cons, c.FnPos(fn), "every path from the index positioning to the block positioning loads the indexed block")
	}
}

// rulePositionalReadsOnSharedFiles (round 11): one IOManager — one *os.File — serves every concurrent reader of a table, under
// a shared lock. That is only sound with positional reads (ReadAt, pread), which do not touch the file's offset. A
// Seek followed by a Read moves an offset all readers share: two overlapping lookups fetch each other's block, the
// checksum fails or — worse — the lookup ends "not found" and the engine answers from an older table.
func rulePositionalReadsOnSharedFiles(c *Ctx, r *Reporter) {
	r.Rule("shared-table-files-are-read-positionally", 1)
	li := c.Locks()
	n := 0
	var bad ssa.Instruction
	var badFn *ssa.Function
	what := ""
	for _, fn := range c.KevoFns {
		if pkgOf(fn) != "pkg/sstable" || recvTypeName(fn) != "sstable.IOManager" {
			continue
		}
		AllInstrs(fn, false, func(_ *ssa.Function, ins ssa.Instruction) {
			call, ok := ins.(ssa.CallInstruction)
			if !ok {
				return
			}
			f := call.Common().StaticCallee()
			if f == nil || recvTypeName(f) != "os.File" {
				return
			}
			n++
			switch f.Name() {
			case "Seek", "Read", "Write", "ReadFrom":
				if !li.HeldAt(ins).Holds("sstable.IOManager.mu", "W") {
					bad, badFn, what = ins, fn, f.Name()
				}
			}
		})
	}
	if n == 0 {
		r.Undecided("sstable.IOManager", "-", "no file operation found in IOManager")
		return
	}
	if bad != nil {
		r.Bad(FnName(badFn)+":os.File."+what, c.InsPos(bad), "the table file is accessed through its shared offset (os.File."+what+") while only a shared lock is held: every concurrent reader of the table uses the same *os.File, so two overlapping reads move each other's position — a lookup gets another lookup's block, fails its checksum or ends 'not found', and the engine answers from an older table")
		return
	}
	r.OK("sstable.IOManager:file-operations", "-", fmt.Sprintf("%d file operation(s), none through the shared offset without the exclusive lock", n))
}

// ruleTableIteratorMarksItselfPositioned (round 11): Key, Value, Valid and IsTombstone of sstable.Iterator answer only when the
// `initialized` flag is set. Every positioning method sets it on every path — a SeekToLast that positions the block
// iterator correctly but returns with the flag clear reports itself invalid when it is the first call on the iterator,
// and the merged SeekToLast then ignores every on-disk source.
func ruleTableIteratorMarksItselfPositioned(c *Ctx, r *Reporter) {
	r.Rule("table-iterator-marks-itself-positioned", 3)
	flag := c.Field("pkg/sstable", "Iterator", "initialized")
	if flag == nil {
		r.Unresolved("sstable.Iterator.initialized", "not found")
		return
	}
	sets := func(i ssa.Instruction) bool {
		st, ok := i.(*ssa.Store)
		if !ok || fieldVarOf(st.Addr) != flag {
			return false
		}
		b, isK := constBool(st.Val)
		return isK && b
	}
	var allExitsSet func(fn *ssa.Function, d int) (ssa.Instruction, []*ssa.BasicBlock)
	allExitsSet = func(fn *ssa.Function, d int) (ssa.Instruction, []*ssa.BasicBlock) {
		var rets []ssa.Instruction
		for _, ret := range Returns(fn) {
			rets = append(rets, ret)
		}
		return MustPass(fn, rets, func(i ssa.Instruction) bool {
			if sets(i) {
				return true
			}
			if call, ok := i.(*ssa.Call); ok && d > 0 {
				if h := call.Call.StaticCallee(); h != nil && len(h.Blocks) > 0 && recvTypeName(h) == recvTypeName(fn) && h != fn {
					bad, _ := allExitsSet(h, d-1)
					return bad == nil
				}
			}
			return false
		})
	}
	for _, name := range []string{"SeekToFirst", "SeekToLast", "Seek"} {
		fn := c.Func("pkg/sstable", "Iterator", name)
		cons := "sstable.Iterator." + name
		if fn == nil {
			r.Unresolved(cons, "not found")
			continue
		}
		bad, path := allExitsSet(fn, 1)
		if bad != nil {
			r.Bad(cons, c.InsPos(bad), "an exit of the positioning method is reachable without `initialized = true`: Key/Value/Valid answer only when the flag is set, so an iterator positioned by this call alone reports itself invalid — a SeekToLast that is the first call on a table iterator makes the merged iterator ignore the table", c.PathString(path)...)
			continue
		}
		r.OK(cons, c.FnPos(fn), "every exit has set the flag")
	}
}

// ruleCopyHelpersKeepEmptyNonNil (round 11): the memtable stores a non-nil empty slice for the empty value precisely because
// nil means "deleted" to every caller of Get. A copy helper written as append([]byte(nil), v...) returns nil for an
// empty v: a key whose newest version is a put of the empty value reads as found-but-deleted, and the storage manager
// answers not-found. In the module's []byte → []byte copy helpers the append-to-nil idiom is reported.
func ruleCopyHelpersKeepEmptyNonNil(c *Ctx, r *Reporter) {
	r.Rule("copy-helpers-keep-empty-non-nil", 1)
	n := 0
	for _, fn := range c.KevoFns {
		if fn.Signature.Recv() != nil || fn.Parent() != nil || !strings.HasPrefix(strings.ToLower(fn.Name()), "copy") || !strings.HasPrefix(pkgOf(fn), "pkg/") {
			continue
		}
		sig := fn.Signature
		if sig.Params().Len() != 1 || sig.Results().Len() != 1 || sig.Params().At(0).Type().String() != "[]byte" || sig.Results().At(0).Type().String() != "[]byte" {
			continue
		}
		n++
		cons := FnName(fn)
		var bad *ssa.Return
		prm := ssa.Value(fn.Params[0])
		isNilParam := func(cond ssa.Value) (bool, bool) {
			v, trueIsNonNil, ok := nilTest(cond)
			if !ok || v != prm {
				return false, false
			}
			return !trueIsNonNil, trueIsNonNil
		}
		for _, ret := range Returns(fn) {
			v := ReturnValue(ret, 0)
			if call, ok := v.(*ssa.Call); ok {
				if b, isB := call.Call.Value.(*ssa.Builtin); isB && b.Name() == "append" {
					if k, isK := call.Call.Args[0].(*ssa.Const); isK && k.Value == nil {
						bad = ret
					}
				}
			}
			// nil may be returned for a nil input only ("skip the allocation for an empty value" returns nil for empty too)
			if k, isK := v.(*ssa.Const); isK && k.Value == nil && !GuardedBy(ret.Block(), isNilParam) {
				bad = ret
			}
		}
		r.Check(bad == nil, cons, c.FnPos(fn), "the copy of an empty slice is an empty, non-nil slice",
			"the copy helper can return nil for an empty, non-nil input (append([]byte(nil), v...), or an explicit nil for len(v) == 0): callers treat a nil value as the deletion marker, so a key whose newest version is a put of the empty value reads as deleted (Get: not found) while iterators over the same table still show it live")
	}
	if n == 0 {
		r.Undecided("pkg:[]byte copy helpers", "-", "no copy helper found")
	}
}

// ruleSentinelErrorsMatchByIdentity (round 11): opening distinguishes 'no manifest' (create one with the defaults) from 'unreadable
// manifest' (fail) with errors.Is against two sentinel values. That works because the sentinels are distinct plain
// error values. A custom error type with an Is method matches by whatever the method says — by type, for one — and the
// two cases collapse: a truncated MANIFEST is taken for a missing one and overwritten with defaults. No type of
// pkg/config declares an Is(error) bool method.
func ruleSentinelErrorsMatchByIdentity(c *Ctx, r *Reporter) {
	r.Rule("config-sentinels-match-by-identity", 0)
	n := 0
	for _, fn := range c.KevoFns {
		if pkgOf(fn) != "pkg/config" || fn.Name() != "Is" || fn.Signature.Recv() == nil {
			continue
		}
		sig := fn.Signature
		if sig.Params().Len() == 1 && isErrorType(sig.Params().At(0).Type()) && sig.Results().Len() == 1 && sig.Results().At(0).Type().String() == "bool" {
			n++
			r.Bad(FnName(fn), c.FnPos(fn), "an error type of pkg/config defines its own Is(error) bool: errors.Is against the package's sentinels no longer compares identities — 'manifest not found' and 'invalid manifest' can match each other, and NewEngineFacade then treats an unreadable MANIFEST as a missing one: it is overwritten with the defaults and the database opens with a configuration it was not created with")
		}
	}
	if n == 0 {
		r.OK("config:error-types", "-", "no error type of pkg/config overrides errors.Is matching")
	}
}

// ruleCleanupForwardsConnectionID (round 11): the registry files every transaction under the connection id Begin was given
// (the peer string, host:port). The service's CleanupConnection must hand the registry the id it received, unchanged: a
// "normalised" id finds nothing, the clean-up returns silently and the abandoned transaction keeps the database lock.
func ruleCleanupForwardsConnectionID(c *Ctx, r *Reporter) {
	r.Rule("connection-cleanup-forwards-the-id-verbatim", 1)
	fn := c.Func("pkg/grpc/service", "KevoServiceServer", "CleanupConnection")
	cons := "service.KevoServiceServer.CleanupConnection"
	if fn == nil || len(fn.Params) < 2 {
		r.Unresolved(cons, "not found")
		return
	}
	var calls []*ssa.Call
	AllInstrs(fn, false, func(_ *ssa.Function, ins ssa.Instruction) {
		if call, ok := ins.(*ssa.Call); ok && call.Call.IsInvoke() && call.Call.Method.Name() == "CleanupConnection" {
			calls = append(calls, call)
		}
	})
	if len(calls) == 0 {
		r.Bad(cons, c.FnPos(fn), "the service's connection clean-up no longer reaches the registry's CleanupConnection")
		return
	}
	ok := true
	for _, call := range calls {
		if len(call.Call.Args) != 1 || call.Call.Args[0] != ssa.Value(fn.Params[1]) {
			ok = false
		}
	}
	r.Check(ok, cons, c.InsPos(calls[0]), "the registry is given the id the service received",
		"the id handed to the registry's CleanupConnection is not the one the service received (trimmed, normalised, re-formatted): transactions are filed under the exact id Begin was given, so nothing is found, nothing is rolled back, and the abandoned transaction keeps the database lock until a timeout happens to catch it")
}

// ruleTTLParamsLandInLikeNamedFields (round 11): a constructor with several parameters of one type is a copy-paste trap.
// In transaction.NewManagerWithTTL a time.Duration parameter may only be stored into the field whose name matches it
// (readWriteTTL → readWriteTxTTL, readOnlyTTL → readOnlyTxTTL, idle… → idle…): a slip leaves one limit at its default
// and gives the other the wrong value, and the lifetime check, far away in the registry's sweep, never fires.
func ruleTTLParamsLandInLikeNamedFields(c *Ctx, r *Reporter) {
	r.Rule("ttl-parameters-land-in-like-named-fields", 1)
	fn := c.Func("pkg/transaction", "", "NewManagerWithTTL")
	cons := "transaction.NewManagerWithTTL"
	if fn == nil {
		r.Unresolved(cons, "not found")
		return
	}
	norm := func(s string) string {
		s = strings.ToLower(s)
		s = strings.ReplaceAll(s, "tx", "")
		s = strings.ReplaceAll(s, "timeout", "ttl")
		return s
	}
	n := 0
	var bad ssa.Instruction
	what := ""
	AllInstrs(fn, false, func(_ *ssa.Function, ins ssa.Instruction) {
		st, ok := ins.(*ssa.Store)
		if !ok {
			return
		}
		p, isP := stripConv(st.Val).(*ssa.Parameter)
		fv := fieldVarOf(st.Addr)
		if !isP || fv == nil || !strings.HasSuffix(p.Type().String(), "time.Duration") {
			return
		}
		n++
		if norm(p.Name()) != norm(fv.Name()) {
			bad, what = ins, p.Name()+" → "+fv.Name()
		}
	})
	if n == 0 {
		r.Undecided(cons, c.FnPos(fn), "no duration parameter stored to a field")
		return
	}
	r.Check(bad == nil, cons, func() string {
		if bad != nil {
			return c.InsPos(bad)
		}
		return c.FnPos(fn)
	}(), fmt.Sprintf("%d duration parameter(s), each stored to the like-named field", n),
		"a lifetime parameter is stored into a field of another name ("+what+"): one limit silently keeps its default and the other gets the wrong value — the sweep compares a transaction's age with the wrong limit and an abandoned transaction outlives the configured lifetime, holding the database lock")
}

// ruleOlderLogFilesSkippedOnlyBelowStart (round 11): reading from sequence n yields the stored operations AT or after n. A rotated
// file may be passed over only if its highest sequence is BELOW n; with `<=` (getSequenceBounds returns an inclusive
// maximum) the operations stamped exactly n that sit at the end of a rotated file — a whole batch, if it was the last
// thing written before the rotation — are missing.
func ruleOlderLogFilesSkippedOnlyBelowStart(c *Ctx, r *Reporter) {
	r.Rule("older-log-files-are-skipped-only-below-the-start", 0)
	gb := c.Func("pkg/wal", "", "getSequenceBounds")
	if gb == nil {
		r.Unresolved("wal.getSequenceBounds", "not found")
		return
	}
	n := 0
	for _, fn := range c.KevoFns {
		if pkgOf(fn) != "pkg/wal" || recvTypeName(fn) != "wal.WAL" || !strings.Contains(fn.Name(), "ntriesFrom") {
			continue
		}
		isMax := func(v ssa.Value) bool {
			ex, ok := stripConv(v).(*ssa.Extract)
			if !ok || ex.Index != 1 {
				return false
			}
			call, ok := ex.Tuple.(*ssa.Call)
			return ok && call.Call.StaticCallee() == gb
		}
		isStart := func(v ssa.Value) bool {
			p, ok := stripConv(v).(*ssa.Parameter)
			return ok && strings.HasSuffix(p.Type().String(), "uint64")
		}
		AllInstrs(fn, false, func(_ *ssa.Function, ins ssa.Instruction) {
			bo, ok := ins.(*ssa.BinOp)
			if !ok {
				return
			}
			var inclusive bool
			switch {
			case isMax(bo.X) && isStart(bo.Y):
				n++
				inclusive = bo.Op == token.LEQ || bo.Op == token.GTR // max <= n skips; max > n keeps (so max == n is skipped)
			case isStart(bo.X) && isMax(bo.Y):
				n++
				inclusive = bo.Op == token.GEQ || bo.Op == token.LSS
			default:
				return
			}
			r.Check(!inclusive, FnName(fn)+":skip-by-bounds", c.InsPos(ins), "a rotated file is passed over only when its highest sequence is below the start",
				"a rotated log file is passed over when its highest sequence is <= the requested start: the bound is inclusive, so the operations stamped exactly with the start sequence at the end of that file are not delivered — GetEntriesFrom(n) misses entries AT n (a whole batch, when it was the last write before a rotation)")
		})
	}
	if n == 0 {
		r.OK("wal.WAL.GetEntriesFrom:skip-by-bounds", "-", "no rotated file is skipped by its sequence bounds")
	}
}


// ruleHeartbeatConfigUsedAsGiven (round 11): the heartbeat manager uses the caller's configuration as it is; the defaults replace
// it only when there is none. Merging the caller's values INTO the defaults field by field cannot express `false`
// for a flag whose default is true: a primary configured with SendEmptyResponses=false keeps sending keep-alives, each
// successful send refreshes the session's activity, and the inactivity timeout never drops a replica that went silent.
func ruleHeartbeatConfigUsedAsGiven(c *Ctx, r *Reporter) {
	r.Rule("heartbeat-config-is-used-as-given", 1)
	fn := c.Func("pkg/replication", "", "newHeartbeatManager")
	cf := c.Field("pkg/replication", "heartbeatManager", "config")
	cons := "replication.newHeartbeatManager:config"
	if fn == nil || cf == nil {
		r.Unresolved("replication.newHeartbeatManager / heartbeatManager.config", "not found")
		return
	}
	var prm ssa.Value
	for _, p := range fn.Params {
		if strings.HasSuffix(p.Type().String(), "HeartbeatConfig") {
			prm = p
		}
	}
	var st *ssa.Store
	AllInstrs(fn, false, func(_ *ssa.Function, ins ssa.Instruction) {
		if s, ok := ins.(*ssa.Store); ok && fieldVarOf(s.Addr) == cf {
			st = s
		}
	})
	if prm == nil || st == nil {
		r.Undecided(cons, c.FnPos(fn), "no configuration parameter or no store to heartbeatManager.config")
		return
	}
	isNilCfg := func(cond ssa.Value) (bool, bool) {
		v, trueIsNonNil, ok := nilTest(cond)
		if !ok || v != prm {
			return false, false
		}
		return !trueIsNonNil, trueIsNonNil
	}
	ok := true
	var walk func(v ssa.Value, d int)
	walk = func(v ssa.Value, d int) {
		if d > 5 {
			ok = false
			return
		}
		switch x := v.(type) {
		case *ssa.Phi:
			for _, e := range x.Edges {
				walk(e, d+1)
			}
		case *ssa.Parameter:
			if v != prm {
				ok = false
			}
		case *ssa.Call:
			if x.Call.StaticCallee() == nil || !strings.HasPrefix(x.Call.StaticCallee().Name(), "Default") || !GuardedBy(x.Block(), isNilCfg) {
				ok = false
			}
		default:
			ok = false
		}
	}
	walk(st.Val, 0)
	r.Check(ok, cons, c.InsPos(st), "the manager keeps the caller's configuration, or the defaults when there is none",
		"the heartbeat manager does not keep the caller's configuration as given (defaults used although a configuration was supplied, or merged with it field by field): a merge cannot express `false` for SendEmptyResponses, whose default is true — the primary goes on sending keep-alives, every successful send refreshes the session's activity, and a replica that stopped acknowledging is never dropped")
}
