package main

import (
	"fmt"
	"go/token"
	"go/types"
	"sort"
	"strings"

	"golang.org/x/tools/go/ssa"
)

func init() {
	register(&PropertyDef{
		ID: "C15",
		Explanation: "Latencies and 'eventually' are timing statements and are not decided. Decided: " +
			"(1) no blocking stream operation (gRPC Send/Recv) is reachable from a point where WAL.mu — and therefore the storage write lock — is held; " +
			"(2) no lock-order cycle among the locks that the write path holds or acquires (WAL.mu, storage.Manager.mu and every lock acquired under them): a replica-serving goroutine must never hold a lock the write path needs while waiting for a lock the write path holds; each acquired-while-held edge on such a cycle is an obligation keyed by (from, to, function); " +
			"(3) observer callbacks return nothing, so a replica cannot fail a write; " +
			"(4) dead sessions are dropped: the heartbeat's timeout arm and a failed send mark the session disconnected, every marked session reaches unregisterReplicaSession, GetReplicaInfo filters on Connected, session ids are unique per stream (not derived from the request), and no blocking send runs under a session lock inside the heartbeat's sequential loop. " +
			"Added after blind round 4: no method of the replication package calls, while holding a lock of its receiver, a method of the same receiver that takes it again (the broadcast loop holds Primary.mu inside wal.Append); the primary's gRPC server pings idle connections (keepalive Time and Timeout set). " +
			"Added after blind round 5: every write to the content of Primary.sessions holds Primary.mu exclusively. " +
			"Added after blind round 7: ReplicaSession.Stream is never assigned nil (handlers of dropped sessions keep polling through their own pointer). " +
			"Added after blind round 8: the node-info handler writes no server state (no remembered replica list). " +
			"Added after blind round 9: every use of a session looked up in Primary.sessions lies behind a nil test of that lookup (sessions are unregistered concurrently; a nil dereference in a gRPC handler ends the primary); heartbeatManager.start declines only when the loop already runs (the loop is also what drops silent sessions). " +
			"Added after blind round 10: nothing an observer callback of the primary reaches synchronously acquires WAL.mu again (the log calls its observers with that mutex held). " +
			"Added after blind round 11: the heartbeat manager keeps the caller's configuration as given, the defaults only for a missing one (a field-by-field merge cannot express SendEmptyResponses=false).",
		NotDecided: "latencies, time bounds, 'eventually', TCP-level stalls (need a fault-injecting transport).",
		Rules:      []func(*Ctx, *Reporter){ruleNoBlockingUnderWAL, ruleWritePathLockCycles, ruleObserversReturnNothing, ruleDeadSessions, ruleReplNoReentrancy, ruleKeepalivePings, ruleSessionsMapWriters, ruleSessionStreamNeverCleared, subRulesConstruct(ruleHandlersKeepNoState, "service.KevoServiceServer.GetNodeInfo"), ruleSessionLookupsNilChecked, ruleHeartbeatMonitorAlwaysStarts, ruleObserversDoNotReenterTheLog, ruleHeartbeatConfigUsedAsGiven},
	})
}

// isBlockingStreamOp: an interface call Send/SendMsg/Recv/RecvMsg on a gRPC stream.
func isBlockingStreamOp(ins ssa.Instruction) bool {
	ci, ok := ins.(ssa.CallInstruction)
	if !ok {
		return false
	}
	cc := ci.Common()
	name := calleeName(cc)
	switch name {
	case "Send", "SendMsg", "Recv", "RecvMsg", "CloseAndRecv", "SendAndClose":
	default:
		return false
	}
	var t types.Type
	if cc.IsInvoke() {
		t = cc.Value.Type()
	} else if f := cc.StaticCallee(); f != nil && f.Signature.Recv() != nil {
		t = f.Signature.Recv().Type()
	} else {
		return false
	}
	ms := types.NewMethodSet(t)
	hasCtx, hasMsg := false, false
	for i := 0; i < ms.Len(); i++ {
		switch ms.At(i).Obj().Name() {
		case "Context":
			hasCtx = true
		case "SendMsg", "RecvMsg":
			hasMsg = true
		}
	}
	return hasCtx && hasMsg
}

// blockingFns: kevo functions from which a blocking stream op is reachable without a go statement; value = one path.
func (c *Ctx) blockingFns() map[*ssa.Function][]string {
	if c.blocking != nil {
		return c.blocking
	}
	res := map[*ssa.Function][]string{}
	for _, fn := range c.KevoFns {
		AllInstrs(fn, false, func(_ *ssa.Function, ins ssa.Instruction) {
			if isBlockingStreamOp(ins) && !isGo(ins) {
				if _, has := res[fn]; !has {
					res[fn] = []string{fmt.Sprintf("%s: stream.%s at %s", FnName(fn), calleeName(ins.(ssa.CallInstruction).Common()), c.InsPos(ins))}
				}
			}
		})
	}
	for round := 0; round < 10; round++ {
		changed := false
		for _, fn := range c.KevoFns {
			if _, has := res[fn]; has {
				continue
			}
			AllInstrs(fn, false, func(_ *ssa.Function, ins ssa.Instruction) {
				if _, has := res[fn]; has {
					return
				}
				ci, ok := ins.(ssa.CallInstruction)
				if !ok || isGo(ins) {
					return
				}
				for _, cal := range c.Callees(ci) {
					if p, has := res[cal]; has {
						res[fn] = append([]string{fmt.Sprintf("%s calls %s at %s", FnName(fn), FnName(cal), c.InsPos(ins))}, p...)
						changed = true
						return
					}
				}
			})
		}
		if !changed {
			break
		}
	}
	c.blocking = res
	return res
}

func ruleNoBlockingUnderWAL(c *Ctx, r *Reporter) {
	r.Rule("no-blocking-send-on-the-write-path", 3)
	li := c.Locks()
	blocking := c.blockingFns()
	n := 0
	for _, fn := range c.KevoFns {
		if pkgOf(fn) != "pkg/wal" && pkgOf(fn) != "pkg/engine/storage" {
			continue
		}
		AllInstrs(fn, false, func(_ *ssa.Function, ins ssa.Instruction) {
			ci, ok := ins.(ssa.CallInstruction)
			if !ok || isGo(ins) {
				return
			}
			held := li.HeldAt(ins)
			if held == nil || !(held.Holds("wal.WAL.mu", "W") || held.Holds("storage.Manager.mu", "W")) {
				return
			}
			for _, cal := range c.Callees(ci) {
				if pkgOf(cal) == "pkg/wal" || pkgOf(cal) == "pkg/engine/storage" {
					continue // followed when that function's own call sites are visited
				}
				if path, has := blocking[cal]; has {
					n++
					r.Bad(FnName(fn)+"→"+FnName(cal), c.InsPos(ins), "a blocking stream operation is reachable while "+held.String()+" is held: HTTP/2 flow control blocks Send once a replica stops reading, which blocks the write and, through the storage lock, every read", path...)
				}
			}
		})
	}
	if n == 0 {
		r.OK("wal/storage call sites under WAL.mu / Manager.mu", "-", "no blocking stream operation reachable from a point where the write-path locks are held")
	}
}

func ruleWritePathLockCycles(c *Ctx, r *Reporter) {
	r.Rule("no-lock-cycle-through-the-write-path", 1)
	edges := c.LockGraph()
	// write-path locks: reachable from WAL.mu / Manager.mu through acquired-while-held edges
	wp := map[string]bool{"wal.WAL.mu": true, "storage.Manager.mu": true}
	for changed := true; changed; {
		changed = false
		for _, e := range edges {
			if wp[e.from] && !wp[e.to] {
				wp[e.to] = true
				changed = true
			}
		}
	}
	cyc := cyclicPairs(edges)
	// functions on the write path: reachable (without go statements) from the log append/sync entry points and the storage mutators
	onWP := map[*ssa.Function]bool{}
	var work []*ssa.Function
	for _, n := range []string{"Append", "AppendWithSequence", "AppendExactBytes", "AppendBatch", "AppendBatchWithSequence", "Sync"} {
		if f := c.Func("pkg/wal", "WAL", n); f != nil {
			work = append(work, f)
		}
	}
	for f := range storageMutators(c) {
		work = append(work, f)
	}
	for len(work) > 0 {
		f := work[0]
		work = work[1:]
		if onWP[f] {
			continue
		}
		onWP[f] = true
		AllInstrs(f, true, func(_ *ssa.Function, ins ssa.Instruction) {
			ci, ok := ins.(ssa.CallInstruction)
			if !ok || isGo(ins) {
				return
			}
			for _, cal := range c.Callees(ci) {
				if c.InKevo(cal) && !onWP[cal] {
					work = append(work, cal)
				}
			}
		})
	}
	wpNames := map[string]bool{}
	for f := range onWP {
		wpNames[FnName(f)] = true
	}
	n := 0
	nFwd := 0
	for _, e := range edges {
		if !cyc[e.from+"→"+e.to] || !wp[e.from] || !wp[e.to] {
			continue
		}
		if wpNames[e.site()] {
			nFwd++
			continue // the write path's own acquisition order
		}
		n++
		r.Bad(fmt.Sprintf("%s→%s@%s", e.from, e.to, e.site()), e.pos, "a goroutine that is not on the write path takes these locks in an order that closes a cycle with the write path's own order ("+e.from+" held while waiting for "+e.to+"): a put that meets it deadlocks both, and with them every later write and read", "via "+e.via)
	}
	r.Notes = append(r.Notes, fmt.Sprintf("C15: %d acquisition sites on the write path itself lie on those cycles (forward direction, not counted)", nFwd))
	var ws []string
	for l := range wp {
		ws = append(ws, l)
	}
	sort.Strings(ws)
	r.Notes = append(r.Notes, "C15 write-path locks: "+strings.Join(ws, ", "))
	if n == 0 {
		r.OK("acyclic", "-", fmt.Sprintf("no cycle among the %d write-path locks", len(ws)))
	}
}

func ruleObserversReturnNothing(c *Ctx, r *Reporter) {
	r.Rule("observer-errors-cannot-fail-writes", 1)
	obs := c.Named("pkg/wal", "WALEntryObserver")
	if obs == nil {
		r.Unresolved("wal.WALEntryObserver", "not found")
		return
	}
	it, ok := obs.Underlying().(*types.Interface)
	if !ok {
		r.Unresolved("wal.WALEntryObserver", "not an interface")
		return
	}
	good := it.NumMethods() > 0
	for i := 0; i < it.NumMethods(); i++ {
		if it.Method(i).Type().(*types.Signature).Results().Len() != 0 {
			good = false
		}
	}
	r.Check(good, "wal.WALEntryObserver", c.Pos(obs.Obj().Pos()), fmt.Sprintf("%d callback(s), none returns a value: an observer cannot make an append fail", it.NumMethods()), "an observer callback returns a value that the append path could turn into a write failure")
}

func ruleDeadSessions(c *Ctx, r *Reporter) {
	r.Rule("dead-sessions-are-dropped", 5)
	check := c.Func("pkg/replication", "heartbeatManager", "checkSessions")
	unreg := c.Func("pkg/replication", "Primary", "unregisterReplicaSession")
	send := c.Func("pkg/replication", "Primary", "sendToReplica")
	info := c.Func("pkg/replication", "Primary", "GetReplicaInfo")
	stream := c.Func("pkg/replication", "Primary", "StreamWAL")
	connF := c.Field("pkg/replication", "ReplicaSession", "Connected")
	idF := c.Field("pkg/replication", "ReplicaSession", "ID")
	sessF := c.Field("pkg/replication", "Primary", "sessions")
	timeoutF := c.Field("pkg/replication", "HeartbeatConfig", "Timeout")
	if check == nil || unreg == nil || send == nil || info == nil || stream == nil || connF == nil || idF == nil || sessF == nil {
		r.Unresolved("replication.heartbeatManager.checkSessions / Primary.{unregisterReplicaSession,sendToReplica,GetReplicaInfo,StreamWAL,sessions} / ReplicaSession.{Connected,ID}", "not found")
		return
	}
	storesConnFalse := func(b *ssa.BasicBlock) bool {
		for _, ins := range b.Instrs {
			if st, ok := ins.(*ssa.Store); ok && fieldVarOf(st.Addr) == connF {
				if v, ok := constBool(st.Val); ok && !v {
					return true
				}
			}
		}
		return false
	}
	// (a) timeout arm: the > Timeout edge marks the session disconnected and queues it
	okTimeout := false
	for _, b := range check.Blocks {
		if len(b.Instrs) == 0 {
			continue
		}
		iff, ok := b.Instrs[len(b.Instrs)-1].(*ssa.If)
		if !ok {
			continue
		}
		bo, ok := iff.Cond.(*ssa.BinOp)
		if !ok || (bo.Op != token.GTR && bo.Op != token.GEQ) {
			continue
		}
		if timeoutF != nil && !isLoadOfField(bo.Y, timeoutF) {
			continue
		}
		if timeoutF == nil && !strings.Contains(Path(bo.Y), "Timeout") {
			continue
		}
		// the true successor (or blocks it dominates) stores Connected=false
		for _, bb := range check.Blocks {
			if (bb == b.Succs[0] || (len(b.Succs[0].Preds) == 1 && b.Succs[0].Dominates(bb))) && storesConnFalse(bb) {
				okTimeout = true
			}
		}
	}
	r.Check(okTimeout, "replication.heartbeatManager.checkSessions:timeout", c.FnPos(check), "a session inactive for longer than the timeout is marked disconnected", "the heartbeat's timeout arm no longer marks the session disconnected")
	// every marked session reaches unregisterReplicaSession: the function calls unregister in a loop over the collected ids
	r.Check(len(c.CallsIn(check, NewFnSet(unreg), false)) > 0, "replication.heartbeatManager.checkSessions:unregister", c.FnPos(check), "marked sessions are unregistered", "dead sessions are no longer unregistered by the heartbeat: they stay in the topology and keep receiving pushes")
	// (b) a failed send marks the session disconnected
	for _, fn := range []*ssa.Function{send, check} {
		ok := false
		AllInstrs(fn, false, func(_ *ssa.Function, ins ssa.Instruction) {
			if !isBlockingStreamOp(ins) {
				return
			}
			call, isCall := ins.(*ssa.Call)
			if !isCall {
				return
			}
			failed := func(cond ssa.Value) (bool, bool) {
				t, f := callOKFact(c, func(cl *ssa.Call) bool { return cl == call })(cond)
				return f, t
			}
			for _, bb := range fn.Blocks {
				if GuardedBy(bb, failed) && storesConnFalse(bb) {
					ok = true
				}
			}
		})
		r.Check(ok, FnName(fn)+":failed-send", c.FnPos(fn), "a failed send marks the session disconnected", "a failed stream send no longer marks the session disconnected")
	}
	// (c) GetReplicaInfo reports only connected sessions
	connected := func(cond ssa.Value) (bool, bool) {
		if isLoadOfField(cond, connF) {
			return true, false
		}
		return false, false
	}
	okInfo := false
	AllInstrs(info, false, func(_ *ssa.Function, ins ssa.Instruction) {
		if call, ok := ins.(*ssa.Call); ok {
			if b, ok := call.Call.Value.(*ssa.Builtin); ok && b.Name() == "append" && GuardedBy(ins.Block(), withNot(connected)) {
				okInfo = true
			}
		}
	})
	r.Check(okInfo, "replication.Primary.GetReplicaInfo", c.FnPos(info), "only connected sessions are reported", "disconnected sessions are still reported in the topology")
	// (d) unregister deletes under Primary.mu W
	li := c.Locks()
	okDel := false
	AllInstrs(unreg, false, func(_ *ssa.Function, ins ssa.Instruction) {
		if call, ok := ins.(*ssa.Call); ok {
			if b, ok := call.Call.Value.(*ssa.Builtin); ok && b.Name() == "delete" && isLoadOfField(call.Call.Args[0], sessF) && li.HeldAt(ins).Holds("replication.Primary.mu", "W") {
				okDel = true
			}
		}
	})
	r.Check(okDel, "replication.Primary.unregisterReplicaSession", c.FnPos(unreg), "removes the session from the map under Primary.mu", "unregister no longer deletes the session under Primary.mu")
	// (e) session ids are unique per stream: not derived from the request or the context
	r.Rule("session-id-unique", 1)
	var idVal ssa.Value
	AllInstrs(stream, false, func(_ *ssa.Function, ins ssa.Instruction) {
		if st, ok := ins.(*ssa.Store); ok && fieldVarOf(st.Addr) == idF {
			idVal = st.Val
		}
	})
	if idVal == nil {
		r.Undecided("replication.Primary.StreamWAL:session-id", c.FnPos(stream), "no assignment of the session id found")
	} else {
		fromReq := valueDependsOnParams(idVal, stream, 0, map[ssa.Value]bool{})
		fresh := valueDependsOnCall(idVal, []string{"UnixNano", "Add", "AddUint64", "AddInt64", "NewString", "New", "Int63", "Uint64", "Read"}, 0, map[ssa.Value]bool{})
		r.Check(!fromReq && fresh, "replication.Primary.StreamWAL:session-id", c.FnPos(stream), "the session id comes from a per-stream fresh source (clock/counter/random), not from the request",
			"the session id is derived from request/context data (or from no fresh source): a reconnecting replica reuses the id, and the deferred unregister of the stale stream removes the session that replaced it")
	}
	// (f) the heartbeat must not block on one session while others wait
	r.Rule("heartbeat-no-blocking-under-session-lock", 1)
	n := 0
	AllInstrs(check, false, func(_ *ssa.Function, ins ssa.Instruction) {
		if isBlockingStreamOp(ins) && li.HeldAt(ins).Holds("replication.ReplicaSession.mu", "R") {
			inLoop := false
			for _, l := range GenericLoops(check) {
				if l.Contains(ins.Block()) {
					inLoop = true
				}
			}
			if inLoop {
				n++
				r.Bad("replication.heartbeatManager.checkSessions:Send", c.InsPos(ins), "a blocking stream send runs under the session lock inside the heartbeat's sequential loop: a stalled replica stalls the monitor, is never timed out, and the other sessions are not checked")
			}
		}
	})
	if n == 0 {
		r.OK("replication.heartbeatManager.checkSessions:Send", c.FnPos(check), "no blocking send under a session lock in the monitor loop")
	}
}

// valueDependsOnParams: v derives from a parameter of fn (request, stream, context).
func valueDependsOnParams(v ssa.Value, fn *ssa.Function, d int, seen map[ssa.Value]bool) bool {
	if d > 10 || v == nil || seen[v] {
		return false
	}
	seen[v] = true
	switch x := v.(type) {
	case *ssa.Parameter:
		return len(fn.Params) > 0 && x != fn.Params[0] // the receiver does not count
	case *ssa.Const, *ssa.Global:
		return false
	}
	ins, ok := v.(ssa.Instruction)
	if !ok {
		return false
	}
	for _, op := range ins.Operands(nil) {
		if op != nil && *op != nil && valueDependsOnParams(*op, fn, d+1, seen) {
			return true
		}
	}
	// varargs arrays: stores into the backing array
	if al, ok := v.(*ssa.Alloc); ok && al.Referrers() != nil {
		for _, ref := range *al.Referrers() {
			if ia, ok := ref.(*ssa.IndexAddr); ok && ia.Referrers() != nil {
				for _, r2 := range *ia.Referrers() {
					if st, ok := r2.(*ssa.Store); ok && valueDependsOnParams(st.Val, fn, d+1, seen) {
						return true
					}
				}
			}
		}
	}
	return false
}

func valueDependsOnCall(v ssa.Value, names []string, d int, seen map[ssa.Value]bool) bool {
	if d > 10 || v == nil || seen[v] {
		return false
	}
	seen[v] = true
	if call, ok := v.(*ssa.Call); ok {
		n := calleeName(call.Common())
		for _, want := range names {
			if n == want {
				return true
			}
		}
	}
	ins, ok := v.(ssa.Instruction)
	if !ok {
		return false
	}
	for _, op := range ins.Operands(nil) {
		if op != nil && *op != nil && valueDependsOnCall(*op, names, d+1, seen) {
			return true
		}
	}
	if al, ok := v.(*ssa.Alloc); ok && al.Referrers() != nil {
		for _, ref := range *al.Referrers() {
			if ia, ok := ref.(*ssa.IndexAddr); ok && ia.Referrers() != nil {
				for _, r2 := range *ia.Referrers() {
					if st, ok := r2.(*ssa.Store); ok && valueDependsOnCall(st.Val, names, d+1, seen) {
						return true
					}
				}
			}
		}
	}
	return false
}
