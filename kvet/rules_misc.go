package main

import (
	"fmt"
	"go/token"
	"go/types"
	"sort"
	"strings"

	"golang.org/x/tools/go/ssa"
)

// ---------------------------------------------------------------- C02: atomic publication of SSTables

func ruleSstFinish(c *Ctx, r *Reporter) {
	r.Rule("atomic-publication", 5)
	finish := c.Func("pkg/sstable", "Writer", "Finish")
	fmWrite := c.Func("pkg/sstable", "FileManager", "Write")
	fmSync := c.Func("pkg/sstable", "FileManager", "Sync")
	fmFinal := c.Func("pkg/sstable", "FileManager", "FinalizeFile")
	newFM := c.Func("pkg/sstable", "", "NewFileManager")
	flushBlock := c.Func("pkg/sstable", "Writer", "flushBlock")
	tmpF := c.Field("pkg/sstable", "FileManager", "tmpPath")
	pathF := c.Field("pkg/sstable", "FileManager", "path")
	fileF := c.Field("pkg/sstable", "FileManager", "file")
	if finish == nil || fmWrite == nil || fmSync == nil || fmFinal == nil || newFM == nil || flushBlock == nil || tmpF == nil || pathF == nil || fileF == nil {
		r.Unresolved("sstable.Writer.{Finish,flushBlock} / sstable.FileManager.{Write,Sync,FinalizeFile,tmpPath,path,file} / sstable.NewFileManager", "not found")
		return
	}
	writes := NewFnSet(fmWrite, flushBlock)
	var syncCall, finalCall ssa.Instruction
	AllInstrs(finish, false, func(_ *ssa.Function, ins ssa.Instruction) {
		if c.CallMust(ins, NewFnSet(fmSync)) {
			syncCall = ins
		}
		if c.CallMust(ins, NewFnSet(fmFinal)) && !isDefer(ins) {
			finalCall = ins
		}
	})
	if syncCall == nil || finalCall == nil {
		r.Bad("sstable.Writer.Finish:sync-then-rename", c.FnPos(finish), "Finish does not both sync the file and finalize (rename) it")
	} else {
		syncOK := callOKFact(c, func(call *ssa.Call) bool { return ssa.Instruction(call) == syncCall })
		good := Dominates(syncCall, finalCall) && GuardedBy(finalCall.Block(), syncOK)
		r.Check(good, "sstable.Writer.Finish:sync-then-rename", c.InsPos(finalCall), "the rename into place is dominated by a successful fsync", "the table file is renamed into place without a preceding successful fsync: a crash can expose a table whose bytes are not on disk")
		// no write after the sync
		w, path := Reach(finish, syncCall, func(i ssa.Instruction) bool { return !isDefer(i) && c.CallMay(i, writes) }, nil)
		if w != nil {
			r.Bad("sstable.Writer.Finish:no-write-after-sync", c.InsPos(w), "data is written to the table file after the fsync", c.PathString(path)...)
		} else {
			r.OK("sstable.Writer.Finish:no-write-after-sync", c.InsPos(syncCall), "no write after the fsync")
		}
		// every write error is checked (no success exit on a failed write)
		okW := true
		nW := 0
		for _, wcall := range c.CallsIn(finish, writes, false) {
			nW++
			if bad, path := ErrorDropped(c, finish, wcall); bad != nil {
				okW = false
				r.Bad("sstable.Writer.Finish:write-error-checked", c.InsPos(wcall), "a success exit is reachable although a write to the table file failed", c.PathString(path)...)
			}
		}
		if okW {
			r.OK("sstable.Writer.Finish:write-error-checked", c.FnPos(finish), fmt.Sprintf("%d write call(s) with their errors checked", nW))
		}
	}
	// FinalizeFile renames tmpPath -> path; the file is created at tmpPath
	okRen := false
	AllInstrs(fmFinal, false, func(_ *ssa.Function, ins ssa.Instruction) {
		if call, ok := ins.(*ssa.Call); ok && staticName(call) == "os.Rename" {
			okRen = isLoadOfField(call.Call.Args[0], tmpF) && isLoadOfField(call.Call.Args[1], pathF)
		}
	})
	r.Check(okRen, "sstable.FileManager.FinalizeFile", c.FnPos(fmFinal), "renames the temporary path onto the final path", "FinalizeFile does not rename tmpPath onto path")
	okCreate := false
	var created ssa.Value
	AllInstrs(newFM, false, func(_ *ssa.Function, ins ssa.Instruction) {
		if call, ok := ins.(*ssa.Call); ok && (staticName(call) == "os.Create" || staticName(call) == "os.OpenFile") {
			created = call.Call.Args[0]
		}
	})
	if created != nil {
		var tmpVal, pathVal ssa.Value
		AllInstrs(newFM, false, func(_ *ssa.Function, ins ssa.Instruction) {
			if st, ok := ins.(*ssa.Store); ok {
				switch fieldVarOf(st.Addr) {
				case tmpF:
					tmpVal = st.Val
				case pathF:
					pathVal = st.Val
				}
			}
		})
		okCreate = tmpVal != nil && pathVal != nil && sameValue(created, tmpVal) && !sameValue(created, pathVal)
	}
	r.Check(okCreate, "sstable.NewFileManager", c.FnPos(newFM), "the file opened for writing is the temporary name, never the final one", "the table is written directly under (or not under the recorded) temporary name: a half-written file could be visible under its final name")
	// who renames into the sstable dir: only FinalizeFile in pkg/sstable
	// loaders skip everything that is not *.sst
	for _, ln := range []string{"loadSSTables", "ReloadSSTables"} {
		fn := c.Func("pkg/engine/storage", "Manager", ln)
		if fn == nil {
			r.Unresolved("storage.Manager."+ln, "not found")
			continue
		}
		isSst := func(cond ssa.Value) (bool, bool) {
			if bo, ok := cond.(*ssa.BinOp); ok && (bo.Op == token.NEQ || bo.Op == token.EQL) {
				if k, ok := constString(bo.Y); ok && k == ".sst" {
					if call, ok := bo.X.(*ssa.Call); ok && staticName(call) == "path/filepath.Ext" {
						return bo.Op == token.EQL, bo.Op == token.NEQ
					}
				}
			}
			if call, ok := cond.(*ssa.Call); ok && staticName(call) == "strings.HasSuffix" {
				if k, ok := constString(call.Call.Args[1]); ok && k == ".sst" {
					return true, false
				}
			}
			return false, false
		}
		n := 0
		ok := true
		AllInstrs(fn, false, func(_ *ssa.Function, ins ssa.Instruction) {
			if call, isCall := ins.(*ssa.Call); isCall && call.Call.StaticCallee() != nil && call.Call.StaticCallee().Name() == "OpenReader" {
				n++
				if !GuardedBy(ins.Block(), isSst) {
					ok = false
				}
			}
		})
		r.Check(n > 0 && ok, "storage.Manager."+ln+":only-sst", c.FnPos(fn), "only files with the .sst extension are opened as tables", "the loader opens files that do not end in .sst (temporary files of an interrupted write would be loaded)")
	}
}

// ---------------------------------------------------------------- C02: flush publishes after Finish

func ruleStFlushPublish(c *Ctx, r *Reporter) {
	a := getStAnchors(c, r)
	if !a.ok {
		return
	}
	r.Rule("flush-publishes-after-finish", 1)
	fn := a.flushMem
	finish := c.Func("pkg/sstable", "Writer", "Finish")
	finOK := callOKFact(c, func(call *ssa.Call) bool { return call.Call.StaticCallee() == finish })
	n := 0
	AllInstrs(fn, false, func(_ *ssa.Function, ins ssa.Instruction) {
		st, ok := ins.(*ssa.Store)
		if !ok || fieldVarOf(st.Addr) != a.sstables {
			return
		}
		n++
		r.Check(GuardedBy(ins.Block(), finOK), "storage.Manager.flushMemTable:publish", c.InsPos(ins), "the new table joins the read path only after Finish succeeded",
			"the new table is added to the SSTable list on a path where Finish has not succeeded")
	})
	if n == 0 {
		r.Bad("storage.Manager.flushMemTable:publish", c.FnPos(fn), "a flushed table is never added to the SSTable list")
	}
}

// ---------------------------------------------------------------- destructive file operations (C02/C10/C12)

type destructiveSite struct {
	fn   string
	op   string
	role string
}

var destructiveAllowed = map[string]string{
	"config.Manifest.Save|os.Rename":                                      "manifest temp+rename",
	"config.Config.SaveManifest|os.Rename":                                "manifest temp+rename",
	"wal.WAL.ManageRetention|os.Remove":                                   "WAL retention (never the current file; guard checked by C12/retention-spares-current-log)",
	"compaction.DefaultCompactionExecutor.DeleteCompactedFiles|os.Remove": "compaction input deletion (callers checked by C12/inputs-outlive-outputs)",
	"compaction.DefaultFileTracker.CleanupObsoleteFiles|os.Remove":        "obsolete compaction inputs (pending files skipped)",
	"sstable.OpenReader|os.Remove":                                        "bloom filter temp file",
	"sstable.FileManager.FinalizeFile|os.Rename":                          "atomic publication of a table",
	"sstable.FileManager.Cleanup|os.Remove":                               "aborted table temp file",
	"sstable.BlockBloomFilterBuilder.Serialize|os.Remove":                 "bloom filter temp file",
}

// siteOwner names the function a reviewed site belongs to: an unexported function whose only callers (in kevo, tests
// are not loaded) are one other function of the same package is a helper extracted from that function, and the
// site is still the caller's (so that moving a loop into a helper does not rename a reviewed site). Two levels at most.
func (c *Ctx) siteOwner(fn *ssa.Function) *ssa.Function {
	for d := 0; d < 1; d++ {
		if fn == nil || fn.Object() == nil || fn.Object().Exported() {
			return fn
		}
		var owner *ssa.Function
		for _, e := range c.Callers(fn) {
			cf := topParent(e.Caller.Func)
			if !c.InKevo(cf) || cf == fn {
				continue
			}
			if owner != nil && owner != cf {
				return fn
			}
			owner = cf
		}
		if owner == nil || owner.Pkg != fn.Pkg {
			return fn
		}
		fn = owner
	}
	return fn
}

func ruleDestructiveOps(c *Ctx, r *Reporter) {
	r.Rule("destructive-ops", 9)
	for _, fn := range c.KevoFns {
		p := pkgOf(fn)
		if !strings.HasPrefix(p, "pkg/") {
			continue
		}
		AllInstrs(fn, false, func(_ *ssa.Function, ins ssa.Instruction) {
			ci, ok := ins.(ssa.CallInstruction)
			if !ok {
				return
			}
			f := ci.Common().StaticCallee()
			if f == nil {
				return
			}
			op := f.String()
			switch op {
			case "os.Remove", "os.RemoveAll", "os.Rename", "os.Truncate", "(*os.File).Truncate":
			default:
				return
			}
			key := FnName(topParent(fn)) + "|" + op
			if _, known := destructiveAllowed[key]; !known && key != "storage.Manager.recoverFromWAL|os.Rename" {
				// a helper extracted from a reviewed function: the site is still that function's
				for o, d := topParent(fn), 0; d < 2; d++ {
					o2 := c.siteOwner(o)
					if o2 == o {
						break
					}
					o = o2
					k2 := FnName(o) + "|" + op
					if _, known := destructiveAllowed[k2]; known || k2 == "storage.Manager.recoverFromWAL|os.Rename" {
						key = k2
						break
					}
				}
			}
			if why, ok := destructiveAllowed[key]; ok {
				r.OK(key, c.InsPos(ins), "classified: "+why)
				return
			}
			if key == "storage.Manager.recoverFromWAL|os.Rename" {
				if r.Property == "C10" || r.Property == "C02" {
					r.Bad(key, c.InsPos(ins), "on a replay error every log file is moved to a backup directory and the engine opens with empty memtables, reporting success: undamaged log files are discarded, and acknowledged writes that were only in the log are gone (also after a clean close, once the total log volume exceeds the recovery cap)")
				} else {
					r.Info(key, c.InsPos(ins), "backup move of all log files on a replay error: reported under C10 and C02")
				}
				return
			}
			r.Bad(key, c.InsPos(ins), "unclassified destructive file operation on database files ("+op+"): every remove/rename/truncate must be one of the reviewed sites")
		})
	}
}

// ---------------------------------------------------------------- C03: buffer isolation, capture, rollback

func ruleTxBufferIsolation(c *Ctx, r *Reporter) {
	r.Rule("buffer-isolation", 5)
	muts := storageMutators(c)
	a := NewReporter("tmp")
	w := getWalAnchors(c, a)
	if len(muts) != 3 || !w.ok {
		r.Unresolved("storage mutators / wal anchors", "not found")
		return
	}
	targets := FnSet{}
	for f := range muts {
		targets[f] = true
	}
	for _, f := range w.appendFns {
		targets[f] = true
	}
	for _, mn := range []string{"Put", "Delete", "Get", "NewIterator", "NewRangeIterator", "Rollback"} {
		fn := c.Func("pkg/transaction", "TransactionImpl", mn)
		if fn == nil {
			r.Unresolved("transaction.TransactionImpl."+mn, "not found")
			continue
		}
		path := c.MayReachPath(fn, func(f *ssa.Function) bool { return targets[f] }, 6, true)
		if path != nil {
			r.Bad("transaction.TransactionImpl."+mn, c.FnPos(fn), "a transactional operation other than Commit can reach a storage mutation or the log: uncommitted writes would become visible", path...)
		} else {
			r.OK("transaction.TransactionImpl."+mn, c.FnPos(fn), "no call path to a storage mutator or to the log")
		}
	}
}

// copiedFresh: v is a freshly allocated copy: append(<fresh empty or nil>, x...), make+copy result, bytes.Clone, or a
// string conversion; NOT a parameter or a slice of one.
func isFreshBytes(v ssa.Value, d int) bool {
	if d > 5 || v == nil {
		return false
	}
	switch x := v.(type) {
	case *ssa.Const:
		return true // nil
	case *ssa.Call:
		if b, ok := x.Call.Value.(*ssa.Builtin); ok && b.Name() == "append" {
			return isFreshBase(x.Call.Args[0], d+1)
		}
		if f := x.Call.StaticCallee(); f != nil {
			switch f.String() {
			case "bytes.Clone", "slices.Clone":
				return true
			}
			return calleeReturnsFresh(f, 0, d+1)
		}
	case *ssa.Extract:
		if call, ok := x.Tuple.(*ssa.Call); ok && call.Call.StaticCallee() != nil {
			return calleeReturnsFresh(call.Call.StaticCallee(), x.Index, d+1)
		}
	case *ssa.MakeSlice:
		return true
	case *ssa.Slice:
		if _, ok := x.X.(*ssa.Alloc); ok {
			return true
		}
		return isFreshBytes(x.X, d+1)
	case *ssa.Convert:
		if strings.Contains(x.X.Type().String(), "string") {
			return true
		}
	case *ssa.Phi:
		for _, e := range x.Edges {
			if !isFreshBytes(e, d+1) {
				return false
			}
		}
		return true
	}
	return false
}

// calleeReturnsFresh: a function of this module every return of which hands out, as result idx, bytes that are fresh
// by the same criterion (a read helper that allocates the buffer it fills and returns).
func calleeReturnsFresh(f *ssa.Function, idx int, d int) bool {
	if f == nil || len(f.Blocks) == 0 || f.Pkg == nil || !strings.HasPrefix(f.Pkg.Pkg.Path(), modPath) {
		return false
	}
	rets := Returns(f)
	if len(rets) == 0 {
		return false
	}
	for _, ret := range rets {
		if idx >= len(ret.Results) || !isFreshBytes(ReturnValue(ret, idx), d+1) {
			return false
		}
	}
	return true
}

func isFreshBase(v ssa.Value, d int) bool {
	switch x := v.(type) {
	case *ssa.Const:
		return true
	case *ssa.MakeSlice:
		return true
	case *ssa.Slice:
		_, ok := x.X.(*ssa.Alloc)
		return ok
	case *ssa.Call:
		return isFreshBytes(x, d+1)
	}
	return false
}

func ruleTxBufferCapture(c *Ctx, r *Reporter) {
	r.Rule("capture-at-call-time", 3)
	opKey := c.Field("pkg/transaction", "Operation", "Key")
	opVal := c.Field("pkg/transaction", "Operation", "Value")
	ops := c.Field("pkg/transaction", "Buffer", "operations")
	if opKey == nil || opVal == nil || ops == nil {
		r.Unresolved("transaction.Operation.{Key,Value} / Buffer.operations", "not found")
		return
	}
	for _, mn := range []string{"Put", "Delete"} {
		fn := c.Func("pkg/transaction", "Buffer", mn)
		if fn == nil {
			r.Unresolved("transaction.Buffer."+mn, "not found")
			continue
		}
		AllInstrs(fn, false, func(_ *ssa.Function, ins ssa.Instruction) {
			st, ok := ins.(*ssa.Store)
			if !ok {
				return
			}
			fv := fieldVarOf(st.Addr)
			if fv != opKey && fv != opVal {
				return
			}
			name := "transaction.Buffer." + mn + ":" + fv.Name()
			r.Check(isFreshBytes(st.Val, 0), name, c.InsPos(ins), "stores a fresh copy of the caller's bytes", "stores the caller's slice by reference: a caller that reuses its buffer before commit changes what the transaction writes")
		})
		// last-op-wins: exactly one map update, keyed by string(key param)
		n := 0
		okKey := true
		AllInstrs(fn, false, func(_ *ssa.Function, ins ssa.Instruction) {
			mu, ok := ins.(*ssa.MapUpdate)
			if !ok || !isLoadOfField(mu.Map, ops) {
				return
			}
			n++
			cv, isConv := mu.Key.(*ssa.Convert)
			if !isConv || len(fn.Params) < 2 || cv.X != ssa.Value(fn.Params[1]) {
				okKey = false
			}
		})
		r.Check(n == 1 && okKey, "transaction.Buffer."+mn+":last-op-wins", c.FnPos(fn), "one assignment into the operations map under string(key): a later operation on the key replaces the earlier",
			"the operation is not recorded by a single assignment under string(key): repeated writes of a key would not resolve to the last one")
	}
}

func ruleTxRollbackClears(c *Ctx, r *Reporter) {
	r.Rule("rollback-clears", 1)
	a := getTxAnchors(c, r)
	if !a.ok {
		return
	}
	clear := c.Func("pkg/transaction", "Buffer", "Clear")
	if clear == nil {
		r.Unresolved("transaction.Buffer.Clear", "not found")
		return
	}
	fn := a.rollback
	sites := c.CallsIn(fn, NewFnSet(clear), false)
	if len(sites) == 0 {
		r.Bad("transaction.TransactionImpl.Rollback", c.FnPos(fn), "Rollback does not clear the buffer")
		return
	}
	ok := true
	for _, rel := range c.CallsIn(fn, NewFnSet(a.relR, a.relW), false) {
		dom := false
		for _, s := range sites {
			if Dominates(s, rel) {
				dom = true
			}
		}
		if !dom {
			ok = false
		}
	}
	r.Check(ok, "transaction.TransactionImpl.Rollback", c.InsPos(sites[0]), "the buffer is cleared before the lock is released", "the lock is released before the buffer is cleared")
	// Clear really empties: it stores a fresh map (or deletes all)
	emp := false
	ops := c.Field("pkg/transaction", "Buffer", "operations")
	AllInstrs(clear, false, func(_ *ssa.Function, ins ssa.Instruction) {
		if st, ok := ins.(*ssa.Store); ok && fieldVarOf(st.Addr) == ops {
			if _, isMk := st.Val.(*ssa.MakeMap); isMk {
				emp = true
			}
		}
		if call, ok := ins.(*ssa.Call); ok {
			if b, ok := call.Call.Value.(*ssa.Builtin); ok && b.Name() == "clear" {
				emp = true
			}
		}
	})
	r.Check(emp, "transaction.Buffer.Clear", c.FnPos(clear), "replaces the operations map by an empty one", "Clear does not empty the operations map")
}

// ---------------------------------------------------------------- C06/C07: WAL pointer discipline

func ruleStWalPointer(c *Ctx, r *Reporter) {
	a := getStAnchors(c, r)
	if !a.ok {
		return
	}
	r.Rule("wal-pointer-discipline", 3)
	// on the write path (mutators + closures) the WAL is obtained through getWAL (atomic load)
	for _, mfn := range a.mutators() {
		for _, body := range bodies(mfn) {
			for _, s := range c.CallsIn(body, a.appendSet(), false) {
				recv := s.Common().Args[0]
				call, ok := recv.(*ssa.Call)
				good := ok && call.Call.StaticCallee() == a.getWAL
				r.Check(good, FnName(body)+":wal-read", c.InsPos(s), "the log is obtained through the atomic getWAL()", "the write path reads Manager.wal without the atomic accessor while rotation swaps it atomically")
			}
		}
	}
	// getWAL is an atomic load of the wal field
	atomicLoad := false
	AllInstrs(a.getWAL, false, func(_ *ssa.Function, ins ssa.Instruction) {
		if call, ok := ins.(*ssa.Call); ok {
			if f := call.Call.StaticCallee(); f != nil && f.String() == "sync/atomic.LoadPointer" && addrDerivesFromField(call.Call.Args[0], a.walField, 0) {
				atomicLoad = true
			}
		}
	})
	r.Check(atomicLoad, "storage.Manager.getWAL", c.FnPos(a.getWAL), "atomic load of Manager.wal", "getWAL is no longer an atomic load of Manager.wal")
	// writers of the pointer outside constructor-only code: atomic only
	ctorOnly := c.CtorOnly()
	for _, fn := range c.KevoFns {
		if pkgOf(fn) != "pkg/engine/storage" {
			continue
		}
		for _, pub := range walPublications(c, a, fn) {
			_, plain := pub.(*ssa.Store)
			if plain && !ctorOnly[topParent(fn)] {
				r.Bad(FnName(fn)+":wal-store", c.InsPos(pub), "Manager.wal is assigned with a plain store outside constructor-only code while readers load it atomically")
			} else {
				r.OK(FnName(fn)+":wal-store", c.InsPos(pub), map[bool]string{true: "plain store before the manager is published (constructor-only code)", false: "atomic store"}[plain])
			}
		}
	}
}

// CtorOnly: functions all of whose call chains start in a constructor (New*/Open*/Reuse*/Load* package-level function) of the
// same package, i.e. that run before the object is published. Composite-literal initialisation counts as constructor code.
func (c *Ctx) CtorOnly() map[*ssa.Function]bool {
	if c.ctorOnly != nil {
		return c.ctorOnly
	}
	isCtor := func(fn *ssa.Function) bool {
		if fn.Signature.Recv() != nil || fn.Parent() != nil {
			return false
		}
		n := fn.Name()
		return strings.HasPrefix(n, "New") || strings.HasPrefix(n, "Open") || strings.HasPrefix(n, "Reuse") || n == "init"
	}
	res := map[*ssa.Function]bool{}
	for _, fn := range c.KevoFns {
		if isCtor(fn) {
			res[fn] = true
		}
	}
	for round := 0; round < 6; round++ {
		changed := false
		for _, fn := range c.KevoFns {
			if res[fn] || fn.Parent() != nil {
				continue
			}
			if fn.Object() != nil && fn.Object().Exported() {
				continue // exported methods can be called by anyone after publication
			}
			n := 0
			all := true
			for _, e := range c.Callers(fn) {
				if e.Site == nil || !c.InKevo(e.Caller.Func) {
					continue
				}
				n++
				if isGo(e.Site) || !res[topParent(e.Caller.Func)] {
					all = false
				}
			}
			if n > 0 && all {
				res[fn] = true
				changed = true
			}
		}
		if !changed {
			break
		}
	}
	c.ctorOnly = res
	return res
}

var _ = sort.Strings
var _ types.Type

// ruleTxOpsBuffered: every successful TransactionImpl.Put/Delete has buffered exactly that operation, and pending operations
// leave the buffer only through Clear (rollback / after commit).
func ruleTxOpsBuffered(c *Ctx, r *Reporter) {
	r.Rule("ops-are-buffered", 4)
	ops := c.Field("pkg/transaction", "Buffer", "operations")
	if ops == nil {
		r.Unresolved("transaction.Buffer.operations", "not found")
		return
	}
	for _, mn := range []string{"Put", "Delete"} {
		fn := c.Func("pkg/transaction", "TransactionImpl", mn)
		bf := c.Func("pkg/transaction", "Buffer", mn)
		if fn == nil || bf == nil {
			r.Unresolved("transaction.TransactionImpl."+mn+" / Buffer."+mn, "not found")
			continue
		}
		isBuf := func(ins ssa.Instruction) bool {
			call, ok := ins.(*ssa.Call)
			if !ok || call.Call.StaticCallee() != bf {
				return false
			}
			// the method's own key (and value)
			for i := 1; i < len(call.Call.Args) && i < len(fn.Params); i++ {
				if !sameValue(call.Call.Args[i], fn.Params[i]) {
					return false
				}
			}
			return true
		}
		exits := SuccessExits(fn, true)
		miss, path := MustPass(fn, exits, isBuf)
		r.Check(miss == nil && len(exits) > 0, "transaction.TransactionImpl."+mn+":buffers-the-operation", c.FnPos(fn),
			"every success exit passes Buffer."+mn+" with the caller's arguments",
			"a success exit is reachable without buffering the operation (Buffer."+mn+" with the caller's key): the transaction reports success for a write it will neither show nor commit", c.PathString(path)...)
	}
	// who removes pending operations
	allowedDel := map[string]bool{"transaction.Buffer.Clear": true, "transaction.NewBuffer": true}
	allowedUpd := map[string]bool{"transaction.Buffer.Put": true, "transaction.Buffer.Delete": true}
	var badDel, badUpd []string
	for _, fn := range c.KevoFns {
		name := FnName(topParent(fn))
		AllInstrs(fn, false, func(_ *ssa.Function, ins ssa.Instruction) {
			switch x := ins.(type) {
			case *ssa.Call:
				if b, ok := x.Call.Value.(*ssa.Builtin); ok && (b.Name() == "delete" || b.Name() == "clear") && isLoadOfField(x.Call.Args[0], ops) && !allowedDel[name] {
					badDel = append(badDel, name+" ("+c.InsPos(ins)+")")
				}
			case *ssa.Store:
				if fieldVarOf(x.Addr) == ops && !allowedDel[name] {
					badDel = append(badDel, name+" ("+c.InsPos(ins)+")")
				}
			case *ssa.MapUpdate:
				if isLoadOfField(x.Map, ops) && !allowedUpd[name] {
					badUpd = append(badUpd, name+" ("+c.InsPos(ins)+")")
				}
			}
		})
	}
	r.Check(len(badDel) == 0, "transaction.Buffer.operations:removals", "", "pending operations are only dropped by Clear", "a pending operation can be dropped from the buffer outside Clear: "+strings.Join(badDel, ", ")+" — a buffered write or delete silently disappears from the transaction")
	r.Check(len(badUpd) == 0, "transaction.Buffer.operations:updates", "", "pending operations are only recorded by Buffer.Put/Delete", "the buffer's map is updated outside Buffer.Put/Delete: "+strings.Join(badUpd, ", "))
}
