package main

import (
	"fmt"
	"go/token"
	"go/types"
	"sort"
	"strings"

	"golang.org/x/tools/go/ssa"
)

// P-CODEC (offset-addressed form): field lists of an encoder that fills a buffer at computed offsets and of a decoder
// that reads a buffer at computed offsets. Offsets are guarded linear expressions over constants and len(·) terms;
// a value the decoder has read from field k is identified with the expression the encoder wrote into field k.

type CField struct {
	Off    string // rendered offset (guarded linear form)
	Width  string // "1","2","4","8" or "len:<expr>" for byte regions
	Order  string // LE / BE / -
	Guard  string // conjunction of dominating type conditions
	Val    string // encoder: expression written; decoder: symbol of the value read
	Ins    ssa.Instruction
	val    ssa.Value
	offLin GLin
}

func (f CField) String() string {
	g := ""
	if f.Guard != "" {
		g = " if " + f.Guard
	}
	return fmt.Sprintf("@%s w%s %s%s", f.Off, f.Width, f.Order, g)
}

func binaryOrderCall(call *ssa.Call) (order string, op string, width int) {
	f := call.Call.StaticCallee()
	if f == nil {
		return "", "", 0
	}
	s := f.String()
	switch {
	case strings.HasPrefix(s, "(encoding/binary.littleEndian)."):
		order = "LE"
	case strings.HasPrefix(s, "(encoding/binary.bigEndian)."):
		order = "BE"
	default:
		return "", "", 0
	}
	n := f.Name()
	switch {
	case strings.HasPrefix(n, "PutUint"):
		op = "put"
		n = strings.TrimPrefix(n, "PutUint")
	case strings.HasPrefix(n, "Uint"):
		op = "get"
		n = strings.TrimPrefix(n, "Uint")
	default:
		return "", "", 0
	}
	switch n {
	case "16":
		width = 2
	case "32":
		width = 4
	case "64":
		width = 8
	}
	return
}

// sliceOf: v is buf[lo:hi] (possibly nested once); returns base, lo, hi.
func sliceOf(v ssa.Value) (base ssa.Value, lo, hi ssa.Value, ok bool) {
	sl, isS := v.(*ssa.Slice)
	if !isS {
		return nil, nil, nil, false
	}
	return sl.X, sl.Low, sl.High, true
}

// dominatingGuards: canonical conditions of branches whose edge dominates block b, filtered by keep.
func dominatingGuards(b *ssa.BasicBlock, render func(cond ssa.Value) string) string {
	fn := b.Parent()
	var gs []string
	for _, ib := range fn.Blocks {
		if len(ib.Instrs) == 0 {
			continue
		}
		iff, ok := ib.Instrs[len(ib.Instrs)-1].(*ssa.If)
		if !ok {
			continue
		}
		s := render(iff.Cond)
		if s == "" {
			continue
		}
		if edgeDominates(ib, 0, b) {
			gs = append(gs, s)
		} else if edgeDominates(ib, 1, b) {
			gs = append(gs, negCond(s))
		}
	}
	sort.Strings(gs)
	return strings.Join(gs, " && ")
}

// instrOrder sorts instructions in (approximate) program order.
func instrOrderLess(a, b ssa.Instruction) bool {
	if a.Block() != b.Block() {
		return a.Block().Index < b.Block().Index
	}
	return instrIndex(a) < instrIndex(b)
}

// ExtractOffsetEncoder lists the fields an encoder writes into the buffer identified by isBuf.
func ExtractOffsetEncoder(fn *ssa.Function, isBuf func(ssa.Value) bool, guardTerm func(cond ssa.Value, lx *LinX) string) []CField {
	lx := &LinX{}
	var out []CField
	off := func(v ssa.Value) GLin {
		if v == nil {
			return GLin{{L: linConst(0)}}
		}
		return lx.Lin(v)
	}
	AllInstrs(fn, false, func(_ *ssa.Function, ins ssa.Instruction) {
		switch x := ins.(type) {
		case *ssa.Call:
			if order, op, w := binaryOrderCall(x); op == "put" {
				base, lo, _, ok := sliceOf(x.Call.Args[1])
				target := x.Call.Args[1]
				if ok && isBuf(base) {
					o := off(lo)
					out = append(out, CField{Off: o.String(), offLin: o, Width: fmt.Sprint(w), Order: order, Val: valueExpr(x.Call.Args[2], lx), Ins: ins, val: x.Call.Args[2]})
				} else if isBuf(target) {
					o := GLin{{L: linConst(0)}}
					out = append(out, CField{Off: o.String(), offLin: o, Width: fmt.Sprint(w), Order: order, Val: valueExpr(x.Call.Args[2], lx), Ins: ins, val: x.Call.Args[2]})
				}
				return
			}
			if h := putHelperSummary(x.Call.StaticCallee()); h != nil && isBuf(x.Call.Args[h.buf]) {
				// buf-writing helper (extracted put-uint loop): one field at the offset argument
				o := off(x.Call.Args[h.off])
				if h.k != 0 {
					var o2 GLin
					for _, a := range o {
						o2 = append(o2, GAlt{Guard: a.Guard, L: a.L.add(linConst(h.k), 1)})
					}
					o = o2
				}
				out = append(out, CField{Off: o.String(), offLin: o, Width: h.width, Order: h.order, Val: valueExpr(x.Call.Args[h.val], lx), Ins: ins, val: x.Call.Args[h.val]})
				return
			}
			if b, ok := x.Call.Value.(*ssa.Builtin); ok && b.Name() == "copy" {
				dst := x.Call.Args[0]
				base, lo, _, ok := sliceOf(dst)
				if ok && isBuf(base) {
					o := off(lo)
					src := x.Call.Args[1]
					out = append(out, CField{Off: o.String(), offLin: o, Width: "len:" + srcLenLin(src, lx).String(), Order: "-", Val: bytesExpr(src), Ins: ins, val: src})
				}
			}
		case *ssa.Store:
			if ia, ok := x.Addr.(*ssa.IndexAddr); ok && isBuf(ia.X) {
				if bt, ok := x.Val.Type().Underlying().(*types.Basic); ok && bt.Kind() == types.Uint8 {
					if sl := splitInduction(ia.Index); sl != nil {
						// buf[o+i] = byte(x >> (i*8)) for i in 0..N-1: one N-byte integer field
						o := off(sl.off)
						order, val := "?", ssa.Value(nil)
						if sh, ok := stripNumConv(x.Val).(*ssa.BinOp); ok && sh.Op == token.SHR {
							order = shiftOrder(sh.Y, sl)
							val = sh.X
						}
						f := CField{Off: o.String(), offLin: o, Width: fmt.Sprint(sl.n), Order: order, Val: "?", Ins: ins, val: val}
						if val != nil {
							f.Val = valueExpr(val, lx)
						}
						out = append(out, f)
						return
					}
					o := off(ia.Index)
					if strings.Contains(o.String(), "phi:") {
						return // element-wise scan of the buffer, not a field
					}
					out = append(out, CField{Off: o.String(), offLin: o, Width: "1", Order: "-", Val: valueExpr(x.Val, lx), Ins: ins, val: x.Val})
				}
			}
		}
	})
	for i := range out {
		b := out[i].Ins.Block()
		out[i].Guard = dominatingGuards(b, func(c ssa.Value) string { return guardTerm(c, lx) })
	}
	sort.SliceStable(out, func(i, j int) bool { return instrOrderLess(out[i].Ins, out[j].Ins) })
	return out
}

// srcLenLin: the length of a copy source as a linear form.
func srcLenLin(src ssa.Value, lx *LinX) GLin {
	if sl, ok := src.(*ssa.Slice); ok {
		baseLen := GLin{{L: linTerm("len(" + Path(sl.X) + ")")}}
		hi := baseLen
		if sl.High != nil {
			hi = lx.Lin(sl.High)
		}
		lo := GLin{{L: linConst(0)}}
		if sl.Low != nil {
			lo = lx.Lin(sl.Low)
		}
		var out GLin
		for _, a := range hi {
			for _, b := range lo {
				out = append(out, GAlt{Guard: conj(a.Guard, b.Guard), L: a.L.add(b.L, -1)})
			}
		}
		return out
	}
	return GLin{{L: linTerm("len(" + Path(src) + ")")}}
}

func bytesExpr(v ssa.Value) string {
	// src may be key, key[:k], data[a:b]
	if sl, ok := v.(*ssa.Slice); ok {
		lx := &LinX{}
		lo, hi := "0", "end"
		if sl.Low != nil {
			lo = lx.Lin(sl.Low).String()
		}
		if sl.High != nil {
			hi = lx.Lin(sl.High).String()
		}
		return Path(sl.X) + "[" + lo + ":" + hi + "]"
	}
	return Path(v)
}

// valueExpr renders the integer expression written into a field (conversions stripped).
func valueExpr(v ssa.Value, lx *LinX) string {
	for {
		if cv, ok := v.(*ssa.Convert); ok {
			v = cv.X
			continue
		}
		break
	}
	g := lx.Lin(v)
	return g.String()
}

// ExtractOffsetDecoder lists the fields a decoder reads from the buffer identified by isBuf. Values read are given
// symbols D0, D1, ... (in program order) that later offsets may mention.
func ExtractOffsetDecoder(fn *ssa.Function, isBuf func(ssa.Value) bool, guardTerm func(cond ssa.Value, lx *LinX) string) []CField {
	type ev struct {
		ins   ssa.Instruction
		val   ssa.Value
		width string
		order string
		lo    ssa.Value
		isLen bool
		hi    ssa.Value
	}
	var evs []ev
	AllInstrs(fn, false, func(_ *ssa.Function, ins ssa.Instruction) {
		switch x := ins.(type) {
		case *ssa.Call:
			if order, op, w := binaryOrderCall(x); op == "get" {
				base, lo, _, ok := sliceOf(x.Call.Args[1])
				if ok && isBuf(base) {
					evs = append(evs, ev{ins: ins, val: x, width: fmt.Sprint(w), order: order, lo: lo})
				} else if isBuf(x.Call.Args[1]) {
					evs = append(evs, ev{ins: ins, val: x, width: fmt.Sprint(w), order: order, lo: nil})
				}
				return
			}
			if h := getHelperSummary(x.Call.StaticCallee()); h != nil && isBuf(x.Call.Args[h.buf]) {
				evs = append(evs, ev{ins: ins, val: x, width: h.width, order: h.order, lo: x.Call.Args[h.off]})
				return
			}
			if b, ok := x.Call.Value.(*ssa.Builtin); ok && b.Name() == "copy" {
				base, lo, hi, ok := sliceOf(x.Call.Args[1])
				if ok && isBuf(base) {
					evs = append(evs, ev{ins: ins, val: x.Call.Args[0], width: "len", order: "-", lo: lo, hi: hi, isLen: true})
				}
			}
		case *ssa.UnOp:
			if x.Op == token.MUL {
				if ia, ok := x.X.(*ssa.IndexAddr); ok && isBuf(ia.X) {
					if sl := splitInduction(ia.Index); sl != nil {
						// acc |= T(buf[o+i]) << (i*8) for i in 0..N-1: one N-byte integer field, value = acc
						acc, order := shiftAccumulator(x, sl)
						var val ssa.Value = x
						if acc != nil {
							val = acc
						} else {
							order = "?"
						}
						evs = append(evs, ev{ins: ins, val: val, width: fmt.Sprint(sl.n), order: order, lo: sl.off})
						return
					}
					var lx0 LinX
					if strings.Contains(lx0.Lin(ia.Index).String(), "phi:") {
						return // element-wise scan of the buffer (debug dump), not a field
					}
					evs = append(evs, ev{ins: ins, val: x, width: "1", order: "-", lo: ia.Index})
				}
			}
		case *ssa.Index:
			if isBuf(x.X) {
				evs = append(evs, ev{ins: ins, val: x, width: "1", order: "-", lo: x.Index})
			}
		}
	})
	sort.SliceStable(evs, func(i, j int) bool { return instrOrderLess(evs[i].ins, evs[j].ins) })
	lx := &LinX{Names: map[ssa.Value]string{}}
	var out []CField
	for i, e := range evs {
		var o GLin
		if e.lo == nil {
			o = GLin{{L: linConst(0)}}
		} else {
			o = lx.Lin(e.lo)
		}
		w := e.width
		if e.isLen {
			if e.hi != nil {
				hi := lx.Lin(e.hi)
				// length = hi - lo
				var l GLin
				for _, a := range hi {
					for _, b := range o {
						l = append(l, GAlt{Guard: conj(a.Guard, b.Guard), L: a.L.add(b.L, -1)})
					}
				}
				w = "len:" + l.String()
			} else {
				w = "len:rest"
			}
		}
		sym := fmt.Sprintf("D%d", i)
		out = append(out, CField{Off: o.String(), offLin: o, Width: w, Order: e.order, Val: sym, Ins: e.ins, val: e.val})
		// register the decoded value (and conversions of it) under its symbol
		lx.Names[e.val] = sym
		if e.val.Referrers() != nil {
			for _, ref := range *e.val.Referrers() {
				if cv, ok := ref.(*ssa.Convert); ok {
					lx.Names[cv] = sym
				}
			}
		}
	}
	for i := range out {
		b := out[i].Ins.Block()
		out[i].Guard = dominatingGuards(b, func(c ssa.Value) string { return guardTerm(c, lx) })
	}
	return out
}

// CompareCodec aligns encoder and decoder fields in order and returns human-readable differences.
func CompareCodec(enc, dec []CField) (diffs []string, rendered []string) {
	// substitution: decoder symbol -> encoder value expression
	sub := map[string]string{}
	rep := func(s string) string {
		var ks []string
		for k := range sub {
			ks = append(ks, k)
		}
		sort.Slice(ks, func(i, j int) bool { return len(ks[i]) > len(ks[j]) })
		for _, k := range ks {
			s = replaceSymbol(s, k, sub[k])
		}
		return s
	}
	n := len(enc)
	if len(dec) < n {
		n = len(dec)
	}
	for i := 0; i < n; i++ {
		e, d := enc[i], dec[i]
		do := normLin(rep(d.Off))
		dw := d.Width
		if strings.HasPrefix(dw, "len:") {
			dw = "len:" + normLin(rep(strings.TrimPrefix(dw, "len:")))
		}
		dg := rep(d.Guard)
		ew := e.Width
		if strings.HasPrefix(ew, "len:") {
			ew = "len:" + normLin(strings.TrimPrefix(ew, "len:"))
		}
		eo := normLin(e.Off)
		rendered = append(rendered, fmt.Sprintf("field %d: writer %s | reader @%s w%s %s%s", i, e.String(), do, dw, d.Order, map[bool]string{true: " if " + dg, false: ""}[dg != ""]))
		if eo != do {
			diffs = append(diffs, fmt.Sprintf("field %d: writer offset %s, reader offset %s", i, eo, do))
		}
		if !sameWidth(ew, dw) {
			diffs = append(diffs, fmt.Sprintf("field %d: writer width %s, reader width %s", i, ew, dw))
		}
		if e.Order != d.Order && e.Width != "1" && !strings.HasPrefix(e.Width, "len:") {
			diffs = append(diffs, fmt.Sprintf("field %d: byte order %s vs %s", i, e.Order, d.Order))
		}
		if normGuard(e.Guard) != normGuard(dg) {
			diffs = append(diffs, fmt.Sprintf("field %d: writer guard [%s], reader guard [%s]", i, normGuard(e.Guard), normGuard(dg)))
		}
		sub[d.Val] = "(" + e.Val + ")"
	}
	if len(enc) != len(dec) {
		diffs = append(diffs, fmt.Sprintf("writer has %d fields, reader has %d", len(enc), len(dec)))
	}
	return
}

func replaceSymbol(s, sym, with string) string {
	// replace sym when not followed by a digit (D1 vs D10)
	var b strings.Builder
	for i := 0; i < len(s); {
		if strings.HasPrefix(s[i:], sym) {
			j := i + len(sym)
			if j >= len(s) || s[j] < '0' || s[j] > '9' {
				b.WriteString(with)
				i = j
				continue
			}
		}
		b.WriteByte(s[i])
		i++
	}
	return b.String()
}

// normLin re-normalises a rendered linear form after substitution: parses "K + a + 2*b + (x + y)" summands.
func normLin(s string) string {
	if strings.Contains(s, "|") || strings.Contains(s, "[") && strings.Contains(s, "] ") {
		// guarded alternatives: normalise each
		parts := strings.Split(s, " | ")
		for i, p := range parts {
			if j := strings.Index(p, "] "); strings.HasPrefix(p, "[") && j > 0 {
				parts[i] = p[:j+2] + normLinSimple(p[j+2:])
			} else {
				parts[i] = normLinSimple(p)
			}
		}
		sort.Strings(parts)
		return strings.Join(parts, " | ")
	}
	return normLinSimple(s)
}

func normLinSimple(s string) string {
	// flatten parentheses that wrap pure sums
	s = strings.ReplaceAll(s, "(", "")
	s = strings.ReplaceAll(s, ")", "")
	terms := map[string]int64{}
	var k int64
	for _, t := range strings.Split(s, " + ") {
		t = strings.TrimSpace(t)
		if t == "" {
			continue
		}
		coef := int64(1)
		if i := strings.Index(t, "*"); i > 0 {
			var c int64
			if _, err := fmt.Sscanf(t[:i], "%d", &c); err == nil {
				coef = c
				t = t[i+1:]
			}
		}
		var c int64
		if _, err := fmt.Sscanf(t, "%d", &c); err == nil && fmt.Sprint(c) == t {
			k += coef * c
			continue
		}
		// len(x) with x lost its parens: restore canonical token
		terms[t] += coef
	}
	var ks []string
	for t := range terms {
		ks = append(ks, t)
	}
	sort.Strings(ks)
	var parts []string
	if k != 0 || len(ks) == 0 {
		parts = append(parts, fmt.Sprint(k))
	}
	for _, t := range ks {
		if terms[t] == 1 {
			parts = append(parts, t)
		} else if terms[t] != 0 {
			parts = append(parts, fmt.Sprintf("%d*%s", terms[t], t))
		}
	}
	return strings.Join(parts, " + ")
}

func sameWidth(a, b string) bool { return a == b }

func normGuard(g string) string {
	g = strings.ReplaceAll(g, "(", "")
	g = strings.ReplaceAll(g, ")", "")
	parts := strings.Split(g, " && ")
	sort.Strings(parts)
	var out []string
	for i, p := range parts {
		if p != "" && (i == 0 || p != parts[i-1]) {
			out = append(out, p)
		}
	}
	return strings.Join(out, " && ")
}

// shiftLoop: an index of the form o+i where i counts 0..n-1 in a counting loop.
type shiftLoop struct {
	off ssa.Value // nil: offset 0
	i   *ssa.Phi
	n   int64
}

// countingPhi: v is the induction variable of `for i := 0; i < N; i++` with constant N.
func countingPhi(v ssa.Value) (*ssa.Phi, int64, bool) {
	phi, ok := v.(*ssa.Phi)
	if !ok || len(phi.Edges) != 2 {
		return nil, 0, false
	}
	zero, step := false, false
	for _, e := range phi.Edges {
		if k, ok := constInt(e); ok && k == 0 {
			zero = true
			continue
		}
		if bo, ok := e.(*ssa.BinOp); ok && bo.Op == token.ADD && bo.X == ssa.Value(phi) {
			if k, ok := constInt(bo.Y); ok && k == 1 {
				step = true
			}
		}
	}
	if !zero || !step {
		return nil, 0, false
	}
	b := phi.Block()
	iff, ok := b.Instrs[len(b.Instrs)-1].(*ssa.If)
	if !ok {
		return nil, 0, false
	}
	bo, ok := iff.Cond.(*ssa.BinOp)
	if !ok || bo.Op != token.LSS || bo.X != ssa.Value(phi) {
		return nil, 0, false
	}
	n, ok := constInt(bo.Y)
	if !ok || n <= 0 || n > 8 {
		return nil, 0, false
	}
	return phi, n, true
}

func splitInduction(idx ssa.Value) *shiftLoop {
	if phi, n, ok := countingPhi(idx); ok {
		return &shiftLoop{i: phi, n: n}
	}
	bo, ok := idx.(*ssa.BinOp)
	if !ok || bo.Op != token.ADD {
		return nil
	}
	if phi, n, ok := countingPhi(bo.Y); ok {
		return &shiftLoop{off: bo.X, i: phi, n: n}
	}
	if phi, n, ok := countingPhi(bo.X); ok {
		return &shiftLoop{off: bo.Y, i: phi, n: n}
	}
	return nil
}

// shiftOrder: the shift amount i*8 means least significant byte first (LE); (n-1-i)*8 means BE.
func shiftOrder(sh ssa.Value, sl *shiftLoop) string {
	sh = stripNumConv(sh)
	mul, ok := sh.(*ssa.BinOp)
	if !ok || mul.Op != token.MUL {
		return "?"
	}
	x, y := stripNumConv(mul.X), stripNumConv(mul.Y)
	if k, ok := constInt(x); ok && k == 8 {
		x, y = y, x
	}
	if k, ok := constInt(y); !ok || k != 8 {
		return "?"
	}
	if x == ssa.Value(sl.i) {
		return "LE"
	}
	if sub, ok := x.(*ssa.BinOp); ok && sub.Op == token.SUB && stripNumConv(sub.Y) == ssa.Value(sl.i) {
		if k, ok := constInt(sub.X); ok && k == sl.n-1 {
			return "BE"
		}
	}
	return "?"
}

// shiftAccumulator: follows byte load -> convert -> << (i*8) -> acc | _ -> acc phi in the loop header.
func shiftAccumulator(load ssa.Value, sl *shiftLoop) (*ssa.Phi, string) {
	var walk func(v ssa.Value, shifted string, d int) (*ssa.Phi, string)
	walk = func(v ssa.Value, shifted string, d int) (*ssa.Phi, string) {
		if d > 4 || v.Referrers() == nil {
			return nil, ""
		}
		for _, ref := range *v.Referrers() {
			switch x := ref.(type) {
			case *ssa.Convert:
				if p, o := walk(x, shifted, d+1); p != nil {
					return p, o
				}
			case *ssa.BinOp:
				switch {
				case x.Op == token.SHL && x.X == v && shifted == "":
					if p, o := walk(x, shiftOrder(x.Y, sl), d+1); p != nil {
						return p, o
					}
				case (x.Op == token.OR || x.Op == token.ADD) && shifted != "":
					other := x.X
					if other == v {
						other = x.Y
					}
					acc, ok := other.(*ssa.Phi)
					if !ok || acc.Block() != sl.i.Block() || len(acc.Edges) != 2 {
						continue
					}
					zero, back := false, false
					for _, e := range acc.Edges {
						if k, ok := constInt(e); ok && k == 0 {
							zero = true
						}
						if e == ssa.Value(x) {
							back = true
						}
					}
					if zero && back {
						return acc, shifted
					}
				}
			}
		}
		return nil, ""
	}
	return walk(load, "", 0)
}

func stripNumConv(v ssa.Value) ssa.Value {
	for {
		switch x := v.(type) {
		case *ssa.Convert:
			v = x.X
		case *ssa.ChangeType:
			v = x.X
		default:
			return v
		}
	}
}

// helper summaries: small kevo functions that write / read one integer field of a byte buffer at an offset parameter.
type codecHelper struct {
	buf, off, val int // parameter indices (val: -1 for readers)
	k             int64
	width, order  string
}

var putHelperMemo = map[*ssa.Function]*codecHelper{}
var getHelperMemo = map[*ssa.Function]*codecHelper{}
var helperBusy = map[*ssa.Function]bool{}

func paramIndex(f *ssa.Function, v ssa.Value) int {
	for i, p := range f.Params {
		if ssa.Value(p) == v {
			return i
		}
	}
	return -1
}

func byteSliceParams(f *ssa.Function) []int {
	var out []int
	for i, p := range f.Params {
		if p.Type().String() == "[]byte" {
			out = append(out, i)
		}
	}
	return out
}

// offsetParam: the offset is "param" or "param + k".
func offsetParam(f *ssa.Function, g GLin) (int, int64, bool) {
	if len(g) != 1 || g[0].Guard != "" || len(g[0].L.T) != 1 {
		return 0, 0, false
	}
	for t, coef := range g[0].L.T {
		if coef != 1 || !strings.HasPrefix(t, "param:") {
			return 0, 0, false
		}
		for i, p := range f.Params {
			if p.Name() == strings.TrimPrefix(t, "param:") {
				return i, g[0].L.K, true
			}
		}
	}
	return 0, 0, false
}

func putHelperSummary(f *ssa.Function) *codecHelper {
	if f == nil || len(f.Blocks) == 0 || len(f.Blocks) > 8 || f.Pkg == nil || !strings.HasPrefix(f.Pkg.Pkg.Path(), modPath) || helperBusy[f] {
		return nil
	}
	if h, ok := putHelperMemo[f]; ok {
		return h
	}
	helperBusy[f] = true
	defer delete(helperBusy, f)
	var res *codecHelper
	for _, bi := range byteSliceParams(f) {
		bp := f.Params[bi]
		fs := ExtractOffsetEncoder(f, func(v ssa.Value) bool { return v == ssa.Value(bp) }, noGuards)
		if len(fs) != 1 || fs[0].val == nil || strings.HasPrefix(fs[0].Width, "len:") {
			continue
		}
		oi, k, ok := offsetParam(f, fs[0].offLin)
		vi := paramIndex(f, stripNumConv(fs[0].val))
		if !ok || vi < 0 {
			continue
		}
		res = &codecHelper{buf: bi, off: oi, val: vi, k: k, width: fs[0].Width, order: fs[0].Order}
	}
	putHelperMemo[f] = res
	return res
}

func getHelperSummary(f *ssa.Function) *codecHelper {
	if f == nil || len(f.Blocks) == 0 || len(f.Blocks) > 8 || f.Pkg == nil || !strings.HasPrefix(f.Pkg.Pkg.Path(), modPath) || helperBusy[f] {
		return nil
	}
	if h, ok := getHelperMemo[f]; ok {
		return h
	}
	helperBusy[f] = true
	defer delete(helperBusy, f)
	var res *codecHelper
	for _, bi := range byteSliceParams(f) {
		bp := f.Params[bi]
		fs := ExtractOffsetDecoder(f, func(v ssa.Value) bool { return v == ssa.Value(bp) }, noGuards)
		if len(fs) != 1 || strings.HasPrefix(fs[0].Width, "len") {
			continue
		}
		oi, k, ok := offsetParam(f, fs[0].offLin)
		if !ok || k != 0 {
			continue
		}
		// every return yields the value read
		good := true
		for _, ret := range Returns(f) {
			if len(ret.Results) != 1 || stripNumConv(ReturnValue(ret, 0)) != fs[0].val {
				good = false
			}
		}
		if good {
			res = &codecHelper{buf: bi, off: oi, val: -1, width: fs[0].Width, order: fs[0].Order}
		}
	}
	getHelperMemo[f] = res
	return res
}
