package main

import (
	"fmt"
	"go/token"
	"strings"

	"golang.org/x/tools/go/ssa"
)

func init() {
	register(&PropertyDef{
		ID: "C12",
		Explanation: "Decided mechanisms behind 'compaction preserves content; deleted keys stay deleted': " +
			"(1) merge source order — the merge resolves equal keys in favour of the lowest source index (decision tables); CompactFiles adds sources level-ascending and orders a level's inputs with a comparator whose table is 'newer creation timestamp first, file sequence only as tie-break' (the per-process file counter restarts at every open); " +
			"(2) the per-entry decision table of CompactFiles: duplicates of the key just emitted are skipped, values are always written, a tombstone is written iff the filter keeps it (or, without a filter, iff the target level <= MaxLevelWithTombstones); " +
			"(3) tombstone drop safety — BasicTombstoneFilter.ShouldKeep's table: every 'drop' answer carries the level condition; in-memory tracker knowledge only makes the filter keep more; " +
			"(4) inputs outlive outputs — obsolete-marking/cleanup in runCompactionCycle and DeleteCompactedFiles in CompactRange are dominated by a successful CompactFiles; an output path is recorded only after its Finish succeeded; CleanupObsoleteFiles skips pending files; " +
			"(5) SSTableInfo.Overlaps is the closed-interval overlap test (table over boundary-touching ranges); the block builder rejects keys that are not strictly ascending; " +
			"(6) the SSTable list is sorted by recency at load (C01 rule); (7) WAL retention never collects the current log file and deletes by sequence only when MaxSeq < MinSequenceKeep. " +
			"Added after blind round 4: the key range handed to the level-1 overlap test is the union of the selected files (decision table of one loop iteration: minimum and maximum updated independently); every sort.Slice comparator indexes the slice being sorted (no parallel key slice). " +
			"Added after blind round 5: the default executor receives the tombstone tracker after it was defaulted (non-nil by construction). " +
			"Added after blind round 6: the selection functions of the tiered strategy sort 'oldest first' by creation time, then file number, and by nothing else — decision table of the comparator (tree defect, repaired: ad3c014 — file numbers restart at every open, a newer level-0 file could leave the level before an older one). " +
			"Added after blind round 6: CompactRange's selection is closed: the range grows to the keys of every selected file (guarded widening of both ends) and the search repeats until a round adds nothing (tree defect, repaired: c88b148 — whole files moved below older files that shared their out-of-range keys). " +
			"Added after blind round 7: LoadSSTables describes every file afresh: each info filed under a level is allocated in that call with a reader opened in that call (Close nils the readers of old infos; CompactFiles skips inputs without a reader; callers delete every selected input). " +
			"Added after blind round 8: in CompactRange the flag that repeats the search is set on every selection path (whichever end of the range the file widened); the engine's compaction manager hands the coordinator an executor only together with the tracker it was built with. " +
			"Added after blind round 9: a loop of the strategy that collects overlapping files examines every file of the level (levels are in file-number order, overlapping files are not neighbours); the strategy's table readers are closed only with compactingMu held (a running cycle's iterators end silently when their reader is closed, the truncated output replaces the inputs). " +
			"Added after blind round 10: the source-level files of a size-ratio or promotion task are the leading element(s) of the oldest-first list, not a subset picked by a per-file condition.",
		NotDecided: "equality of merged views for all workloads (values); which selections a workload triggers; the interaction 'log file retired while its data is only in memory' (the code has no notion of flushed-up-to: remark, not verdict).",
		Rules:      []func(*Ctx, *Reporter){ruleCompactSourceOrder, ruleMergePolicy, ruleCompactDecisionTable, ruleTombstoneFilterTable, ruleInputsOutliveOutputs, ruleOverlapsTable, ruleBuilderStrictOrder, ruleRecencyAtLoad, ruleRetention, ruleUnionRange, ruleSortKeysFromSortedSlice, ruleExecutorGetsTracker, ruleSelectionTakesOldest, ruleCompactRangeClosed, ruleLoadBuildsFreshInfos, ruleOneTombstoneTracker, ruleOverlapScansVisitEveryFile, ruleReadersClosedOnlyWhenIdle, ruleSourceFilesAreAPrefix},
	})
}

func ruleCompactSourceOrder(c *Ctx, r *Reporter) {
	r.Rule("merge-source-order", 7)
	fn := c.Func("pkg/compaction", "DefaultCompactionExecutor", "CompactFiles")
	if fn == nil {
		r.Unresolved("compaction.DefaultCompactionExecutor.CompactFiles", "not found")
		return
	}
	// levels ascending: a loop whose int phi 'level' starts at 0 and steps +1, containing the append of iterators
	asc := false
	for _, l := range GenericLoops(fn) {
		for _, ins := range l.Header.Instrs {
			ph, ok := ins.(*ssa.Phi)
			if !ok {
				break
			}
			// the level counter: the int phi that indexes task.InputFiles (whatever it is called)
			isLevel := false
			if ph.Referrers() != nil {
				for _, ref := range *ph.Referrers() {
					if lk, ok := ref.(*ssa.Lookup); ok && lk.Index == ssa.Value(ph) && strings.Contains(Path(lk.X), "InputFiles") {
						isLevel = true
					}
				}
			}
			if !isLevel {
				continue
			}
			var init, step ssa.Value
			for i, e := range ph.Edges {
				if l.Header.Dominates(l.Header.Preds[i]) {
					step = e
				} else {
					init = e
				}
			}
			k, isK := constInt(init)
			bo, isB := step.(*ssa.BinOp)
			if isK && k == 0 && isB && bo.Op == token.ADD && bo.X == ssa.Value(ph) {
				if k2, ok := constInt(bo.Y); ok && k2 == 1 {
					asc = true
				}
			}
		}
	}
	r.Check(asc, "compaction.DefaultCompactionExecutor.CompactFiles:levels-ascending", c.FnPos(fn), "sources are added from level 0 upwards (shallower = newer first)", "input levels are not added in ascending order starting at level 0")
	// comparator of the per-level ordering
	var cmp *ssa.Function
	for _, cl := range fn.AnonFuncs {
		if cl.Signature.Params().Len() == 2 && cl.Signature.Results().Len() == 1 && cl.Signature.Results().At(0).Type().String() == "bool" {
			cmp = cl
		}
	}
	if cmp == nil {
		r.Bad("compaction.DefaultCompactionExecutor.CompactFiles:level-order", c.FnPos(fn), "the inputs of one level are not ordered before merging: level-0 files overlap, and the merge lets the earlier source win, so the order the strategy selects them in (oldest first) would let the OLDEST file win")
		return
	}
	// terms: files[$i].Timestamp etc.; find the base path from any field load in the closure
	base := ""
	AllInstrs(cmp, false, func(_ *ssa.Function, ins ssa.Instruction) {
		if u, ok := ins.(*ssa.UnOp); ok && u.Op == token.MUL {
			if fv := fieldVarOf(u.X); fv != nil && fv.Name() == "Timestamp" {
				ev := &evaluator{sc: &Scenario{}, phi: map[*ssa.Phi]ssa.Value{}}
				p := ev.pathOf(u)
				if i := strings.Index(p, "[$"); i >= 0 {
					base = p[:i]
				}
			}
		}
	})
	if base == "" || len(cmp.Params) != 2 {
		r.Undecided("compaction.DefaultCompactionExecutor.CompactFiles:level-order", c.FnPos(cmp), "comparator does not compare creation timestamps")
		return
	}
	pi, pj := "$"+cmp.Params[0].Name(), "$"+cmp.Params[1].Name()
	for _, row := range []struct {
		name           string
		ti, tj, si, sj int64
		want           bool
	}{
		{"newer-timestamp,lower-sequence", 9, 5, 1, 7, true},
		{"older-timestamp,higher-sequence", 5, 9, 7, 1, false},
		{"newer-timestamp,higher-sequence", 9, 5, 7, 1, true},
		{"equal-timestamp,higher-sequence", 5, 5, 7, 1, true},
		{"equal-timestamp,lower-sequence", 5, 5, 1, 7, false},
		{"equal", 5, 5, 3, 3, false},
	} {
		sc := &Scenario{Terms: map[string]int64{
			base + "[" + pi + "].Timestamp": row.ti, base + "[" + pj + "].Timestamp": row.tj,
			base + "[" + pi + "].Sequence": row.si, base + "[" + pj + "].Sequence": row.sj,
		}}
		res := EvalPath(cmp.Blocks[0], nil, sc, nil)
		rn := "compaction.DefaultCompactionExecutor.CompactFiles:level-order[" + row.name + "]"
		if res.Err != "" || res.Ret == nil || res.RetVals[0].Kind != "bool" {
			r.Undecided(rn, c.FnPos(cmp), "row not decidable: "+res.Err)
			continue
		}
		r.Check(res.RetVals[0].B == row.want, rn, c.FnPos(cmp), fmt.Sprint("first=", res.RetVals[0].B),
			fmt.Sprintf("sorts-before=%v; specification: the file with the newer creation timestamp comes first; the file sequence (a per-process counter that restarts at every open) may only break ties", res.RetVals[0].B))
	}
}

func ruleCompactDecisionTable(c *Ctx, r *Reporter) {
	r.Rule("compaction-entry-table", 8)
	fn := c.Func("pkg/compaction", "DefaultCompactionExecutor", "CompactFiles")
	if fn == nil {
		r.Unresolved("compaction.DefaultCompactionExecutor.CompactFiles", "not found")
		return
	}
	// the merge loop: the loop that calls Key() and Next() on the merged iterator
	var loop *GenericLoop
	for _, l := range GenericLoops(fn) {
		hasKey, hasTomb := false, false
		for _, b := range fn.Blocks {
			if !l.Contains(b) {
				continue
			}
			for _, ins := range b.Instrs {
				if call, ok := ins.(*ssa.Call); ok {
					switch calleeName(call.Common()) {
					case "Key":
						hasKey = true
					case "IsTombstone":
						hasTomb = true
					}
				}
			}
		}
		if hasKey && hasTomb {
			loop = l
		}
	}
	if loop == nil {
		r.Undecided("compaction.DefaultCompactionExecutor.CompactFiles:entry", c.FnPos(fn), "merge loop not found")
		return
	}
	// paths of interesting values
	ev0 := &evaluator{sc: &Scenario{}, phi: map[*ssa.Phi]ssa.Value{}}
	filterPath, lastKeyPath, targetPath, maxPath := "", "", "", ""
	AllInstrs(fn, true, func(_ *ssa.Function, ins ssa.Instruction) {
		if !loop.Contains(ins.Block()) {
			return
		}
		switch x := ins.(type) {
		case *ssa.BinOp:
			for _, o := range []ssa.Value{x.X, x.Y} {
				p := ev0.pathOf(o)
				if strings.HasSuffix(p, ".TargetLevel") {
					targetPath = p
				}
				if strings.HasSuffix(p, ".MaxLevelWithTombstones") {
					maxPath = p
				}
			}
			if isNilConst(x.Y) {
				p := ev0.pathOf(x.X)
				if strings.Contains(strings.ToLower(p), "filter") {
					filterPath = p
				}
				if strings.Contains(p, "lastKey") {
					lastKeyPath = p
				}
			}
		case *ssa.Call:
			if staticName(x) == "bytes.Equal" {
				for _, a := range x.Call.Args {
					if p := ev0.pathOf(a); strings.Contains(p, "lastKey") {
						lastKeyPath = p
					}
				}
			}
		}
	})
	if filterPath == "" || lastKeyPath == "" || targetPath == "" || maxPath == "" {
		r.Undecided("compaction.DefaultCompactionExecutor.CompactFiles:entry", c.blockPos(loop.Header), fmt.Sprintf("cannot locate filter (%q), lastKey (%q), target level (%q) or tombstone level (%q) in the merge loop", filterPath, lastKeyPath, targetPath, maxPath))
		return
	}
	type row struct {
		name                 string
		last, key            int64
		tomb                 bool
		filter               int64
		keep                 bool
		target, max          int64
		wantAdd, wantAddTomb bool
	}
	rows := []row{
		{"duplicate-key", 5, 5, false, 1, true, 1, 1, false, false},
		{"value,new-key", 4, 5, false, 1, false, 2, 1, true, false},
		{"value,first-key", NilRank, 5, false, NilRank, false, 2, 1, true, false},
		{"tombstone,filter-keeps", 4, 5, true, 1, true, 2, 1, false, true},
		{"tombstone,filter-drops", 4, 5, true, 1, false, 1, 1, false, false},
		{"tombstone,no-filter,level<=max", 4, 5, true, NilRank, false, 1, 1, false, true},
		{"tombstone,no-filter,level>max", 4, 5, true, NilRank, false, 2, 1, false, false},
		{"value,no-filter,level>max", 4, 5, false, NilRank, false, 2, 1, true, false},
	}
	for _, rw := range rows {
		zero := int64(0)
		sc := &Scenario{Terms: map[string]int64{lastKeyPath: rw.last, filterPath: rw.filter, targetPath: rw.target, maxPath: rw.max}, Bools: map[string]bool{}, DefaultInt: &zero}
		registerCalls(fn, sc, loop.Contains, map[string]int64{"Key": rw.key, "Value": 7, "Add": NilRank, "AddTombstone": NilRank, "createNewOutputFile": NilRank}, map[string]bool{"Valid": true, "IsTombstone": rw.tomb, "ShouldKeep": rw.keep, "Next": true})
		// size roll-over: never in these rows
		AllInstrs(fn, false, func(_ *ssa.Function, ins ssa.Instruction) {
			if bo, ok := ins.(*ssa.BinOp); ok && loop.Contains(ins.Block()) && bo.Op == token.GEQ {
				p := (&evaluator{sc: sc, phi: map[*ssa.Phi]ssa.Value{}}).pathOf(bo.Y)
				if strings.HasSuffix(p, ".SSTableMaxSize") {
					sc.Terms[p] = 1 << 30
				}
			}
		})
		for _, ins := range loop.Header.Instrs {
			if ph, ok := ins.(*ssa.Phi); ok && ph.Type().String() == "int" {
				sc.Terms["phi:"+ph.Comment] = 0
			}
		}
		ev := EvalLoopIter(loop, sc)
		rn := "compaction.DefaultCompactionExecutor.CompactFiles:entry[" + rw.name + "]"
		if ev.Err != "" || ev.Reached == nil {
			r.Undecided(rn, c.blockPos(loop.Header), "row not decidable: "+ev.Err)
			continue
		}
		add, addT := false, false
		for _, e := range ev.Effects {
			if e.Kind == "call" && strings.HasSuffix(e.What, "Writer.Add") {
				add = true
			}
			if e.Kind == "call" && strings.HasSuffix(e.What, "Writer.AddTombstone") {
				addT = true
			}
		}
		next := ev.HasCall("Next")
		r.Check(add == rw.wantAdd && addT == rw.wantAddTomb && next, rn, c.blockPos(loop.Header), fmt.Sprintf("value-written=%v tombstone-written=%v", add, addT),
			fmt.Sprintf("value-written=%v tombstone-written=%v advanced=%v; specification: skip duplicates of the key just emitted, always write values, write a tombstone iff the filter keeps it (without a filter: iff target level <= MaxLevelWithTombstones)", add, addT, next))
	}
}

func ruleTombstoneFilterTable(c *Ctx, r *Reporter) {
	r.Rule("tombstone-drop-safety", 7)
	fn := c.Func("pkg/compaction", "BasicTombstoneFilter", "ShouldKeep")
	if fn == nil || len(fn.Params) != 3 {
		r.Unresolved("compaction.BasicTombstoneFilter.ShouldKeep", "not found")
		return
	}
	f := "param:" + fn.Params[0].Name()
	val := "param:" + fn.Params[2].Name()
	for _, row := range []struct {
		name         string
		value        int64
		tracker      int64
		trackerKeeps bool
		level, max   int64
		want         bool
	}{
		{"value", 7, 1, false, 3, 1, true},
		{"tombstone,tracker-keeps,deep-level", NilRank, 1, true, 3, 1, true},
		{"tombstone,tracker-unknown,level<max", NilRank, 1, false, 0, 1, true},
		{"tombstone,tracker-unknown,level=max", NilRank, 1, false, 1, 1, true},
		{"tombstone,tracker-unknown,level>max", NilRank, 1, false, 2, 1, false},
		{"tombstone,no-tracker,level<=max", NilRank, NilRank, false, 1, 1, true},
		{"tombstone,no-tracker,level>max", NilRank, NilRank, false, 2, 1, false},
	} {
		sc := &Scenario{Terms: map[string]int64{val: row.value, f + ".tracker": row.tracker, f + ".level": row.level, f + ".maxTombstoneLevel": row.max}, Bools: map[string]bool{}}
		registerCalls(fn, sc, nil, nil, map[string]bool{"ShouldKeepTombstone": row.trackerKeeps})
		res := EvalPath(fn.Blocks[0], nil, sc, nil)
		rn := "compaction.BasicTombstoneFilter.ShouldKeep[" + row.name + "]"
		if res.Err != "" || res.Ret == nil || res.RetVals[0].Kind != "bool" {
			r.Undecided(rn, c.FnPos(fn), "row not decidable: "+res.Err)
			continue
		}
		r.Check(res.RetVals[0].B == row.want, rn, c.FnPos(fn), fmt.Sprint("keep=", res.RetVals[0].B),
			fmt.Sprintf("keep=%v; specification: a tombstone may be dropped only above the tombstone level; what the in-memory tracker knows may only make the filter keep MORE (it has not seen transactional deletes or deletes from before the last restart)", res.RetVals[0].B))
	}
}

func ruleInputsOutliveOutputs(c *Ctx, r *Reporter) {
	r.Rule("inputs-outlive-outputs", 5)
	cycle := c.Func("pkg/compaction", "DefaultCompactionCoordinator", "runCompactionCycle")
	crange := c.Func("pkg/compaction", "TieredCompactionStrategy", "CompactRange")
	compact := c.Func("pkg/compaction", "DefaultCompactionExecutor", "CompactFiles")
	cleanup := c.Func("pkg/compaction", "DefaultFileTracker", "CleanupObsoleteFiles")
	finish := c.Func("pkg/sstable", "Writer", "Finish")
	if cycle == nil || crange == nil || compact == nil || cleanup == nil || finish == nil {
		r.Unresolved("compaction.{DefaultCompactionCoordinator.runCompactionCycle,TieredCompactionStrategy.CompactRange,DefaultCompactionExecutor.CompactFiles,DefaultFileTracker.CleanupObsoleteFiles} / sstable.Writer.Finish", "not found")
		return
	}
	compactOK := callOKFact(c, func(call *ssa.Call) bool {
		return calleeName(call.Common()) == "CompactFiles"
	})
	destructive := map[string]bool{"MarkFileObsolete": true, "CleanupObsoleteFiles": true, "DeleteCompactedFiles": true}
	for _, fn := range []*ssa.Function{cycle, crange} {
		n := 0
		ok := true
		var compactCall ssa.Instruction
		AllInstrs(fn, false, func(_ *ssa.Function, ins ssa.Instruction) {
			if call, isCall := ins.(*ssa.Call); isCall && calleeName(call.Common()) == "CompactFiles" {
				compactCall = ins
			}
		})
		AllInstrs(fn, false, func(_ *ssa.Function, ins ssa.Instruction) {
			call, isCall := ins.(*ssa.Call)
			if !isCall || !destructive[calleeName(call.Common())] {
				return
			}
			n++
			if !GuardedBy(ins.Block(), compactOK) {
				ok = false
				r.Bad(FnName(fn)+":"+calleeName(call.Common()), c.InsPos(ins), "input files are marked obsolete / deleted on a path where CompactFiles has not returned successfully: a failed compaction would lose its inputs")
			}
		})
		if compactCall == nil || n == 0 {
			r.Undecided(FnName(fn), c.FnPos(fn), "no CompactFiles call followed by input deletion found")
		} else if ok {
			r.OK(FnName(fn), c.FnPos(fn), fmt.Sprintf("%d input-retiring call(s), all on the CompactFiles()==nil edge", n))
		}
	}
	// CompactFiles: an output path is recorded only after its Finish succeeded
	finOK := callOKFact(c, func(call *ssa.Call) bool { return call.Call.StaticCallee() == finish })
	nApp, okApp := 0, true
	for _, body := range bodies(compact) {
		AllInstrs(body, false, func(_ *ssa.Function, ins ssa.Instruction) {
			call, isCall := ins.(*ssa.Call)
			if !isCall {
				return
			}
			b, isB := call.Call.Value.(*ssa.Builtin)
			if !isB || b.Name() != "append" || call.Type().String() != "[]string" {
				return
			}
			nApp++
			if !GuardedBy(ins.Block(), finOK) {
				okApp = false
				r.Bad(FnName(body)+":output-recorded", c.InsPos(ins), "an output file is added to the result list without a preceding successful Finish: the inputs could be retired in favour of an incomplete table")
			}
		})
	}
	if nApp == 0 {
		r.Undecided("compaction.DefaultCompactionExecutor.CompactFiles:outputs", c.FnPos(compact), "no output list found")
	} else if okApp {
		r.OK("compaction.DefaultCompactionExecutor.CompactFiles:outputs", c.FnPos(compact), fmt.Sprintf("%d output recording(s), each after Finish()==nil", nApp))
	}
	// and returns the list only on success: every return with a non-nil list has a nil error
	okRet := true
	for _, ret := range Returns(compact) {
		if !isNilConst(ReturnValue(ret, 0)) && ClassifyReturn(ret) == ExitFailure {
			okRet = false
		}
	}
	r.Check(okRet, "compaction.DefaultCompactionExecutor.CompactFiles:returns", c.FnPos(compact), "the output list is returned only with a nil error", "an output list is returned together with an error")
	// CleanupObsoleteFiles skips pending files
	pending := c.Field("pkg/compaction", "DefaultFileTracker", "pendingFiles")
	notPending := func(cond ssa.Value) (bool, bool) {
		// lookup pendingFiles[path] (bool) used as condition
		if lk, ok := cond.(*ssa.Lookup); ok && isLoadOfField(lk.X, pending) {
			return false, true
		}
		return false, false
	}
	okC := false
	AllInstrs(cleanup, false, func(_ *ssa.Function, ins ssa.Instruction) {
		if call, ok := ins.(*ssa.Call); ok && staticName(call) == "os.Remove" && GuardedBy(ins.Block(), notPending) {
			okC = true
		}
	})
	r.Check(okC, "compaction.DefaultFileTracker.CleanupObsoleteFiles", c.FnPos(cleanup), "files still pending in a compaction are not deleted", "obsolete files are deleted even while marked pending (still being read by a running compaction)")
}

func ruleOverlapsTable(c *Ctx, r *Reporter) {
	r.Rule("overlaps-table", 7)
	fn := c.Func("pkg/compaction", "SSTableInfo", "Overlaps")
	if fn == nil || len(fn.Params) != 2 {
		r.Unresolved("compaction.SSTableInfo.Overlaps", "not found")
		return
	}
	s, o := "param:"+fn.Params[0].Name(), "param:"+fn.Params[1].Name()
	for _, row := range []struct {
		name   string
		of, ol int64
		want   bool
	}{
		{"other-before", 1, 2, false},
		{"other-touches-first-key", 1, 3, true},
		{"other-inside", 4, 4, true},
		{"other-touches-last-key", 5, 7, true},
		{"other-after", 6, 8, false},
		{"other-covers", 1, 9, true},
		{"other-equal", 3, 5, true},
	} {
		sc := &Scenario{Terms: map[string]int64{s + ".FirstKey": 3, s + ".LastKey": 5, o + ".FirstKey": row.of, o + ".LastKey": row.ol,
			"len(" + s + ".FirstKey)": 1, "len(" + s + ".LastKey)": 1, "len(" + o + ".FirstKey)": 1, "len(" + o + ".LastKey)": 1}}
		res := EvalPath(fn.Blocks[0], nil, sc, nil)
		rn := "compaction.SSTableInfo.Overlaps[self=3..5," + row.name + "]"
		if res.Err != "" || res.Ret == nil || res.RetVals[0].Kind != "bool" {
			r.Undecided(rn, c.FnPos(fn), "row not decidable: "+res.Err)
			continue
		}
		r.Check(res.RetVals[0].B == row.want, rn, c.FnPos(fn), fmt.Sprint("overlaps=", res.RetVals[0].B),
			fmt.Sprintf("overlaps=%v; specification: closed key ranges overlap iff not (self.last < other.first or self.first > other.last) — ranges that share a boundary key DO overlap (a file left out of a compaction keeps an old version alive below a dropped tombstone)", res.RetVals[0].B))
	}
}

func ruleBuilderStrictOrder(c *Ctx, r *Reporter) {
	r.Rule("strictly-ascending-input", 3)
	fn := c.Func("pkg/sstable/block", "Builder", "AddWithSequence")
	if fn == nil || len(fn.Params) != 4 {
		r.Unresolved("block.Builder.AddWithSequence", "not found")
		return
	}
	b := "param:" + fn.Params[0].Name()
	key := "param:" + fn.Params[1].Name()
	for _, k := range []int64{-1, 0, 1} {
		sc := &Scenario{Terms: map[string]int64{key: 5 + k, b + ".lastKey": 5, "len(" + b + ".entries)": 3, b + ".restartIdx": 1, "param:" + fn.Params[2].Name(): 7}}
		res := EvalPath(fn.Blocks[0], nil, sc, nil)
		rn := fmt.Sprintf("block.Builder.AddWithSequence[key%slast]", rel(k))
		if res.Ret == nil || (res.Err != "" && k <= 0) {
			// for accepted keys the walk continues into size bookkeeping which may be undetermined: treat 'reached a store' as accepted
			if k > 0 && res.Err != "" {
				accepted := false
				for _, e := range res.Effects {
					if e.Kind == "store" && strings.HasSuffix(e.What, ".entries") {
						accepted = true
					}
				}
				r.Check(accepted, rn, c.FnPos(fn), "accepted", "a strictly greater key is not accepted: "+res.Err)
				continue
			}
			r.Undecided(rn, c.FnPos(fn), "row not decidable: "+res.Err)
			continue
		}
		rejected := ClassifyReturn(res.Ret) == ExitFailure
		r.Check(rejected == (k <= 0), rn, c.FnPos(fn), map[bool]string{true: "rejected", false: "accepted"}[rejected],
			fmt.Sprintf("%s; specification: keys must be strictly ascending (key <= last key is rejected), otherwise outputs could contain duplicates / unsorted keys", map[bool]string{true: "rejected", false: "accepted"}[rejected]))
	}
}

func ruleRetention(c *Ctx, r *Reporter) {
	r.Rule("retention-spares-current-log", 2)
	fn := c.Func("pkg/wal", "WAL", "ManageRetention")
	if fn == nil {
		r.Unresolved("wal.WAL.ManageRetention", "not found")
		return
	}
	// the collection loop skips the current file: the append to the candidate list is on the filePath != currentFile edge
	notCurrent := func(cond ssa.Value) (bool, bool) {
		bo, ok := cond.(*ssa.BinOp)
		if !ok || (bo.Op != token.EQL && bo.Op != token.NEQ) || bo.X.Type().String() != "string" {
			return false, false
		}
		p := Path(bo.X) + " " + Path(bo.Y)
		if !strings.Contains(p, "currentFile") && !strings.Contains(p, "Name(") {
			return false, false
		}
		return bo.Op == token.NEQ, bo.Op == token.EQL
	}
	okSkip := false
	nRemove := 0
	AllInstrs(fn, false, func(_ *ssa.Function, ins ssa.Instruction) {
		call, ok := ins.(*ssa.Call)
		if !ok {
			return
		}
		if b, isB := call.Call.Value.(*ssa.Builtin); isB && b.Name() == "append" && strings.Contains(call.Type().String(), "WALFileInfo") {
			if GuardedBy(ins.Block(), notCurrent) {
				okSkip = true
			}
		}
		if staticName(call) == "os.Remove" {
			nRemove++
			// the removed path comes from a collected WALFileInfo (fi.Path), not from the raw directory listing
			if !strings.Contains(Path(call.Call.Args[0]), "Path") {
				okSkip = false
			}
		}
	})
	r.Check(okSkip && nRemove > 0, "wal.WAL.ManageRetention:current-file", c.FnPos(fn), "the current log file is never a deletion candidate", "the current log file can become a deletion candidate (or files are removed straight from the directory listing)")
	// sequence criterion: delete only when MaxSeq < MinSequenceKeep
	okSeq := false
	AllInstrs(fn, false, func(_ *ssa.Function, ins ssa.Instruction) {
		iff, ok := ins.(*ssa.If)
		if !ok {
			return
		}
		bo, ok := iff.Cond.(*ssa.BinOp)
		if !ok {
			return
		}
		x, y, op := Path(bo.X), Path(bo.Y), bo.Op
		if strings.HasSuffix(y, "MaxSeq") {
			x, y = y, x
			op = flipOp(op)
		}
		if strings.HasSuffix(x, "MaxSeq") && strings.HasSuffix(y, "MinSequenceKeep") && op == token.LSS {
			okSeq = true
		}
	})
	r.Check(okSeq, "wal.WAL.ManageRetention:sequence-criterion", c.FnPos(fn), "a file is retired by sequence only when its highest sequence < MinSequenceKeep", "the sequence criterion is not 'MaxSeq < MinSequenceKeep' (a file still holding needed sequences could be deleted)")
}
