package main

import (
	"flag"
	"fmt"
	"os"
	"path/filepath"
	"sort"
	"strings"
	"time"
)

// PropertyDef binds a property to its rules.
type PropertyDef struct {
	ID          string
	Explanation string // what the rules decide
	NotDecided  string // what they do not
	Rules       []func(c *Ctx, r *Reporter)
}

var registry = map[string]*PropertyDef{}

func register(p *PropertyDef) { registry[p.ID] = p }

func main() {
	repo := flag.String("repo", "/repo", "repository root")
	verif := flag.String("verif", "/verif", "verif dir (evidence, known findings)")
	prop := flag.String("property", "", "property id (C01..C20) or 'all'")
	tier := flag.String("tier", "quick", "quick|thorough")
	seed := flag.Int("seed", 0, "seed (unused by the analysis; recorded)")
	list := flag.Bool("list", false, "print all obligations")
	noEvidence := flag.Bool("no-evidence", false, "analyse only; do not write evidence (used for variants)")
	dump := flag.String("dump", "", "debug dumps: guards")
	flag.Parse()

	start := time.Now()
	var ids []string
	if *dump != "" && *prop == "" {
		*prop = "all"
	}
	if *prop == "all" {
		for id := range registry {
			ids = append(ids, id)
		}
		sort.Strings(ids)
	} else {
		for _, id := range strings.Split(*prop, ",") {
			if registry[id] == nil {
				fmt.Fprintf(os.Stderr, "unknown property %q\n", id)
				os.Exit(2)
			}
			ids = append(ids, id)
		}
	}
	abs, _ := filepath.Abs(*repo)
	c, err := Load(abs, "")
	if err != nil {
		fmt.Fprintf(os.Stderr, "LOAD FAILURE (no verdict): %v\n", err)
		// A tree that does not type-check cannot be analysed; report as violation so that it is never read as a pass.
		for _, id := range ids {
			fmt.Printf("VIOLATION property=%s replay=%s\n", id, "load-failure")
		}
		os.Exit(1)
	}
	if c.NumPkgs < 25 {
		fmt.Fprintf(os.Stderr, "LOAD FAILURE: only %d packages loaded (32 confirmed on the pinned tree)\n", c.NumPkgs)
		for _, id := range ids {
			fmt.Printf("VIOLATION property=%s replay=%s\n", id, "load-failure")
		}
		os.Exit(1)
	}
	if *dump == "guards" {
		DumpGuardStats(c)
		os.Exit(0)
	}
	known, err := LoadKnown(filepath.Join(*verif, "known_findings.json"))
	if err != nil {
		fmt.Fprintf(os.Stderr, "cannot read known findings: %v\n", err)
		os.Exit(2)
	}
	loadS := time.Since(start).Seconds()
	exit := 0
	for _, id := range ids {
		t0 := time.Now()
		def := registry[id]
		r := NewReporter(id)
		func() {
			defer func() {
				if e := recover(); e != nil {
					r.Rule("internal", 0)
					r.Bad("panic", "-", fmt.Sprintf("checker panic (fails the check): %v", e))
				}
			}()
			for _, rule := range def.Rules {
				rule(c, r)
			}
		}()
		if *list {
			for _, o := range r.Obls {
				fmt.Printf("  [%s] %s %s @%s %s\n", o.Status, o.Rule, o.Construct, o.Pos, o.Detail)
			}
		}
		if *noEvidence {
			known2 := known
			code := r.finishNoEvidence(known2)
			if code > exit {
				exit = code
			}
			continue
		}
		wall := time.Since(t0).Seconds() + loadS
		code := r.Finish(c, *verif, *tier, *seed, wall, known, def.Explanation, def.NotDecided, nil)
		if code > exit {
			exit = code
		}
	}
	os.Exit(exit)
}

// finishNoEvidence prints verdict lines without touching the evidence directory.
func (r *Reporter) finishNoEvidence(known []KnownFinding) int {
	counts := map[string]int{}
	for _, o := range r.Obls {
		if o.Status != Info {
			counts[o.Rule]++
		}
	}
	for rule, fl := range r.floors {
		if counts[rule] < fl {
			r.curRule = rule
			r.add(Violated, "instance-floor", "-", fmt.Sprintf("rule matched %d constructs, floor %d", counts[rule], fl), nil)
		}
	}
	knownOpen := map[string]bool{}
	for _, k := range known {
		if k.Status == "open" && k.Property == r.Property {
			knownOpen[k.Rule+"/"+k.Construct] = true
		}
	}
	sort.SliceStable(r.Obls, func(i, j int) bool { return r.Obls[i].Key() < r.Obls[j].Key() })
	viol := 0
	for _, o := range r.Obls {
		if o.Status == Violated || o.Status == Undecided || o.Status == Unresolved {
			if knownOpen[o.Key()] && o.Status == Violated {
				fmt.Printf("KNOWN-FINDING: property=%s %s %s\n", r.Property, o.Rule, o.Construct)
				continue
			}
			viol++
			fmt.Printf("%s %s %s at %s: %s\n", strings.ToUpper(string(o.Status)), o.Rule, o.Construct, o.Pos, o.Detail)
			fmt.Printf("VIOLATION property=%s replay=-\n", r.Property)
		}
	}
	if viol > 0 {
		return 1
	}
	return 0
}
