package main

import (
	"fmt"
	"go/constant"
	"go/token"
	"go/types"
	"strings"

	"golang.org/x/tools/go/ssa"
)

func init() {
	register(&PropertyDef{
		ID: "C09",
		Explanation: "Decided (the structural part of 'replay yields exactly what was appended'): " +
			"(1) record header agreement — writeRawRecord and Reader.readRecord agree on every field (offset, width, byte order): crc32(payload)@0 w4, length@4 w2, type@6 w1, both sized by HeaderSize; " +
			"(2) payload agreement — writeRecord and parseEntryData agree on the field list including the guard 'value part present iff type != delete'; offsets are linear expressions over constants and len(·) terms, a value the reader decoded is identified with the expression the writer encoded; " +
			"(3) fragmentation — the first fragment is the payload prefix with key[:k]; the remainder is key[k:] ‖ value length ‖ value; middle fragments are cut while len(remaining) > MaxRecordSize with the slice taken and the slice kept sharing the bound; a non-empty remainder always ends in a LAST record; the reader concatenates fragments in arrival order and parses them with the same parser; record type tags are the shared constants; " +
			"(4) length fits — uint16(len(data)) is dominated by len(data) <= MaxRecordSize and MaxRecordSize <= 65535; (5) CRC — every success exit of readRecord is dominated by the CRC comparison, computed over the payload on both sides; " +
			"(6) file order — FindWALFiles sorts; ReplayWALDir and GetEntriesFrom visit files ascending with the current file last; getEntriesFromFile keeps entries with sequence >= the requested one; (7) the buffered writer is never replaced unflushed. " +
			"Added after blind round 4: Append routes to the single-record or the fragment writer by exactly the payload size writeRecord builds; the variable-length slices of parseEntryData are bounds-checked (shared with C10). " +
			"Added after blind round 5: ReuseWAL reopens the last file of the sorted list only; the reader puts no constant bound on decoded key/value lengths. " +
			"Added after blind round 6: the explicit-sequence rule of C08 (GetEntriesFrom's upper bound is the counter). " +
			"Added after blind round 7: processFragments concatenates the fragment payloads (running offset starting at 0 and advancing by len(fragment), or append) — fragments are not all of one size. " +
			"Added after blind round 8: getSequenceBounds compares every entry with both running bounds (a one-entry file has a maximum). " +
			"Added after blind round 9: FindWALFiles orders by name only (a comparator that asks the file system, or a reversal, is reported); the counter's monotone-stores obligations are listed here too (a read from n is cut off at the counter). " +
			"Added after blind round 10: the destructive-operation table (every remove/rename/truncate on database files is a reviewed site) is listed here too. " +
			"Added after blind round 11: a rotated log file is passed over by its sequence bounds only when its highest sequence is strictly below the requested start.",
		NotDecided: "equality of replayed and appended sequences for all inputs (the layout agreement plus CRC is its structural part); behaviour with non-monotone sequence numbers.",
		Rules:      []func(*Ctx, *Reporter){ruleWalHeaderCodec, ruleWalPayloadCodec, ruleWalFragmentation, ruleWalLengthFits, ruleWalCRC, ruleWalFileOrder, ruleWalNoBufferDrop, ruleWalRouteBySize, ruleNoFabrication, ruleReuseNewestOnly, ruleWalReaderNoConstantLimits, ruleExplicitSeqBelowCounter, ruleFragmentsConcatenated, ruleSequenceBoundsIndependent, subRules(ruleWalMonotone, "monotone-stores"), ruleDestructiveOps, ruleOlderLogFilesSkippedOnlyBelowStart},
	})
}

func isParamNamed(fn *ssa.Function, name string) func(ssa.Value) bool {
	return func(v ssa.Value) bool {
		p, ok := v.(*ssa.Parameter)
		return ok && p.Name() == name && p.Parent() == fn
	}
}

func noGuards(cond ssa.Value, lx *LinX) string { return "" }

func ruleWalHeaderCodec(c *Ctx, r *Reporter) {
	r.Rule("record-header-agreement", 1)
	enc := c.Func("pkg/wal", "WAL", "writeRawRecord")
	dec := c.Func("pkg/wal", "Reader", "readRecord")
	hs := c.Const("pkg/wal", "HeaderSize")
	if enc == nil || dec == nil || hs == nil {
		r.Unresolved("wal.WAL.writeRawRecord / wal.Reader.readRecord / wal.HeaderSize", "not found")
		return
	}
	hsV, _ := constant.Int64Val(hs.Val())
	// header buffers: the MakeSlice of constant length HeaderSize in each function
	headerBuf := func(fn *ssa.Function) ssa.Value {
		var buf ssa.Value
		AllInstrs(fn, false, func(_ *ssa.Function, ins ssa.Instruction) {
			if mk, ok := ins.(*ssa.MakeSlice); ok {
				if k, isK := constInt(mk.Len); isK && k == hsV {
					buf = mk
				}
			}
			// make([]byte, <const>) is lowered to new [N]byte + slice
			if sl, ok := ins.(*ssa.Slice); ok {
				if al, ok := sl.X.(*ssa.Alloc); ok && al.Comment == "makeslice" {
					if at, ok := al.Type().Underlying().(*types.Pointer).Elem().Underlying().(*types.Array); ok && at.Len() == hsV {
						buf = sl
					}
				}
			}
		})
		return buf
	}
	eb, db := headerBuf(enc), headerBuf(dec)
	if eb == nil {
		// the header construction may live in a helper of the same package called by writeRawRecord
		if h, _ := walHeaderHelper(enc, func(f *ssa.Function) bool { return headerBuf(f) != nil }); h != nil {
			enc = h
			eb = headerBuf(h)
		}
	}
	if eb == nil || db == nil {
		r.Bad("wal.header", c.FnPos(enc), "writer and reader do not both use a header buffer of HeaderSize bytes")
		return
	}
	ef := ExtractOffsetEncoder(enc, func(v ssa.Value) bool { return v == eb }, noGuards)
	df := ExtractOffsetDecoder(dec, func(v ssa.Value) bool { return v == db }, noGuards)
	// compare as sets ordered by offset (the writer fills length and type before the crc)
	sortByOff := func(fs []CField) {
		for i := 0; i < len(fs); i++ {
			for j := i + 1; j < len(fs); j++ {
				if fs[j].Off < fs[i].Off {
					fs[i], fs[j] = fs[j], fs[i]
				}
			}
		}
	}
	sortByOff(ef)
	sortByOff(df)
	diffs, rendered := CompareCodec(ef, df)
	// the fields must tile the header exactly
	total := int64(0)
	for _, f := range ef {
		var w int64
		fmt.Sscanf(f.Width, "%d", &w)
		total += w
	}
	if total != hsV {
		diffs = append(diffs, fmt.Sprintf("header fields cover %d bytes, HeaderSize is %d", total, hsV))
	}
	r.Notes = append(r.Notes, "C09 header: "+strings.Join(rendered, " ; "))
	r.Check(len(diffs) == 0 && len(ef) == 3, "wal.header", c.FnPos(dec), strings.Join(rendered, " ; "), "record header layout differs between writer and reader: "+strings.Join(diffs, "; "))
	// the length field carries len(payload) and the reader allocates exactly that many bytes
	okLen := false
	for _, f := range ef {
		if f.Width == "2" && strings.Contains(f.Val, "len(") {
			okLen = true
		}
	}
	r.Rule("record-length-field", 1)
	r.Check(okLen, "wal.header:length", c.FnPos(enc), "the 2-byte field carries the payload length", "the length field does not carry len(payload)")
}

func ruleWalPayloadCodec(c *Ctx, r *Reporter) {
	r.Rule("payload-agreement", 1)
	enc := c.Func("pkg/wal", "WAL", "writeRecord")
	dec := c.Func("pkg/wal", "Reader", "parseEntryData")
	if enc == nil || dec == nil {
		r.Unresolved("wal.WAL.writeRecord / wal.Reader.parseEntryData", "not found")
		return
	}
	var payload ssa.Value
	AllInstrs(enc, false, func(_ *ssa.Function, ins ssa.Instruction) {
		if mk, ok := ins.(*ssa.MakeSlice); ok {
			if _, isK := mk.Len.(*ssa.Const); !isK {
				payload = mk
			}
		}
	})
	if payload == nil {
		r.Undecided("wal.payload", c.FnPos(enc), "payload buffer not found")
		return
	}
	typeGuard := func(cond ssa.Value, lx *LinX) string {
		bo, ok := cond.(*ssa.BinOp)
		if !ok || (bo.Op != token.EQL && bo.Op != token.NEQ) {
			return ""
		}
		if k, isK := constInt(bo.Y); isK && k == 2 { // OpTypeDelete
			return lx.Lin(bo.X).String() + " " + bo.Op.String() + " 2"
		}
		return ""
	}
	ef := ExtractOffsetEncoder(enc, func(v ssa.Value) bool { return v == payload }, typeGuard)
	df := ExtractOffsetDecoder(dec, isParamNamed(dec, "data"), typeGuard)
	diffs, rendered := CompareCodec(ef, df)
	r.Notes = append(r.Notes, "C09 payload: "+strings.Join(rendered, " ; "))
	r.Check(len(diffs) == 0 && len(ef) >= 6, "wal.payload", c.FnPos(dec), fmt.Sprintf("%d fields agree", len(ef)), "entry payload layout differs between writeRecord and parseEntryData: "+strings.Join(diffs, "; "))
	// the decoder bounds-checks every variable-length field against the data before slicing (C10/no-fabrication shares this)
}

func ruleWalFragmentation(c *Ctx, r *Reporter) {
	r.Rule("fragmentation-agreement", 6)
	fn := c.Func("pkg/wal", "WAL", "writeFragmentedRecord")
	wraw := c.Func("pkg/wal", "WAL", "writeRawRecord")
	maxRec := c.Const("pkg/wal", "MaxRecordSize")
	if fn == nil || wraw == nil || maxRec == nil {
		r.Unresolved("wal.WAL.writeFragmentedRecord / writeRawRecord / MaxRecordSize", "not found")
		return
	}
	maxV, _ := constant.Int64Val(maxRec.Val())
	tags := map[string]int64{}
	for _, n := range []string{"RecordTypeFull", "RecordTypeFirst", "RecordTypeMiddle", "RecordTypeLast"} {
		if k := c.Const("pkg/wal", n); k != nil {
			v, _ := constant.Int64Val(k.Val())
			tags[n] = v
		}
	}
	// (a) first fragment: same prefix layout as the payload (type@0, seq@1 w8, keylen@9 w4, key prefix @13)
	var first ssa.Value
	AllInstrs(fn, false, func(_ *ssa.Function, ins ssa.Instruction) {
		if mk, ok := ins.(*ssa.MakeSlice); ok && first == nil {
			if _, isK := mk.Len.(*ssa.Const); !isK {
				first = mk
			}
		}
	})
	payloadEnc := c.Func("pkg/wal", "WAL", "writeRecord")
	if first != nil && payloadEnc != nil {
		ff := ExtractOffsetEncoder(fn, func(v ssa.Value) bool { return v == first }, noGuards)
		var payload ssa.Value
		AllInstrs(payloadEnc, false, func(_ *ssa.Function, ins ssa.Instruction) {
			if mk, ok := ins.(*ssa.MakeSlice); ok {
				if _, isK := mk.Len.(*ssa.Const); !isK {
					payload = mk
				}
			}
		})
		pf := ExtractOffsetEncoder(payloadEnc, func(v ssa.Value) bool { return v == payload }, noGuards)
		ok := len(ff) == 4 && len(pf) >= 4
		var diffs []string
		if ok {
			for i := 0; i < 4; i++ {
				if ff[i].Off != pf[i].Off || (i < 3 && (ff[i].Width != pf[i].Width || ff[i].Order != pf[i].Order || ff[i].Val != pf[i].Val)) {
					ok = false
					diffs = append(diffs, fmt.Sprintf("field %d: first fragment %s (value %s) vs payload %s (value %s)", i, ff[i], ff[i].Val, pf[i], pf[i].Val))
				}
			}
			// key prefix: key[0:k]
			if !strings.Contains(ff[3].Val, "[0:") && !strings.Contains(ff[3].Val, "[0 :") {
				ok = false
				diffs = append(diffs, "the first fragment does not carry a prefix key[:k] of the key: "+ff[3].Val)
			}
		}
		r.Check(ok, "wal.WAL.writeFragmentedRecord:first-fragment", c.FnPos(fn), "first fragment = payload prefix (type, sequence, key length, key[:k])", "the first fragment's layout differs from the unfragmented payload prefix: "+strings.Join(diffs, "; "))
	} else {
		r.Undecided("wal.WAL.writeFragmentedRecord:first-fragment", c.FnPos(fn), "first fragment buffer not found")
	}
	// (b) the chunk loop: continue while len(remaining) > MaxRecordSize; chunk = remaining[:M], remaining = remaining[M:]
	var loop *GenericLoop
	for _, l := range GenericLoops(fn) {
		for _, b := range fn.Blocks {
			if l.Contains(b) {
				for _, ins := range b.Instrs {
					if call, ok := ins.(*ssa.Call); ok && call.Call.StaticCallee() == wraw {
						loop = l
					}
				}
			}
		}
	}
	if loop == nil {
		r.Bad("wal.WAL.writeFragmentedRecord:chunk-loop", c.FnPos(fn), "no loop writes the middle fragments")
		return
	}
	var remPhi *ssa.Phi
	for _, ins := range loop.Header.Instrs {
		if ph, ok := ins.(*ssa.Phi); ok && ph.Type().String() == "[]byte" {
			remPhi = ph
		}
	}
	if remPhi == nil {
		r.Undecided("wal.WAL.writeFragmentedRecord:chunk-loop", c.blockPos(loop.Header), "no remaining-bytes variable carried by the loop")
		return
	}
	rem := "phi:" + remPhi.Comment
	for _, row := range []struct {
		name string
		n    int64
		want bool
	}{{"len<max", maxV - 1, false}, {"len=max", maxV, false}, {"len>max", maxV + 1, true}} {
		sc := &Scenario{Terms: map[string]int64{"len(" + rem + ")": row.n, rem: 1}, Bools: map[string]bool{}}
		registerCalls(fn, sc, loop.Contains, map[string]int64{"writeRawRecord": NilRank}, nil)
		ev := EvalLoopIter(loop, sc)
		rn := "wal.WAL.writeFragmentedRecord:chunk-loop[" + row.name + "]"
		if ev.Err != "" {
			r.Undecided(rn, c.blockPos(loop.Header), "row not decidable: "+ev.Err)
			continue
		}
		cont := ev.Reached != nil
		r.Check(cont == row.want, rn, c.blockPos(loop.Header), map[bool]string{true: "cuts a middle fragment", false: "leaves the rest for the LAST fragment"}[cont],
			fmt.Sprintf("%s; specification: cut middle fragments only while MORE than one record of data remains, so that a non-empty remainder is always written as the LAST fragment (a tail that is an exact multiple of the record size must still end in LAST, or the reader never completes the entry)", map[bool]string{true: "cuts a middle fragment", false: "stops"}[cont]))
	}
	// tiling: inside the loop the slice taken and the slice kept share the bound
	var takeHi, keepLo ssa.Value
	var tagMid, tagLast, tagFirst int64 = -1, -1, -1
	AllInstrs(fn, false, func(_ *ssa.Function, ins ssa.Instruction) {
		if sl, ok := ins.(*ssa.Slice); ok && sl.X == ssa.Value(remPhi) {
			if sl.Low == nil && sl.High != nil {
				takeHi = sl.High
			}
			if sl.Low != nil && sl.High == nil {
				keepLo = sl.Low
			}
		}
		if call, ok := ins.(*ssa.Call); ok && call.Call.StaticCallee() == wraw {
			k, _ := constInt(call.Call.Args[1])
			if loop.Contains(ins.Block()) {
				tagMid = k
			} else if Dominates(ins, loop.Header.Instrs[0]) {
				tagFirst = k
			} else {
				tagLast = k
			}
		}
	})
	th, okT := constInt(takeHi)
	kl, okK := constInt(keepLo)
	r.Check(okT && okK && th == kl && th == maxV, "wal.WAL.writeFragmentedRecord:tiling", c.blockPos(loop.Header), "chunk = remaining[:M], remaining = remaining[M:], M = MaxRecordSize", "the slice written and the slice kept do not share the bound MaxRecordSize: bytes would be lost or repeated between fragments")
	r.Check(tagFirst == tags["RecordTypeFirst"] && tagMid == tags["RecordTypeMiddle"] && tagLast == tags["RecordTypeLast"], "wal.WAL.writeFragmentedRecord:tags", c.FnPos(fn), "FIRST / MIDDLE / LAST tags in that order", fmt.Sprintf("fragment tags are %d/%d/%d, expected FIRST/MIDDLE/LAST = %d/%d/%d", tagFirst, tagMid, tagLast, tags["RecordTypeFirst"], tags["RecordTypeMiddle"], tags["RecordTypeLast"]))
	// LAST is written whenever the remainder is non-empty: evaluate the tail decision
	// (c) reader: fragments are appended in arrival order and parsed by the same parser
	read := c.Func("pkg/wal", "Reader", "ReadEntry")
	proc := c.Func("pkg/wal", "Reader", "processFragments")
	parse := c.Func("pkg/wal", "Reader", "parseEntryData")
	fragF := c.Field("pkg/wal", "Reader", "fragments")
	if read == nil || proc == nil || parse == nil || fragF == nil {
		r.Unresolved("wal.Reader.{ReadEntry,processFragments,parseEntryData,fragments}", "not found")
		return
	}
	okAppend := true
	nApp := 0
	AllInstrs(read, false, func(_ *ssa.Function, ins ssa.Instruction) {
		st, ok := ins.(*ssa.Store)
		if !ok || fieldVarOf(st.Addr) != fragF {
			return
		}
		if call, ok := st.Val.(*ssa.Call); ok {
			if b, ok := call.Call.Value.(*ssa.Builtin); ok && b.Name() == "append" {
				nApp++
				// append(r.fragments or its reset, record.data)
				return
			}
		}
		if sl, ok := st.Val.(*ssa.Slice); ok && isLoadOfField(sl.X, fragF) {
			return // reset
		}
		okAppend = false
	})
	r.Check(okAppend && nApp >= 3, "wal.Reader.ReadEntry:collect", c.FnPos(read), "fragments are appended in arrival order", "fragments are not collected by appending in arrival order")
	sameParser := len(c.CallsIn(proc, NewFnSet(parse), false)) == 1 && len(c.CallsIn(read, NewFnSet(parse), false)) >= 1
	// processFragments concatenates ascending
	ascending := false
	for _, w := range walksOverField(proc, fragF) {
		if w.Dir == "asc" {
			ascending = true
		} else {
			ascending = false
			break
		}
	}
	r.Check(sameParser && ascending, "wal.Reader.processFragments", c.FnPos(proc), "fragments are concatenated in order and parsed by parseEntryData (the parser of unfragmented entries)", "fragment reassembly does not concatenate in arrival order or uses a different parser")
	// ReadEntry dispatches on the shared tag constants
	seen := map[int64]bool{}
	rtF := c.Field("pkg/wal", "record", "recordType")
	AllInstrs(read, false, func(_ *ssa.Function, ins ssa.Instruction) {
		if bo, ok := ins.(*ssa.BinOp); ok && bo.Op == token.EQL && isLoadOfField(bo.X, rtF) {
			if k, ok := constInt(bo.Y); ok {
				seen[k] = true
			}
		}
	})
	okTags := len(tags) == 4
	for _, v := range tags {
		if !seen[v] {
			okTags = false
		}
	}
	r.Check(okTags, "wal.Reader.ReadEntry:tags", c.FnPos(read), "dispatches on FULL/FIRST/MIDDLE/LAST", "the reader does not dispatch on all four record type constants")
}

func ruleWalLengthFits(c *Ctx, r *Reporter) {
	r.Rule("length-fits", 2)
	maxRec := c.Const("pkg/wal", "MaxRecordSize")
	fn := c.Func("pkg/wal", "WAL", "writeRawRecord")
	if maxRec == nil || fn == nil {
		r.Unresolved("wal.MaxRecordSize / writeRawRecord", "not found")
		return
	}
	maxV, _ := constant.Int64Val(maxRec.Val())
	r.Check(maxV <= 65535, "wal.MaxRecordSize", c.Pos(maxRec.Pos()), fmt.Sprintf("MaxRecordSize = %d fits the 2-byte length field", maxV), fmt.Sprintf("MaxRecordSize = %d does not fit the 2-byte length field", maxV))
	// the narrowing uint16(len(data)) is dominated by the len(data) <= MaxRecordSize edge
	ok := false
	isNarrow := func(ins ssa.Instruction) *ssa.Convert {
		cv, isC := ins.(*ssa.Convert)
		if !isC || cv.Type().String() != "uint16" {
			return nil
		}
		return cv
	}
	// lenArg: the slice whose length is narrowed, and the block the bound must hold in (in writeRawRecord's terms)
	check := func(lenOf ssa.Value, at *ssa.BasicBlock) {
		within := func(cond ssa.Value) (bool, bool) {
			bo, isB := cond.(*ssa.BinOp)
			if !isB {
				return false, false
			}
			k, isK := constInt(bo.Y)
			if !isK || k > 65535 || lenArgOf(bo.X) == nil || lenArgOf(bo.X) != lenOf {
				return false, false
			}
			switch bo.Op {
			case token.GTR:
				return false, true
			case token.LEQ:
				return true, false
			}
			return false, false
		}
		if GuardedBy(at, within) {
			ok = true
		}
	}
	AllInstrs(fn, false, func(_ *ssa.Function, ins ssa.Instruction) {
		if cv := isNarrow(ins); cv != nil && lenArgOf(cv.X) != nil {
			check(lenArgOf(cv.X), ins.Block())
		}
	})
	if h, site := walHeaderHelper(fn, func(f *ssa.Function) bool {
		found := false
		AllInstrs(f, false, func(_ *ssa.Function, ins ssa.Instruction) {
			if isNarrow(ins) != nil {
				found = true
			}
		})
		return found
	}); !ok && h != nil {
		// the narrowing lives in a helper: the bound must dominate the call, on the argument whose length is narrowed
		AllInstrs(h, false, func(_ *ssa.Function, ins ssa.Instruction) {
			cv := isNarrow(ins)
			if cv == nil {
				return
			}
			if p, isP := lenArgOf(cv.X).(*ssa.Parameter); isP {
				for i, hp := range h.Params {
					if hp == p && i < len(site.Call.Args) {
						check(site.Call.Args[i], site.Block())
					}
				}
			}
		})
	}
	r.Check(ok, "wal.WAL.writeRawRecord:narrowing", c.FnPos(fn), "uint16(len(data)) is dominated by len(data) <= MaxRecordSize", "the record length is narrowed to 16 bits without a dominating bound check: a longer record would be written with a truncated length")
}

// lenArgOf: v is len(x): returns x.
func lenArgOf(v ssa.Value) ssa.Value {
	call, ok := v.(*ssa.Call)
	if !ok {
		return nil
	}
	if b, ok := call.Call.Value.(*ssa.Builtin); ok && b.Name() == "len" {
		return call.Call.Args[0]
	}
	return nil
}

// walHeaderHelper: a function of the same package called (statically, once) by fn that satisfies has — the place a
// piece of writeRawRecord was extracted to. Returns the helper and the call site.
func walHeaderHelper(fn *ssa.Function, has func(*ssa.Function) bool) (*ssa.Function, *ssa.Call) {
	var h *ssa.Function
	var site *ssa.Call
	n := 0
	AllInstrs(fn, false, func(_ *ssa.Function, ins ssa.Instruction) {
		call, ok := ins.(*ssa.Call)
		if !ok {
			return
		}
		f := call.Call.StaticCallee()
		if f == nil || f.Pkg != fn.Pkg || len(f.Blocks) == 0 || !has(f) {
			return
		}
		h, site = f, call
		n++
	})
	if n != 1 {
		return nil, nil
	}
	return h, site
}

func sameLenOf(a, b ssa.Value) bool {
	ca, ok1 := a.(*ssa.Call)
	cb, ok2 := b.(*ssa.Call)
	if !ok1 || !ok2 {
		return false
	}
	ba, ok1 := ca.Call.Value.(*ssa.Builtin)
	bb, ok2 := cb.Call.Value.(*ssa.Builtin)
	return ok1 && ok2 && ba.Name() == "len" && bb.Name() == "len" && ca.Call.Args[0] == cb.Call.Args[0]
}

func ruleWalCRC(c *Ctx, r *Reporter) {
	r.Rule("crc-checked", 2)
	dec := c.Func("pkg/wal", "Reader", "readRecord")
	enc := c.Func("pkg/wal", "WAL", "writeRawRecord")
	if dec == nil || enc == nil {
		r.Unresolved("wal.Reader.readRecord / writeRawRecord", "not found")
		return
	}
	// reader: success exits are on the computed == stored edge
	var crcCall *ssa.Call
	AllInstrs(dec, false, func(_ *ssa.Function, ins ssa.Instruction) {
		if call, ok := ins.(*ssa.Call); ok && staticName(call) == "hash/crc32.ChecksumIEEE" {
			crcCall = call
		}
	})
	if crcCall == nil {
		r.Bad("wal.Reader.readRecord:crc", c.FnPos(dec), "the reader does not compute a CRC of the payload")
		return
	}
	match := func(cond ssa.Value) (bool, bool) {
		bo, ok := cond.(*ssa.BinOp)
		if !ok || (bo.Op != token.EQL && bo.Op != token.NEQ) {
			return false, false
		}
		if bo.X != ssa.Value(crcCall) && bo.Y != ssa.Value(crcCall) {
			return false, false
		}
		other := bo.Y
		if bo.Y == ssa.Value(crcCall) {
			other = bo.X
		}
		if call, ok := other.(*ssa.Call); !ok || !strings.Contains(staticName(call), "Uint32") {
			return false, false
		}
		return bo.Op == token.EQL, bo.Op == token.NEQ
	}
	ok := true
	n := 0
	for _, e := range SuccessExits(dec, false) {
		n++
		if !GuardedBy(e.Block(), match) {
			ok = false
		}
	}
	r.Check(ok && n > 0, "wal.Reader.readRecord:crc", c.InsPos(crcCall), "every success exit is on the computed-CRC == stored-CRC edge", "a record can be returned without its CRC having matched: corrupted bytes would be delivered as an entry")
	// both sides checksum the payload (the data slice), with the same function
	var encCRC *ssa.Call
	AllInstrs(enc, false, func(_ *ssa.Function, ins ssa.Instruction) {
		if call, ok := ins.(*ssa.Call); ok && staticName(call) == "hash/crc32.ChecksumIEEE" {
			encCRC = call
		}
	})
	var encSite *ssa.Call
	if encCRC == nil {
		if h, site := walHeaderHelper(enc, func(f *ssa.Function) bool {
			found := false
			AllInstrs(f, false, func(_ *ssa.Function, ins ssa.Instruction) {
				if call, ok := ins.(*ssa.Call); ok && staticName(call) == "hash/crc32.ChecksumIEEE" {
					found = true
				}
			})
			return found
		}); h != nil {
			AllInstrs(h, false, func(_ *ssa.Function, ins ssa.Instruction) {
				if call, ok := ins.(*ssa.Call); ok && staticName(call) == "hash/crc32.ChecksumIEEE" {
					encCRC = call
				}
			})
			encSite = site
		}
	}
	okSame := encCRC != nil
	if okSame {
		_, isParam := encCRC.Call.Args[0].(*ssa.Parameter)
		if isParam && encSite != nil {
			// the helper's parameter must be bound to writeRawRecord's own payload parameter
			isParam = false
			for i, hp := range encCRC.Parent().Params {
				if ssa.Value(hp) == encCRC.Call.Args[0] && i < len(encSite.Call.Args) {
					_, isParam = encSite.Call.Args[i].(*ssa.Parameter)
				}
			}
		}
		_, isMk := crcCall.Call.Args[0].(*ssa.MakeSlice)
		okSame = isParam && isMk
	}
	r.Check(okSame, "wal.crc:coverage", c.FnPos(enc), "writer and reader checksum the whole payload with crc32.ChecksumIEEE", "writer and reader do not checksum the same bytes (whole payload) with the same function")
}

func ruleWalFileOrder(c *Ctx, r *Reporter) {
	r.Rule("file-order", 4)
	find := c.Func("pkg/wal", "", "FindWALFiles")
	dir := c.Func("pkg/wal", "", "ReplayWALDir")
	from := c.Func("pkg/wal", "WAL", "GetEntriesFrom")
	fromFile := c.Func("pkg/wal", "WAL", "getEntriesFromFile")
	if find == nil || dir == nil || from == nil || fromFile == nil {
		r.Unresolved("wal.{FindWALFiles,ReplayWALDir} / WAL.{GetEntriesFrom,getEntriesFromFile}", "not found")
		return
	}
	// an ordering call: by name (sort.Strings, slices.Sort, or a comparator that looks at nothing but the names), or by
	// something else (a comparator that asks the file system, a reversal): "name" / "other" / ""
	orderingKind := func(i ssa.Instruction) string {
		call, ok := i.(*ssa.Call)
		if !ok {
			return ""
		}
		switch sn := staticName(call); sn {
		case "sort.Strings", "slices.Sort":
			return "name"
		case "sort.Slice", "sort.SliceStable", "slices.SortFunc", "slices.SortStableFunc", "sort.Sort", "sort.Stable", "slices.Reverse":
			var cmpFn *ssa.Function
			for _, a := range call.Call.Args {
				if mc, ok := a.(*ssa.MakeClosure); ok {
					cmpFn, _ = mc.Fn.(*ssa.Function)
				} else if f, ok := a.(*ssa.Function); ok {
					cmpFn = f
				}
			}
			if cmpFn == nil {
				return "other"
			}
			nameOnly := true
			AllInstrs(cmpFn, true, func(_ *ssa.Function, x ssa.Instruction) {
				if ci, ok := x.(ssa.CallInstruction); ok {
					if _, isB := ci.Common().Value.(*ssa.Builtin); isB {
						return
					}
					f := ci.Common().StaticCallee()
					if f == nil || f.Pkg == nil {
						nameOnly = false
						return
					}
					switch f.Pkg.Pkg.Path() {
					case "strings", "cmp", "path", "path/filepath":
					default:
						nameOnly = false
					}
				}
			})
			if nameOnly {
				return "name"
			}
			return "other"
		}
		return ""
	}
	sorted := false
	for _, e := range SuccessExits(find, true) {
		bad, _ := MustPass(find, []ssa.Instruction{e}, func(i ssa.Instruction) bool { return orderingKind(i) == "name" })
		sorted = bad == nil
	}
	var reordered ssa.Instruction
	AllInstrs(find, false, func(_ *ssa.Function, ins ssa.Instruction) {
		if orderingKind(ins) == "other" {
			reordered = ins
		}
	})
	if reordered != nil {
		r.Bad("wal.FindWALFiles", c.InsPos(reordered), "the file list is (re)ordered by something other than the file names — modification time, size, a reversal: the names carry the creation order of the logs, anything else can put a rotated-away log whose tail was flushed late behind its successor, and replay then delivers the successor's entries before the predecessor's")
	} else {
		r.Check(sorted, "wal.FindWALFiles", c.FnPos(find), "the file list is sorted by name (creation time) before it is returned", "FindWALFiles returns the directory listing unsorted: files would be replayed out of order")
	}
	var helperCall *ssa.Call // GetEntriesFrom's helper that walks the older files, if the loop was extracted
	for _, fn := range []*ssa.Function{dir, from} {
		// the loop over the files returned by FindWALFiles is ascending
		var filesVal ssa.Value
		AllInstrs(fn, false, func(_ *ssa.Function, ins ssa.Instruction) {
			if ex, ok := ins.(*ssa.Extract); ok && ex.Index == 0 {
				if call, ok := ex.Tuple.(*ssa.Call); ok && call.Call.StaticCallee() == find {
					filesVal = ex
				}
			}
		})
		ok := false
		for _, w := range IndexWalks(fn) {
			for _, ia := range w.IndexAddr {
				if ia.X == filesVal && w.Dir == "asc" {
					ok = true
				}
			}
		}
		if !ok && filesVal != nil {
			// the loop may live in a helper of the same type that receives the file list
			AllInstrs(fn, false, func(_ *ssa.Function, ins ssa.Instruction) {
				call, isCall := ins.(*ssa.Call)
				if !isCall {
					return
				}
				g := call.Call.StaticCallee()
				if g == nil || !c.InKevo(g) || len(g.Blocks) == 0 {
					return
				}
				for i, a := range call.Call.Args {
					if a != filesVal || i >= len(g.Params) {
						continue
					}
					for _, w := range IndexWalks(g) {
						for _, ia := range w.IndexAddr {
							if ia.X == ssa.Value(g.Params[i]) && w.Dir == "asc" {
								ok = true
								if fn == from {
									helperCall = call
								}
							}
						}
					}
				}
			})
		}
		r.Check(ok && filesVal != nil, FnName(fn)+":ascending", c.FnPos(fn), "files are visited in ascending (append) order", "log files are not visited in ascending name order")
	}
	// GetEntriesFrom: the current file is read after the loop over the others
	var loopHdr *ssa.BasicBlock
	for _, w := range IndexWalks(from) {
		loopHdr = w.Loop.Header
	}
	okLast := false
	if loopHdr != nil {
		for _, s := range c.CallsIn(from, NewFnSet(fromFile), false) {
			inLoop := false
			for _, l := range GenericLoops(from) {
				if l.Contains(s.Block()) {
					inLoop = true
				}
			}
			if !inLoop && loopHdr.Dominates(s.Block()) {
				okLast = true
			}
		}
	}
	if !okLast && helperCall != nil {
		for _, s := range c.CallsIn(from, NewFnSet(fromFile), false) {
			if Dominates(helperCall, s) && len(c.CallsIn(helperCall.Call.StaticCallee(), NewFnSet(fromFile), false)) > 0 {
				okLast = true
			}
		}
	}
	r.Check(okLast, "wal.WAL.GetEntriesFrom:current-last", c.FnPos(from), "the current file is read after all older files", "the current log file is not read last")
	// filter: >= minSequence
	seqF := c.Field("pkg/wal", "Entry", "SequenceNumber")
	okF := false
	AllInstrs(fromFile, false, func(_ *ssa.Function, ins ssa.Instruction) {
		iff, ok := ins.(*ssa.If)
		if !ok {
			return
		}
		bo, ok := iff.Cond.(*ssa.BinOp)
		if !ok {
			return
		}
		x, y, op := bo.X, bo.Y, bo.Op
		if !isLoadOfField(x, seqF) {
			x, y = y, x
			op = flipOp(op)
		}
		if isLoadOfField(x, seqF) && op == token.GEQ {
			if p, ok := y.(*ssa.Parameter); ok && p == fromFile.Params[len(fromFile.Params)-1] {
				okF = true
			}
		}
	})
	r.Check(okF, "wal.WAL.getEntriesFromFile:filter", c.FnPos(fromFile), "keeps entries with sequence >= the requested sequence", "the sequence filter is not 'entry.SequenceNumber >= minSequence' (the entry AT the requested sequence would be dropped, or earlier ones delivered)")
}

func ruleWalNoBufferDrop(c *Ctx, r *Reporter) {
	tmp := NewReporter(r.Property)
	ruleWalSyncBeforeAck(c, tmp)
	for _, o := range tmp.Obls {
		if o.Rule == r.Property+"/no-buffer-drop" {
			r.Rule("no-buffer-drop", 2)
			r.add(o.Status, o.Construct, o.Pos, o.Detail, o.Path)
		}
	}
}

// ruleWalRouteBySize: Append decides between one record and fragmentation by comparing a size with MaxRecordSize; that size
// must be the payload size writeRecord actually builds (same guarded linear form after substituting the call's arguments).
// A different formula routes an entry that fits one record to the fragment writer (or the reverse), whose chunking assumes
// more than one record of data.
func ruleWalRouteBySize(c *Ctx, r *Reporter) {
	r.Rule("route-by-the-record-size", 1)
	a := getWalAnchors(c, r)
	if !a.ok || a.writeFrag == nil {
		return
	}
	maxRec := c.Const("pkg/wal", "MaxRecordSize")
	if maxRec == nil {
		r.Unresolved("wal.MaxRecordSize", "not found")
		return
	}
	maxV, _ := constant.Int64Val(maxRec.Val())
	var payloadLen ssa.Value
	AllInstrs(a.writeRecord, false, func(_ *ssa.Function, ins ssa.Instruction) {
		if mk, ok := ins.(*ssa.MakeSlice); ok {
			if _, isK := mk.Len.(*ssa.Const); !isK {
				payloadLen = mk.Len
			}
		}
	})
	if payloadLen == nil {
		r.Undecided("wal.WAL.writeRecord:payload-size", c.FnPos(a.writeRecord), "payload allocation not found")
		return
	}
	n := 0
	for _, fn := range a.appendFns {
		var wr, wf *ssa.Call
		AllInstrs(fn, false, func(_ *ssa.Function, ins ssa.Instruction) {
			if call, ok := ins.(*ssa.Call); ok {
				switch call.Call.StaticCallee() {
				case a.writeRecord:
					wr = call
				case a.writeFrag:
					wf = call
				}
			}
		})
		if wr == nil || wf == nil {
			continue
		}
		n++
		name := FnName(fn) + ":routing"
		// the branch that separates them
		var cond *ssa.BinOp
		for _, b := range fn.Blocks {
			if len(b.Instrs) == 0 {
				continue
			}
			iff, ok := b.Instrs[len(b.Instrs)-1].(*ssa.If)
			if !ok {
				continue
			}
			bo, ok := iff.Cond.(*ssa.BinOp)
			if !ok {
				continue
			}
			sep := (edgeDominates(b, 0, wr.Block()) && edgeDominates(b, 1, wf.Block())) || (edgeDominates(b, 1, wr.Block()) && edgeDominates(b, 0, wf.Block()))
			if !sep {
				continue
			}
			kx, isKx := constInt(bo.X)
			ky, isKy := constInt(bo.Y)
			if (isKx && kx == maxV) || (isKy && ky == maxV) {
				cond = bo
			}
		}
		if cond == nil {
			r.Undecided(name, c.FnPos(fn), "the branch that chooses between writeRecord and writeFragmentedRecord by comparing a size with MaxRecordSize was not found")
			continue
		}
		size := cond.X
		if _, isK := constInt(size); isK {
			size = cond.Y
		}
		// single record iff size <= Max
		singleOnTrue := edgeDominates(cond.Block(), 0, wr.Block())
		op := cond.Op
		if _, isK := constInt(cond.X); isK {
			op = flipOp(op)
		}
		okOp := (singleOnTrue && op == token.LEQ) || (!singleOnTrue && op == token.GTR)
		var lx LinX
		sub := map[string]string{}
		for i, p := range a.writeRecord.Params {
			if i < len(wr.Call.Args) {
				sub["param:"+p.Name()] = Path(wr.Call.Args[i])
			}
		}
		want := lx.Lin(payloadLen).Subst(sub)
		got := lx.Lin(size)
		r.Check(okOp && normLin(got.String()) == normLin(want.String()), name, c.InsPos(cond),
			"one record iff "+want.String()+" <= MaxRecordSize — the payload size writeRecord builds",
			"the size that decides between one record and fragmentation is "+got.String()+" ("+cond.Op.String()+" MaxRecordSize), but writeRecord's payload is "+want.String()+": an entry that fits one record is handed to the fragment writer (which then emits a FIRST fragment without a LAST one and the entry never completes at replay), or an oversized one to writeRecord")
	}
	if n == 0 {
		r.Undecided("wal.Append*:routing", "", "no Append entry point calls both writeRecord and writeFragmentedRecord")
	}
}
